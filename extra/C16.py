"""C16 extra step: the JSON views through the real public path (the built `rare` CLI).

The in-process correspondence reaches `SliceSpaceExpressionContext` through a verif hook; this step
runs the unmodified binary end to end (regex and dissect matchers, worker goroutines, histogram
aggregation, `rare expression -k`) and checks the property's observables with Python's strict JSON
parser as a second independent oracle:

* every `{.}` / `{#}` / `{.#}` output line is valid JSON (strict: raw control characters rejected),
* its members decode to the captured texts (string, or number/boolean of equal value),
* identical lines give identical text, within a run and across runs (aggregation key),
* a histogram keyed by `{.}` over identical lines has exactly one bucket.
"""
import json, os, random, subprocess
from fractions import Fraction


def _num(s):
    try:
        return Fraction(s)
    except Exception:
        return None


def _decodes(v, cap):
    if isinstance(v, bool):
        return cap.lower() == ("true" if v else "false")
    if isinstance(v, str):
        return v == cap
    if isinstance(v, (int, float, Fraction)):
        c = _num(cap)
        return c is not None and c == v
    return False


def run(ctx):
    work = ctx["work"]
    os.makedirs(work, exist_ok=True)
    exe = os.path.join(work, "rare_e2e")
    p = subprocess.run(["go", "build", "-o", exe, "."], cwd=ctx["repo"], env=ctx["goenv"],
                       stdout=subprocess.PIPE, stderr=subprocess.STDOUT, text=True, timeout=900)
    if p.returncode != 0:
        raise RuntimeError("go build of rare failed: " + p.stdout[-800:])
    rnd = random.Random(ctx["seed"] * 7919 + 16)
    runs, violations = 0, []

    def viol(key, **kw):
        if len(violations) < 5:
            violations.append(dict(kw, key=key))

    words = ["x", "007", "00", "0", "1.5", "1.", ".5", "-1", "1e5", "10", "true", "TRUE", "False", "falſe",
             "a\"b", "back\\slash", "\\u0041", "tab\tbed", "\x01", "\x1b[31m", "\x7f", "héllo", "日本",
             "\U0001F600", "{}", "[1]", ",", ":", "null", "12345678901234567890", "0.10",
             "+1", "-0", "1e400", "1E+5", "5.", "0.0", "0.", "00.0", "9" * 310, "0." + "3" * 40, "a\u2028b", "\u2029",
             "\x7f", "\\ud800", "tru", "TRUE ", "fa\u017fe", "\u212a"]
    n_lines = 60 if ctx["tier"] == "quick" else 600
    lines = []
    for _ in range(n_lines):
        lines.append([rnd.choice(words) for _ in range(3)])
    # separator `|` never occurs in words
    data = "".join("|".join(l) + "\n" for l in lines)
    # every line three times, interleaved, so that equal lines are spread over batches/workers
    path = os.path.join(work, "e2e_in.txt")
    with open(path, "w", encoding="utf-8") as f:
        f.write(data * 3)

    matchers = [
        (["-m", r"^(?P<zeta>[^|]*)\|(?P<alpha>[^|]*)\|(?P<mid>[^|]*)$"], ["zeta", "alpha", "mid"]),
        (["-d", "%{zeta}|%{al\"pha}|%{m\\id}"], ["zeta", "al\"pha", "m\\id"]),
        # a group named by a numeral: the member name "1" occurs twice in {.#} (valid JSON; both must decode)
        (["-m", r"^(?P<zeta>[^|]*)\|(?P<1>[^|]*)\|(?P<mid>[^|]*)$"], ["zeta", "1", "mid"]),
    ]
    for margs, names in matchers:
        for key in ["{.}", "{#}", "{.#}"]:
            outs = []
            for rep in range(2):
                # every output line carries its own input line ({0}), so worker scheduling cannot matter
                p = subprocess.run([exe, "filter"] + margs + ["-e", "{0}@@@" + key, path], stdout=subprocess.PIPE,
                                   stderr=subprocess.PIPE, timeout=300)
                runs += 1
                outs.append(p.stdout.decode("utf-8", errors="surrogateescape").split("\n")[:-1])
            got = outs[0]
            if len(got) != 3 * n_lines or len(outs[1]) != 3 * n_lines:
                viol("e2e-line-count", matcher=margs, expression=key, got=len(got), want=3 * n_lines)
                continue
            by_line = {}
            bad = False
            for text in got + outs[1]:
                src, _, js = text.partition("@@@")
                if by_line.setdefault(src, js) != js:
                    viol("e2e-nondeterministic", matcher=margs, expression=key, line=src, a=by_line[src], b=js)
                    bad = True
                    break
            if bad:
                continue
            if set(by_line) != set("|".join(l) for l in lines):
                viol("e2e-lines-lost", matcher=margs, expression=key)
                continue
            for src, text in by_line.items():
                caps = src.split("|")
                try:
                    pairs = json.loads(text, object_pairs_hook=list, parse_float=Fraction, strict=True)
                except Exception as e:
                    viol("e2e-invalid-json", matcher=margs, expression=key, line=src, text=text, error=str(e))
                    break
                want = []
                if "." in key:
                    want += sorted(zip(names, caps))
                if "#" in key:
                    want += [(str(k), c) for k, c in enumerate([src] + caps) if c != ""]
                ok = len(pairs) == len(want) and all(k == wk and _decodes(v, wc) for (k, v), (wk, wc) in zip(pairs, want))
                if not ok:
                    viol("e2e-unfaithful", matcher=margs, expression=key, line=src, text=text)
                    break

    # histogram keyed by {.}: identical lines -> one bucket
    hpath = os.path.join(work, "e2e_histo.txt")
    with open(hpath, "w") as f:
        f.write("k1=v1 k2=v2 k3=v3 k4=v4\n" * 500)
    p = subprocess.run([exe, "histo", "-m", r"k1=(?P<d>\w+) k2=(?P<c>\w+) k3=(?P<b>\w+) k4=(?P<a>\w+)", "-e", "{.}",
                        "--csv", "-", hpath], stdout=subprocess.PIPE, stderr=subprocess.PIPE, text=True, timeout=300)
    runs += 1
    rows = [r for r in p.stdout.split("\n")[1:] if r.strip()]
    if len(rows) != 1 or not rows[0].endswith(",500"):
        viol("e2e-histogram-buckets", rows=rows[:5])

    # rare expression -k: same arguments, same text
    seen = set()
    for rep in range(20):
        p = subprocess.run([exe, "expression", "-d", "x\"y", "-d", "007", "-k", "b=2", "-k", "a=t\tb", "-k", "d=4", "-k",
                            "c\\=true", "{.#}"], stdout=subprocess.PIPE, stderr=subprocess.PIPE, text=True, timeout=60)
        runs += 1
        seen.add(p.stdout)
    if len(seen) != 1:
        viol("e2e-expression-nondeterministic", outputs=sorted(seen)[:3])
    else:
        text = next(iter(seen)).rstrip("\n")
        try:
            pairs = json.loads(text, object_pairs_hook=list, strict=True)
            want = [("0", "x\"y"), ("1", "007"), ("a", "t\tb"), ("b", "2"), ("c\\", "true"), ("d", "4")]
            if pairs != [list(w) for w in want] and pairs != want:
                viol("e2e-expression-unfaithful", text=text)
        except Exception as e:
            viol("e2e-expression-invalid-json", text=text, error=str(e))

    # rare expression -d/-k with awkward arguments: repeated names (the last one wins), no '=', empty name, '=' inside the
    # value, a name that is the numeral of a -d position (repeated member name), quotes/backslashes/control bytes in names.
    # Expected members from the property text alone: -d values under 0,1,.., then the -k names in ascending byte order.
    knames = ["a", "b", "k", "0", "1", "", "x y", "q\"", "b\\s", "\u00e9", "A", "\t"]
    kvals = [w for w in words if "," not in w]
    n_expr = 12 if ctx["tier"] == "quick" else 120
    for _ in range(n_expr):
        data = [rnd.choice(kvals) for _ in range(rnd.randrange(4))]
        data = [d for d in data if not d.startswith("-")]
        kargs = []
        for _ in range(rnd.randrange(6)):
            form = rnd.randrange(5)
            n, v = rnd.choice(knames), rnd.choice(kvals)
            if form == 0:
                kargs.append(n)
            elif form == 1:
                kargs.append("=" + v)
            elif form == 2:
                kargs.append(n + "=" + v + "=" + rnd.choice(kvals))
            else:
                kargs.append(n + "=" + v)
        # urfave/cli (StringSliceFlag.Set) trims Unicode white space around every -d / -k value before rare sees it
        # (and splits on commas, which the inputs here avoid): the expectation is about the arguments as delivered
        gospace = "\t\n\v\f\r \x85\xa0\u1680\u2000\u2001\u2002\u2003\u2004\u2005\u2006\u2007\u2008\u2009\u200a\u2028\u2029\u202f\u205f\u3000"
        table = {}
        for a in kargs:
            a = a.strip(gospace)
            k, sep, v = a.partition("=")
            table[k] = v if sep else a
        named = sorted(table.items(), key=lambda kv: kv[0].encode("utf-8"))
        numbered = [(str(i), d.strip(gospace)) for i, d in enumerate(data)]
        argv = [exe, "expression", "-n"]
        for d in data:
            argv += ["-d", d]
        for a in kargs:
            argv += ["-k", a]
        p = subprocess.run(argv + ["{.}@@@{#}@@@{.#}@@@{#.}"], stdout=subprocess.PIPE, stderr=subprocess.PIPE, timeout=60)
        runs += 1
        parts = p.stdout.decode("utf-8", errors="surrogateescape").split("@@@")
        if p.returncode != 0 or len(parts) != 4:
            viol("e2e-expression-args-failed", args=argv[2:], rc=p.returncode, stderr=p.stderr.decode("utf-8", "replace")[-300:])
            continue
        for text, want in zip(parts, [named, numbered, numbered + named, numbered + named]):
            try:
                pairs = json.loads(text, object_pairs_hook=list, strict=True)
            except Exception as e:
                viol("e2e-expression-args-invalid-json", args=argv[2:], text=text, error=str(e))
                break
            if [tuple(x) for x in pairs] != want:
                viol("e2e-expression-args-unfaithful", args=argv[2:], text=text, want=want)
                break

    # groups that do not take part in a match: the named views keep the member with an empty string, the numbered
    # views leave it out; (?P<n>..) and (?<n>..) are the same thing; a repeated name keeps its last group
    for margs, line, want_named, want_numbered in [
        (["-m", r"^(?P<a>x)?(?<b>y)(?:z(?P<c>w))?$"], "y", [("a", ""), ("b", "y"), ("c", "")], [("0", "y"), ("2", "y")]),
        (["-m", r"^(?P<n>a)(?P<n>b)(?<m>c)$"], "abc", [("m", "c"), ("n", "b")], [("0", "abc"), ("1", "a"), ("2", "b"), ("3", "c")]),
        (["-m", r"^(a)|(?P<z>b)$"], "a", [("z", "")], [("0", "a"), ("1", "a")]),
    ]:
        gpath = os.path.join(work, "e2e_groups.txt")
        with open(gpath, "w") as f:
            f.write(line + "\n")
        for key, want in [("{.}", want_named), ("{#}", want_numbered), ("{.#}", want_named + want_numbered)]:
            p = subprocess.run([exe, "filter"] + margs + ["-e", key, gpath], stdout=subprocess.PIPE, stderr=subprocess.PIPE, timeout=60)
            runs += 1
            try:
                pairs = [tuple(x) for x in json.loads(p.stdout.decode("utf-8"), object_pairs_hook=list, strict=True)]
                if pairs != want:
                    viol("e2e-absent-group", matcher=margs, expression=key, text=p.stdout.decode("utf-8", "replace"), want=want)
            except Exception as e:
                viol("e2e-absent-group-invalid-json", matcher=margs, expression=key, text=p.stdout.decode("utf-8", "replace"), error=str(e))

    # ONE context over a history of matches (round 4c): every worker goroutine re-uses one expression context for all
    # lines of all sources, and line numbers restart at 1 in every source.  Many one-line files (every match is line 1
    # of its source), files whose only hit is on the same line (a header at line 1, the hit at line 2), and a file
    # read twice; `--workers 1` makes the worker's history the concatenation of the files, the default worker count
    # and several readers mix them.  Every output line carries its own source, line number and input line, so the
    # expectation is per line: the views must be those of THAT line, whatever the worker evaluated before.
    hdir = os.path.join(work, "e2e_hist")
    os.makedirs(hdir, exist_ok=True)
    hwords = ["a", "b", "007", "1.5", "true", "TRUE", "x\"y", "\u00e9", "10", "zz", "q\\", "0"]
    hfiles, hexpect = [], {}
    n_one = 9 if ctx["tier"] == "quick" else 40
    for i in range(n_one):
        fp = os.path.join(hdir, "one%02d.txt" % i)
        w1, w2 = hwords[i % len(hwords)], rnd.choice(hwords)
        with open(fp, "w", encoding="utf-8") as f:
            f.write("%s %s\n" % (w1, w2))
        hfiles.append(fp)
        hexpect[(fp, 1)] = (w1, w2)
    for i in range(4):
        fp = os.path.join(hdir, "hdr%02d.txt" % i)
        w1, w2 = rnd.choice(hwords), hwords[(i + 3) % len(hwords)]
        with open(fp, "w", encoding="utf-8") as f:
            f.write("#header\n%s %s\n" % (w1, w2))
        hfiles.append(fp)
        hexpect[(fp, 2)] = (w1, w2)
    hexpr = "{src}@@@{line}@@@{.}@@@{#}@@@{.#}@@@{#.}@@@{.}"
    for wargs in (["--workers", "1"], ["--workers", "1", "--readers", "1"], ["--workers", "1", "--batch", "1"], [],
                  ["--workers", "3", "--readers", "4"]):
        for order in (hfiles, list(reversed(hfiles)), hfiles + hfiles[:3]):
            p = subprocess.run([exe, "filter"] + wargs + ["-m", r"^(?P<w>\S+) (?P<n>\S+)$", "-e", hexpr] + order,
                               stdout=subprocess.PIPE, stderr=subprocess.PIPE, timeout=120)
            runs += 1
            got = p.stdout.decode("utf-8", errors="surrogateescape").split("\n")[:-1]
            if len(got) != len(order):
                viol("e2e-history-line-count", flags=wargs, got=len(got), want=len(order), stderr=p.stderr.decode("utf-8", "replace")[-300:])
                continue
            for text in got:
                parts = text.split("@@@")
                if len(parts) != 7 or not parts[1].isdigit() or (parts[0], int(parts[1])) not in hexpect:
                    viol("e2e-history-unexpected-line", flags=wargs, text=text)
                    break
                w1, w2 = hexpect[(parts[0], int(parts[1]))]
                named = [("n", w2), ("w", w1)]
                numbered = [("0", w1 + " " + w2), ("1", w1), ("2", w2)]
                bad = None
                for view, want in zip(parts[2:], [named, numbered, named + numbered, named + numbered, named]):
                    try:
                        pairs = json.loads(view, object_pairs_hook=list, parse_float=Fraction, strict=True)
                    except Exception as e:
                        bad = "invalid JSON: %s" % e
                        break
                    if len(pairs) != len(want) or not all(k == wk and _decodes(v, wc) for (k, v), (wk, wc) in zip(pairs, want)):
                        bad = "members of another match"
                        break
                if bad:
                    viol("e2e-history-view-of-another-match", flags=wargs, files=[os.path.basename(x) for x in order][:6],
                         source=os.path.basename(parts[0]), line_number=parts[1], captures=[w1, w2], text=text, why=bad)
                    break

    # a very long capture (the correspondence keeps values small because the model is quadratic): one line of > 1 MB
    # with quotes, backslashes, control bytes and non-ASCII; {#} must stay valid and decode to the line
    unit = "abc\"\\\x01\u00e90123456789\t"
    longline = unit * (12000 if ctx["tier"] == "quick" else 70000)
    lpath = os.path.join(work, "e2e_long.txt")
    with open(lpath, "w", encoding="utf-8") as f:
        f.write(longline + "\n")
    p = subprocess.run([exe, "filter", "-m", "^(.*)$", "-e", "{#}", lpath], stdout=subprocess.PIPE, stderr=subprocess.PIPE, timeout=300)
    runs += 1
    try:
        pairs = json.loads(p.stdout.decode("utf-8"), object_pairs_hook=list, strict=True)
        if [tuple(x) for x in pairs] != [("0", longline), ("1", longline)]:
            viol("e2e-long-capture-unfaithful", length=len(longline))
    except Exception as e:
        viol("e2e-long-capture-invalid-json", length=len(longline), error=str(e)[:200])

    # many members: `rare expression` with thousands of -k arguments (sorted, last wins) and -d arguments
    nk = 400 if ctx["tier"] == "quick" else 4000
    argv = [exe, "expression", "-n"]
    table = {}
    for i in range(nk):
        k, v = "k%d" % (i % (nk // 2 + 1)), "v%d" % i
        table[k] = v
        argv += ["-k", k + "=" + v]
    for i in range(nk // 4):
        argv += ["-d", "d%d" % i]
    p = subprocess.run(argv + ["{.#}"], stdout=subprocess.PIPE, stderr=subprocess.PIPE, timeout=120)
    runs += 1
    try:
        pairs = [tuple(x) for x in json.loads(p.stdout.decode("utf-8"), object_pairs_hook=list, strict=True)]
        want = [(str(i), "d%d" % i) for i in range(nk // 4)] + sorted(table.items(), key=lambda kv: kv[0].encode())
        if pairs != want:
            viol("e2e-many-members-unfaithful", members=len(pairs), want=len(want))
    except Exception as e:
        viol("e2e-many-members-invalid-json", error=str(e)[:200])

    # goroutines: the views are built by several worker goroutines at once (builder objects are locals, the escape
    # table is a read-only package variable).  Thorough tier: the CLI built with the race detector, many workers, small
    # batches; the race detector must stay silent and every distinct line must be counted under exactly one key.
    assumptions = []
    if ctx["tier"] == "thorough":
        try:
            from common import build_rare
        except ImportError:
            import importlib.util
            spec = importlib.util.spec_from_file_location("common", os.path.join(os.path.dirname(os.path.abspath(__file__)), "common.py"))
            common = importlib.util.module_from_spec(spec); spec.loader.exec_module(common)
            build_rare = common.build_rare
        rexe = build_rare(ctx, race=True)
        distinct = ["|".join(l) for l in lines[:40]]
        reps = 600
        rpath = os.path.join(work, "e2e_race.txt")
        with open(rpath, "w", encoding="utf-8") as f:
            for _ in range(reps):
                for d in distinct:
                    f.write(d + "\n")
        for margs in (matchers[0][0], matchers[1][0]):
            p = subprocess.run([rexe, "histo", "--workers", "8", "--batch", "7", "-n", "100000"] + margs +
                               ["-e", "{0}@@@{.#}", "--csv", "-", rpath], stdout=subprocess.PIPE, stderr=subprocess.PIPE, timeout=600)
            runs += 1
            err = p.stderr.decode("utf-8", "replace")
            if "DATA RACE" in err:
                viol("e2e-race-detected", matcher=margs, report=err[err.index("DATA RACE") - 20:][:1500])
                continue
            keys = {}
            import csv, io
            rows = list(csv.reader(io.StringIO(p.stdout.decode("utf-8", errors="surrogateescape"))))[1:]
            for row in rows:
                if len(row) < 2:
                    continue
                src = row[0].partition("@@@")[0]
                keys.setdefault(src, []).append(row)
            want_counts = {}
            for d in distinct:
                want_counts[d] = want_counts.get(d, 0) + reps
            for d, c in want_counts.items():
                got = keys.get(d, [])
                if len(got) != 1 or got[0][-1] != str(c):
                    viol("e2e-concurrent-key-split", matcher=margs, line=d, rows=got[:3], want=c)
                    break
    else:
        assumptions.append("race-detector run of the views under 8 workers only in the thorough tier")

    return {"runs": runs, "violations": violations,
            "assumptions": assumptions + ["rare expression: -d / -k values are compared as urfave/cli delivers them (white space "
                                          "around a value trimmed, commas split values; ill-formed UTF-8 bytes of a value arrive as U+FFFD because urfave/cli "
                                          "copies a StringSlice flag between its names through encoding/json - modelled as cliValue in Model/C16Cmd.lean and "
                                          "checked in process by the correspondence op xout)", "e2e step: Python json.loads(strict=True) as JSON oracle; inputs are valid UTF-8 "
                                          "(invalid UTF-8 is covered by the in-process correspondence)"]}
