"""C10 extra step: the funcs-file clause at the level of the real command line.

`{name a b ..}` of a function loaded with `--funcs` / `RARE_FUNC_FILES` must print what its body written inline prints -
also when one of the global output switches (`--color`, `--nocolor`, `--noformat`, `--nounicode`, `--noload`) is given on
the same command line.  main.go's `Before` hook compiles the funcs files with an OPTIMISING builder, so a constant
sub-expression of a body (`{hi 1234567}`, `{color red X}`, `{bar 5 10 10}`, `{load file}`) is folded right there: under
whatever switches are in force at that moment.  The theorem `before_hook_switches_then_funcs` pins the order of the hook's
statements; this step is the concrete-input side: it builds the real `rare`, writes definition files (comments, blank
lines, backslash continuations, later definitions calling earlier ones, several files, the environment variable) and runs

    rare <switches> --funcs f expression [--no-optimize] -d .. -k .. '{name args..}'      against
    rare <switches>           expression [--no-optimize] -d .. -k .. '<the body, arguments substituted>'

comparing exit status class and standard output; and (concurrency clause) `rare … --funcs f histo --workers W --batch B -e
'{name {1} {2}}' file` of the race-detector build against the inlined body evaluated by one worker (`workers_family`).  The inline text is produced by the same tree the definition is printed
from (full inlining, nested user functions expanded), so a difference is a failing input of the property, replayable by the
two command lines of the violation record.  Every case is also run without the switches (control) and the number of cases in
which the switch changes the inline output is reported (`switch_sensitive`), so the search is visibly non-vacuous."""
import os, re, sys, shutil, subprocess
sys.path.insert(0, os.path.dirname(__file__))
from common import build_rare, Rand

COLORS = ["red", "green", "blue", "yellow", "magenta", "cyan", "Red", "black", "white", "RED", "cyan", "green", "nocolor"]
WORDS = ["ERROR", "x", "disk", "ab", "10", "7", "of", "1234567", "0"]
SEPS = [" ", ": ", "=", "", "-", " of ", "|"]
SWITCH_SETS = [["--noformat"], ["--color"], ["--nounicode"], ["--noload"], ["--nocolor"], ["-nf"], ["--nu"],
               ["--color", "--noformat"], ["--color", "--nounicode", "--noformat", "--noload"], ["--color", "--nocolor"],
               ["--noformat", "--notrim"], []]


# ---- templates as trees, printed twice: as a definition (arguments = {i}) and inlined (arguments substituted) ----------
# node: ("lit", text) | ("arg", i) | ("key", name) | ("call", name, [node]) | ("ucall", fname, [node])
# env: None (printing a definition: {i} stays) or a list of (node, env) closures = the arguments of the call being inlined

def bare(s):
    return s != "" and all(c.isalnum() or c in "_.,/:-" for c in s)


def render(node, env, defs, top):
    k = node[0]
    if k == "lit":
        if top or bare(node[1]):
            return node[1]
        return '"' + node[1] + '"'
    if k == "key":
        return "{" + node[1] + "}"
    if k == "arg":
        if env is None:
            return "{%d}" % node[1]
        if node[1] < len(env):
            n2, e2 = env[node[1]]
            return render(n2, e2, defs, top)
        return "" if top else '""'
    if k == "call":
        return "{" + " ".join([node[1]] + [render(a, env, defs, False) for a in node[2]]) + "}"
    if k == "ucall":
        if env is None and defs is None:
            return "{" + " ".join([node[1]] + [render(a, env, defs, False) for a in node[2]]) + "}"
        # inlining: the body of the called function with ITS arguments bound to this call's (closed in the current env)
        body = defs[node[1]]
        sub = [(a, env) for a in node[2]]
        txt = "".join(render(p, sub, defs, True) for p in body)
        # a call in argument position is ONE argument: keep it one by wrapping the inlined text in a quoted template
        return txt if top else '"' + txt + '"'
    raise ValueError(k)


def print_def(body):
    return "".join(render(p, None, None, True) for p in body)


class Gen:
    def __init__(self, r, files):
        self.r, self.files = r, files

    def const_atom(self, fam):
        r = self.r
        if fam == "hi":
            return ("call", r.pick(["hi", "hi", "hf"]), [("lit", r.pick(["1234567", "1000", "999", "-1234567", "12345678901", "1234567.891", "1000000"]))])
        if fam == "color":
            return ("call", "color", [("lit", r.pick(COLORS)), ("lit", r.pick(WORDS))])
        if fam == "bar":
            v, m, n = r.pick([(5, 10, 10), (3, 7, 12), (1, 3, 5), (10, 10, 4), (0, 10, 3), (7, 8, 1)])
            return ("call", "bar", [("lit", str(v)), ("lit", str(m)), ("lit", str(n))])
        if fam == "load":
            return ("call", "load", [("lit", r.pick(self.files))])
        raise ValueError(fam)

    def safe_atom(self, fam):
        """A constant of the family that always compiles: fit for an ARGUMENT of a call (an argument the body does not use is
        still compiled at the call site, while the inlined body does not contain it - a rejected one would be a difference
        the property does not speak about)."""
        while True:
            a = self.const_atom(fam if fam != "load" else "hi")
            if not (a[1] == "color" and a[2][0][1] == "nocolor"):
                return a

    def atom(self, fam, nargs, depth=0):
        """A sub-expression of the family: constant (folded when the body is compiled), wrapped in other helpers, or
        depending on an argument (never folded - must agree in any case)."""
        r = self.r
        c = r.intn(10)
        a = self.const_atom(fam)
        if c < 5 or depth > 1:
            return a
        if c == 5:
            return ("call", r.pick(["upper", "lower", "len", "@len"]), [a])
        if c == 6:
            return ("call", "substr", [a, ("lit", r.pick(["0", "1", "2"])), ("lit", r.pick(["1", "3", "5", "9"]))])
        if c == 7:
            return ("call", "if", [("call", "eq", [a, ("lit", r.pick(["1,000", "1000", "x", "TOP"]))]), ("lit", "yes"), ("lit", "no")])
        if c == 8 and nargs > 0:  # dynamic variant
            if fam == "hi":
                return ("call", "hi", [("arg", r.intn(nargs))])
            if fam == "color":
                return ("call", "color", [("lit", r.pick(COLORS)), ("arg", r.intn(nargs))])
            if fam == "bar":
                return ("call", "bar", [("arg", r.intn(nargs)), ("lit", "10"), ("lit", "10")])
            return a
        return ("call", "coalesce", [("lit", ""), self.atom(fam, nargs, depth + 1)])

    def body(self, fam, nargs, earlier):
        r = self.r
        parts = []
        n = 1 + r.intn(4)
        slots = [r.intn(6) for _ in range(n)]
        if not any(s < 3 for s in slots):
            slots[r.intn(n)] = 0
        for i, s in enumerate(slots):
            if i > 0:
                sep = r.pick(SEPS)
                if sep:
                    parts.append(("lit", sep))
            if s < 3:
                parts.append(self.atom(fam, nargs))
            elif s == 3 and nargs > 0:
                parts.append(("arg", r.intn(nargs + 1)))  # nargs itself: an index no call supplies
            elif s == 4 and earlier:
                f, k = r.pick(earlier)
                parts.append(("ucall", f, [r.pick([("arg", r.intn(max(nargs, 1))), ("lit", r.pick(WORDS)), ("key", "k"), self.safe_atom(fam)]) for _ in range(max(k, 1))]))  # {name} alone is a key look-up: a call has an argument
            else:
                parts.append(("lit", r.pick(WORDS)))
        # the loader trims the phrase: a body must not start or end with blanks
        while parts and parts[0][0] == "lit" and parts[0][1].strip() != parts[0][1]:
            parts.pop(0)
        while parts and parts[-1][0] == "lit" and parts[-1][1].strip() != parts[-1][1]:
            parts.pop()
        return parts or [self.const_atom(fam)]


def layout(r, name, text):
    """One definition as file lines: optional comment / blank lines before, the phrase possibly split by a backslash
    continuation at a place where no blank is adjacent (the loader trims every physical line)."""
    out = []
    for _ in range(r.intn(3)):
        out.append(r.pick(["", "# a comment", "   ", "#", "  # {hi 1} indented comment"]))
    phrase = name + " " + text
    cut = [i for i in range(len(name) + 2, len(phrase) - 1) if phrase[i - 1] != " " and phrase[i] != " " and phrase[i - 1] != "\\"]
    if cut and r.intn(3) == 0:
        i = r.pick(cut)
        out.append(r.pick(["", "  "]) + phrase[:i] + "\\" + r.pick(["", " "]))
        if r.intn(3) == 0:
            out.append("   # comment inside a continued phrase")
        out.append(r.pick(["", "\t"]) + phrase[i:] + r.pick(["", "  ", " # trailing comment"]))
    else:
        out.append(phrase + r.pick(["", " ", " # trailing comment"]))
    return out


def rare(exe, args, env, timeout=20):
    try:
        p = subprocess.run([exe] + args, stdout=subprocess.PIPE, stderr=subprocess.PIPE, timeout=timeout, env=env)
        return p.returncode, p.stdout.decode("utf8", "replace"), p.stderr.decode("utf8", "replace")
    except subprocess.TimeoutExpired:
        return "timeout", "", ""


def sh(args):
    return " ".join("'" + a.replace("'", "'\\''") + "'" if (not bare(a) and not a.startswith("-")) or a == "" else a for a in args)


def table_of(out):
    """The histogram of a piped `rare histo` run as a sorted list of lines, up to the `Matched:` summary (what follows is
    a transfer rate)."""
    lines = []
    for l in out.split("\n"):
        lines.append(l.rstrip())
        if "Matched:" in l:
            break
    return sorted(lines)


def workers_family(ctx, exe, d, r, g, violations):
    """The concurrency clause on the real pipeline: `rare <switches> --funcs f histo --workers W --batch B -e '{fn {1} {2}}'`
    (the race-detector build: W extractor goroutines evaluate ONE compiled call through its pooled lazySubContext objects)
    against the body written inline evaluated by ONE worker of the plain build.  The `time` bodies remember a date layout
    (`atomicFormat`); all dates of the input have ONE format, the case in which every schedule answers what a sequential
    evaluation answers (theorem time_cache_workers_same_layout)."""
    exe_race = build_rare(ctx, race=True)
    n = 6 if ctx["tier"] == "quick" else 40
    if os.environ.get("VERIF_C10_CLI_WORKERS"):
        n = int(os.environ["VERIF_C10_CLI_WORKERS"])
    env = {k: v for k, v in os.environ.items() if k != "RARE_FUNC_FILES"}
    env["GORACE"] = "halt_on_error=1 exitcode=66 atexit_sleep_ms=0"
    words = ["disk", "net", "cpu", "mem", "io", "x"]
    runs = 0
    for ci in range(n):
        if len(violations) >= 3:
            break
        fam = ["time", "hi", "color", "bar", "time", "load"][ci % 6]
        sw = {"hi": ["--noformat"], "color": ["--color"], "bar": ["--nounicode"], "load": [], "time": r.pick([[], ["--noformat"]])}[fam]
        nlines = r.pick([300, 2000]) if ctx["tier"] == "quick" else r.pick([300, 2000, 8000])
        fmt = r.pick(["2020-01-%02dT%02d:00:00Z", "%02d/Jan/2020:%02d:10:11", "2020-01-%02d_%02d:03:04"]) if fam == "time" else None
        inp = os.path.join(d, "w%d.log" % ci)
        with open(inp, "w") as f:
            for _ in range(nlines):
                second = fmt % (1 + r.intn(28), r.intn(24)) if fmt else str(r.pick([r.intn(10), r.intn(5000000), 1234567]))
                f.write("%s %s\n" % (r.pick(words), second.replace("_", "T")))
        defs, order, earlier = {}, [], []
        if fam == "time":
            body = [("arg", 0), ("lit", ":"), ("call", r.pick(["buckettime", "buckettime", "timeformat"]),
                                              [("arg", 1) if True else None, ("lit", r.pick(["day", "hour"]))])]
            if body[2][1] == "timeformat":
                body[2] = ("call", "timeformat", [("call", "time", [("arg", 1)]), ("lit", "2006-01-02")])
            inner = ("ts%d" % ci, body)
            defs[inner[0]] = body
            order.append((inner[0], layout(r, inner[0], print_def(body))))
            earlier.append((inner[0], 2))
            if r.intn(2):  # a second function calling the first: two call sites share the closures of ts
                b2 = [("ucall", inner[0], [("arg", 0), ("arg", 1)]), ("lit", "|"), ("ucall", inner[0], [("lit", "all"), ("arg", 1)])]
                defs["tw%d" % ci] = b2
                order.append(("tw%d" % ci, layout(r, "tw%d" % ci, print_def(b2))))
                earlier.append(("tw%d" % ci, 2))
        else:
            for fi in range(1 + r.intn(2)):
                name = "wf%d_%d" % (ci, fi)
                body = g.body(fam, 2, earlier)
                defs[name] = body
                order.append((name, layout(r, name, print_def(body))))
                earlier.append((name, 2))
        fname = earlier[-1][0]
        call = ("ucall", fname, [("arg", 1), ("arg", 2)])
        path = os.path.join(d, "w%d.funcs" % ci)
        with open(path, "w") as f:
            f.write("\n".join(l for _, ls in order for l in ls) + "\n")
        # a fixed non-blank frame: the flag parser trims the value of -e, an inlined body may start with a blank
        call_txt, inline_txt = "k:" + render(call, None, None, True) + ":k", "k:" + render(call, None, defs, True) + ":k"
        W, B = r.pick([2, 4, 8, 16]), r.pick([1, 5, 100])
        tail = ["-n", "100000", "-m", "(\\w+) (\\S+)"]
        cmd_f = sw + ["--funcs", path, "histo", "--workers", str(W), "--batch", str(B)] + tail + ["-e", call_txt, inp]
        cmd_i = sw + ["histo", "--workers", "1"] + tail + ["-e", inline_txt, inp]
        rf = rare(exe_race, cmd_f, env, timeout=180)
        ri = rare(exe, cmd_i, env, timeout=180)
        runs += 2
        bad = None
        if "timeout" in (rf[0], ri[0]):
            bad = "one of the two runs did not return"
        elif "DATA RACE" in rf[2] or rf[0] == 66:
            bad = "the race detector reports a data race while %d workers evaluate one compiled funcs-file call" % W
        elif any("panic:" in x[2] or "goroutine " in x[2] for x in (rf, ri)):
            bad = "the real CLI crashed"
        elif (rf[0] == 0) != (ri[0] == 0):
            bad = "one of the two command lines is rejected, the other is evaluated"
        elif rf[0] == 0 and table_of(rf[1]) != table_of(ri[1]):
            bad = "%d workers evaluating the funcs-file call count other keys than one worker evaluating its body inline" % W
        elif rf[0] == 0 and not any(re.sub(r"\x1b\[[0-9;]*m|,", "", l).startswith("Matched: %d / %d" % (nlines, nlines)) for l in ri[1].split("\n")):
            bad = "the input lines were not all matched (the family is not exercising the expression)"
        if bad:
            i = rf[2].find("WARNING: DATA RACE")
            tf, ti = table_of(rf[1]), table_of(ri[1])
            diff = [l for l in tf if l not in ti][:5] + ["--- inline:"] + [l for l in ti if l not in tf][:5]
            violations.append({
                "key": "cli-workers-funcs-vs-inline:" + fam, "kind": "cli-differential-workers", "label": "workers-%d" % ci,
                "switches": sw, "funcs_files": {path: open(path).read()}, "input": inp, "input_head": open(inp).read()[:300],
                "call": call_txt, "inline": inline_txt, "cmd_funcs": "GORACE=halt_on_error=1 " + sh([exe_race] + cmd_f), "cmd_inline": sh([exe] + cmd_i),
                "implementation": "funcs, %d workers: rc=%s" % (W, rf[0]), "model": "inline, 1 worker: rc=%s" % (ri[0],), "table_difference": diff,
                "stderr_funcs": (rf[2][i:i + 2500] if i >= 0 else rf[2][-600:]), "stderr_inline": ri[2][-600:],
                "explanation": bad + " (property C10: both equivalences also hold when several workers evaluate concurrently)",
                "replay": "run cmd_funcs and cmd_inline; the input file is kept"})
        else:
            os.remove(inp)
    return runs


def keys_of(out):
    """key -> count of a piped `rare histo` table."""
    res = {}
    for l in out.split("\n"):
        if "Matched:" in l:
            break
        m = re.match(r"^(.*\S)\s+([0-9,]+)\s*$", l)
        if m:
            res[m.group(1)] = res.get(m.group(1), 0) + int(m.group(2).replace(",", ""))
    return res


def mixed_layout_family(ctx, exe, exe_race, d, r, violations):
    """Dates of TWO formats behind one remembered layout (`ts {0}:{buckettime {1} hour}`, W workers): here the answers depend on
    the schedule by design (theorem time_cache_two_workers_counterexample), so no equality is claimed - only what holds for
    every schedule (theorem time_cache_workers_any_schedule): every line is counted once, and every answer is the date parsed
    by the layout of ONE of the formats present (or <PARSE-ERROR>), never anything else; no race report, no crash.  The
    allowed answers come from the real code run sequentially with the layout of format A (resp. B) remembered first."""
    n = 2 if ctx["tier"] == "quick" else 20
    env = {k: v for k, v in os.environ.items() if k != "RARE_FUNC_FILES"}
    env["GORACE"] = "halt_on_error=1 exitcode=66 atexit_sleep_ms=0"
    fmts = ["2020-01-%02dT%02d:00:00Z", "%02d/Jan/2020:%02d:10:11", "2020/01/%02d", "1/%d/2020", "2020-01-%02dT%02d:03:04"]
    runs = 0
    for ci in range(n):
        if len(violations) >= 3:
            break
        fa = r.pick(fmts)
        fb = r.pick([f for f in fmts if f != fa])
        nlines = r.pick([200, 1500])
        lines = []
        for _ in range(nlines):
            f = r.pick([fa, fb])
            args = (1 + r.intn(28), r.intn(24))
            lines.append("%s %s" % (r.pick(["disk", "net", "cpu"]), f % args[:f.count("%")]))
        inp = os.path.join(d, "m%d.log" % ci)
        with open(inp, "w") as f:
            f.write("\n".join(lines) + "\n")
        path = os.path.join(d, "m%d.funcs" % ci)
        with open(path, "w") as f:
            f.write("# one layout cell for all call sites\nts {0}:{buckettime {1} hour}\n")
        tail = ["-n", "100000", "-m", "(\\w+) (\\S+)", "-e", "k:{ts {1} {2}}:k"]
        allowed = {}
        for fx in (fa, fb):
            seq = os.path.join(d, "m%d_seq.log" % ci)
            with open(seq, "w") as f:
                f.write("prime " + fx % (1, 0)[:fx.count("%")] + "\n" + "\n".join(lines) + "\n")
            rs = rare(exe, ["--funcs", path, "histo", "--workers", "1", "--batch", "100000"] + tail + [seq], env, timeout=120)
            runs += 1
            for k in keys_of(rs[1]):
                allowed[k] = True
        W, B = r.pick([2, 4, 8, 16]), r.pick([1, 3, 50])
        cmd = ["--funcs", path, "histo", "--workers", str(W), "--batch", str(B)] + tail + [inp]
        rc = rare(exe_race, cmd, env, timeout=180)
        runs += 1
        got = keys_of(rc[1])
        bad = None
        if rc[0] == "timeout":
            bad = "the run did not return"
        elif "DATA RACE" in rc[2] or rc[0] == 66:
            bad = "the race detector reports a data race while %d workers share one layout cell" % W
        elif rc[0] != 0 or "panic:" in rc[2]:
            bad = "the real CLI failed"
        elif sum(got.values()) != nlines:
            bad = "%d lines went in, %d were counted" % (nlines, sum(got.values()))
        elif [k for k in got if k not in allowed]:
            bad = "an answer that no layout present in the input explains: " + repr([k for k in got if k not in allowed][:3])
        elif len(allowed) < 4:
            bad = "the sequential runs produced almost no keys (the family is not exercising the layout cell)"
        if bad:
            i = rc[2].find("WARNING: DATA RACE")
            violations.append({"key": "cli-workers-mixed-layouts", "kind": "cli-workers", "label": "mixed-%d" % ci, "formats": [fa, fb], "input": inp,
                               "cmd": "GORACE=halt_on_error=1 " + sh([exe_race] + cmd), "implementation": "rc=%s keys=%r" % (rc[0], sorted(got)[:6]),
                               "model": "every answer among %r…" % (sorted(allowed)[:6],), "stderr": (rc[2][i:i + 2500] if i >= 0 else rc[2][-600:]),
                               "explanation": bad + " (property C10, concurrency clause; theorem time_cache_workers_any_schedule)"})
        else:
            os.remove(inp)
    return runs


def run(ctx):
    exe = build_rare(ctx)
    d = os.path.join(ctx["work"], "clifuncs")
    shutil.rmtree(d, ignore_errors=True)
    os.makedirs(d)
    secret = os.path.join(d, "secret.txt")
    with open(secret, "w") as f:
        f.write("TOPSECRET")
    two = os.path.join(d, "two.txt")
    with open(two, "w") as f:
        f.write("1234567")
    files = [secret, two, secret, two, secret, two, secret, os.path.join(d, "missing.txt")]
    base_env = {k: v for k, v in os.environ.items() if k not in ("RARE_FUNC_FILES",)}
    r = Rand(ctx["seed"] * 7919 + 10)
    g = Gen(r, files)
    violations, runs, cases, sensitive, both_fail = [], 0, 0, 0, 0
    fams = {"hi": 0, "color": 0, "bar": 0, "load": 0}
    nbad = [0]
    rejected = {}  # reason -> count (both command lines rejected: only the exit class is compared)

    def one(sw, defs_order, defs, call, data, keys, fam, noopt=False, via_env=False, split=False, label=""):
        """defs_order: [(name, file lines)], defs: name -> body tree, call: ("ucall", f, args)."""
        nonlocal runs, cases, sensitive, both_fail
        cases += 1
        fams[fam] += 1
        paths = []
        groups = [defs_order] if not split or len(defs_order) < 2 else [defs_order[:1], defs_order[1:]]
        for gi, grp in enumerate(groups):
            p = os.path.join(d, "f%d_%d.funcs" % (cases, gi))
            with open(p, "w") as f:
                f.write("\n".join(l for _, ls in grp for l in ls) + ("\n" if r.intn(4) else ""))
            paths.append(p)
        tail = ["expression"] + (["--no-optimize"] if noopt else []) + [x for v in data for x in ("-d", v)] + [x for kv in keys for x in ("-k", kv)]
        call_txt = render(call, None, None, True)
        inline_txt = render(call, None, defs, True)
        env = dict(base_env)
        if via_env:
            env["RARE_FUNC_FILES"] = ",".join(paths)
            cmd_f = sw + tail + ["--", call_txt]
        else:
            cmd_f = sw + [x for p in paths for x in ("--funcs", p)] + tail + ["--", call_txt]
        cmd_i = sw + tail + ["--", inline_txt]  # "--": an expression may start with a dash
        rf = rare(exe, cmd_f, env)
        ri = rare(exe, cmd_i, base_env)
        r0 = rare(exe, tail + ["--", inline_txt], base_env)
        runs += 3
        if ri[0] == 0 and (r0[0] != 0 or r0[1] != ri[1]) or (ri[0] != 0) != (r0[0] != 0):
            sensitive += 1
        okf, oki = rf[0] == 0, ri[0] == 0
        bad = None
        if "timeout" in (rf[0], ri[0]):
            bad = "one of the two runs did not return"
        elif any("panic:" in x[2] or "goroutine " in x[2] for x in (rf, ri)):
            bad = "the real CLI crashed"
        elif okf != oki:
            bad = "one of the two command lines is rejected, the other is evaluated"
        elif okf and rf[1] != ri[1]:
            bad = "the call of the funcs-file function prints something else than its body written inline"
        elif not okf:
            both_fail += 1
            why = next((w for w in ("loading disabled", "unable to read file", "unable to find value in set", "missing function") if w in ri[2]), "other: " + ri[2].strip()[:80])
            rejected[why] = rejected.get(why, 0) + 1
        vkey = "cli-funcs-vs-inline:" + (" ".join(sw) or "no-switch") + ":" + fam
        if bad:
            nbad[0] += 1
        if bad and len(violations) < 3 and all(v["key"] != vkey for v in violations):  # one record per (switches, family)
            violations.append({
                "key": vkey, "kind": "cli-differential", "label": label,
                "switches": sw, "funcs_files": {p: open(p).read() for p in paths}, "via": "RARE_FUNC_FILES" if via_env else "--funcs",
                "call": call_txt, "inline": inline_txt,
                "cmd_funcs": ("RARE_FUNC_FILES=%s " % env["RARE_FUNC_FILES"] if via_env else "") + sh([exe] + cmd_f), "cmd_inline": sh([exe] + cmd_i),
                "implementation": "funcs: rc=%s stdout=%r" % (rf[0], rf[1][:400]), "model": "inline: rc=%s stdout=%r" % (ri[0], ri[1][:400]),
                "stderr_funcs": rf[2][-600:], "stderr_inline": ri[2][-600:], "inline_without_switches": "rc=%s stdout=%r" % (r0[0], r0[1][:400]),
                "explanation": bad + " (property C10: a function loaded from a funcs file behaves exactly like its body written inline; "
                               "constants folded at compile time have their run-time value - here under the global switches " + (" ".join(sw) or "(none)") + ")",
                "replay": "run cmd_funcs and cmd_inline (the funcs file text is in funcs_files)"})
        return bad is None

    # --- the fixed family: one constant per switch, exactly the bodies the clause is about ---------------------------------
    fixed = [
        (["--noformat"], "hi", [("call", "hi", [("lit", "1234567")]), ("lit", " of "), ("arg", 0)]),
        (["--color"], "color", [("call", "color", [("lit", "red"), ("lit", "ERROR")]), ("lit", ": "), ("arg", 0)]),
        (["--nounicode"], "bar", [("call", "bar", [("lit", "5"), ("lit", "10"), ("lit", "10")]), ("lit", " "), ("arg", 0)]),
        (["--noload"], "load", [("call", "load", [("lit", secret)]), ("lit", "="), ("arg", 0)]),
        (["--noformat"], "hi", [("call", "sumi", [("call", "len", [("call", "hi", [("lit", "1234567")])]), ("lit", "0")]), ("lit", "/"), ("arg", 0)]),
        (["--color", "--noformat", "--nounicode"], "hi", [("call", "hf", [("lit", "1234567.5")]), ("call", "color", [("lit", "blue"), ("lit", "x")]),
                                                          ("call", "bar", [("lit", "1"), ("lit", "2"), ("lit", "4")]), ("arg", 1)]),
    ]
    for i, (sw, fam, body) in enumerate(fixed):
        call = ("ucall", "demo", [("arg", 0), ("lit", "y")])
        for noopt, via_env in ((False, False), (True, True)):
            one(sw, [("demo", ["# demo", "demo " + print_def(body)])], {"demo": body}, call, ["disk"], [], fam, noopt=noopt, via_env=via_env,
                label="fixed-%d" % i)

    # --- generated definition files ---------------------------------------------------------------------------------------
    n = 400 if ctx["tier"] == "quick" else 3000
    if os.environ.get("VERIF_C10_CLI_CASES"):
        n = int(os.environ["VERIF_C10_CLI_CASES"])
    for ci in range(n):
        if len(violations) >= 3 or nbad[0] >= 12:
            break
        fam = ["hi", "color", "bar", "load"][ci % 4]
        sw = {"hi": ["--noformat"], "color": ["--color"], "bar": ["--nounicode"], "load": ["--noload"]}[fam] if r.intn(3) else r.pick(SWITCH_SETS)
        defs, order, earlier = {}, [], []
        for fi in range(1 + r.intn(3)):
            name = "fn%d" % fi if r.intn(4) else r.pick(["demo", "f", "my_fn", "upper2"]) + str(fi)
            nargs = r.intn(3)
            body = g.body(fam, nargs, earlier)
            defs[name] = body
            order.append((name, layout(r, name, print_def(body))))
            earlier.append((name, nargs))
        fname, k = r.pick(earlier[-2:])
        nargs_call = max(1, k + r.pick([0, 0, 0, -1, 1]))  # {name} alone is a key look-up, not a call
        args = [r.pick([("arg", 0), ("arg", 1), ("arg", 5), ("lit", r.pick(WORDS)), ("lit", "two words"), ("key", "k"), ("key", "missing"),
                        ("call", "upper", [("arg", 0)]), g.safe_atom(fam)]) for _ in range(nargs_call)]
        call = ("ucall", fname, args)
        data = [r.pick(["disk", "7", "1234567", "", "a b"]) for _ in range(r.intn(3))]
        keys = ["k=" + r.pick(["v", "12", ""])] if r.intn(2) else []
        one(sw, order, defs, call, data, keys, fam, noopt=r.intn(4) == 0, via_env=r.intn(5) == 0, split=r.intn(4) == 0, label="gen-%d" % ci)
    wruns = workers_family(ctx, exe, d, r, g, violations) if len(violations) < 3 else 0
    if len(violations) < 3:
        wruns += mixed_layout_family(ctx, exe, build_rare(ctx, race=True), d, r, violations)
    runs += wruns
    if not violations:
        shutil.rmtree(d, ignore_errors=True)
    res = {"runs": runs, "worker_runs": wruns, "cli_cases": cases, "switch_sensitive": sensitive, "differing": nbad[0], "both_rejected": both_fail, "families": fams, "rejected_reasons": rejected, "violations": violations,
           "assumptions": ["the CLI differential compares a funcs-file call with its body written inline on the generated definition files only; "
                           "the statement for all bodies is call_nested_eq_body / before_hook_switches_then_funcs",
                           "the --workers runs see the schedules the Go runtime produces; the statement for all schedules is userfn_pool_all_schedules / "
                           "time_cache_workers_same_layout about the model"]}
    if cases and sensitive * 4 < cases:
        raise RuntimeError("the global switches changed the inline output in only %d of %d cases: the search is not looking at switch-dependent bodies" % (sensitive, cases))
    return res
