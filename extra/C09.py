"""C09 extra step: the second observation point of the property – `rare expression -d .. -k ..` – end to end.
The built CLI is run on templates (literals with escapes, look-ups, nested calls of the standard function table,
quoted arguments, Unicode white space, and every kind of syntax defect at top level and nested); the model (driver op
`xcli`: `compileBytes` with the standard registry + `compilerErrorsError` of Model/C09Err) predicts the exit status,
stdout (the value and a newline, `--raw`) or the beginning of stderr (the text of `CompilerErrors.Error()`).
Half of the runs use `--no-optimize`."""
import os, sys, subprocess
sys.path.insert(0, os.path.dirname(__file__))
from common import build_rare, Rand


def hx(b):
    return b.hex() if b else "-"


def hxl(bs):
    return ";".join(hx(b) for b in bs) if bs else "."


LITS = ["", "a", "ab ", " x", "é", "€ ", "\\{", "\\}", "\\\\", "a\\nb", "\\t", "}", "a}b", "\\q", "😀", "\"", "a\"b", "  "]
GOOD = ["{0}", "{1}", "{2}", "{ 0 }", "{\t1\n}", "{k}", "{ key1 }", "{\"a b\"}", "{\"k\"}", "{007}", "{+1}", "{-1}", "{1e3}", "{\"\"}", "{{0}}",
        "{sumi {0} 3}", "{sumi {0} {0} 1}", "{eq {0} 5}", "{not {k}}", "{if {eq {0} 5} yes no}", "{if {eq {1} \"a b\"} \"y e s\" no}",
        "{len {k}}", "{upper {k}}", "{prefix {1} a}", "{coalesce {nokey} {1} z}", "{sumi {0}　3}", "{multi {sumi {0} 1} {len {1}}}",
        "{and {0} {k}}", "{or {nokey} {2}}", "{lt {0} 10}", "{substr {1} 0 1}", "{select {1} 0}", "{if {0} {sumi {0} {0}} {k}}"]
BAD = ["{}", "{ }", "{　}", "{nofn x}", "{nofn {0} {}}", "{", "{sumi 1", "{sumi 1 {}}", "{sumi {} {}}", "{if {nofn y} a b}", "{sumi {0} {nofn2 1 2}}",
       "{sumi {0} \"{\"}", "{if {eq {0} 5} {} {nofn z}}", "{sumi 1 {sumi 2 {sumi 3 {}}}}", "{upper {nofn é}}", "{if {0} \"a{}b{nofn q}\" x}", "{nofn `x`}",
       "{nofn \"a\nb\"}", "{sumi {0} {"]


def gen(r, n):
    out = []
    fixed = ["ab{}", "{nofn x}{", "{}{}", "a{sumi 1 {}}b{}", "xy{if {eq {0} 5} {} {nofn z}}{", "é{}", "\\{{}", "{sumi {0} 3}", "a {0} {k} {sumi {0} 3}",
             "{0}{1}{2}{3}", "\\{0\\}", "a\\", "{k}\\", "x}", "{if {0} a}", "{if 1 {0} {k}}", "{if {nokey} {0} {k}}"]
    for t in fixed:
        out.append(t)
    for _ in range(n):
        parts = []
        for _ in range(1 + r.intn(4)):
            parts.append(r.pick(LITS))
            c = r.intn(10)
            if c < 5:
                parts.append(r.pick(GOOD))
            elif c < 8:
                parts.append(r.pick(BAD))
        out.append("".join(parts))
    return out


def run(ctx):
    exe = build_rare(ctx)
    r = Rand(ctx.get("seed", 1) * 1000003 + 9)
    n = 120 if ctx["tier"] == "quick" else 1500
    cases = []
    for t in gen(r, n):
        tb = t.encode("utf8")
        if r.intn(12) == 0:
            tb = tb.replace(b"a", b"\xff", 1)          # an invalid byte: one U+FFFD rune for the index arithmetic
        if not tb or tb.startswith(b"-") or b"\x00" in tb:
            continue
        elems = [r.pick([b"5", b"7", b"x", b"a b", b"", b"12"]) for _ in range(r.intn(4))]
        keys = []
        if r.intn(3) > 0:
            keys.append((b"k", r.pick([b"v", b"", b"1", b"a=b"])))
        if r.intn(3) == 0:
            keys.append((b"key1", b"w w"))
        opt = "1" if r.intn(2) == 0 else "0"
        cases.append((opt, tb, elems, keys))
    lines = []
    for opt, tb, elems, keys in cases:
        kv = []
        for k, v in keys:
            kv += [k, v]
        lines.append("C09 xcli %s %s %s %s" % (opt, hx(tb), hxl(elems), hxl(kv)))
    p = subprocess.run([ctx["driver"]], input=("\n".join(lines) + "\n").encode(), stdout=subprocess.PIPE, stderr=subprocess.PIPE, timeout=600)
    answers = p.stdout.decode().splitlines()
    if len(answers) != len(cases):
        raise RuntimeError("driver answered %d lines for %d cases: %s" % (len(answers), len(cases), p.stderr[-500:]))
    violations, runs, compared, errors_compared = [], 0, 0, 0
    for (opt, tb, elems, keys), line, ans in zip(cases, lines, answers):
        cmd = [exe.encode(), b"expression", b"--raw"] + ([b"--no-optimize"] if opt == "0" else [])
        for e in elems:
            cmd += [b"-d", e]
        for k, v in keys:
            cmd += [b"-k", k + b"=" + v]
        cmd.append(tb)
        try:
            q = subprocess.run(cmd, stdout=subprocess.PIPE, stderr=subprocess.PIPE, timeout=30)
            rc, out, err = q.returncode, q.stdout, q.stderr
        except subprocess.TimeoutExpired:
            rc, out, err = "timeout", b"", b""
        runs += 1
        txt = err.decode("utf8", "replace")
        bad = None
        if rc == "timeout" or "panic:" in txt or "goroutine " in txt:
            bad = "the real CLI crashed or did not return"
        elif ans.startswith("ok "):
            f = dict(x.split("=", 1) for x in ans.split()[1:])
            want_out = b"" if f["out"] == "-" else bytes.fromhex(f["out"])
            want_err = b"" if f["err"] == "-" else bytes.fromhex(f["err"])
            compared += 1
            if f["rc"] == "2":
                errors_compared += 1
            if str(rc) != f["rc"] or out != want_out or not err.startswith(want_err) or (f["rc"] == "0" and err != b""):
                bad = "exit status / stdout / stderr differ from the model's prediction"
        elif not ans.startswith("unmodelled"):
            bad = "model answered " + ans
        if bad:
            violations.append({"key": "cli:" + line, "kind": "cli-mismatch", "case": line, "argv": [c.decode("utf8", "replace") for c in cmd[1:]],
                               "exit": rc, "stdout": out[:400].decode("utf8", "replace"), "stderr": txt[:600], "model": ans[:600], "explanation": bad})
    return {"runs": runs, "compared": compared, "errors_compared": errors_compared, "violations": violations,
            "assumptions": ["the CLI adds the special keys src, line, ., #, .#, #., @; the generated templates do not use them"]}
