"""C19 extra step (round 4c): `{! formula}` at the level of the built `rare` CLI.

The correspondence harness drives `stdmath.Compile(...).Eval` and `funclib`'s `{! …}` stage in process.  This step
covers the rest of the way a user's formula travels:

  A. `rare expression --raw [-n] -d e0 -d e1 -k x=v '{! formula}'`: flag parsing, the key builder, one evaluation,
     stdout.  Expected: the model's `expr` answer (driver_C19: `{! …}` bound to the software binary64 instance,
     `strconv.ParseFloat` of the capture text, `FormatFloat(v,'f',-1,64)`, `<BAD-TYPE>`), exit status 0.
  B. `rare filter -m '^(\\d+) (?P<a>\\S+) (?P<b>\\S+)$' -e '{1} {! formula}' FILE` on files of several hundred /
     thousand lines: the extractor's regex groups as `[n]`, named groups as bare names / `[name]`, ONE compiled
     stage shared by all worker goroutines (default 9 workers; also --workers 1/2/32 and --batch 1/7), i.e. the
     pooled `keyBuilderContextWrapper` objects of `kfMath` under real concurrency, a `<BAD-TYPE>` line between good
     ones (the error counter must be reset), and the output writer.  Every output line carries its line id, so the
     comparison is per line whatever order the workers finish in.  Expected per line: the model's answer for that
     line's context alone (`kfmath_history_independent`, `kfmath_concurrent_independent`).

Formulas use every operator class, the functions the model computes since round 4c (sin cos tan asin acos atan exp2,
log log10 log2, abs sqrt floor ceil round) – `exp` and fractional powers only in a few cases, where the model
answers `unmodelled` and only "no crash, one output line" is checked."""
import os, sys, subprocess
sys.path.insert(0, os.path.dirname(__file__))
from common import build_rare, Rand


def hx(b):
    return b.hex() if b else "-"


def hxl(bs):
    return ";".join(hx(b) for b in bs) if bs else "."


# number texts as they appear in logs (no blanks, no commas: -d values go through the flag parser)
NUMS = ["0", "1", "2", "3", "-1", "-2.5", "0.5", "0.25", "10", "100", "1000", "64", "63", "7", "1e3", "1E-3", "1e22", "1e300", "-1e300",
        "5e-324", "1e-320", "0.1", "0.2", "0.30000000000000004", "3.141592653589793", "1.5707963267948966", "0.7853981633974483",
        "536870912", "536870911.5", "123456789.125", "9007199254740993", "9223372036854775807", "18446744073709551616",
        "inf", "-Inf", "NaN", "-0", "+5", ".5", "5.", "0x1p-2", "1_000", "010", "0x10", "abc", "", "1e400", "--1", "1..2",
        "0.66", "0.7", "2.414213562373095", "1023.5", "-1074", "-1075", "1024", "0.9999999999999999", "1.0000000000000002", "355", "4.5e15"]

# formulas over two operands P and Q (replaced by the variable syntax of the run)
FORMS = ["P + Q", "P - Q", "P * Q", "P / Q", "P ^ 2", "P % Q", "P << 2", "P >> 1", "P & Q", "P | Q", "P < Q", "P <= Q", "P == Q", "P >= Q", "P > Q",
         "P && Q", "P || Q", "!P", "-P", "-P ^ 2", "2 + P * Q", "(2 + P) * Q", "P - Q - 1", "P / Q / 2", "2(P+1)", "(P)(Q)", "2 ^ 3 ^ P",
         "sin(P)", "cos(P)", "tan(P)", "asin(P)", "acos(P)", "atan(P)", "exp2(P)", "log(P)", "log10(P)", "log2(P)", "abs(P)", "sqrt(P)",
         "floor(P)", "ceil(P)", "round(P)", "sin(P)*sin(P) + cos(P)*cos(P)", "sin(P)/cos(P) == tan(P)", "atan(P/Q)", "4*atan(1) - P",
         "asin(P) + acos(P)", "log2(exp2(P))", "exp2(floor(P)) == 2^floor(P)", "floor(log10(abs(P))) + 1", "sqrt(P*P + Q*Q)", "round(P*100)/100",
         "sin(-P) == -sin(P)", "cos(-P) - cos(P)", "P*0x10 + 0b101 - 0o17", "P < Q && Q < 10 || !P", "1 + 2 * 3 ^ 2 < P", "tan(atan(P))",
         "P + 0.1 + 0.2", "P * 3 * 1e308", "0.1 + P + 0.2 + Q", "P % 0.5", "P % 0.25 + Q", "0x1e+P", "0x1E-Q", "2(P)^2", "sin(P)(Q)", "-(P)(Q)", "2 * ()",
         "P + ()", "(P)()", "2()", "()P", "P() + Q", "( )", "(P", "P +", "1.5e-3 + P", "P Q", "2 ** P", "P = Q",
         "exp(P)", "P ^ 0.3", "P ^ 0.5", "P ^ -1", "1e3*P", ".5*P", "P*inf", "nan + P", "0*P", "0 && P", "abs(-P) - abs(P)", "sin ( P ) + cos( Q )"]


def subst(f, p, q):
    return f.replace("P", p).replace("Q", q)


def model(ctx, lines):
    p = subprocess.run([ctx["driver"]], input=("\n".join(lines) + "\n").encode(), stdout=subprocess.PIPE, stderr=subprocess.PIPE, timeout=900)
    ans = p.stdout.decode().splitlines()
    if len(ans) != len(lines):
        raise RuntimeError("driver answered %d lines for %d cases: %s" % (len(ans), len(lines), p.stderr[-500:]))
    return ans


def crashed(rc, err):
    t = err.decode("utf8", "replace")
    return rc == "timeout" or "panic:" in t or "goroutine " in t or "fatal error" in t


def step_expression(ctx, exe, r, n):
    cases = []
    for i in range(n):
        f = FORMS[i] if i < len(FORMS) else r.pick(FORMS)      # every shape at least once, then random ones
        p, q = r.pick(["[0]", "[0]", "x", "[x]", "[ 0 ]"]), r.pick(["[1]", "[1]", "y", "[y]"])
        tmpl = r.pick(["{! %s}", "{! %s }", "{!%s}", "v={! %s};", "{! %s} {! [0]}"]) % subst(f, p, q)
        a, b = r.pick(NUMS), r.pick(NUMS)
        opt = "1" if r.intn(3) > 0 else "0"
        cases.append((opt, tmpl.encode(), [a.encode(), b.encode()], [(b"x", a.encode()), (b"y", b.encode())]))
    lines = []
    for opt, tb, elems, keys in cases:
        kv = []
        for k, v in keys:
            kv += [k, v]
        lines.append("C19 expr %s %s %s %s" % (opt, hx(tb), hxl(elems), hxl(kv)))
    answers = model(ctx, lines)
    runs = compared = 0
    violations = []
    for (opt, tb, elems, keys), line, ans in zip(cases, lines, answers):
        cmd = [exe.encode(), b"expression", b"--raw"] + ([b"--no-optimize"] if opt == "0" else [])
        for e in elems:
            cmd += [b"-d", e]
        for k, v in keys:
            cmd += [b"-k", k + b"=" + v]
        cmd.append(tb)
        try:
            q = subprocess.run(cmd, stdout=subprocess.PIPE, stderr=subprocess.PIPE, timeout=30)
            rc, out, err = q.returncode, q.stdout, q.stderr
        except subprocess.TimeoutExpired:
            rc, out, err = "timeout", b"", b""
        runs += 1
        bad = None
        if crashed(rc, err):
            bad = "the real CLI crashed or did not return"
        elif ans.startswith("ok errs=. val="):
            want = ans[len("ok errs=. val="):]
            want = b"" if want == "-" else bytes.fromhex(want)
            compared += 1
            if rc != 0 or out != want + b"\n":
                bad = "exit status / stdout differ from the model's `{! …}` value"
        elif ans.startswith("ok errs="):
            compared += 1
            if rc == 0:
                bad = "the model reports a compile error, the CLI exited 0"
        elif not ans.startswith("unmodelled"):
            bad = "model answered " + ans
        if bad:
            violations.append({"key": "cli-expression:" + line, "kind": "cli-mismatch", "case": line, "argv": [c.decode("utf8", "replace") for c in cmd[1:]],
                               "exit": rc, "stdout": out[:300].decode("utf8", "replace"), "stderr": err[:400].decode("utf8", "replace"),
                               "model": ans[:300], "explanation": bad})
    return runs, compared, violations


REGEX = r"^(\d+) (?P<a>\S+) (?P<b>\S+)$"


def step_filter(ctx, exe, r, nfiles, nlines):
    runs = compared = 0
    violations = []
    os.makedirs(ctx["work"], exist_ok=True)
    for fi in range(nfiles):
        f = r.pick(FORMS)
        p, q = r.pick(["[2]", "a", "[a]", "[2]"]), r.pick(["[3]", "b", "[b]"])
        tmpl = "{1} {! %s}" % subst(f, p, q)
        rows = []
        for i in range(nlines):
            a, b = r.pick(NUMS), r.pick(NUMS)
            if r.intn(3) == 0:
                a = repr(((r.intn(1 << 30) / float(1 << 30)) - 0.5) * r.pick([2, 8, 100, 1e4, 1e9, 1e18]))
            if r.intn(3) == 0:
                b = str(r.intn(200) - 100)
            if a == "":
                a = "-"          # \S+ needs a character; "-" is not a number either
            if b == "":
                b = "x"
            rows.append((str(i + 1), a, b))
        path = os.path.join(ctx["work"], "cli_in_%d.txt" % fi)
        with open(path, "w") as fh:
            for i, a, b in rows:
                fh.write("%s %s %s\n" % (i, a, b))
        tuning = r.pick([[], [], ["--workers", "1"], ["--workers", "2", "--batch", "7"], ["--workers", "32", "--batch", "1"], ["--batch", "1"]])
        cmd = [exe, "filter"] + tuning + ["-m", REGEX, "-e", tmpl, path]
        lines = []
        for i, a, b in rows:
            whole = ("%s %s %s" % (i, a, b)).encode()
            lines.append("C19 expr 1 %s %s %s" % (hx(tmpl.encode()), hxl([whole, i.encode(), a.encode(), b.encode()]),
                                                  hxl([b"a", a.encode(), b"b", b.encode()])))
        answers = model(ctx, lines)
        try:
            qx = subprocess.run(cmd, stdout=subprocess.PIPE, stderr=subprocess.PIPE, timeout=120)
            rc, out, err = qx.returncode, qx.stdout, qx.stderr
        except subprocess.TimeoutExpired:
            rc, out, err = "timeout", b"", b""
        runs += 1
        key = "cli-filter:%s:%s" % (tmpl, " ".join(tuning))
        malformed = answers[0].startswith("ok errs=") and not answers[0].startswith("ok errs=. ")
        if malformed and not crashed(rc, err):
            compared += 1
            if rc == 0:
                violations.append({"key": key, "kind": "cli-mismatch", "argv": cmd[1:], "exit": rc, "model": answers[0][:200],
                                   "explanation": "the model rejects the formula at compile time, rare filter ran with it"})
            continue
        if crashed(rc, err) or rc != 0:
            violations.append({"key": key, "kind": "cli-crash", "argv": cmd[1:], "exit": rc, "stderr": err[:600].decode("utf8", "replace"),
                               "explanation": "rare filter crashed, timed out or failed on a `{! …}` extraction"})
            continue
        got = {}
        dup = False
        for ln in out.split(b"\n"):
            if not ln:
                continue
            i, _, v = ln.partition(b" ")
            if i in got:
                dup = True
            got[i] = v
        bad = []
        for (i, a, b), line, ans in zip(rows, lines, answers):
            have = got.get(i.encode())
            if ans.startswith("ok errs=. val="):
                want = bytes.fromhex(ans[len("ok errs=. val="):])
                compared += 1
                if have is None or i.encode() + b" " + have != want:
                    bad.append((line, ans, have))
            elif ans.startswith("unmodelled"):
                if have is None:
                    bad.append((line, ans, have))
            else:
                bad.append((line, ans, have))
        if dup or len(got) != len(rows):
            bad.append(("line count", "expected %d output lines" % len(rows), str(len(got)).encode()))
        for line, ans, have in bad[:3]:
            violations.append({"key": key + ":" + line, "kind": "cli-mismatch", "case": line, "argv": cmd[1:], "model": ans[:300],
                               "cli_value": None if have is None else have[:200].decode("utf8", "replace"),
                               "explanation": "the value `rare filter` printed for this line differs from the model's `{! …}` value for the line's own captures"})
    return runs, compared, violations


def run(ctx):
    exe = build_rare(ctx)
    r = Rand(ctx.get("seed", 1) * 1000003 + 19)
    quick = ctx["tier"] == "quick"
    r1, c1, v1 = step_expression(ctx, exe, r, len(FORMS) + (30 if quick else 600))
    r2, c2, v2 = step_filter(ctx, exe, r, 4 if quick else 30, 300 if quick else 3000)
    return {"runs": r1 + r2, "compared": c1 + c2, "expression_runs": r1, "filter_runs": r2, "violations": v1 + v2,
            "assumptions": ["capture texts contain no blank, comma or non-UTF-8 byte (urfave/cli re-encodes -d/-k values); the special keys the CLI adds (src, line, …) are not used by the generated formulas",
                            "`exp` and fractional powers are outside the model: for those only 'the CLI returns and prints one line per input line' is checked"]}
