"""C08 extra step: (1) the built CLI evaluates a handful of hostile expressions end to end (`rare expression`)
under a memory limit and a timeout, plus the boundary family of every size / index guard (the counts and indices
at which an int64 product or sum wraps: a panic inside the real binary = exit status 2 + "panic:" on stderr);
(2) the recorded known finding (an expression whose value doubles per
element exhausts memory: resource exhaustion, not a Go panic) is replayed so that it keeps being reported
while it is real and is flagged as stale when it stops failing."""
import os, sys, subprocess, resource
sys.path.insert(0, os.path.dirname(__file__))
from common import build_rare, Rand

OOM_WITNESS = '{@reduce {@range 0 40} "{0}{0}"}'
# nesting depth d costs Compile (and the formula parser of {! …}) time and memory quadratic in d: every level
# re-scans its whole argument text as a fresh []rune / token list while all enclosing levels stay live
NEST_WITNESS = "{coalesce " * 4000 + "x" + "}" * 4000
NEST_MATH_WITNESS = "{! " + "(" * 25000 + "1" + ")" * 25000 + "}"


def deep_family():
    """Templates at depths the quadratic cost still allows (they must simply return): nested calls, braces,
    unterminated openers, formulas with deep parentheses / long operator chains / unary runs, long argument lists."""
    out = []
    for d in (50, 300, 1000):
        out += ["{coalesce " * d + "x" + "}" * d, "{if 1 " * d + "{0}" + "}" * d, "{@len " * d + "{0}" + "}" * d,
                "{! " + "(" * d + "[0]" + ")" * d + "}", "{! " + "-" * d + "1}", "{! " + "abs(" * d + "1" + ")" * d + "}"]
    for d in (1000, 25000):  # one argv entry holds at most 128 KiB
        out += ["{" * d + "0" + "}" * d, "{" * d, "}" * d, "{! 1" + "+1" * d + "}", "{coalesce" + " {0}" * d + "}", "a{0}" * d,
                "{coalesce " + "\"" * d + "}", "\\" * d, "{sumi 1 " + "2" * d + "}"]
    return out


def limited(cmd, mem_mb=1500, timeout=60):
    def pre():
        resource.setrlimit(resource.RLIMIT_AS, (mem_mb * 1024 * 1024, mem_mb * 1024 * 1024))
    try:
        p = subprocess.run(cmd, stdout=subprocess.PIPE, stderr=subprocess.PIPE, timeout=timeout, preexec_fn=pre)
        return p.returncode, p.stdout[-400:], p.stderr[:20000] + p.stderr[-2000:]
    except subprocess.TimeoutExpired:
        return "timeout", b"", b""


def guard_family(ctx):
    """Expressions at the wrap-around points of the guards regenerated into Gen/C08.lean (the seeded change
    `count*len(char) > maxRepeatBytes` in kfRepeat panics on the first group)."""
    out = []
    two62, two63, two64 = 1 << 62, 1 << 63, 1 << 64
    for pat in ("ab", "abcd", "\u20ac", "abcdefg"):
        n = len(pat.encode("utf8"))
        for base in (two62, two63, two64, 1 << 20):
            for d in (-1, 0, 1):
                c = base // n + d
                if -two63 <= c < two63:
                    out.append('{repeat "%s" %d}' % (pat, c))
        out.append('{repeat "%s" %d}' % (pat, two63 - 1))
    idx = [-two63, -two63 + 1, -4, -3, -2, -1, 0, 1, 2, 3, 4, two63 - 4, two63 - 3, two63 - 2, two63 - 1]
    r = Rand(ctx.get("seed", 1) * 7919 + 8)
    for a in idx:
        b = idx[r.intn(len(idx))]
        out += ['{substr abc %d %d}' % (a, b), '{substr abc %d %d}' % (b, a), '{select "a b c" %d}' % a,
                '{@select {@ a b c} %d}' % a, '{@slice {@ a b c} %d %d}' % (a, b), '{@slice {@ a b c} %d}' % a,
                '{%d}' % a, '{@map {@ a b c} "{%d}"}' % a, '{@reduce {@ a b c} "{%d}{1}"}' % a]
    for a in (-two63, -1, 0, 1, two63 - 1):
        for b in (-two63, -1, 0, 1, two63 - 1):
            out += ['{divi %d %d}' % (a, b), '{modi %d %d}' % (a, b), '{divi {1} %d}' % b]
    for p in (1024, 1025, 1 << 31, 1 << 32, two63 - 1, -two63):
        out += ['{round 1.5 %d}' % p, '{percent 0.5 %d}' % p, '{bytesize 1536 %d}' % p, '{downscale 1536 %d}' % p]
    out += ['{bar {1} 10 65536}', '{bar 5 10 65537}', '{bar {1} 10 100000000000}', '{bar 5 10 9223372036854775807}',
            '{bar 5 10 -9223372036854775808}', '{color red x}', '{color blac\u212a x}', 'a\\', '{sumi 1 2}\\', '{a \\']
    return out


def run(ctx):
    exe = build_rare(ctx)
    violations, known, runs = [], [], 0
    hostile = ['abc\\', '{', '}{', '{divi 1 0}', '{modi 5 0}', '{substr abc 1 9223372036854775807}', '{repeat a -1}',
               '{repeat "a,b" 1000000000000000000}', '{round 1 50000000000}', '{@range 9223372036854775800 9223372036854775807 5}',
               '{@range 0 9223372036854775807}', '{@for 0 {lt {1} 3} {k}}', '{@map {0} "{-1}"}', '{! 5 % x}', '{! -}', '{! 2 + -}',
               '{! 1 << -1}', '{hi -9223372036854775808}', '{-9223372036854775808}', '{bucket -100 50}', '{@slice {@ a b c} -5}',
               '{percent 1 9007199254740992}', '{bytesize 1 9223372036854775807}', '{timeattr 0 quarter}', '{format %d%s%v x}',
               # round 2: the scaling loop of expbucket at the int64 end, fmt corner cases, the time helpers at the ends of Go's time range
               '{expbucket 9223372036854775807}', '{expbucket 9169610316303040512}', '{expbucket {1}}', '{format "%[9]*.[2]*[1]q %!" a b}',
               '{format "%1000001s" x}', '{format "%.*[1]s %[3]*.[2]*[1]s|%" a b c}', '{format {0} {1} {1}}',
               '{time "2016-03-27 02:30:00" "2006-01-02 15:04:05" Europe/Berlin}', '{timeformat 9223372036854775807 RFC3339 Asia/Tokyo}',
               '{timeformat -9223372036854775808}', '{timeattr -9223372028715321601 yearweek}', '{timeattr 9223372036854775807 week Pacific/Apia}',
               '{buckettime x nanos auto local}', '{buckettime "2016-02-30T00:00:00Z" d}', '{duration 9223372036854775807ns}',
               '{durationformat -9223372036854775808}', '{time now a b c}', '{time live}{time delta}', '{timeformat {time now} "__2 002 Z07:00:00"}']
    hostile += guard_family(ctx)
    hostile += deep_family()
    for e in hostile:
        rc, out, err = limited([exe, "expression", "-d", "x", "-d", "-7", e], timeout=30)
        runs += 1
        txt = err.decode("utf8", "replace")
        if rc == "timeout" or "panic:" in txt or "fatal error" in txt or "goroutine " in txt:
            violations.append({"key": "cli-crash:" + e, "kind": "cli-crash", "expression": e, "exit": rc, "stderr": txt[:800],
                               "explanation": "the real CLI crashed or did not return on this expression"})
    rc, out, err = limited([exe, "expression", OOM_WITNESS], mem_mb=1000, timeout=60)
    runs += 1
    txt = err.decode("utf8", "replace")
    if rc == "timeout" or "out of memory" in txt or "fatal error" in txt or (isinstance(rc, int) and rc < 0):
        i = max(txt.find("fatal error"), 0)
        violations.append({"key": "oom-accumulator", "kind": "resource-exhaustion", "expression": OOM_WITNESS, "exit": rc, "stderr": txt[max(i - 120, 0):i + 200]})
    else:
        known.append("NOTE stale: the recorded out-of-memory witness no longer fails")
    stale = True
    for w in (NEST_WITNESS, NEST_MATH_WITNESS):
        rc, out, err = limited([exe, "expression", w], mem_mb=1000, timeout=60)
        runs += 1
        txt = err.decode("utf8", "replace")
        if rc == "timeout" or "out of memory" in txt or "fatal error" in txt or (isinstance(rc, int) and rc < 0):
            i = max(txt.find("fatal error"), 0)
            violations.append({"key": "quadratic-nesting", "kind": "resource-exhaustion", "expression": w[:60] + " … (%d bytes)" % len(w), "exit": rc,
                               "stderr": txt[max(i - 120, 0):i + 200]})
            stale = False
            break
    if stale:
        known.append("NOTE stale: the recorded deep-nesting witnesses no longer exhaust memory")
    return {"runs": runs, "violations": violations, "known": known,
            "assumptions": ["memory is finite: the theorems show panic-freedom and termination of the model, not bounded output size"]}
