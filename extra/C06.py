"""C06 extra step: END-TO-END correspondence of the real `rare` CLI with the Lean model `Rare.C06.run`.

Generated directory trees (nested dirs, empty files, plain / gzip / truncated gzip / corrupt gzip,
missing paths, a directory given as a file, symlinks, names with glob characters) x argument forms
(path, glob, no-match glob, literal-with-glob-chars, malformed pattern, -R dir, `-`, none, the same
path twice) x -z x --readers/--batch/--workers.  For every invocation the oracle data the model needs
is: the directory tree itself (names, kinds, link targets – the Lean model of path resolution,
filepath.Match/Glob/Walk and dirwalk.GlobExpand computes the plan from it: op `globx`, then `runtree`),
the contents of the planned files and what compress/gzip yields for them (zlib cross-checked).  The
model's prediction (stdout multiset, exit status, canonical [Log] lines, Matched/Read counters) is
compared with what the binary did.  (Until the glob model existed this script carried its own port of
filepath.Match/Glob; it is gone: the Lean model is the only oracle for the file system now.)
"""
import os, sys, shutil, stat, zlib, struct, binascii, re, subprocess
sys.path.insert(0, os.path.dirname(__file__))
from common import build_rare, Rand

# ------------------------------------------------------------------ small path helpers

def _has_meta(p):
    return any(c in p for c in '*?[\\')


def go_join(a, b):
    return a + '/' + b if a else b


def tree_spec(root):
    """The tree under `root` in the protocol's form (parents first): `hexpath:d`, `hexpath:f`, `hexpath:l:hextarget`."""
    ents = []
    for dirpath, dirnames, filenames in os.walk(root, topdown=True, followlinks=False):
        rel = os.path.relpath(dirpath, root)
        rel = '' if rel == '.' else rel
        for n in sorted(dirnames + filenames):
            p = go_join(rel, n)
            full = os.path.join(root, p)
            st = os.lstat(full)
            if stat.S_ISLNK(st.st_mode):
                ents.append('%s:l:%s' % (hx(enc(p)), hx(enc(os.readlink(full)))))
            elif stat.S_ISDIR(st.st_mode):
                ents.append('%s:d' % hx(enc(p)))
            else:
                ents.append('%s:f' % hx(enc(p)))
    return ','.join(ents) if ents else '.'

# ------------------------------------------------------------------ gzip oracle (RFC 1952 header rules of compress/gzip + zlib)

def gz_header_end(b, off=0):
    """Offset just after a valid gzip member header starting at `off`, or None (compress/gzip readHeader)."""
    if len(b) - off < 10:
        return None
    if b[off] != 0x1f or b[off + 1] != 0x8b or b[off + 2] != 8:
        return None
    flg = b[off + 3]
    p = off + 10
    if flg & 4:  # FEXTRA
        if len(b) - p < 2:
            return None
        n = b[p] | (b[p + 1] << 8)
        p += 2
        if len(b) - p < n:
            return None
        p += n
    for bit in (8, 16):  # FNAME, FCOMMENT
        if flg & bit:
            q = b.find(b'\0', p)
            if q < 0 or q - p >= 512:
                return None
            p = q + 1
    if flg & 2:  # FHCRC
        if len(b) - p < 2:
            return None
        want = b[p] | (b[p + 1] << 8)
        if want != (binascii.crc32(b[off:p]) & 0xffff):
            return None
        p += 2
    return p


def gz_oracle(content, bytewise_ok=False):
    """(headerOk, probed, decoded, fails) as compress/gzip (multistream) behaves on this file; None when the
    deflate data itself is corrupt (how much is delivered before the error is library specific)."""
    p = gz_header_end(content)
    if p is None:
        return False, min(len(content), 4096), b'', False
    out = bytearray()
    while True:
        mstart = len(out)
        d = zlib.decompressobj(-15)
        try:
            out += d.decompress(content[p:])
        except zlib.error:
            if not bytewise_ok:
                return None
            # corruption detected at a byte boundary (stored-block LEN/NLEN): everything decoded from the bytes
            # before the offending one is delivered, then the reader fails
            d = zlib.decompressobj(-15)
            try:
                for i in range(p, len(content)):
                    out += d.decompress(content[i:i + 1])
            except zlib.error:
                pass
            return True, 0, bytes(out), True
        if not d.eof:
            return True, 0, bytes(out), True  # truncated inside the deflate data
        rest = d.unused_data
        if len(rest) < 8:
            return True, 0, bytes(out), True  # trailer cut
        crc, isize = struct.unpack('<II', rest[:8])
        if crc != (binascii.crc32(bytes(out[mstart:])) & 0xffffffff) or isize != ((len(out) - mstart) & 0xffffffff):
            return True, 0, bytes(out), True  # gzip.ErrChecksum
        nxt = len(content) - len(rest) + 8
        if nxt == len(content):
            return True, 0, bytes(out), False  # clean EOF
        q = gz_header_end(content, nxt)
        if q is None:
            return True, 0, bytes(out), True  # trailing garbage / cut header of a further member
        p = q


def gz_member(data, level=6, name=None, extra_hcrc=False):
    flg = 0
    hdr = bytearray(b'\x1f\x8b\x08\x00\x00\x00\x00\x00\x00\x03')
    tail = b''
    if name is not None:
        flg |= 8
        tail += name + b'\0'
    hdr[3] = flg | (2 if extra_hcrc else 0)
    h = bytes(hdr) + tail
    if extra_hcrc:
        h += struct.pack('<H', binascii.crc32(h) & 0xffff)
    c = zlib.compressobj(level, zlib.DEFLATED, -15)
    body = c.compress(data) + c.flush()
    return h + body + struct.pack('<II', binascii.crc32(data) & 0xffffffff, len(data) & 0xffffffff), len(h), len(body)

# ------------------------------------------------------------------ generators

WORDS = [b'alpha', b'beta k', b'k', b'12', b'-7', b'+3', b'9223372036854775807', b'9223372036854775808', b'x y z',
         b'', b' ', b'k:v', b'\xc3\xa9t\xc3\xa9', b'\xff\xfe', b'tab\there', b'0', b'007', b'1_0', b'a' * 70]


def gen_text(rnd, nlines=None, numeric=False):
    n = nlines if nlines is not None else rnd.pick([0, 1, 1, 2, 3, 5, 9, 40])
    out = bytearray()
    for i in range(n):
        if numeric and rnd.intn(4) != 0:
            out += str(rnd.intn(50) - 10).encode()
        else:
            out += rnd.pick(WORDS)
            if rnd.intn(5) == 0:
                out += b' ' + rnd.pick(WORDS)
        if rnd.intn(9) == 0:
            out += b'\r'
        if i < n - 1 or rnd.intn(3) != 0:
            out += b'\n'
    return bytes(out)


NO_CROSS_CHECK = set()


def gen_file(rnd, tier):
    """Returns (kind, bytes)."""
    k = rnd.intn(20)
    big = tier == 'thorough' and rnd.intn(25) == 0
    text = gen_text(rnd, 30000 if big else None, numeric=rnd.intn(3) == 0)
    if k < 6:
        return 'plain', text
    if k == 6:
        return 'empty', b''
    level = rnd.pick([0, 1, 6, 9])
    name = rnd.pick([None, None, b'orig.log'])
    z, hl, bl = gz_member(text, level, name, extra_hcrc=rnd.intn(6) == 0)
    if k < 11:
        if rnd.intn(4) == 0:  # multi-member
            z2, _, _ = gz_member(gen_text(rnd), rnd.pick([0, 6]))
            return 'gzip-multi', z + z2
        return 'gzip', z
    if k < 14:  # truncated anywhere (header, deflate data, trailer)
        where = rnd.intn(4)
        if where == 0:
            cut = rnd.intn(min(len(z), 12) + 1)
        elif where == 1:
            cut = len(z) - 1 - rnd.intn(8)
        else:
            cut = rnd.intn(len(z) + 1)
        return 'gzip-truncated', z[:max(0, cut)]
    if k == 14:  # trailer corrupt (CRC or ISIZE)
        c = bytearray(z)
        c[len(c) - 1 - rnd.intn(8)] ^= 1 << rnd.intn(8)
        return 'gzip-badtrailer', bytes(c)
    if k == 15:  # header corrupt -> not gzip -> plain fallback delivers the raw bytes
        c = bytearray(z)
        c[rnd.intn(3)] ^= rnd.pick([1, 0x80, 0xff])
        return 'gzip-badheader', bytes(c)
    if k == 16:  # stored block with LEN/NLEN mismatch (corruption inside the stream at a byte boundary)
        data = text + b'tail\n'
        hdr = b'\x1f\x8b\x08\x00\x00\x00\x00\x00\x00\x03'
        body = bytearray()
        pos, offs = 0, []
        while pos < len(data):
            n = min(len(data) - pos, rnd.pick([1, 3, 7, 50, 4000]))
            last = pos + n >= len(data)
            offs.append(len(body))
            body += bytes([1 if last else 0]) + struct.pack('<HH', n, n ^ 0xffff) + data[pos:pos + n]
            pos += n
        body[rnd.pick(offs) + 3 + rnd.intn(2)] ^= 1 << rnd.intn(8)  # NLEN of some block
        return 'gzip-badstored', hdr + bytes(body) + struct.pack('<II', binascii.crc32(data) & 0xffffffff, len(data))
    if k == 17 and rnd.intn(2) == 0:  # one flipped bit anywhere; only compress/gzip itself is the oracle for these
        c = bytearray(z)
        c[rnd.intn(len(c))] ^= 1 << rnd.intn(8)
        NO_CROSS_CHECK.add(bytes(c))
        return 'gzip-bitflip', bytes(c)
    if k == 17:
        return 'gzip-trailing-garbage', z + rnd.pick([b'\0', b'garbage\n', b'\x1f\x8b', b'\x1f\x8b\x08\x00'])
    if k == 18:
        return 'gzip-of-empty', gz_member(b'', level)[0]
    return 'plain-looks-gzip', b'\x1f\x8b' + text


FILE_NAMES = ['a.log', 'b.log', 'c.txt', 'k.gz', 'm.log.gz', 'x[1].log', 'x1.log', 'we*ird', 'q?.log', 'qq.log', 'a[.log',
              '.hidden', 'sp ace.log', 'z.log', 'n-1.log', 'back\\slash', '[', 'ab]c']
DIR_NAMES = ['d1', 'd2', 'sub', 'deep', 'e[x]', 'logs.d']


def gen_tree(rnd, root, tier):
    """Creates the tree; returns (dirs, files{rel: kind})."""
    shutil.rmtree(root, ignore_errors=True)
    os.makedirs(root)
    dirs = ['']
    for _ in range(rnd.pick([0, 1, 2, 3, 5])):
        parent = rnd.pick(dirs)
        if parent.count('/') >= 3:
            continue
        d = go_join(parent, rnd.pick(DIR_NAMES)) if parent else rnd.pick(DIR_NAMES)
        if d not in dirs:
            os.makedirs(os.path.join(root, d), exist_ok=True)
            dirs.append(d)
    files = {}
    for _ in range(rnd.pick([1, 2, 3, 4, 6, 9])):
        d = rnd.pick(dirs)
        rel = go_join(d, rnd.pick(FILE_NAMES)) if d else rnd.pick(FILE_NAMES)
        if rel in files or rel in dirs:
            continue
        kind, data = gen_file(rnd, tier)
        with open(os.path.join(root, rel), 'wb') as f:
            f.write(data)
        files[rel] = kind
    # symlinks: to a file, to a directory, dangling
    for _ in range(rnd.pick([0, 0, 1, 2])):
        d = rnd.pick(dirs)
        name = rnd.pick(['ln1', 'ln2', 'ldir'])
        rel = go_join(d, name) if d else name
        if rel in files or rel in dirs or os.path.lexists(os.path.join(root, rel)):
            continue
        t = rnd.intn(3)
        if t == 0 and files:
            target = os.path.relpath(os.path.join(root, rnd.pick(sorted(files))), os.path.join(root, d))
        elif t == 1 and len(dirs) > 1:
            target = os.path.relpath(os.path.join(root, rnd.pick(dirs[1:])), os.path.join(root, d))
            # a link into an ancestor would make `*/*/*…` globs long but is harmless; keep
        else:
            target = 'nowhere'
        os.symlink(target, os.path.join(root, rel))
        files[rel] = 'symlink'
    return dirs, files


GLOBS = ['*', '*.log', '*.gz', '*/*', '*/*.log', 'd?/*', '[abk].*', '[^a]*', 'x[1].log', 'q?.log', 'nomatch*', '*/nomatch',
         'a[.log', '[', 'ab]c', 'we\\*ird', 'we*', '*/*/*', 'd1/*', 'sub/*.log', '[a-', 'back\\slash', '\\', '*[', '.*',
         'e[x]/*', 'e[[]x]/*', '?', 'logs.d/*.gz']


def gen_args(rnd, dirs, files):
    n = rnd.pick([0, 1, 1, 2, 2, 3, 4, 6])
    args = []
    fl = sorted(files)
    for _ in range(n):
        k = rnd.intn(16)
        if k >= 12:
            k = rnd.intn(4)
        if k < 4 and fl:
            a = rnd.pick(fl)
            if rnd.intn(6) == 0:
                a = './' + a
        elif k < 6:
            a = rnd.pick(GLOBS)
        elif k == 6:
            a = rnd.pick(['missing.log', 'd1/missing', 'a.log/x', 'no/such/dir/f'])
        elif k < 9 and len(dirs) > 1:
            a = rnd.pick(dirs[1:]) + rnd.pick(['', '', '/', '//'])
            if rnd.intn(5) == 0:
                a = './' + a
        elif k == 9:
            a = rnd.pick(['.', './', 'ldir', 'ln1'])
        elif k == 10 and args:
            a = rnd.pick(args)  # the same mention twice
        else:
            a = rnd.pick(['-', 'z.log', '*.log'])
        args.append(a)
    if rnd.intn(12) == 0:
        args = ['-'] + args[:rnd.intn(2)]
    return args

# ------------------------------------------------------------------ oracle + case line

def hx(b):
    return b.hex() if b else '-'


def hxl(l):
    return ';'.join(hx(x) for x in l) if l else '.'


def enc(s):
    return s.encode('utf-8', 'surrogateescape')


def plan_case(tree, cfg, args):
    """First pass: ask the Lean model which paths rare will open (`dirwalk.GlobExpand` over the tree)."""
    return 'C06 globx %d %s %s' % (1 if cfg['recursive'] else 0, hxl([enc(a) for a in args]), tree)


def build_case(root, tree, cfg, args, stdin, oracle, planned):
    """Second pass: the whole run; `planned` = the paths the model plans to open (their contents are read here)."""
    paths = set(planned)
    file_ents = []
    for p in sorted(paths):
        full = os.path.join(root, p)
        if p == '' or '\0' in p or not os.path.exists(full):  # ENOENT / ENOTDIR / dangling link
            continue
        isdir = os.path.isdir(full)
        content = b'' if isdir else open(full, 'rb').read()
        if isdir:
            ok, probed, dec, fails = False, 0, b'', False
        else:
            ok, probed, dec, fails = oracle(content)
        file_ents.append('%s:1:%d:%s:%d:%d:%s:%d' % (hx(enc(p)), 1 if isdir else 0, hx(content), 1 if ok else 0, probed, hx(dec), 1 if fails else 0))
    line = 'C06 runtree %d %d %d %d %s %s %s %s %s' % (
        1 if cfg['gunzip'] else 0, 1 if cfg['recursive'] else 0, cfg['readers'], cfg['batch'], cfg['mode'],
        hxl([enc(a) for a in args]), tree, ','.join(file_ents) if file_ents else '.', hx(stdin))
    if cfg.get('stdin_is_dir'):
        line += ' stdinfails'
    return line, sorted(paths | set(args) | {'<stdin>'}, key=len, reverse=True)


def run_driver(ctx, lines):
    p = subprocess.run([ctx['driver']], input=''.join(l + '\n' for l in lines).encode(), stdout=subprocess.PIPE,
                       stderr=subprocess.PIPE, timeout=3000)
    answers = p.stdout.decode().split('\n')
    if answers and answers[-1] == '':
        answers.pop()
    if p.returncode != 0 or len(answers) != len(lines):
        raise RuntimeError('driver_C06 answered %d of %d cases: %s' % (len(answers), len(lines), p.stderr[-500:]))
    return answers


def cli_cmd(exe, cfg, args):
    if cfg['mode'] == 'histo':
        cmd = [exe, 'histo', '-m', '(.*)', '-e', 'k', '-e', '{1}']
    elif cfg['mode'] == 'all':
        cmd = [exe, 'filter', '-m', '.*', '-e', '{src}:{line}:{0}']
    else:
        cmd = [exe, 'filter', '-m', chr(int(cfg['mode'].split(':')[1])), '-e', '{src}:{line}:{0}']
    if cfg['gunzip']:
        cmd.append('-z')
    if cfg['recursive']:
        cmd.append('-R')
    cmd += ['--readers', str(cfg['readers']), '--batch', str(cfg['batch']), '--workers', str(cfg['workers'])]
    return cmd + args


USAGE = [(b'Batch size must be >= 1', 1), (b'Must have at least 1 reader', 2), (b'Cannot decompress (-z) with stdin', 3)]


def canon_log(msg, names):
    """One `[Log] ` line (prefix stripped) -> the model's canonical form."""
    def name_of(rest, after):
        for n in names:
            nb = enc(n)
            if rest.startswith(nb + after):
                return nb
        i = rest.find(after)
        return rest[:i] if i >= 0 else rest
    for u, n in USAGE:
        if msg.startswith(u):
            return 'usage:%d' % n
    if msg.startswith(b'Path error: '):
        m = re.match(rb'Path error: .*?; Reading (.*) as a plain path$', msg, re.S)
        return 'patherr:' + hx(m.group(1)) if m else 'other:' + hx(msg)
    if msg.startswith(b'Error opening file '):
        return 'openerr:' + hx(name_of(msg[len(b'Error opening file '):], b': open '))
    if msg.startswith(b'Gunzip error for file '):
        return 'gunzipfallback:' + hx(name_of(msg[len(b'Gunzip error for file '):], b': '))
    if msg.startswith(b'Error reading '):
        return 'readerr:' + hx(name_of(msg[len(b'Error reading '):], b': '))
    if msg in (b'Read errors', b'Parse errors'):
        return 'final:' + hx(msg)
    return 'other:' + hx(msg)


def observe(rc, out, err, cfg, names):
    outl = out.split(b'\n')
    tail_ok = outl[-1] == b''
    outl = outl[:-1]
    logs, matched, read = [], None, None
    for l in err.split(b'\n'):
        if l.startswith(b'[Log] '):
            logs.append(canon_log(l[6:], names))
        else:
            m = re.match(rb'Matched: ([\d,]+) / ([\d,]+)', l)
            if m:
                matched, read = int(m.group(1).replace(b',', b'')), int(m.group(2).replace(b',', b''))
    if cfg['mode'] == 'histo':
        outl = []
    return {'exit': rc, 'logs': sorted(logs), 'out': sorted(hx(l) for l in outl), 'matched': matched, 'read': read,
            'stdout_newline_terminated': tail_ok}


def parse_model(ans):
    if not ans.startswith('ok '):
        return None
    kv = dict(f.split('=', 1) for f in ans[3:].split(' '))
    return {'exit': int(kv['exit']), 'errs': int(kv['errs']), 'read': int(kv['read']), 'matched': int(kv['matched']),
            'logs': [] if kv['logs'] == '.' else kv['logs'].split(','), 'out': [] if kv['out'] == '.' else kv['out'].split(';')}


def compare(obs, mod, cfg):
    diffs = []
    if obs['exit'] != mod['exit']:
        diffs.append('exit status %d, model %d' % (obs['exit'], mod['exit']))
    if obs['logs'] != sorted(mod['logs']):
        diffs.append('log lines %s, model %s' % (obs['logs'], sorted(mod['logs'])))
    if obs['out'] != mod['out']:
        a, b = obs['out'], mod['out']
        only_impl = [x for x in a if x not in set(b)][:3]
        only_model = [x for x in b if x not in set(a)][:3]
        diffs.append('stdout multiset differs: %d lines vs model %d; only impl %s; only model %s' % (len(a), len(b), only_impl, only_model))
    if cfg['mode'] != 'histo' and mod['logs'] and mod['logs'][0].startswith('usage:'):
        pass
    elif cfg['mode'] != 'histo' and (obs['matched'], obs['read']) != (mod['matched'], mod['read']):
        diffs.append('summary Matched %s / %s, model %d / %d' % (obs['matched'], obs['read'], mod['matched'], mod['read']))
    return diffs

# ------------------------------------------------------------------ single-failure matrix (spec level, no model)

MATRIX_KINDS = ['missing', 'enotdir', 'dir-as-file', 'dangling-link', 'gzip-truncated', 'gzip-badtrailer', 'gzip-badstored',
                'gzip-trailing-garbage']


def _matrix_bad_input(kind, root, rnd):
    """Creates the failing input; returns (argument, needs -z, log prefix, lines certainly delivered, lines possibly delivered)."""
    text = b''.join(b'bad line %d\n' % i for i in range(1, 8))
    z = gz_member(text, 6)[0]
    if kind == 'missing':
        return 'nope.log', False, b'Error opening file nope.log: ', [], []
    if kind == 'enotdir':
        return 'h1.log/x', False, b'Error opening file h1.log/x: ', [], []
    if kind == 'dir-as-file':
        os.makedirs(os.path.join(root, 'dd'), exist_ok=True)
        return 'dd', False, b'Error reading dd: ', [], []
    if kind == 'dangling-link':
        if not os.path.lexists(os.path.join(root, 'dang')):
            os.symlink('nowhere', os.path.join(root, 'dang'))
        return 'dang', False, b'Error opening file dang: ', [], []
    lines = text.split(b'\n')[:-1]
    if kind == 'gzip-truncated':
        data, sure, maybe = z[:len(z) - 1 - rnd.intn(len(z) - 12)], [], lines
    elif kind == 'gzip-badtrailer':
        c = bytearray(z)
        c[len(c) - 1 - rnd.intn(8)] ^= 1 << rnd.intn(8)
        data, sure, maybe = bytes(c), lines, lines
    elif kind == 'gzip-badstored':
        body = b'\x00' + struct.pack('<HH', 5, 5 ^ 0xffff) + text[:5] + b'\x01' + struct.pack('<HH', len(text) - 5, 0x1234) + text[5:]
        data = b'\x1f\x8b\x08\x00\x00\x00\x00\x00\x00\x03' + body + struct.pack('<II', binascii.crc32(text) & 0xffffffff, len(text))
        sure, maybe = [], lines[:1]
    else:
        data, sure, maybe = z + b'garbage\n', lines, lines
    name = 'bad-%s.gz' % kind
    with open(os.path.join(root, name), 'wb') as f:
        f.write(data)
    return name, True, b'Error reading ' + enc(name) + b': ', sure, maybe


def failure_matrix(ctx, exe, rnd):
    """The second sentence of the property, asserted DIRECTLY on the real binary (no model in between): for every kind of
    single-input failure x position of the failing input among healthy ones x --readers: exit status 2, `Read errors`, exactly
    one [Log] line naming the failing input, every healthy input printed completely (name:lineno:line for all of its lines),
    and the same command line without the failing input exits 0 with the same healthy output."""
    root = os.path.join(ctx['work'], 'matrix')
    shutil.rmtree(root, ignore_errors=True)
    os.makedirs(root)
    healthy = {}
    for i, name in enumerate(['h1.log', 'h2.log', 'h3.log']):
        ls = [b'%s row %d' % (name.encode(), j) for j in range(1, [3, 40, 1200][i] + 1)]
        healthy[name] = ls
        with open(os.path.join(root, name), 'wb') as f:
            f.write(b'\n'.join(ls) + (b'\n' if i != 1 else b''))   # h2.log: no newline at the end
    hz = [b'zipped row %d' % j for j in range(1, 30)]
    with open(os.path.join(root, 'h4.gz'), 'wb') as f:
        f.write(gz_member(b'\n'.join(hz) + b'\n', 9, b'orig.log')[0])
    matrix, violations, runs, hangs = {}, [], 0, 0

    def expected(names, gunzip):
        out = []
        for n in names:
            ls = hz if (n == 'h4.gz' and gunzip) else healthy.get(n)
            out += [enc(n) + b':%d:' % (j + 1) + l for j, l in enumerate(ls)]
        return sorted(out)

    def invoke(args, gunzip, readers, stdin_fd=None):
        cmd = [exe, 'filter', '-m', '.*', '-e', '{src}:{line}:{0}'] + (['-z'] if gunzip else []) + \
              ['--readers', str(readers), '--batch', str(rnd.pick([1, 7, 1000]))] + args
        kw = {'stdin': stdin_fd} if stdin_fd is not None else {'input': b''}
        pr = subprocess.run(cmd, cwd=root, stdout=subprocess.PIPE, stderr=subprocess.PIPE, timeout=15, **kw)
        logs = [l[6:] for l in pr.stderr.split(b'\n') if l.startswith(b'[Log] ')]
        return cmd, pr.returncode, pr.stdout.split(b'\n')[:-1], logs

    for kind in MATRIX_KINDS:
        cell = {'runs': 0, 'exit2': 0, 'named_once': 0, 'others_complete': 0, 'control_exit0': 0}
        matrix[kind] = cell
        for pos in (0, 1, 3):
            for readers in (1, 2, 8):
                if hangs >= 3:      # every further run would cost its full timeout
                    continue
                bad, needz, logpfx, sure, maybe = _matrix_bad_input(kind, root, rnd)
                gunzip = needz or rnd.intn(2) == 0
                good = ['h1.log', 'h2.log', 'h3.log'] + (['h4.gz'] if gunzip else [])
                good = good[:3] if pos != 3 else good
                args = good[:pos] + [bad] + good[pos:]
                try:
                    cmd, rc, out, logs = invoke(args, gunzip, readers)
                    _, rc0, out0, logs0 = invoke(good, gunzip, readers)
                except subprocess.TimeoutExpired:
                    hangs += 1
                    cell['hangs'] = cell.get('hangs', 0) + 1
                    if hangs <= 2:
                        violations.append({'key': 'failure-matrix-hang', 'kind': kind, 'args': args, 'readers': readers, 'gunzip': gunzip,
                                           'explanation': 'the real CLI did not terminate within 15 s on three small healthy files and one failing input'})
                    continue
                runs += 2
                cell['runs'] += 1
                problems = []
                if rc == 2 and b'Read errors' in logs:
                    cell['exit2'] += 1
                else:
                    problems.append('exit status %d (logs %s), expected 2 with "Read errors"' % (rc, logs[:4]))
                named = [l for l in logs if l.startswith(logpfx)]
                fb, fb0 = [[l for l in ll if l.startswith(b'Gunzip error for file ')] for ll in (logs, logs0)]
                nplain = len([g for g in good if g != 'h4.gz']) if gunzip else 0   # -z on a plain file: one fallback line each
                others = [l for l in logs if l != b'Read errors' and not l.startswith(logpfx) and l not in fb]
                if len(named) == 1 and not others and len(fb) == nplain + (1 if gunzip and kind == 'dir-as-file' else 0):
                    cell['named_once'] += 1
                else:
                    problems.append('expected exactly one [Log] line starting %r and no other, got %s' % (logpfx, logs[:4]))
                mine = sorted(l for l in out if not l.startswith(enc(bad) + b':'))
                theirs = sorted((l for l in out if l.startswith(enc(bad) + b':')),     # workers may reorder the lines of one input
                                key=lambda l: int(l[len(enc(bad)) + 1:].split(b':', 1)[0]))
                exp_bad = [enc(bad) + b':%d:' % (j + 1) + l for j, l in enumerate(maybe)]
                prefix_ok = theirs[:-1] == exp_bad[:max(len(theirs) - 1, 0)] and len(theirs) <= len(exp_bad) and \
                    (not theirs or exp_bad[len(theirs) - 1].startswith(theirs[-1]))     # the last line may be cut by the failure
                if mine == expected(good, gunzip) and prefix_ok and theirs[:len(sure)] == exp_bad[:len(sure)] and len(theirs) >= len(sure):
                    cell['others_complete'] += 1
                else:
                    problems.append('healthy inputs not printed completely / failing input printed wrongly: %d healthy lines of %d, '
                                    '%d lines of the failing input (between %d and %d expected)'
                                    % (len(mine), len(expected(good, gunzip)), len(theirs), len(sure), len(maybe)))
                if rc0 == 0 and logs0 == fb0 and len(fb0) == nplain and sorted(out0) == expected(good, gunzip):
                    cell['control_exit0'] += 1
                else:
                    problems.append('control run without the failing input: exit %d, logs %s' % (rc0, logs0[:3]))
                if problems and len(violations) < 4:
                    violations.append({'key': 'failure-matrix', 'kind': kind, 'cmd': ['rare'] + cmd[1:], 'cwd': root, 'problems': problems,
                                       'explanation': 'a single failing input must be counted (exit 2, one [Log] line naming it) and must '
                                                      'not keep the other inputs from being printed completely'})
    # standard input that fails (a directory as stdin): the only input
    cell = {'runs': 0, 'exit2': 0, 'named_once': 0}
    matrix['stdin-is-dir'] = cell
    for args in ([], ['-']):
        fd = os.open(root, os.O_RDONLY)
        try:
            cmd, rc, out, logs = invoke(args, False, 1, stdin_fd=fd)
        except subprocess.TimeoutExpired:
            violations.append({'key': 'failure-matrix-hang', 'kind': 'stdin-is-dir', 'args': args})
            continue
        finally:
            os.close(fd)
        runs += 1
        cell['runs'] += 1
        cell['exit2'] += 1 if rc == 2 and b'Read errors' in logs else 0
        cell['named_once'] += 1 if len([l for l in logs if l.startswith(b'Error reading <stdin>: ')]) == 1 else 0
        if not (rc == 2 and b'Read errors' in logs and out == []) and len(violations) < 5:
            violations.append({'key': 'failure-matrix', 'kind': 'stdin-is-dir', 'cmd': ['rare'] + cmd[1:], 'problems': ['exit %d logs %s' % (rc, logs[:3])]})
    for kind, cell in matrix.items():
        if cell['runs'] == 0 and hangs == 0 and not violations:
            violations.append({'key': 'failure-matrix-coverage', 'kind': kind, 'explanation': 'no run exercised this failure kind'})
    if not violations:
        shutil.rmtree(root, ignore_errors=True)
    return runs, violations, matrix


class GzOracle:
    """compress/gzip itself is the oracle for what a gzip reader yields (`corr_C06 run C06`, op `gzoracle`); the
    independent RFC1952/zlib computation above cross-checks it: header verdict and failure flag must agree, the decoded
    bytes must agree exactly for streams that end cleanly and up to a few trailing bytes for streams cut inside the deflate
    data (Go's inflater needs slightly more look-ahead than zlib before it emits the last symbols)."""

    def __init__(self, corr_bin):
        self.p = subprocess.Popen([corr_bin, 'run', 'C06'], stdin=subprocess.PIPE, stdout=subprocess.PIPE)
        self.cache = {}
        self.stats = {'files': 0, 'zlib_agrees_exactly': 0, 'go_shorter_on_truncated_stream': 0, 'max_shorter_by': 0}
        self.disagreements = []

    def __call__(self, content):
        if content in self.cache:
            return self.cache[content]
        self.p.stdin.write(b'C06 gzoracle ' + hx(content).encode() + b'\n')
        self.p.stdin.flush()
        f = self.p.stdout.readline().decode().split()
        if len(f) != 5 or f[0] != 'ok':
            raise RuntimeError('gzoracle answered %r' % f)
        res = (f[1] == '1', int(f[2]), b'' if f[3] == '-' else bytes.fromhex(f[3]), f[4] == '1')
        self.cache[content] = res
        self.stats['files'] += 1
        py = None if content in NO_CROSS_CHECK else gz_oracle(content, bytewise_ok=True)
        if py is not None:
            if py[0] != res[0] or py[3] != res[3]:
                self.disagreements.append({'content_hex': hx(content)[:400], 'go': [res[0], len(res[2]), res[3]], 'zlib': [py[0], len(py[2]), py[3]]})
            elif py[2] == res[2]:
                self.stats['zlib_agrees_exactly'] += 1
            elif res[3] and py[2].startswith(res[2]) and len(py[2]) - len(res[2]) <= 16:
                self.stats['go_shorter_on_truncated_stream'] += 1
                self.stats['max_shorter_by'] = max(self.stats['max_shorter_by'], len(py[2]) - len(res[2]))
            else:
                self.disagreements.append({'content_hex': hx(content)[:400], 'go_len': len(res[2]), 'zlib_len': len(py[2])})
        return res

    def close(self):
        try:
            self.p.stdin.close()
            self.p.wait(timeout=10)
        except Exception:
            self.p.kill()


# ------------------------------------------------------------------ entry point

def run(ctx):
    tier = ctx['tier']
    rnd = Rand(ctx['seed'] * 1000003 + 606)
    exe = build_rare(ctx)
    oracle = GzOracle(os.path.join(ctx['bin'], 'corr_C06'))
    base = os.path.join(ctx['work'], 'e2e')
    shutil.rmtree(base, ignore_errors=True)
    os.makedirs(base)
    ntrees = 45 if tier == 'quick' else 300
    per_tree = 6 if tier == 'quick' else 8
    pre = []    # (cfg, args, stdin, root, tree)
    kinds = {}
    for t in range(ntrees):
        root = os.path.join(base, 't%04d' % t)
        dirs, files = gen_tree(rnd, root, tier)
        tree = tree_spec(root)
        for k in files.values():
            kinds['file:' + k] = kinds.get('file:' + k, 0) + 1
        for _ in range(per_tree):
            args = gen_args(rnd, dirs, files)
            healthy = [f for f, k in sorted(files.items()) if k in ('plain', 'empty', 'gzip', 'gzip-multi', 'gzip-of-empty', 'plain-looks-gzip')
                       and not _has_meta(f)]
            if healthy and rnd.intn(3) == 0:  # a run in which every input is readable
                args = [rnd.pick(healthy) for _ in range(rnd.pick([1, 2, 3, 5]))]
            mode = rnd.pick(['all', 'all', 'all', 'all', 'byte:107', 'byte:49', 'histo'])
            cfg = {'gunzip': rnd.intn(2) == 0, 'recursive': rnd.intn(3) == 0,
                   'readers': rnd.pick([0, -1, 1] if rnd.intn(30) == 0 else [1, 2, 3, 8]),
                   'batch': rnd.pick([0, -5, 1] if rnd.intn(30) == 0 else [1, 2, 3, 1000]),
                   'workers': rnd.pick([1, 2, 4]), 'mode': mode}
            stdin = gen_text(rnd, numeric=(mode == 'histo'))
            if (not args or args[0] == '-') and rnd.intn(4) == 0:
                cfg['stdin_is_dir'] = True   # standard input is a directory: the first Read fails (EISDIR)
                stdin = b''
            pre.append((cfg, args, stdin, root, tree))
    # pass 1: the plan, from the Lean model of the file system
    plans = run_driver(ctx, [plan_case(tree, cfg, args) for (cfg, args, stdin, root, tree) in pre])
    jobs = []   # (case line, cfg, args, stdin, root, names)
    outside = 0
    for (cfg, args, stdin, root, tree), ans in zip(pre, plans):
        if not ans.startswith('ok '):
            outside += 1     # `unmodelled`: a path that leaves the tree
            continue
        planned = [] if ans[3:] == '.' else [bytes.fromhex(h).decode('utf-8', 'surrogateescape') if h != '-' else '' for h in ans[3:].split(';')]
        bc = build_case(root, tree, cfg, args, stdin, oracle, planned)
        jobs.append((bc[0], cfg, args, stdin, root, bc[1]))
    oracle.close()
    # pass 2: the run
    answers = run_driver(ctx, [j[0] for j in jobs])
    violations = [{'key': 'gzip-oracle-disagreement', 'kind': 'oracle', 'detail': d,
                   'explanation': 'compress/gzip and the independent RFC1952/zlib computation disagree about this file'}
                  for d in oracle.disagreements[:3]]
    stats = {'exit0': 0, 'exit1': 0, 'exit2': 0, 'usage': 0, 'stdin': 0, 'stdin_read_error': 0, 'with_read_error': 0, 'with_open_error': 0,
             'with_gunzip_fallback': 0, 'with_path_error': 0, 'recursive_walks': 0, 'histo_parse_error_exit': 0,
             'stdout_lines': 0}
    runs = 0
    env = dict(os.environ, GOMAXPROCS=str(rnd.pick([1, 2, 4, 8])))
    for (line, cfg, args, stdin, root, names), ans in zip(jobs, answers):
        mod = parse_model(ans)
        if mod is None:
            violations.append({'key': 'model-declined', 'case': line[:2000], 'model': ans[:300]})
            continue
        cmd = cli_cmd(exe, cfg, args)
        try:
            if cfg.get('stdin_is_dir'):
                fd = os.open(root, os.O_RDONLY)
                try:
                    pr = subprocess.run(cmd, cwd=root, stdin=fd, stdout=subprocess.PIPE, stderr=subprocess.PIPE, timeout=60, env=env)
                finally:
                    os.close(fd)
            else:
                pr = subprocess.run(cmd, cwd=root, input=stdin, stdout=subprocess.PIPE, stderr=subprocess.PIPE, timeout=60, env=env)
        except subprocess.TimeoutExpired:
            violations.append({'key': 'e2e-hang', 'kind': 'hang', 'cmd': cmd[1:], 'tree': root,
                               'explanation': 'the real CLI did not terminate on this input set'})
            continue
        runs += 1
        obs = observe(pr.returncode, pr.stdout, pr.stderr, cfg, names)
        diffs = compare(obs, mod, cfg)
        stats['exit%d' % mod['exit']] = stats.get('exit%d' % mod['exit'], 0) + 1
        stats['stdout_lines'] += len(mod['out'])
        lg = ' '.join(mod['logs'])
        for k, pat in (('usage', 'usage:'), ('with_read_error', 'readerr:'), ('with_open_error', 'openerr:'),
                       ('with_gunzip_fallback', 'gunzipfallback:'), ('with_path_error', 'patherr:')):
            if pat in lg:
                stats[k] += 1
        if 'final:' + hx(b'Parse errors') in lg:
            stats['histo_parse_error_exit'] += 1
        if not args or args[0] == '-':
            stats['stdin'] += 1
            if 'readerr:' + hx(b'<stdin>') in lg:
                stats['stdin_read_error'] += 1
        if cfg['recursive'] and any(os.path.isdir(os.path.join(root, a)) for a in args):
            stats['recursive_walks'] += 1
        if diffs and len(violations) < 5:
            keep = os.path.join(ctx['work'], 'failing-tree-%d' % len(violations))
            shutil.rmtree(keep, ignore_errors=True)
            shutil.copytree(root, keep, symlinks=True)
            violations.append({'key': 'e2e-mismatch', 'kind': 'e2e', 'cmd': ['rare'] + cmd[1:], 'cwd': keep, 'stdin_hex': hx(stdin),
                               'differences': diffs, 'case': line if len(line) < 20000 else line[:20000] + '…',
                               'implementation': {k: (v if k != 'out' else v[:20]) for k, v in obs.items()},
                               'model': ans[:3000],
                               'explanation': 'the real rare binary and the Lean model Rare.C06.run (with the file-system and gzip '
                                              'oracle data computed by this script) disagree on this invocation'})
    shutil.rmtree(base, ignore_errors=True)
    mruns, mviol, matrix = failure_matrix(ctx, exe, rnd)
    runs += mruns
    violations += mviol
    stats.update(kinds)
    stats['outside_the_tree_skipped'] = outside
    return {'runs': runs, 'violations': violations, 'e2e_trees': ntrees, 'e2e_stats': stats, 'failure_matrix': matrix,
            'gzip_oracle_cross_check': oracle.stats,
            'assumptions': [
                'failure_matrix: asserted directly on the binary, without the model: every failure kind x position among healthy inputs x '
                '--readers 1/2/8 gives exit 2 + "Read errors", one [Log] line naming the failing input, every healthy input printed completely; '
                'the same command without the failing input exits 0',
                'e2e: the plan comes from the Lean model of the file system (tree sent with the case); file contents and the gzip '
                'oracle (compress/gzip itself, cross-checked with RFC1952 header rules + zlib) are computed by extra/C06.py; '
                'a wrong oracle shows up as a mismatch, not as silence',
                'faults used: missing path, ENOTDIR path, directory given as file, a directory as standard input, dangling symlink, truncated gzip (any cut), bad gzip '
                'trailer, bad stored-block length, trailing garbage, corrupt header (fallback); permission faults cannot be produced as root',
                'file contents, Read faults and compress/gzip are oracle parameters of the model; path resolution, Match, Glob, Walk '
                'are modelled in Lean (Rare/Model/C06Glob.lean) and checked here against the real binary']}
