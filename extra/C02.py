"""C02 extra step: the property's CLI observables on the real binary built from /repo.

* `rare --color filter -m/-d … file` (one reader, one worker): stdout must be, byte for byte and in
  input order, what the Lean model `filterLine` (proved: colour codes removed = the matched line) gives
  for every line, using the index list of the real matcher (`corr_C02 run`, op `idx`).  This reaches
  what the in-process correspondence does not: main.go's `--color` plumbing, real stdout, multi-line
  files, batching.
* `rare --nocolor filter -l …`: every output line is `<source> <true 1-based line number>: <line>`.
* `rare --nocolor filter -e '{src}:{line}:{1}|{@}'`: source, line number, group 1 and the NUL-joined
  groups as the model's `ctx` op gives them.
* stdin with pauses and a consumer that reads late (`stdin_timeflush`): the real `rare filter -l` reading stdin
  (`OpenReaderToChan`, the real 250 ms `AutoFlushTimeout`) while nobody reads its stdout: 32 long lines at full speed
  (full batches: the stdout pipe fills, the match channel fills, the worker blocks), then after a pause longer than the
  flush timeout a burst of lines (the first one is time-flushed alone as a short batch and waits in the batch channel
  while the batcher appends its successors), twice; only after stdin is closed is stdout read.  Every output line must
  be `<stdin> <k>: <line k>`.
* several files through ONE worker (`many_sources`, round 4d): `rare filter --workers 1 --readers 1 -m '(\w+)=(\d+)'
  -e '{src}:{line}:{@}' f1 f2 …` over one-line files and short files whose matching lines carry the same line numbers.
  The worker's expression context is one object for all files and line numbers restart in every file; every output
  line must carry the groups of ITS line, as the model's `ctxhist` op (context-free `captureOf` per line) gives them.
"""
import os, subprocess, sys, time
sys.path.insert(0, os.path.dirname(__file__))
from common import build_rare, Rand

PATTERNS = [("m", r"(\w+) (\d+)"), ("m", r"(?P<word>\w+)( (?P<num>\d+))?"), ("m", r"(a|(b))(c)?"), ("m", r"(\d+)|(\w+)"),
            ("m", r"((a)(b)?)+"), ("m", r"(?:(b)|(a))*"), ("m", r"\w+"), ("m", r"(m+)"), ("m", r"(\x1b\[[0-9;]*m)(\w+)"),
            ("m", r"(\S+)\s+(\S+)\s*(\S*)"), ("d", "%{a} %{b}"), ("d", "[%{lvl}] %{msg}"), ("d", "%{a} %{?skip} %{c}")]
WORDS = ["abc", "12", "b", "ab", "hello", "7", "c", "zzz", "ERROR", "é", "éé1", "m", "mm", "[31m", "[ok]",
         "\x1b[1m", "\x1b[0m", "\x1b[31m", "\x1b[38;5;196m", "\x1b", "\x1b[", "日本", "a:b", "\t", ""]


def hx(b):
    return b.hex() if b else "-"


def lines_through(tool, text):
    p = subprocess.run(tool, input=text.encode(), stdout=subprocess.PIPE, stderr=subprocess.PIPE, timeout=600)
    if p.returncode != 0:
        raise RuntimeError("%s failed: %s" % (tool[0], p.stderr[-500:]))
    return p.stdout.decode().split("\n")[:-1]


def run_extra(ctx):
    rnd = Rand(ctx["seed"] * 65537 + 2)
    exe = build_rare(ctx)
    work = ctx["work"]
    corr = os.path.join(ctx["bin"], "corr_C02")
    nfiles = 3 if ctx["tier"] == "quick" else 20
    nlines = 120 if ctx["tier"] == "quick" else 1500
    runs, violations = 0, []

    def viol(key, **kw):
        if len(violations) < 5:
            violations.append(dict(kw, key=key))

    for fi in range(nfiles):
        lines = []
        for _ in range(nlines):
            n = 1 + rnd.intn(4)
            parts = []
            for k in range(n):
                parts.append(rnd.pick(WORDS))
            lines.append(rnd.pick([" ", " ", ":", ""]).join(parts).encode())
        path = os.path.join(work, "e2e_filter_%d.txt" % fi)
        with open(path, "wb") as f:
            f.write(b"".join(l + b"\n" for l in lines))
        kind, pat = PATTERNS[(fi + rnd.intn(len(PATTERNS))) % len(PATTERNS)]
        flag = "-m" if kind == "m" else "-d"
        batch = rnd.pick(["1", "7", "1000"])
        idx = lines_through([corr, "run", "C02"], "".join("C02 idx %s %s %s\n" % (kind, hx(pat.encode()), hx(l)) for l in lines))
        if len(idx) != len(lines) or any(not a.startswith("ok ") for a in idx):
            raise RuntimeError("idx op failed: %r" % idx[:3])
        idx = [a[3:] for a in idx]
        for en, colorflag in (("1", "--color"), ("0", "--nocolor")):
            model = lines_through([ctx["driver"]], "".join(
                "C02 filt %s %s %s %s %s\n" % (en, kind, hx(pat.encode()), hx(l), ix) for l, ix in zip(lines, idx)))
            want = b"".join(bytes.fromhex(m[3:]) for m in model if m.startswith("ok ") and m != "ok -")
            if any(not m.startswith("ok") for m in model):
                viol("e2e-model-panic", pattern=pat, answers=[m for m in model if not m.startswith("ok")][:3])
                continue
            p = subprocess.run([exe, colorflag, "filter", flag, pat, "--workers", "1", "--readers", "1", "--batch", batch, path],
                               stdout=subprocess.PIPE, stderr=subprocess.PIPE, timeout=300)
            runs += 1
            if p.stdout != want:
                got = p.stdout.split(b"\n")
                exp = want.split(b"\n")
                k = next((i for i in range(min(len(got), len(exp))) if got[i] != exp[i]), min(len(got), len(exp)))
                viol("e2e-filter-output", pattern=pat, color=colorflag, file=path, first_diff_line=k,
                     got=got[k].hex() if k < len(got) else None, want=exp[k].hex() if k < len(exp) else None)
        # -l: source and true line number
        p = subprocess.run([exe, "--nocolor", "filter", "-l", flag, pat, "--workers", "1", "--readers", "1", "--batch", batch, path],
                           stdout=subprocess.PIPE, stderr=subprocess.PIPE, timeout=300)
        runs += 1
        want = b""
        model = lines_through([ctx["driver"]], "".join(
            "C02 filt 0 %s %s %s %s\n" % (kind, hx(pat.encode()), hx(l), ix) for l, ix in zip(lines, idx)))
        for n, (l, m) in enumerate(zip(lines, model), start=1):
            if m != "ok -":
                want += path.encode() + b" " + str(n).encode() + b": " + l + b"\n"
        if p.stdout != want:
            viol("e2e-filter-linenumbers", pattern=pat, file=path)
        # {src}:{line}:{1}|{@}
        p = subprocess.run([exe, "--nocolor", "filter", flag, pat, "-e", "{src}:{line}:{1}|{@}", "--workers", "1", "--readers", "1",
                            "--batch", batch, path], stdout=subprocess.PIPE, stderr=subprocess.PIPE, timeout=300)
        runs += 1
        cases = []
        for n, (l, ix) in enumerate(zip(lines, idx), start=1):
            for key in ("1", "@"):
                cases.append("C02 ctx %s %s . . %s %d %s\n" % (hx(l), ix if ix != "." else "0,0", hx(path.encode()), n, hx(key.encode())))
        ans = lines_through([ctx["driver"]], "".join(cases))
        want = b""
        for n, (l, ix) in enumerate(zip(lines, idx), start=1):
            if ix == ".":
                continue
            g1, arr = ans[2 * (n - 1)], ans[2 * (n - 1) + 1]
            if not (g1.startswith("ok ") and arr.startswith("ok ")):
                viol("e2e-ctx-model", line=l.hex(), answers=[g1, arr])
                continue
            b1 = bytes.fromhex(g1[3:]) if g1 != "ok -" else b""
            ba = bytes.fromhex(arr[3:]) if arr != "ok -" else b""
            want += path.encode() + b":" + str(n).encode() + b":" + b1 + b"|" + ba + b"\n"
        if p.stdout != want:
            got, exp = p.stdout.split(b"\n"), want.split(b"\n")
            k = next((i for i in range(min(len(got), len(exp))) if got[i] != exp[i]), min(len(got), len(exp)))
            viol("e2e-src-line-groups", pattern=pat, file=path, first_diff_line=k,
                 got=got[k].hex() if k < len(got) else None, want=exp[k].hex() if k < len(exp) else None)
    # {name}: unnamed groups before / around the named ones, an optional group that does not participate, a repeated name
    npath = os.path.join(work, "e2e_named.txt")
    with open(npath, "w") as f:
        f.write("GET /x 200\nPOST /a/b 404\nid=42;\nxyz\n")
    for pat, expr, want in [
            (r"(\w+) (?P<path>\S+) (?P<status>\d+)", "{path}|{status}|{1}", b"/x|200|GET\n/a/b|404|POST\n"),
            (r"(x)?(id=(?P<id>\d+));", "{id}|{2}|[{1}]", b"42|id=42|[]\n"),
            (r"^(?P<a>\w)(\w)(?P<a>\w)$", "{a}{2}", b"zy\n")]:
        p = subprocess.run([exe, "--nocolor", "filter", "-m", pat, "-e", expr, "--workers", "1", "--readers", "1", npath],
                           stdout=subprocess.PIPE, stderr=subprocess.PIPE, timeout=120)
        runs += 1
        if p.stdout != want:
            viol("e2e-named-group", pattern=pat, expression=expr, got=p.stdout.decode(errors="replace"), want=want.decode())
    r, v = stdin_timeflush(exe, rnd, ctx["tier"])
    runs += r
    for x in v:
        viol(x.pop("key"), **x)
    r, v = many_sources(exe, rnd, ctx)
    runs += r
    for x in v:
        viol(x.pop("key"), **x)
    return {"runs": runs, "violations": violations,
            "assumptions": ["e2e step: one reader and one worker (input order is then a theorem, fifo_order); index lists of the "
                            "real matchers are taken from the harness binary (op idx)"]}


def stdin_timeflush(exe, rnd, tier):
    """see the module comment; returns (runs, violations)"""
    runs, out = 0, []
    for rep in range(1 if tier == "quick" else 4):
        batch = rnd.pick([4, 4, 8])
        width = 16384 + rnd.intn(64)
        n = [0]

        def mk(k):
            n[0] += 1
            return b"L%d-" % n[0] + rnd.pick([b"a", b"b", b"Q"]) * width

        first = [mk(0) for _ in range(8 * batch)]
        bursts = [[mk(0) for _ in range(2 + rnd.intn(3))] for _ in range(2)]
        p = subprocess.Popen([exe, "--nocolor", "filter", "-l", "-m", r"^(L\d+)-\w*$", "--workers", "1", "--batch", str(batch),
                              "--batch-buffer", "64"], stdin=subprocess.PIPE, stdout=subprocess.PIPE, stderr=subprocess.DEVNULL)
        try:
            p.stdin.write(b"".join(l + b"\n" for l in first))
            p.stdin.flush()
            for b in bursts:
                time.sleep(0.4)          # longer than AutoFlushTimeout (250 ms)
                p.stdin.write(b"".join(l + b"\n" for l in b))
                p.stdin.flush()
            time.sleep(0.05)
            p.stdin.close()
            time.sleep(0.05)
            got = p.stdout.read()        # late consumption starts here
            p.wait(timeout=60)
        finally:
            if p.poll() is None:
                p.kill()
        runs += 1
        lines = first + [l for b in bursts for l in b]
        want = b"".join(b"<stdin> %d: " % (k + 1) + l + b"\n" for k, l in enumerate(lines))
        if got != want:
            g, w = got.split(b"\n"), want.split(b"\n")
            k = next((i for i in range(min(len(g), len(w))) if g[i] != w[i]), min(len(g), len(w)))
            out.append({"key": "e2e-stdin-timeflush-late-consumer", "batch": batch, "lines": len(lines), "first_diff_output_line": k + 1,
                        "got": (g[k][:40].decode(errors="replace") if k < len(g) else None),
                        "want": (w[k][:40].decode(errors="replace") if k < len(w) else None),
                        "input": "%d lines of %d bytes at once, pause 0.4 s, burst of %d lines, pause 0.4 s, burst of %d lines; stdout read after stdin was closed"
                                 % (len(first), width, len(bursts[0]), len(bursts[1]))})
    return runs, out


def many_sources(exe, rnd, ctx):
    """see the module comment; returns (runs, violations)"""
    runs, out = 0, []
    pat = r"(\w+)=(\d+)"
    d = os.path.join(ctx["work"], "e2e_sources")
    os.makedirs(d, exist_ok=True)
    words = ["alpha", "beta", "gamma", "x", "y_2", "Zq"]
    for rep in range(2 if ctx["tier"] == "quick" else 12):
        files = []
        shape = rep % 2      # 0: one-line files; 1: short files, matching lines at the same numbers, noise between
        for k in range(3 + rnd.intn(4)):
            if shape == 0:
                lines = ["%s=%d" % (rnd.pick(words), rnd.intn(100))]
            else:
                lines = [("%s=%d" % (rnd.pick(words), rnd.intn(100))) if (i % 2 == 0 or rnd.intn(4) == 0) else rnd.pick(["noise", "", "a = 1"])
                         for i in range(1 + rnd.intn(5))]
            path = os.path.join(d, "s%d_%d.log" % (rep, k))
            with open(path, "w") as f:
                f.write("".join(l + "\n" for l in lines))
            files.append((path, lines))
        seq = "+".join("%s/%d/%s" % (hx(path.encode()), n, hx(l.encode())) for path, lines in files for n, l in enumerate(lines, start=1))
        model = lines_through([ctx["driver"]], "C02 ctxhist 0 1000 %s %s %s\n" % (hx(pat.encode()), ";".join(hx(k) for k in (b"src", b"line", b"@")), seq))
        if len(model) != 1 or not model[0].startswith("ok read="):
            out.append({"key": "e2e-many-sources-model", "answer": model[:1]})
            continue
        body = model[0].split("matches=", 1)[1]
        want = b""
        for row in ([] if body == "." else body.split("+")):
            src, num, _line, _ix, ext = row.split("/")
            src, ext = bytes.fromhex(src), bytes.fromhex(ext)
            pre = src + b"|" + num.encode() + b"|"
            if not ext.startswith(pre):
                out.append({"key": "e2e-many-sources-model", "answer": row})
                continue
            want += src + b":" + num.encode() + b":" + ext[len(pre):] + b"\n"
        batch = rnd.pick(["1", "3", "1000"])
        p = subprocess.run([exe, "--nocolor", "filter", "--workers", "1", "--readers", "1", "--batch", batch, "-m", pat, "-e", "{src}:{line}:{@}"]
                           + [f[0] for f in files], stdout=subprocess.PIPE, stderr=subprocess.PIPE, timeout=120)
        runs += 1
        if p.stdout != want:
            g, w = p.stdout.split(b"\n"), want.split(b"\n")
            k = next((i for i in range(min(len(g), len(w))) if g[i] != w[i]), min(len(g), len(w)))
            out.append({"key": "e2e-many-sources-one-context", "pattern": pat, "expression": "{src}:{line}:{@}", "batch": batch,
                        "files": [{"name": os.path.basename(f[0]), "lines": f[1]} for f in files], "first_diff_output_line": k + 1,
                        "got": (g[k].decode(errors="replace") if k < len(g) else None),
                        "want": (w[k].decode(errors="replace") if k < len(w) else None)})
    return runs, out


def run(*a, **k):
    return run_extra(a[0])
