"""C04 extra step: held line slices under CONCURRENT readers, with the race detector.

In rare the reader goroutine sits inside Scan() (Reads into the scanner's buffer, regrows) while extractor workers read
the lines of batches handed out earlier.  The correspondence harness built with `go build -race` runs `conc` cases
(harness/corr/c04conc.go): the real scanners / the real OpenReaderToChan goroutine against 1-4 consumer goroutines
that keep every slice and re-read them while scanning continues.  A write into memory a consumer is reading is a
DATA RACE report (exit 66); a re-read that differs from the reference split is `bad>0`.  The model's answer (bad=0)
is the theorems held_slices_intact_at_every_call / held_slice_survives_every_step."""
import os, subprocess, sys, time
sys.path.insert(0, os.path.dirname(__file__))
from common import run as _run


def run(ctx):
    harn = os.path.join(ctx["root"], "harness")
    modfile = os.path.join(os.path.dirname(ctx["bin"]), "gomod", "go.mod")
    if not os.path.exists(modfile):
        modfile = os.path.join(harn, "go.mod")
    os.makedirs(ctx["work"], exist_ok=True)
    exe = os.path.join(ctx["work"], "corr_C04_race")
    p = subprocess.run(["go", "build", "-race", "-modfile", modfile, "-tags", "verif c04", "-o", exe, "./corr"], cwd=harn,
                       env=ctx["goenv"], stdout=subprocess.PIPE, stderr=subprocess.STDOUT, text=True, timeout=1200)
    if p.returncode != 0:
        raise RuntimeError("go build -race of the correspondence harness failed: " + p.stdout[-2000:])
    budget = 4.0 if ctx["tier"] == "quick" else 60.0
    if os.environ.get("VERIF_C04_RACE_BUDGET"):
        budget = float(os.environ["VERIF_C04_RACE_BUDGET"])
    env = dict(os.environ, GORACE="halt_on_error=1 exitcode=66 atexit_sleep_ms=0")
    violations, done, rounds, lines = [], 0, 0, 0
    t0 = time.time()
    while time.time() - t0 < budget and not violations:
        rounds += 1
        rc, out, err = _run([exe, "run", "C04"], inp=("C04 conccases %d\n" % (ctx["seed"] * 1000 + rounds)).encode(), timeout=60, env=env)
        line = out.decode("utf8", "replace").strip()
        if not line.startswith("ok "):
            raise RuntimeError("conccases: " + line[:300])
        for case in line[3:].split("|"):
            if time.time() - t0 >= budget and done > 0:
                break
            case = "C04 " + case
            try:
                rc, out, err = _run([exe, "run", "C04"], inp=(case + "\n").encode(), timeout=120, env=env)
            except Exception as e:
                violations.append({"key": "conc-hang", "kind": "hang", "case": case[:20000], "error": str(e),
                                   "explanation": "scanner and consumers did not finish"})
                break
            done += 1
            ans = out.decode("utf8", "replace").strip()
            txt = err.decode("utf8", "replace")
            if "DATA RACE" in txt or rc == 66:
                i = txt.find("WARNING: DATA RACE")
                violations.append({"key": "held-slice-data-race", "kind": "data-race", "case": case[:20000], "implementation": ans or "(halted by the race detector)",
                                   "model": "ok bad=0 lines=<n>", "report": txt[i:i + 3000],
                                   "replay_cmd": "echo '<case>' | GORACE=halt_on_error=1 work/C04/corr_C04_race run C04",
                                   "explanation": "the scanner wrote into memory of a line slice it had handed out while a consumer goroutine was reading it"})
                break
            if rc != 0:
                violations.append({"key": "conc-crash", "kind": "panic", "case": case[:20000], "rc": rc, "stderr": txt[-3000:],
                                   "explanation": "the process crashed while consumers were reading held slices"})
                break
            if not ans.startswith("ok bad=0 lines="):
                violations.append({"key": "held-slice-changed", "kind": "correspondence", "case": case[:20000], "implementation": ans, "model": "ok bad=0 lines=<n>",
                                   "explanation": "a consumer goroutine re-read a line slice handed out earlier and found other bytes than the line (reference split of the data)"})
                break
            lines += int(ans.split("lines=")[1])
    return {"runs": done, "lines_held": lines, "race_budget_s": budget, "violations": violations,
            "assumptions": ["the race detector and the concurrent re-reads exhibit overwrites only on the schedules they see; the all-schedules statement is the theorem held_slice_survives_every_step about the model"]}
