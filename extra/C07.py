"""C07 extra step: the real `rare histo | table | reduce | analyze` CLI on small generated files against the
Lean model (driver_C07), end to end: file -> batcher -> regex -> extraction expressions -> aggregator -> output.

What is compared (all through the model's own ops, answered by driver_C07 in one batch):
  histo    --csv file  = `sorted counter v <groups> <hist>` (every key, by value then name);
           snapshot rows with `--sort text -n N` = `sorted counter n N <hist>` (the first N by name);
           `-n` in {0, 1, 3, 100}; the exit status (2 with parse errors, 1 without a matching line)
  table    --csv file  = final dump of `agg table 00 <hist>` (sorted columns / rows / cells)
  reduce   --csv file  = final dump of `acc 1 0 <ops>` (groups by name, parts, rows), with group values that
           contain NUL (they split into extra parts), `--sort` expressions, huge `{index}` references
  analyze  -x -q ...   = final state of `agg numfv` (software binary64): Samples, Mean, StdDev, Min, Max, Median,
           Mode and the quantiles (p = q/100), formatted with FormatFloat(x,'f',4) (`--noformat`)
  analyze  (live) the same command reading STDIN in several chunks with pauses longer than the 100 ms refresh of
           RunAggregationLoop (`--batch 1`, so every line reaches the aggregator at once): Analyze() runs BETWEEN the
           samples, on a slice it sorted in place before.  The final frame must still be the order statistics of ALL
           samples (`num_f64_analyze_any_schedule`): it is compared with the same `agg numfv` answer as the file run,
           and the history with its refresh points is also sent as `agg numh` (the model's in-place machine).
           Mostly `--reverse` (seeded/C07-analyze-ordered-flag: a stale "already sorted" flag)
  limits   a negative -n / --num / --rows / --cols must be refused as invalid usage (exit 2, no Go panic):
           before the fix bb14ba5 `rare histo -n -1` died in NewHistogram (makeslice: len out of range).

Samples reach the aggregators exactly as the CLI builds them: the `-e` expressions joined by NUL.  Input tokens
may contain NUL bytes and multi-byte characters (the regex `\\S+` matches them), so a NUL inside a key shifts the
fields of the sample – the model gets the same raw element.  `--workers 1` where arrival order matters (reduce).
"""
import csv, io, os, struct, subprocess, sys, time
sys.path.insert(0, os.path.dirname(__file__))
from common import build_rare, Rand
from common import run as _run

KEYS = [b"a", b"b", b"c", b"ab", b"A", b"10", b"9", b"z\x00y", b"\x00", b"a\x00", b"\xc3\xa9", b"key,with,commas", b'q"uote', b"x=y", b"-"]
INCS = [b"1", b"2", b"-1", b"0", b"5", b"007", b"+3", b"9223372036854775807", b"-9223372036854775808", b"x", b"1.5", b"1\x002", b"99999999999999999999"]
NUMS = ["1", "2", "3", "2", "10", "-5", "0.5", "2.25", "1e3", "1E-2", "0", "-0", "100000000.1", "100000000.2", "100000000.4",
        "0.1", "0.2", "0.3", "1.7976931348623157e308", "-1.7976931348623157e308", "4.9e-324", "inf", "-inf", "nan", "x", "1,5", "--1", "1e999", "7", "7", "7"]


def hexs(b):
    return b.hex() if b else "-"


def hexlist(l):
    return ";".join(hexs(b) for b in l) if l else "."


def unhex(h):
    return b"" if h == "-" else bytes.fromhex(h)


def unhexlist(s):
    return [] if s == "." else [unhex(h) for h in s.split(";")]


def read_csv(path):
    data = open(path, "rb").read().decode("utf8", "surrogateescape")
    # encoding/csv writes a record of one empty field as an empty line, which Python reads as []
    return [[f.encode("utf8", "surrogateescape") for f in row] or [b""] for row in csv.reader(io.StringIO(data, newline=""))]


def fmt4(bits):
    """strconv.FormatFloat(x, 'f', 4, 64) of a bit pattern given as 16 hex digits ('nan' for NaN)."""
    if bits == "nan":
        return "NaN"
    x = struct.unpack(">d", bytes.fromhex(bits))[0]
    if x == float("inf"):
        return "+Inf"
    if x == float("-inf"):
        return "-Inf"
    return "%.4f" % x


def pyfloat(tok):
    """Tokens are chosen so that Python's float() and strconv.ParseFloat agree (incl. range errors -> parse error)."""
    try:
        t = tok.decode("ascii")
        if "_" in t or t.strip() != t:
            return None
        v = float(t)
    except (ValueError, UnicodeDecodeError):
        return None
    if v in (float("inf"), float("-inf")) and "inf" not in tok.lower().decode():
        return None  # ParseFloat: value out of range is an error
    return v


def bits_of(v):
    return struct.pack(">d", v).hex()


class Job:
    def __init__(self, kind, cmd, cases, check, data, feed=None):
        self.kind, self.cmd, self.cases, self.check, self.data, self.feed = kind, cmd, cases, check, data, feed


def run_fed(cmd, chunks, pause=0.28, timeout=60):
    """Run cmd writing `chunks` to its stdin with a pause after each (longer than the 100 ms refresh tick)."""
    p = subprocess.Popen(cmd, stdin=subprocess.PIPE, stdout=subprocess.PIPE, stderr=subprocess.PIPE)
    try:
        time.sleep(pause)  # let the first refresh hit the empty aggregator
        for c in chunks:
            p.stdin.write(c)
            p.stdin.flush()
            time.sleep(pause)
        p.stdin.close()
        p.stdin = None  # communicate() must not flush / close it again
        out, err = p.communicate(timeout=timeout)
    except Exception:
        p.kill()
        raise
    return p.returncode, out, err


def last_dump(ans):
    return ans.split(" | ")[-1]


def parse_items(s):
    """'[k=v,k=v]' -> list of (bytes, int)"""
    s = s[s.index("[") + 1:s.rindex("]")]
    out = []
    for p in s.split(","):
        if p:
            k, v = p.rsplit("=", 1)
            out.append((unhex(k), int(v)))
    return out


def stdout_rows(out):
    rows = []
    for l in out.split(b"\n"):
        if l.startswith(b"Matched:"):
            break
        w = l.split()
        if len(w) >= 2:
            rows.append((w[0], w[1]))
    return rows


def run_extra(ctx):
    rnd = Rand(ctx["seed"] * 7919 + 7)
    exe = build_rare(ctx)
    work = os.path.join(ctx["work"], "e2e")
    os.makedirs(work, exist_ok=True)
    nsets = 5 if ctx["tier"] == "quick" else 60
    base = [exe, "--noformat", "--nocolor"]
    rx = ["-m", r"(\S+) (\S+) (\S+)"]
    jobs, violations, runs = [], [], 0

    for si in range(nsets):
        # ---- count-style data: "<key> <subkey> <inc>"
        nkeys = 1 + rnd.intn(4)
        pool = [rnd.pick(KEYS) for _ in range(nkeys)]
        lines = []
        for _ in range(rnd.intn(12) if si else 0):
            inc = rnd.pick(INCS) if rnd.intn(4) == 0 else rnd.pick(INCS[:7])
            lines.append((rnd.pick(pool), rnd.pick([b"x", b"y", b"x", rnd.pick(KEYS)]), inc))
        f = os.path.join(work, "d%d.txt" % si)
        open(f, "wb").write(b"".join(b" ".join(t) + b"\n" for t in lines))
        par = ["--workers", str(rnd.pick([1, 2, 4])), "--batch", str(rnd.pick([1, 3, 1000]))]

        # histo: key only / key + increment
        for with_inc in (False, True):
            hist = [(k + b"\x00" + i) if with_inc else k for (k, _, i) in lines]
            n = rnd.pick([0, 1, 3, 100])
            out_csv = os.path.join(work, "h%d_%d.csv" % (si, with_inc))
            cmd = base + ["histo"] + rx + ["-e", "{1}"] + (["-e", "{3}"] if with_inc else []) + ["-n", str(n), "--sort", "text", "--csv", out_csv] + par + [f]
            cases = ["C07 agg counter " + hexlist(hist), "C07 sorted counter v 1000000 " + hexlist(hist), "C07 sorted counter n %d %s" % (n, hexlist(hist))]
            jobs.append(Job("histo", cmd, cases, check_histo, {"csv": out_csv, "n": n, "lines": len(lines)}))

        # table: col, row, increment
        hist = [c + b"\x00" + r + b"\x00" + i for (c, r, i) in lines]
        out_csv = os.path.join(work, "t%d.csv" % si)
        cmd = base + ["table"] + rx + ["-e", "{1}", "-e", "{2}", "-e", "{3}", "--csv", out_csv] + par + [f]
        ops = ",".join("s:" + hexs(h) for h in hist) if hist else "."
        jobs.append(Job("table", cmd, ["C07 agg table 00 " + ops], check_table, {"csv": out_csv, "lines": len(lines)}))

        # reduce: group by {1} (and sometimes {2}); accumulators incl. {.}, a column reference, an integer sum, a huge index
        groups = rnd.pick([[], ["{1}"], ["{1}"], ["k={1}", "s={2}"], ["{1}{2}"]])
        accs = rnd.pick([["c={.}x"], ["c={.}x", "l={c}:{3}"], ["s={sumi {.} {3}}", "last={3}"], ["h={9223372036854775807}", "n={sumi {.} 1}"],
                         ["c:z={.}{2}", "neg={-1}", "big={99999999999999999999}"]])
        sort = rnd.pick([None, None, "{1}", "{c}", "{9223372036854775807}", "{nosuchkey}"])
        out_csv = os.path.join(work, "r%d.csv" % si)
        cmd = base + ["reduce"] + rx + ["-e", "{1}", "-e", "{2}", "-e", "{3}"]
        mops = []
        for g in groups:
            cmd += ["-g", g]
            name, val = (g.split("=", 1) if "=" in g else (g, g))
            mops.append("g:%s:%s" % (hexs(name.encode()), hexs(val.encode())))
        for a in accs:
            cmd += ["-a", a]
            if "=" not in a:  # parseKeyValInitial
                name, initial, v = a, "0", a
            else:
                k, v = a.split("=", 1)
                name, initial = (k.split(":", 1) if ":" in k else (k, "0"))
            mops.append("d:%s:%s:%s" % (hexs(name.encode()), hexs(v.encode()), hexs(initial.encode())))
        if sort:
            cmd += ["--sort", sort]
            mops.append("o:" + hexs(sort.encode()))
        mops += ["s:" + hexs(h) for h in hist]
        cmd += ["--csv", out_csv, "--workers", "1", "--batch", str(rnd.pick([1, 1000])), f]
        jobs.append(Job("reduce", cmd, ["C07 acc 1 0 " + ",".join(mops)], check_reduce,
                        {"csv": out_csv, "ngroups": len(groups), "lines": len(lines)}))

        # ---- numeric data for analyze
        toks = [rnd.pick(NUMS).encode() for _ in range(rnd.intn(10) if si else 0)]
        if rnd.intn(3) == 0 and toks:
            toks = [rnd.pick([b"100000000.1", b"100000000.2", b"100000000.3"]) for _ in toks]
        fa = os.path.join(work, "a%d.txt" % si)
        open(fa, "wb").write(b"".join(b"v w " + t + b"\n" for t in toks))
        vals = [pyfloat(t) for t in toks]
        qs = [rnd.pick(["0", "50", "90", "99", "99.9", "100", "25", "33.3"]) for _ in range(1 + rnd.intn(3))]
        rev = rnd.intn(4) == 0
        cmd = base + ["analyze"] + rx + ["-e", "{3}", "-x"] + (["-r"] if rev else [])
        for q in qs:
            cmd += ["-q", q]
        cmd += ["--workers", "1", "--batch", str(rnd.pick([1, 3, 1000])), fa]  # float sums depend on the arrival order: one worker = file order
        good = [v for v in vals if v is not None]
        case = "C07 agg numfv 1 %d %s %s" % (1 if rev else 0, ";".join(bits_of(v) for v in good) if good else ".",
                                              ",".join(bits_of(float(q) / 100.0) for q in qs))
        jobs.append(Job("analyze", cmd, [case], check_analyze, {"qs": qs, "errors": len(vals) - len(good), "lines": len(toks), "n": len(good)}))

    # ---- analyze with refreshes between the samples (stdin in chunks)
    LIVE = [(True, [["1", "2"], ["3"]], ["50", "90"]),                       # stored 2,1 then 3
            (True, [["5", "3", "1", "4"], ["2", "2"]], ["50", "90", "99"]),  # the seed's demo history
            (False, [["3", "2"], ["1"], ["2.5"]], ["50"])]
    nlive = 3 if ctx["tier"] == "quick" else 14
    for li in range(nlive):
        if li < len(LIVE):
            rev, chunks, qs = LIVE[li]
        else:
            rev = rnd.intn(4) != 0
            chunks = [[rnd.pick(["1", "2", "3", "4", "5", "2.5", "-1", "0", "-0", "7", "7", "x", "nan", "1e3"]) for _ in range(1 + rnd.intn(4))]
                      for _ in range(2 + rnd.intn(2))]
            qs = [rnd.pick(["0", "50", "90", "99", "100", "25"]) for _ in range(1 + rnd.intn(2))]
        toks = [t.encode() for c in chunks for t in c]
        vals = [pyfloat(t) for t in toks]
        good = [v for v in vals if v is not None]
        cmd = base + ["analyze", "-m", r"(\S+)", "-e", "{1}", "-x"] + (["-r"] if rev else [])
        for q in qs:
            cmd += ["-q", q]
        cmd += ["--batch", "1"]
        pbits = ",".join(bits_of(float(q) / 100.0) for q in qs)
        case = "C07 agg numfv 1 %d %s %s" % (1 if rev else 0, ";".join(bits_of(v) for v in good) if good else ".", pbits)
        hops = ["a"]
        for c in chunks:
            hops += ["s" + hexs(t.encode()) for t in c] + ["a"]
        hcase = "C07 agg numh 1 %d %s %s" % (1 if rev else 0, ";".join(hops), pbits)
        jobs.append(Job("analyze-live", cmd, [case, hcase], check_analyze_live,
                        {"qs": qs, "errors": len(vals) - len(good), "lines": len(toks), "n": len(good), "chunks": chunks},
                        feed=[("".join(t + "\n" for t in c)).encode() for c in chunks]))

    # ---- negative limits (the repaired set-up crash)
    fneg = os.path.join(work, "neg.txt")
    open(fneg, "wb").write(b"a x 1\nb y 2\n")
    for sub, flag in [("histo", "-n"), ("table", "--cols"), ("table", "--num"), ("heatmap", "--cols"), ("spark", "--cols"), ("reduce", "--rows"), ("reduce", "--cols")]:
        cmd = base + [sub] + rx + ["-e", "{1}", "-e", "{2}", "-e", "{3}"] + (["--table", "-a", "c={.}x"] if sub == "reduce" else []) + [flag, "-1", fneg]
        jobs.append(Job("limit", cmd, [], check_limit, {"flag": sub + " " + flag}))

    # ---- model answers in one batch
    all_cases = [c for j in jobs for c in j.cases]
    p = subprocess.run([ctx["driver"]], input=("\n".join(all_cases) + "\n").encode(), stdout=subprocess.PIPE, timeout=600)
    answers = p.stdout.decode().split("\n")
    pos = 0
    for j in jobs:
        j.answers = answers[pos:pos + len(j.cases)]
        pos += len(j.cases)
        if j.feed is not None:
            rc, out, err = run_fed(j.cmd, j.feed)
        else:
            rc, out, err = _run(j.cmd, timeout=60)
        runs += 1
        bad = None
        if b"panic:" in err or b"goroutine " in err:
            bad = "the CLI panicked"
        else:
            try:
                bad = j.check(j, rc, out, err)
            except Exception as e:  # unexpected output shape is a finding too, not a crash of the check
                bad = "could not compare: %s: %s" % (type(e).__name__, e)
        if bad:
            violations.append({"key": "e2e-negative-limit" if j.kind == "limit" else "e2e-" + j.kind, "what": bad,
                               "cmd": " ".join(repr(a) if (" " in a or "\\" in a) else a for a in j.cmd[1:]), "model_cases": j.cases,
                               "model_answers": [a[:600] for a in j.answers], "rc": rc, "stdout": out.decode("utf8", "replace")[-600:],
                               "stderr": err.decode("utf8", "replace")[-400:],
                               "input": (repr(j.data["chunks"]) + " (stdin chunks, a refresh between them)") if j.feed is not None
                               else open(j.cmd[-1], "rb").read().decode("utf8", "replace")[:400]})
    return {"runs": runs, "violations": violations[:5],
            "assumptions": ["e2e: files of generated `key sub inc` / number lines through the real CLI; observables are the --csv file, the piped "
                            "(snapshot) output with --noformat --nocolor and the exit status; Python float()/'%.4f' agree with strconv on the chosen spellings"]}


def expect_rc(errors, lines):
    return 2 if errors > 0 else (1 if lines == 0 else 0)


def check_histo(j, rc, out, err):
    dump, byval, byname = j.answers
    if not (dump.startswith("ok") and byval.startswith("ok") and byname.startswith("ok")):
        return "model did not answer: %r" % (j.answers,)
    d = last_dump(dump)
    errors = int(d.split("e=")[1].split()[0]) if j.data["lines"] else 0
    want_rc = expect_rc(errors, j.data["lines"])
    if rc != want_rc:
        return "exit status %d, expected %d (parse errors %d, lines %d)" % (rc, want_rc, errors, j.data["lines"])
    rows = read_csv(j.data["csv"])
    got = [(r[0], int(r[1])) for r in rows[1:]]
    if rows[:1] != [[b"group", b"value"]] or got != parse_items(byval):
        return "csv differs from ItemsSortedBy(all, NVValueSorter): %r vs %r" % (got, parse_items(byval))
    shown = [(k, int(v)) for (k, v) in stdout_rows(out)]
    want = [kv for kv in parse_items(byname) if kv[1] >= 0]  # writeHistoOutput shows the rows with count >= --atleast (0)
    if shown != want:
        return "snapshot rows differ from the first %d by name: %r vs %r" % (j.data["n"], shown, want)
    return None


def check_table(j, rc, out, err):
    ans = j.answers[0]
    if not ans.startswith("ok"):
        return "model did not answer: %r" % ans
    rows = read_csv(j.data["csv"])
    if j.data["lines"] == 0:
        return None if rows == [[b""]] and rc == 1 else "empty input: csv %r rc %d" % (rows, rc)
    d = last_dump(ans)
    errors = int(d.split("e=")[1].split()[0])
    if rc != expect_rc(errors, j.data["lines"]):
        return "exit status %d, expected %d" % (rc, expect_rc(errors, j.data["lines"]))
    cols = parse_items("[" + d.split("cols[")[1].split("] rows[")[0] + "]")
    rpart = d.split("] rows[")[1]
    rpart = rpart[:rpart.rindex("]")]
    want = [[b""] + [c for c, _ in cols]]
    for r in (rpart.split("),") if rpart else []):
        name, rest = r.split("=", 1)
        vals = rest[rest.index("(") + 1:].rstrip(")")
        want.append([unhex(name)] + [v.encode() for v in vals.split(",")])
    if rows != want:
        return "csv differs from the model table: %r vs %r" % (rows, want)
    return None


def check_reduce(j, rc, out, err):
    ans = j.answers[0]
    if ans.startswith("unmodelled"):
        return None
    if not ans.startswith("ok"):
        return "model did not answer ok: %r" % ans[:200]
    d = last_dump(ans)
    gc = unhexlist(d.split("gc=")[1].split()[0])
    dc = unhexlist(d.split(" dc=")[1].split()[0])
    rows_s = d.split("rows[")[1].split("] groups=")[0]
    groups = unhexlist(d.split("] groups=")[1].split()[0])
    table = {}
    for r in (rows_s.split(",") if rows_s else []):
        k, _, nocopy, parts = r.split(":")
        table[unhex(k)] = (unhexlist(nocopy), unhexlist(parts))
    want = [gc + dc]
    for g in groups:
        nocopy, parts = table[g]
        want.append([(parts[i] if i < len(parts) else b"") for i in range(len(gc))] + nocopy)
    rows = read_csv(j.data["csv"])
    if rows != want:
        return "csv differs from the model rows: %r vs %r" % (rows, want)
    if rc != expect_rc(0, j.data["lines"]):
        return "exit status %d, expected %d" % (rc, expect_rc(0, j.data["lines"]))
    return None


def check_analyze(j, rc, out, err):
    ans = j.answers[0]
    if not ans.startswith("ok"):
        return "model did not answer: %r" % ans
    segs = ans[3:].split(" | ")
    tail = segs[-1]
    if len(segs) > 1:
        st = dict(kv.split("=") for kv in segs[-2].split())
    else:
        st = {"n": "0", "mean": "0000000000000000", "sd": "0000000000000000", "min": "7ff0000000000000", "max": "fff0000000000000"}
    med = tail.split("median=")[1].split()[0]
    mode = tail.split("mode=")[1].split()[0]
    qv = tail.split("q[")[1].rstrip("]").split(",")
    want = {"Samples": st["n"], "Mean": fmt4(st["mean"]), "StdDev": fmt4(st["sd"]), "Min": fmt4(st["min"]), "Max": fmt4(st["max"]),
            "Median": fmt4(med), "Mode": fmt4(mode)}
    got, qgot = {}, []
    for l in out.decode("utf8", "replace").split("\n"):
        if ":" in l and not l.startswith("Matched"):
            k, v = l.split(":", 1)
            if k.startswith("P") and k[1:2].isdigit():
                qgot.append((k, v.strip()))
            else:
                got[k.strip()] = v.strip()
    zero = lambda s: s.replace("-0.0000", "0.0000")  # the order of -0 / +0 after sorting is unspecified
    for k, v in want.items():
        g = got.get(k)
        if k in ("Median", "Mode"):
            g, v = zero(g or ""), zero(v)
        if g != v:
            return "%s: CLI %r, model %r" % (k, got.get(k), v)
    qwant = [("P%.4f" % float(q), fmt4(b)) for q, b in zip(j.data["qs"], qv)]  # Go: "P%02.4f"
    if [(k, zero(v)) for k, v in qgot] != [(k, zero(v)) for k, v in qwant]:
        return "quantiles: CLI %r, model %r" % (qgot, qwant)
    if rc != expect_rc(j.data["errors"], j.data["lines"]):
        return "exit status %d, expected %d" % (rc, expect_rc(j.data["errors"], j.data["lines"]))
    return None


def check_analyze_live(j, rc, out, err):
    """The final frame after refreshes between the samples: the file run's check against `agg numfv`, and the last view of
    the in-place machine (`agg numh`) must show the same median / mode / quantiles."""
    bad = check_analyze(j, rc, out, err)
    if bad:
        return "after refreshes between the samples %r: %s" % (j.data["chunks"], bad)
    plain, hist = j.answers[0], j.answers[1]
    if not hist.startswith("ok"):
        return "model did not answer the history: %r" % hist[:300]
    last = hist.split(" | ")[-1]
    tail = plain.split(" | ")[-1]
    if not last.startswith("A ") or last[2:].split(" ranks[")[0] != tail:
        return "model: in-place machine %r differs from the plain run %r" % (last, tail)
    return None


def check_limit(j, rc, out, err):
    if rc != 2 or b"must not be negative" not in err:
        return "negative limit %s not refused as invalid usage: rc=%d stderr=%r" % (j.data["flag"], rc, err[-200:])
    return None


def run(*a, **k):  # the check's entry point is run(ctx); otherwise behave like common.run
    if len(a) == 1 and isinstance(a[0], dict) and "tier" in a[0]:
        return run_extra(a[0])
    return _run(*a, **k)
