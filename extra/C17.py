"""C17 extra step: pooled sub-contexts under REAL goroutines, with the race detector.

The correspondence harness built with `go build -race` runs `conc` cases (harness/corr/c17.go: one compiled
expression, G goroutines with their own contexts, every result compared with the sequential one) on templates
whose helpers nest (so that several pooled objects are live per goroutine and the pool is hit from all of them).
A goroutine that reads or writes a `subContext` another goroutine is using is a DATA RACE report (exit 66); a
result that differs from the sequential one is `conc-mismatch`.  The all-schedules statement about the model is
`pooled_template_interleaved` (Props/C17.lean); this step looks for a schedule on the real code."""
import os, subprocess, sys, time
sys.path.insert(0, os.path.dirname(__file__))
from common import run as _run, Rand


def hx(s):
    b = s if isinstance(s, bytes) else s.encode("utf8")
    return b.hex() if b else "-"


def hxl(l):
    return ";".join(hx(x) for x in l) if l else "."


TEMPLATES = [
    '{@map {0} {@map {arr} "{0}{k}"}}',
    '{@map {0} {@filter {arr} {neq {0} {k}}}}',
    '{@reduce {@map {0} "{0}{k}"} "{0}{d}{1}"}',
    '{@map {arr} {@for {0} {neq {1} 3} "{0}{k}"}}',
    '{@filter {@map {0} {@reduce {arr} "{1}{0}"}} {neq {0} {k}}}',
    '{@map {0} {@map {arr} {@map {0} {@len {@filter {arr} {0}}}}}}',
    '{@for {k} {neq {1} 4} {@reduce {arr} "{0}{1}"}}',
    '{@map {0} {@map {0} {@map {0} {@map {0} {@map {0} {@map {0} "{0}{k}"}}}}}}',
]


def run(ctx):
    harn = os.path.join(ctx["root"], "harness")
    modfile = os.path.join(os.path.dirname(ctx["bin"]), "gomod", "go.mod")
    if not os.path.exists(modfile):
        modfile = os.path.join(harn, "go.mod")
    os.makedirs(ctx["work"], exist_ok=True)
    exe = os.path.join(ctx["work"], "corr_C17_race")
    p = subprocess.run(["go", "build", "-race", "-modfile", modfile, "-tags", "verif c17", "-o", exe, "./corr"], cwd=harn,
                       env=ctx["goenv"], stdout=subprocess.PIPE, stderr=subprocess.STDOUT, text=True, timeout=1200)
    if p.returncode != 0:
        raise RuntimeError("go build -race of the correspondence harness failed: " + p.stdout[-2000:])
    budget = 3.0 if ctx["tier"] == "quick" else 60.0
    if os.environ.get("VERIF_C17_RACE_BUDGET"):
        budget = float(os.environ["VERIF_C17_RACE_BUDGET"])
    env = dict(os.environ, GORACE="halt_on_error=1 exitcode=66 atexit_sleep_ms=0", VERIF_C17_NOISOLATE="1")
    r = Rand(ctx["seed"] * 7919 + 17)
    words = ["a", "b", "ab", "", "x y", "é", "10", "-3"]
    violations, done = [], 0
    t0 = time.time()
    while time.time() - t0 < budget and not violations:
        t = TEMPLATES[done % len(TEMPLATES)]
        arr = "\x00".join(r.pick(words) for _ in range((1 + r.intn(6))))
        el0 = "\x00".join(r.pick(words) for _ in range((1 + r.intn(6))))
        case = "C17 conc %d %d %d %s %s %s" % ((2 + r.intn(7)), r.pick([20, 200]), (0 + r.intn(2)), hx(t),
                                               hxl([el0, r.pick(words), "2"]), hxl(["k", r.pick(words), "arr", arr, "d", "-"]))
        try:
            rc, out, err = _run([exe, "run", "C17"], inp=(case + "\n").encode(), timeout=120, env=env)
        except Exception as e:
            violations.append({"key": "conc-hang", "kind": "hang", "case": case, "error": str(e),
                               "explanation": "the goroutines evaluating one compiled expression did not finish"})
            break
        done += 1
        ans = out.decode("utf8", "replace").strip()
        txt = err.decode("utf8", "replace")
        if "DATA RACE" in txt or rc == 66:
            i = txt.find("WARNING: DATA RACE")
            violations.append({"key": "subcontext-data-race", "kind": "data-race", "case": case, "template": t,
                               "implementation": ans or "(halted by the race detector)", "model": "ok … (the sequential value)",
                               "report": txt[i:i + 3000],
                               "replay_cmd": "echo '<case>' | VERIF_C17_NOISOLATE=1 GORACE=halt_on_error=1 work/C17/corr_C17_race run C17",
                               "explanation": "two goroutines evaluating the same compiled expression touched the same pooled sub-context"})
            break
        if rc != 0:
            violations.append({"key": "conc-crash", "kind": "panic", "case": case, "template": t, "rc": rc, "stderr": txt[-3000:],
                               "explanation": "the process crashed while several goroutines evaluated one compiled expression"})
            break
        if not ans.startswith("ok "):
            violations.append({"key": "conc-mismatch", "kind": "correspondence", "case": case, "template": t, "implementation": ans,
                               "model": "ok … (the sequential value)",
                               "explanation": "a goroutine's result differs from the sequential evaluation of the same expression on the same context"})
            break
    return {"runs": done, "race_budget_s": budget, "violations": violations,
            "assumptions": ["the race detector exhibits conflicting accesses only on the schedules it sees; the all-schedules statement is the theorem pooled_template_interleaved about the model"]}
