"""C20 extra step: validate the reference VT100-subset machine (the SPEC side of C20) against a real
terminal emulator.  The real TermWriter is run (through corr_C20) on generated histories; the bytes it
wrote are replayed inside a detached tmux pane of the same width, the pane is captured, and the captured
rows are compared with the rows computed by the Go copy of the reference machine (the `rows=` field of
the implementation answer).  tmux missing => the step is skipped and says so (assumption recorded)."""
import os, random, shutil, subprocess, time


def hx(b):
    return b.hex() if b else "-"


def run(ctx):
    tmux = shutil.which("tmux")
    if not tmux:
        return {"runs": 0, "violations": [], "assumptions": [
            "tmux not available: the reference terminal of Rare/Spec/C20.lean was not compared with a real emulator on this run"]}
    rnd = random.Random(ctx["seed"] * 7919 + 20)
    n = 12 if ctx["tier"] == "quick" else 60
    work = os.path.join(ctx["work"], "tmux")
    os.makedirs(work, exist_ok=True)
    env = dict(os.environ, TMUX_TMPDIR=work)
    env.pop("TMUX", None)
    sgr = [b"\x1b[31m", b"\x1b[0m", b"\x1b[1;32m", b"\x1b[m"]
    cases = []
    for _ in range(n):
        width = rnd.choice([3, 5, 8, 13, 20])
        trim = rnd.choice([1, 1, 0])
        items = []
        for _ in range(rnd.randint(1, 9)):
            line = rnd.randint(0, 5)
            vis = rnd.choice([0, 1, width - 1, width, width + 1, 2 * width + 1, rnd.randint(0, width)])
            if not trim:
                vis = min(vis, width)
            txt = b""
            for k in range(vis):
                if rnd.random() < 0.15:
                    txt += rnd.choice(sgr)
                txt += bytes([rnd.choice(b"abcdefghijklmnopqrstuvwxyz0123456789 ")])
            if rnd.random() < 0.5:
                txt += b"\x1b[0m"
            items.append("%d:%s" % (line, hx(txt)))
        cases.append("C20 term %d %d %s" % (width, trim, ",".join(items)))
    p = subprocess.run([os.path.join(ctx["bin"], "corr_C20"), "run", "C20"], input="\n".join(cases) + "\n",
                       stdout=subprocess.PIPE, text=True, timeout=120)
    answers = p.stdout.strip().split("\n")
    violations = []
    runs = 0
    sess = "c20v%d" % os.getpid()
    for case, ans in zip(cases, answers):
        f = dict(kv.split("=", 1) for kv in ans.split(" ")[1:] if "=" in kv)
        if not ans.startswith("ok ") or "b" not in f:
            continue
        width = int(case.split(" ")[2])
        rows = [bytes.fromhex(r).decode("utf-8", "replace") if r != "-" else "" for r in f["rows"].split(";")]
        data = bytes.fromhex(f["b"]) if f["b"] != "-" else b""
        path = os.path.join(work, "bytes.bin")
        open(path, "wb").write(data)
        subprocess.run([tmux, "-f", "/dev/null", "kill-session", "-t", sess], env=env, stderr=subprocess.DEVNULL)
        r = subprocess.run([tmux, "-f", "/dev/null", "new-session", "-d", "-s", sess, "-x", str(width), "-y", str(len(rows) + 3),
                            "cat %s; sleep 30" % path], env=env, stderr=subprocess.PIPE, text=True)
        if r.returncode != 0:
            return {"runs": runs, "violations": violations, "assumptions": ["tmux could not start a session: " + r.stderr[:200]]}
        got = None
        for _ in range(40):
            time.sleep(0.05)
            c = subprocess.run([tmux, "-f", "/dev/null", "capture-pane", "-p", "-t", sess], env=env, stdout=subprocess.PIPE, text=True)
            lines = c.stdout.split("\n")
            got = [l.rstrip() for l in lines[:len(rows)]]
            if got == [r_.rstrip() for r_ in rows]:
                break
        subprocess.run([tmux, "-f", "/dev/null", "kill-session", "-t", sess], env=env, stderr=subprocess.DEVNULL)
        runs += 1
        if got != [r_.rstrip() for r_ in rows]:
            violations.append({"key": "tmux-differs", "case": case, "reference_machine_rows": rows, "tmux_rows": got,
                               "explanation": "the reference terminal of the C20 spec and tmux disagree on the bytes the real TermWriter wrote"})
            if len(violations) >= 3:
                break
    return {"runs": runs, "violations": violations,
            "assumptions": ["reference terminal compared with tmux %s on %d sessions of the real TermWriter (ASCII + SGR texts; width-1 cells assumed for every rune)" %
                            (subprocess.run([tmux, "-V"], stdout=subprocess.PIPE, text=True).stdout.strip(), runs)]}
