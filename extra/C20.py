"""C20 extra step: validate the reference VT100-subset machine (the SPEC side of C20) against a real
terminal emulator.  The real TermWriter is run (through corr_C20) on generated histories; the bytes it
wrote are replayed inside a detached tmux pane of the same width, the pane is captured, and the captured
rows are compared with the rows computed by the Go copy of the reference machine (the `rows=` field of
the implementation answer).  tmux missing => the step is skipped and says so (assumption recorded)."""
import os, random, shutil, subprocess, time, sys
sys.path.insert(0, os.path.dirname(os.path.abspath(__file__)))
import common


def hx(b):
    return b.hex() if b else "-"


# Every sub-process of this step is bounded in wall-clock time AND in the amount of output kept: an
# implementation under test that loops or prints for ever must cost seconds, not the machine.
_CAP = 16 << 20


def _bounded(cmd, inp=None, timeout=60, cap=_CAP, env=None):
    """Run cmd, feed `inp` (bytes) to its stdin, return (stdout bytes (at most cap), status) with status
    'ok' | 'timeout' | 'overflow' | 'spawn-failed'.  Never raises, never waits longer than timeout + 2 s."""
    import select, threading
    try:
        p = subprocess.Popen(cmd, stdin=subprocess.PIPE if inp is not None else subprocess.DEVNULL,
                             stdout=subprocess.PIPE, stderr=subprocess.DEVNULL, env=env)
    except OSError:
        return b"", "spawn-failed"
    if inp is not None:
        def feed():
            try:
                p.stdin.write(inp)
                p.stdin.close()
            except OSError:
                pass
        threading.Thread(target=feed, daemon=True).start()
    out, status = bytearray(), "ok"
    end = time.time() + timeout
    fd = p.stdout.fileno()
    while True:
        left = end - time.time()
        if left <= 0:
            status = "timeout"
            break
        r, _, _ = select.select([fd], [], [], min(left, 0.5))
        if not r:
            continue
        try:
            d = os.read(fd, 1 << 16)
        except OSError:
            break
        if not d:
            break
        out += d
        if len(out) > cap:
            status = "overflow"
            break
    if status != "ok":
        p.kill()
    try:
        p.wait(timeout=2)
    except subprocess.TimeoutExpired:
        p.kill()
    try:
        p.stdout.close()
    except OSError:
        pass
    return bytes(out[:cap]), status


def _quick(cmd, env=None, timeout=10):
    """a short helper command (tmux): bounded, (returncode, stdout text, stderr text); returncode -1 on timeout"""
    try:
        r = subprocess.run(cmd, env=env, stdout=subprocess.PIPE, stderr=subprocess.PIPE, text=True, timeout=timeout)
        return r.returncode, r.stdout[:1 << 20], r.stderr[:2000]
    except (subprocess.TimeoutExpired, OSError) as e:
        return -1, "", str(e)[:200]


def run_tmux(ctx):
    tmux = shutil.which("tmux")
    if not tmux:
        return {"runs": 0, "violations": [], "assumptions": [
            "tmux not available: the reference terminal of Rare/Spec/C20.lean was not compared with a real emulator on this run"]}
    rnd = random.Random(ctx["seed"] * 7919 + 20)
    n = 12 if ctx["tier"] == "quick" else 60
    work = os.path.join(ctx["work"], "tmux")
    os.makedirs(work, exist_ok=True)
    env = dict(os.environ, TMUX_TMPDIR=work)
    env.pop("TMUX", None)
    sgr = [b"\x1b[31m", b"\x1b[0m", b"\x1b[1;32m", b"\x1b[m"]
    cases = []
    for _ in range(n):
        width = rnd.choice([3, 5, 8, 13, 20])
        trim = rnd.choice([1, 1, 0])
        items = []
        for _ in range(rnd.randint(1, 9)):
            line = rnd.randint(0, 5)
            vis = rnd.choice([0, 1, width - 1, width, width + 1, 2 * width + 1, rnd.randint(0, width)])
            if not trim:
                vis = min(vis, width)
            txt = b""
            for k in range(vis):
                if rnd.random() < 0.15:
                    txt += rnd.choice(sgr)
                txt += bytes([rnd.choice(b"abcdefghijklmnopqrstuvwxyz0123456789 ")])
            if rnd.random() < 0.5:
                txt += b"\x1b[0m"
            items.append("%d:%s" % (line, hx(txt)))
        cases.append("C20 term %d %d %s" % (width, trim, ",".join(items)))
    raw, st = _bounded([os.path.join(ctx["bin"], "corr_C20"), "run", "C20"], ("\n".join(cases) + "\n").encode(), timeout=90)
    answers = raw.decode("utf-8", "replace").strip().split("\n")
    violations = []
    runs = 0
    if st != "ok" or len(answers) != len(cases):
        k = min(len(answers), len(cases) - 1)
        return {"runs": 0, "violations": [{"key": "termwriter-run-" + st, "case": cases[k],
                                           "explanation": "the real TermWriter did not answer %d generated histories within 90 s / %d MiB (status %s, %d answers); first unanswered case given"
                                                          % (len(cases), _CAP >> 20, st, len(answers))}], "assumptions": []}
    sess = "c20v%d" % os.getpid()
    for case, ans in zip(cases, answers):
        f = dict(kv.split("=", 1) for kv in ans.split(" ")[1:] if "=" in kv)
        if not ans.startswith("ok ") or "b" not in f:
            continue
        width = int(case.split(" ")[2])
        rows = [bytes.fromhex(r).decode("utf-8", "replace") if r != "-" else "" for r in f["rows"].split(";")]
        data = bytes.fromhex(f["b"]) if f["b"] != "-" else b""
        path = os.path.join(work, "bytes.bin")
        open(path, "wb").write(data)
        _quick([tmux, "-f", "/dev/null", "kill-session", "-t", sess], env=env)
        rc, _, err = _quick([tmux, "-f", "/dev/null", "new-session", "-d", "-s", sess, "-x", str(width), "-y", str(len(rows) + 3),
                             "cat %s; sleep 30" % path], env=env)
        if rc != 0:
            return {"runs": runs, "violations": violations, "assumptions": ["tmux could not start a session: " + err[:200]]}
        got = None
        for _ in range(40):
            time.sleep(0.05)
            _, cout, _ = _quick([tmux, "-f", "/dev/null", "capture-pane", "-p", "-t", sess], env=env)
            lines = cout.split("\n")
            got = [l.rstrip() for l in lines[:len(rows)]]
            if got == [r_.rstrip() for r_ in rows]:
                break
        _quick([tmux, "-f", "/dev/null", "kill-session", "-t", sess], env=env)
        runs += 1
        if got != [r_.rstrip() for r_ in rows]:
            violations.append({"key": "tmux-differs", "case": case, "reference_machine_rows": rows, "tmux_rows": got,
                               "explanation": "the reference terminal of the C20 spec and tmux disagree on the bytes the real TermWriter wrote"})
            if len(violations) >= 3:
                break
    return {"runs": runs, "violations": violations,
            "assumptions": ["reference terminal compared with tmux %s on %d sessions of the real TermWriter (ASCII + SGR texts; width-1 cells assumed for every rune)" %
                            (_quick([tmux, "-V"])[1].strip(), runs)]}


# ---------------------------------------------------------------------------------------------------------------
# end to end through the real CLI: `rare histo` on a pseudo-terminal (live TermWriter, width/height from
# TIOCGWINSZ, AutoTrim on – the init() branch no in-process harness can reach) against the same command with
# piped output (cmd/helpers.BuildVTerm picks the BufferedTerm).  The pty bytes are interpreted by the reference
# terminal (corr_C20 op `vt`); the final screen must show, row by row, the lines the buffered writer printed,
# cut to the terminal width, with the cursor parked below them and visible.

def _pty_run(cmd, rows, cols, stdin_chunks=None, pause=0.0):
    import pty, fcntl, termios, struct, select
    m, s = pty.openpty()
    fcntl.ioctl(s, termios.TIOCSWINSZ, struct.pack("HHHH", rows, cols, 0, 0))
    p = subprocess.Popen(cmd, stdout=s, stderr=subprocess.DEVNULL,
                         stdin=subprocess.PIPE if stdin_chunks is not None else subprocess.DEVNULL)
    os.close(s)
    out = b""

    def drain(wait):
        nonlocal out
        end = time.time() + wait
        while True:
            r, _, _ = select.select([m], [], [], max(0.0, min(0.2, end - time.time())))
            if r:
                try:
                    d = os.read(m, 65536)
                except OSError:
                    return False
                if not d:
                    return False
                if len(out) < (16 << 20):      # a process that prints for ever must not fill memory
                    out += d
                if time.time() >= end:         # ... nor keep this loop from ever reaching its deadline
                    return True
            elif time.time() >= end:
                return True

    if stdin_chunks is not None:
        for ch in stdin_chunks:
            p.stdin.write(ch)
            p.stdin.flush()
            drain(pause)
        p.stdin.close()
    deadline = time.time() + 20
    while p.poll() is None and time.time() < deadline:
        drain(0.1)
    if p.poll() is None:
        p.kill()
    drain(0.3)
    os.close(m)
    return out


def _strip_sgr(s):
    import re
    return re.sub(r"\x1b\[[0-9;:]*m", "", s)


def _screen(ctx, cols, rows, data):
    case = "C20 vt %d %d 0 0 %s" % (cols, rows, hx(data))
    raw, _ = _bounded([os.path.join(ctx["bin"], "corr_C20"), "run", "C20"], (case + "\n").encode(), timeout=60)
    ans = raw.decode("utf-8", "replace").strip()
    f = dict(kv.split("=", 1) for kv in ans.split(" ")[1:] if "=" in kv)
    if not ans.startswith("ok ") or "rows" not in f:
        return [""] * rows, -1, False      # the reference terminal gave no answer: reported by the caller as a difference
    scr = [bytes.fromhex(r).decode("utf-8", "replace") if r != "-" else "" for r in f["rows"].split(";")]
    return scr, int(f["row"]), f["vis"] == "1"


def run_cli(ctx):
    try:
        import pty  # noqa: F401
        m, s = os.openpty()
        os.close(m)
        os.close(s)
    except Exception as e:
        return {"runs": 0, "violations": [], "assumptions": ["no pseudo-terminals in this sandbox (%s): the real CLI was not run on a live terminal" % e]}
    rare = common.build_rare(ctx)
    rnd = random.Random(ctx["seed"] * 104729 + 2020)
    n = 3 if ctx["tier"] == "quick" else 12
    work = os.path.join(ctx["work"], "cli")
    os.makedirs(work, exist_ok=True)
    violations, runs = [], 0
    for it in range(n):
        nkeys = rnd.randint(1, 9)
        keys = rnd.sample(["alpha", "b", "gamma-delta", "k3", "some/long/path/name.html", "é-ü", "x y", "zz", "404", "KEY"], nkeys)
        lines = []
        for i, k in enumerate(keys):
            lines += ["%s %d" % (k.replace(" ", "_"), j) for j in range(3 * (i + 1) + rnd.randint(0, 1) * 40)]
        rnd.shuffle(lines)
        path = os.path.join(work, "in%d.log" % it)
        open(path, "w").write("\n".join(lines) + "\n")
        cols = rnd.choice([12, 20, 33, 50, 80, 120])
        rows = 40
        top = rnd.choice([3, 5, 20])
        cmd = [rare, "histo", "-m", r"(\S+) (\d+)", "-e", "{1}", "-n", str(top), path]
        praw, pst = _bounded(cmd, timeout=60)
        piped = praw.decode("utf-8", "replace")
        if pst != "ok":
            violations.append({"key": "cli-piped-" + pst, "cmd": " ".join(cmd), "explanation": "rare histo with piped output (BufferedTerm) did not finish within 60 s / %d MiB of output" % (_CAP >> 20),
                               "piped_output": piped[:2000]})
            break
        want = [_strip_sgr(l) for l in piped.split("\n")]
        if want and want[-1] == "":
            want.pop()
        data = _pty_run(cmd, rows, cols)
        scr, row, vis = _screen(ctx, cols, rows, data)
        runs += 1
        bad = None
        for i, l in enumerate(want):
            if "B/s" in l:
                continue  # throughput line: differs from run to run
            if scr[i].rstrip() != l[:cols].rstrip():
                bad = "row %d shows %r, the buffered writer printed %r" % (i, scr[i], l)
                break
        if bad is None and (row != len(want) or not vis):
            bad = "cursor on row %d visible=%s after Close, expected row %d visible" % (row, vis, len(want))
        if bad is None and not data.startswith(b"\x1b[?25l"):
            bad = "the live writer did not hide the cursor first"
        if bad:
            violations.append({"key": "cli-live-differs", "cmd": " ".join(cmd), "cols": cols, "rows": rows, "explanation": bad,
                               "pty_bytes": hx(data[:4000]), "piped_output": piped[:2000]})
            if len(violations) >= 3:
                break
        # the same command with --snapshot on the SAME terminal: cmd/helpers.BuildVTerm(forceSnapshot) picks the
        # BufferedTerm while AutoTrim is on and the width comes from TIOCGWINSZ (the only way to reach the trimming
        # path of VirtualTerm.WriteToOutput through the CLI).  Lean: live_and_buffered_same_screen – both writers
        # leave the same screen, cursor parked on the same row.
        snap = cmd[:2] + ["--snapshot"] + cmd[2:]
        data2 = _pty_run(snap, rows, cols)
        scr2, row2, vis2 = _screen(ctx, cols, rows, data2)
        runs += 1
        bad2 = None
        for i, l in enumerate(want):
            if "B/s" in l:
                continue
            if scr2[i].rstrip() != l[:cols].rstrip():
                bad2 = "row %d shows %r, the lines are %r (cut to %d columns)" % (i, scr2[i], l, cols)
                break
        if bad2 is None and (row2 != len(want) or not vis2):
            bad2 = "cursor on row %d visible=%s after the snapshot, expected row %d visible" % (row2, vis2, len(want))
        if bad2:
            violations.append({"key": "cli-snapshot-tty-differs", "cmd": " ".join(snap), "cols": cols, "rows": rows, "explanation": bad2,
                               "pty_bytes": hx(data2[:4000]), "piped_output": piped[:2000]})
            if len(violations) >= 3:
                break
        # --noout / --csv - on the terminal: cmd/helpers.BuildVTermFromArguments picks the NullTerm – not a single
        # byte (no cursor sequences) goes to the terminal through the writer (Lean: writer_choice, cli_noout_is_silent)
        if it == 0 and len(violations) < 3:
            data3 = _pty_run(cmd[:2] + ["--noout"] + cmd[2:], rows, cols)
            runs += 1
            if data3 != b"":
                violations.append({"key": "cli-noout-writes", "cmd": " ".join(cmd[:2] + ["--noout"] + cmd[2:]),
                                   "explanation": "--noout on a terminal wrote %d bytes, expected none" % len(data3), "pty_bytes": hx(data3[:2000])})
            csvcmd = cmd[:2] + ["--csv", "-"] + cmd[2:]
            craw, cst = _bounded(csvcmd, timeout=60)
            data4 = _pty_run(csvcmd, rows, cols)
            runs += 1
            if cst != "ok" or b"\x1b" in data4 or data4.replace(b"\r\n", b"\n") != craw:
                violations.append({"key": "cli-csv-dash-differs", "cmd": " ".join(csvcmd),
                                   "explanation": "--csv - on a terminal: expected exactly the csv (no cursor sequences), the same as piped",
                                   "pty_bytes": hx(data4[:2000]), "piped_output": craw[:2000].decode("utf-8", "replace")})
    # the terminal is shorter than the block of lines (known finding: the writer does not know the height)
    path = os.path.join(work, "short.log")
    chunk1 = "".join("key%d %d\n" % (i % 7, i) for i in range(200)).encode()
    chunk2 = "".join("key%d %d\n" % (i % 3, i) for i in range(300)).encode()
    cmd = [rare, "histo", "-m", r"(key\d+) (\d+)", "-e", "{1}", "-n", "6", "-"]
    piped = _bounded(cmd, chunk1 + chunk2, timeout=60)[0].decode("utf-8", "replace")
    want = [_strip_sgr(l) for l in piped.split("\n")]
    if want and want[-1] == "":
        want.pop()
    rows, cols = 4, 40
    data = _pty_run(cmd, rows, cols, stdin_chunks=[chunk1, chunk2], pause=0.7)
    scr, row, vis = _screen(ctx, cols, rows, data)
    runs += 1
    tail = want[len(want) - (rows - 1):]
    frames = data.count(b"Matched:")
    same = all("B/s" in l or scr[i].rstrip() == l[:cols].rstrip() for i, l in enumerate(tail))
    short_note = ("short terminal (4 rows, %d output lines, %d frames drawn): every frame after the first scroll is drawn displaced "
                  "(known finding, witness `termspec`); because rare repaints all lines top to bottom in every frame the visible rows "
                  "after the last frame %s the last lines of the buffered output; the repeated frames are in the scrollback"
                  % (len(want), frames, "equal" if same else "DIFFER from"))
    return {"runs": runs, "violations": violations,
            "assumptions": ["real CLI (rare histo) run %d times on a pty (live TermWriter; --snapshot = BufferedTerm with AutoTrim from the pty size) and piped (BufferedTerm, no trimming); final screens computed by the reference terminal" % runs, short_note]}


def run(ctx):
    a = run_tmux(ctx)
    b = run_cli(ctx)
    return {"runs": a.get("runs", 0) + b.get("runs", 0), "violations": a.get("violations", []) + b.get("violations", []),
            "assumptions": a.get("assumptions", []) + b.get("assumptions", [])}
