"""C13 extra step: row order of the real CLI (`rare histo|table --sort ...`, piped = snapshot) on the same
data delivered in several shuffled line orders and worker counts.  Checks (a) the printed order is the
same for every delivery order (Go map iteration + batching must not matter) and (b) it equals the order the
Lean specification (`sortspec` op of driver_C13) gives.  `strconv.ParseFloat` and `strings.ToLower` are computed
by the Lean model itself (no oracle data passed in), so the numeric pool contains NaN/Inf spellings, hex floats,
underscores, out-of-range values and non-ASCII spellings of weekday names; `date` is left to the in-process
correspondence."""
import os, subprocess, sys
sys.path.insert(0, os.path.dirname(__file__))
from common import build_rare, Rand

NUMS = ["1", "1.0", "01", "1e3", "-2", "+3", "10", "2", "9", "100", "1.5", "-1.5", "0", "-0", "0.0", "007", "1000", "2.50", "2.5",
        "nan", "NaN", "inf", "-inf", "+Inf", "Infinity", "1e400", "-1e400", "1e-400", "0x1p4", "0x10", "1_000", "1__0", "16", ".5", "5."]
WORDS = ["abc", "qef", "egf", "zac", "bbb", "1a", "a1", "GET", "POST", "z", "B", "b", "error", "x10"]
DAYS = ["mon", "Tue", "tues", "WED", "thursday", "Fri", "sat", "Sunday", "thu", "MONDAY", "fr\u0130day", "FR\u0130"]
MONTHS = ["jan", "Feb", "march", "APR", "may", "June", "jul", "sept", "Sep", "december"]


def body_lines(out):
    """lines of the CLI output before the summary footer (`Matched: …`, `<bytes> B (…/s)` – the byte count may equal a key)"""
    lines = out.decode("utf8", "replace").split("\n")
    for i, l in enumerate(lines):
        if l.startswith("Matched:"):
            return lines[:i]
    return lines


def hexs(s):
    return s.encode().hex() if s else "-"


def run_extra(ctx):
    rnd = Rand(ctx["seed"] * 104729 + 13)
    exe = build_rare(ctx)
    work = ctx["work"]
    nsets = 6 if ctx["tier"] == "quick" else 40
    violations, runs = [], 0
    for si in range(nsets):
        pool = rnd.pick([NUMS, NUMS + WORDS, WORDS, DAYS, MONTHS, NUMS + WORDS])
        keys = []
        for _ in range(2 + rnd.intn(7)):
            k = rnd.pick(pool)
            if k not in keys:
                keys.append(k)
        vals = [rnd.pick([1, 2, 2, 3, 5, 12, 52]) for _ in keys]
        modes = ["text", "numeric", "value", "numeric:desc", "value:asc", "text:reverse"]
        if pool in (DAYS, MONTHS, WORDS):
            modes.append("contextual")
        for mode in modes:
            # the specified order
            case = "C13 sortspec %s %s %s %s %s ." % (hexs(mode), ";".join(hexs(k) for k in keys), ",".join(map(str, vals)),
                                                    ",".join(str(i) for i in range(len(keys))), ",".join("x" for _ in keys))
            p = subprocess.run([ctx["driver"]], input=case + "\n", stdout=subprocess.PIPE, text=True, timeout=60)
            ans = p.stdout.strip()
            if not ans.startswith("ok"):
                violations.append({"key": "e2e-driver", "case": case, "model": ans})
                continue
            want = [] if ans == "ok ." else [bytes.fromhex(h).decode() for h in ans[3:].split(";")]
            seen = None
            for delivery in range(3):
                lines = []
                for k, v in zip(keys, vals):
                    # split the total over several lines so that arrival order and batching differ
                    parts = [1] * v if rnd.intn(2) else [v]
                    lines += ["%s %d" % (k, q) for q in parts]
                for i in range(len(lines) - 1, 0, -1):
                    j = rnd.intn(i + 1)
                    lines[i], lines[j] = lines[j], lines[i]
                f = os.path.join(work, "e2e.txt")
                open(f, "w").write("\n".join(lines) + "\n")
                sub = rnd.pick(["histo", "table", "table-cols", "bars"])
                topn = None
                if sub == "histo":
                    # -n N: the cut comes after the sort – the first N rows of the specified order, whatever the delivery
                    topn = rnd.pick([100, 100, 1, 2, 3, len(keys)])
                    cmd = [exe, "histo", "-m", r"(\S+) (\d+)", "-e", "{$ {1} {2}}", "--sort", mode, "-n", str(topn)]
                elif sub == "bars":
                    cmd = [exe, "bars", "-m", r"(\S+) (\d+)", "-e", "{$ {1} k {2}}", "--sort", mode]
                elif sub == "table-cols":
                    cmd = [exe, "table", "-m", r"(\S+) (\d+)", "-e", "{$ {1} r {2}}", "--sort-cols", mode, "--cols", "100"]
                else:
                    cmd = [exe, "table", "-m", r"(\S+) (\d+)", "-e", "{$ c {1} {2}}", "--sort-rows", mode, "--rows", "100"]
                cmd += ["--workers", str(rnd.pick([1, 2, 4])), "--batch", str(rnd.pick([1, 2, 1000])), f]
                rc, out, err = run(cmd, timeout=120)
                runs += 1
                got = []
                text = body_lines(out)
                if sub == "table-cols":
                    got = [w for w in (text[0].split() if text else []) if w in keys]
                else:
                    for l in text[(1 if sub in ("table", "bars") else 0):]:
                        w = l.split()
                        if len(w) >= 2 and w[0] in keys:
                            got.append(w[0])
                if rc != 0 or got != (want if topn is None else want[:topn]):
                    violations.append({"key": "e2e-order", "cmd": " ".join(cmd[1:]), "data": lines, "sort": mode,
                                       "cli_order": got, "spec_order": want if topn is None else want[:topn], "rc": rc,
                                       "stderr": err.decode("utf8", "replace")[-300:]})
                    break
                if topn is not None and topn < len(keys):
                    continue
                if seen is not None and seen != got:
                    violations.append({"key": "e2e-unstable", "cmd": " ".join(cmd[1:]), "sort": mode, "orders": [seen, got]})
                    break
                seen = got
    r2, v2 = run_dates(ctx, rnd, exe)
    r3, v3 = run_reduce(ctx, rnd, exe)
    r4, v4 = run_axes(ctx, rnd, exe)
    r5, v5 = run_paced(ctx, rnd, exe)
    runs += r2 + r3 + r4 + r5
    violations += v4 + v5 + v2 + v3
    return {"runs": runs, "violations": violations[:5],
            "assumptions": ["e2e: the CLI is run on generated files; row order parsed from its piped (snapshot) output",
                            "e2e date: the CLI runs with TZ=UTC (the model of time.Parse assumes time.Local knows no zone names)"]}


ZONE_LAYOUT = "2006-01-02T15:04:05-0700"


def zone_key(unix, off):
    """time.Format(ZONE_LAYOUT) of instant `unix` in the zone `off` seconds east of UTC"""
    import datetime
    t = datetime.datetime(1970, 1, 1) + datetime.timedelta(seconds=unix + off)
    sign = "+" if off >= 0 else "-"
    a = abs(off)
    return t.strftime("%Y-%m-%dT%H:%M:%S") + "%s%02d%02d" % (sign, a // 3600, a % 3600 // 60)


def driver_order(ctx, case):
    p = subprocess.run([ctx["driver"]], input=case + "\n", stdout=subprocess.PIPE, text=True, timeout=60)
    ans = p.stdout.strip()
    if not ans.startswith("ok"):
        return None, ans
    return ([] if ans == "ok ." else [bytes.fromhex(h).decode() for h in ans[3:].split(";")]), ans


def run_dates(ctx, rnd, exe):
    """--sort date on keys that denote the same instants in several zones, several delivery orders, histo / table rows /
    table columns / heatmap rows; the specified order comes from the model of time.Parse (dsortspec)."""
    work = ctx["work"]
    env = dict(os.environ, TZ="UTC")
    violations, runs = [], 0
    nsets = 3 if ctx["tier"] == "quick" else 25
    for si in range(nsets):
        base = 1662199200 + rnd.intn(400) * 86400 - 200 * 86400
        instants = [base] + [base + rnd.pick([1, -1, 60, 3600, -3600, 1800, -7200]) for _ in range(rnd.intn(3))]
        keys = []
        for _ in range(3 + rnd.intn(5)):
            k = zone_key(rnd.pick(instants), rnd.pick([0, 0, 3600, 7200, -18000, 19800, -12600, 20700, 50400, -43200]))
            if k not in keys:
                keys.append(k)
        vals = [rnd.pick([1, 2, 2, 3, 5]) for _ in keys]
        for mode in ["date", "date:desc"]:
            case = "C13 dsortspec %s %s %s %s %s" % (hexs(mode), ";".join(hexs(k) for k in keys), ",".join(map(str, vals)),
                                                   ",".join(str(i) for i in range(len(keys))), ";".join(hexs(ZONE_LAYOUT) for _ in keys))
            want, ans = driver_order(ctx, case)
            if want is None:
                violations.append({"key": "e2e-driver", "case": case, "model": ans})
                continue
            for delivery in range(3):
                lines = []
                for k, v in zip(keys, vals):
                    parts = [1] * v if rnd.intn(2) else [v]
                    lines += ["%s %d" % (k, q) for q in parts]
                for i in range(len(lines) - 1, 0, -1):
                    j = rnd.intn(i + 1)
                    lines[i], lines[j] = lines[j], lines[i]
                f = os.path.join(work, "e2e-date.txt")
                open(f, "w").write("\n".join(lines) + "\n")
                sub = rnd.pick(["histo", "table-rows", "table-cols", "heatmap-rows"])
                if sub == "histo":
                    cmd = [exe, "histo", "-m", r"(\S+) (\d+)", "-e", "{$ {1} {2}}", "--sort", mode, "-n", "100"]
                elif sub == "table-rows":
                    cmd = [exe, "table", "-m", r"(\S+) (\d+)", "-e", "{$ c {1} {2}}", "--sort-rows", mode, "--rows", "100"]
                elif sub == "table-cols":
                    cmd = [exe, "table", "-m", r"(\S+) (\d+)", "-e", "{$ {1} r {2}}", "--sort-cols", mode, "--cols", "100"]
                else:
                    cmd = [exe, "heatmap", "-m", r"(\S+) (\d+)", "-e", "{$ c {1} {2}}", "--sort-rows", mode, "--rows", "100"]
                cmd += ["--workers", str(rnd.pick([1, 2, 4])), "--batch", str(rnd.pick([1, 2, 1000])), f]
                rc, out, err = run(cmd, timeout=120, env=env)
                runs += 1
                text = body_lines(out)
                got = []
                if sub == "table-cols":
                    got = [w for w in (text[0].split() if text else []) if w in keys]
                else:
                    for l in text:
                        w = l.split()
                        if w and w[0] in keys:
                            got.append(w[0])
                if rc != 0 or got != want:
                    violations.append({"key": "e2e-date-order", "cmd": " ".join(cmd[1:]), "data": lines, "sort": mode,
                                       "cli_order": got, "spec_order": want, "rc": rc, "stderr": err.decode("utf8", "replace")[-300:]})
                    break
    return runs, violations


RGROUPS = ["Mon", "Fri", "Wed", "Sun", "Sat", "Tue", "jan", "Feb", "dec", "abc", "10", "9", "x1"]


def run_reduce(ctx, rnd, exe):
    """`rare reduce -g {1} -a k={2} --sort {k} [--sort-reverse]`: groups with equal sort keys, weekday/month group names,
    several delivery orders; the specified row order comes from the model (groups op)."""
    work = ctx["work"]
    violations, runs = [], 0
    nsets = 4 if ctx["tier"] == "quick" else 30
    for si in range(nsets):
        groups = []
        for _ in range(3 + rnd.intn(6)):
            g = rnd.pick(RGROUPS)
            if g not in groups:
                groups.append(g)
        pool = rnd.pick([["1", "2", "3"], ["2", "2", "3", "1", "10"], ["1", "1.0", "2"], ["7"], ["mon", "tue", "Tue", "fri"], ["a", "b", "B"]])
        skeys = [rnd.pick(pool) for _ in groups]
        for rev in [0, 1]:
            for with_sort in [True, False]:
                case = "C13 groups %d %s %s %s" % (rev, ";".join(hexs(g) for g in groups),
                                                  ";".join(hexs(k) for k in skeys) if with_sort else ".", ",".join(str(i) for i in range(len(groups))))
                want, ans = driver_order(ctx, case)
                if want is None:
                    if ans.startswith("unmodelled"):
                        continue
                    violations.append({"key": "e2e-driver", "case": case, "model": ans})
                    continue
                for delivery in range(3):
                    lines = ["%s %s" % (g, k) for g, k in zip(groups, skeys)]
                    lines += ["%s %s" % (g, k) for g, k in zip(groups, skeys) if rnd.intn(2)]
                    for i in range(len(lines) - 1, 0, -1):
                        j = rnd.intn(i + 1)
                        lines[i], lines[j] = lines[j], lines[i]
                    f = os.path.join(work, "e2e-reduce.txt")
                    open(f, "w").write("\n".join(lines) + "\n")
                    cmd = [exe, "reduce", "-m", r"(\S+) (\S+)", "-g", "{1}", "-a", "k={2}", "--rows", "100"]
                    if with_sort:
                        cmd += ["--sort", "{k}"]
                    if rev:
                        cmd += ["--sort-reverse"]
                    cmd += ["--workers", str(rnd.pick([1, 2, 4])), "--batch", str(rnd.pick([1, 2, 1000])), f]
                    rc, out, err = run(cmd, timeout=120)
                    runs += 1
                    got = []
                    for l in body_lines(out)[1:]:
                        w = l.split()
                        if len(w) == 2 and w[0] in groups:
                            got.append(w[0])
                    if rc != 0 or got != want:
                        violations.append({"key": "e2e-reduce-order", "cmd": " ".join(cmd[1:]), "data": lines,
                                           "cli_order": got, "spec_order": want, "rc": rc, "stderr": err.decode("utf8", "replace")[-300:]})
                        break
    return runs, violations


def run_axes(ctx, rnd, exe):
    """`rare table|heatmap|spark --sort-rows M --sort-cols M` with the SAME stateful mode on both axes and keys of
    different kinds on the two axes (weekday rows x month columns, numbers x weekdays ...): each axis must come out in
    its own specified order (two BuildSorter calls = two closures); several delivery orders.  Row order is checked for all
    three commands, column order for `table` (its header prints every column name)."""
    work = ctx["work"]
    violations, runs = [], 0
    pools = [DAYS[:10], MONTHS, ["10", "9", "100", "1.5", "-2", "007"], ["abc", "qef", "zac", "GET", "x10", "b", "B"]]
    fixed = [(["Thu", "Mon", "Fri", "Tue", "Wed"], ["Jan", "Feb", "Mar", "Apr"], "contextual", "contextual")]
    nsets = 3 if ctx["tier"] == "quick" else 25
    for si in range(nsets + len(fixed)):
        if si < len(fixed):
            rows, cols, rmode, cmode = fixed[si]
        else:
            pr = rnd.pick(pools)
            pc = rnd.pick([q for q in pools if q is not pr])
            rows, cols = [], []
            for _ in range(2 + rnd.intn(5)):
                k = rnd.pick(pr)
                if k not in rows:
                    rows.append(k)
            for _ in range(2 + rnd.intn(4)):
                k = rnd.pick(pc)
                if k not in cols:
                    cols.append(k)
            base = rnd.pick(["contextual", "context"])  # `date` on these pools is left to the in-process ops (ParseFormat oracle)
            rmode = base + rnd.pick(["", "", ":desc", ":reverse"])
            cmode = base + rnd.pick(["", "", ":desc", ":asc"])
        want = {}
        bad = False
        for axis, keys, mode in (("rows", rows, rmode), ("cols", cols, cmode)):
            case = "C13 sortspec %s %s %s %s %s ." % (hexs(mode), ";".join(hexs(k) for k in keys), ",".join("1" for _ in keys),
                                                    ",".join(str(i) for i in range(len(keys))), ",".join("x" for _ in keys))
            w, ans = driver_order(ctx, case)
            if w is None:
                violations.append({"key": "e2e-driver", "case": case, "model": ans})
                bad = True
            want[axis] = w
        if bad:
            continue
        for delivery in range(3):
            lines = ["%s %s" % (c, r) for c in cols for r in rows if rnd.intn(3) > 0]
            # every key must appear at least once
            lines += ["%s %s" % (c, rows[rnd.intn(len(rows))]) for c in cols] + ["%s %s" % (cols[rnd.intn(len(cols))], r) for r in rows]
            for i in range(len(lines) - 1, 0, -1):
                j = rnd.intn(i + 1)
                lines[i], lines[j] = lines[j], lines[i]
            f = os.path.join(work, "e2e-axes.txt")
            open(f, "w").write("\n".join(lines) + "\n")
            sub = ["table", "heatmap", "spark"][(delivery + si) % 3]
            cmd = [exe, "--nocolor", sub, "-m", r"(\S+) (\S+)", "-e", "{$ {1} {2}}", "--sort-rows", rmode, "--sort-cols", cmode,
                   "--rows", "100", "--cols", "100", "--workers", str(rnd.pick([1, 2, 4])), "--batch", str(rnd.pick([1, 2, 1000])), f]
            rc, out, err = run(cmd, timeout=120)
            runs += 1
            text = body_lines(out)
            got_rows = [l.split()[0] for l in text[1:] if l.split() and l.split()[0] in rows and not l.startswith(" ")]
            ok = rc == 0 and got_rows == want["rows"]
            got_cols = None
            if sub == "table":
                got_cols = [w for w in (text[0].split() if text else []) if w in cols]
                ok = ok and got_cols == want["cols"]
            if not ok:
                violations.append({"key": "e2e-axes-order", "cmd": " ".join(cmd[1:]), "data": lines, "sort_rows": rmode, "sort_cols": cmode,
                                   "cli_rows": got_rows, "spec_rows": want["rows"], "cli_cols": got_cols, "spec_cols": want["cols"],
                                   "rc": rc, "stderr": err.decode("utf8", "replace")[-300:]})
                break
    return runs, violations


def paced(cmd, chunks, pause, timeout=60):
    """run the CLI on stdin delivered in chunks with a pause between them (several 100 ms render ticks per pause)"""
    import time
    p = subprocess.Popen(cmd, stdin=subprocess.PIPE, stdout=subprocess.PIPE, stderr=subprocess.PIPE)
    try:
        for i, c in enumerate(chunks):
            if i:
                time.sleep(pause)
            p.stdin.write(c.encode())
            p.stdin.flush()
        p.stdin.close()
        p.stdin = None
        out, err = p.communicate(timeout=timeout)
        return p.returncode, out, err
    except Exception as e:  # noqa
        p.kill()
        return -1, b"", str(e).encode()


def run_paced(ctx, rnd, exe):
    """The render loop of the real binary (`RunAggregationLoop` renders every 100 ms, piped output or not, with the sorter
    closures built once): stdin arrives in two parts with a pause.  Part 1 = a stranger and ONE weekday/month name (their
    single comparison sends the `contextual` closure to its fallback whatever the map order), part 2 = more names.  The model
    of the render loop (`axes` op = `tableRenders`: the closure's variables are kept between the renders) predicts ONE final
    order for every map order of both renders; a closure built per render (or a final render that forgets the earlier ones)
    would show the arrival-dependent orders of F19 instead (seen with pause 0).  A mismatch is re-tried once with a longer
    pause (a starved process may miss the render between the parts) before it counts."""
    work = ctx["work"]
    violations, runs = [], 0
    nsets = 2 if ctx["tier"] == "quick" else 10
    for si in range(nsets):
        pool = rnd.pick([["mon", "fri", "tue", "wed", "sat", "Sun", "THU"], ["jan", "Feb", "mar", "dec", "oct", "MAY"]])
        names = []
        for _ in range(3 + rnd.intn(3)):
            k = rnd.pick(pool)
            if k not in names:
                names.append(k)
        if len(names) < 3:
            continue
        stranger = rnd.pick(["abc", "zzz", "10", "n/a", "Mo"])
        mode = rnd.pick(["contextual", "contextual", "context:desc", "contextual:reverse"])
        keys = [stranger] + names
        # the model: every map order of render 1 (2 keys), several of the final render
        answers = set()
        for first in ([0, 1], [1, 0]):
            for _ in range(4):
                last = list(range(len(keys)))
                for i in range(len(last) - 1, 0, -1):
                    j = rnd.intn(i + 1)
                    last[i], last[j] = last[j], last[i]
                case = "C13 axes %s %s %s %s 0:%s/0:%s %s -" % (hexs(mode), hexs(mode), ";".join(hexs(k) for k in keys), hexs("c"),
                                                              ",".join(map(str, first)), ",".join(map(str, last)), ";".join("-" for _ in keys))
                p = subprocess.run([ctx["driver"]], input=case + "\n", stdout=subprocess.PIPE, text=True, timeout=60)
                answers.add(p.stdout.strip())
        if len(answers) != 1 or not list(answers)[0].startswith("ok "):
            violations.append({"key": "e2e-paced-model", "keys": keys, "sort": mode, "model": sorted(answers)[:3]})
            continue
        want = [bytes.fromhex(h).decode() for h in list(answers)[0][3:].split("/")[-1].split(":")[1].split(";")]
        sub = ["table", "histo", "heatmap"][si % 3]
        if sub == "histo":
            cmd = [exe, "--nocolor", "histo", "-m", r"(\S+) (\S+)", "-e", "{2}", "--sort", mode, "-n", "100", "--batch", "1"]
        else:
            cmd = [exe, "--nocolor", sub, "-m", r"(\S+) (\S+)", "-e", "{$ {1} {2}}", "--sort-rows", mode, "--sort-cols", mode,
                   "--rows", "100", "--batch", "1"]
        got, rc, err = None, 0, b""
        for pause in (0.5, 2.5):
            part1 = ["c " + stranger, "c " + names[0]]
            part2 = ["c " + n for n in names[1:]] + ["c " + rnd.pick(keys) for _ in range(rnd.intn(3))]
            for part in (part1, part2):
                for i in range(len(part) - 1, 0, -1):
                    j = rnd.intn(i + 1)
                    part[i], part[j] = part[j], part[i]
            rc, out, err = paced(cmd, ["\n".join(part1) + "\n", "\n".join(part2) + "\n"], pause)
            runs += 1
            text = body_lines(out)
            got = [l.split()[0] for l in text[(0 if sub == "histo" else 1):] if l.split() and l.split()[0] in keys and not l.startswith(" ")]
            if rc == 0 and got == want:
                break
        if rc != 0 or got != want:
            violations.append({"key": "e2e-paced-order", "cmd": " ".join(cmd[1:]), "part1": part1, "part2": part2, "sort": mode,
                               "cli_order": got, "model_order": want, "rc": rc, "stderr": err.decode("utf8", "replace")[-300:]})
    return runs, violations


def run(*a, **k):  # the check's entry point is run(ctx); otherwise behave like common.run
    if len(a) == 1 and isinstance(a[0], dict) and "tier" in a[0]:
        return run_extra(a[0])
    from common import run as _run
    return _run(*a, **k)
