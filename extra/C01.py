"""C01 extra step: the classification totals and the emitted keys of the REAL `rare` CLI.

`rare filter` and `rare histo` are run (binary built from /repo's working tree) on several generated
files with ignore expressions over the match context – `-i '{eq {line} 1}'`, `-i '{eq {src} f0001}'`,
`-i '{1}'`, … – and extraction expressions `-e '{src}:{line}:{0}'`, `{0}`, `{1}`, …, for
--workers x --batch x --readers combinations.  Compared with the model's SEQUENTIAL reference
(driver op `pipe`, the op the in-process correspondence uses: `Rare.C01.seqTotals` / `seqMatches`
over `processLine` of `Model/C01Classify`, every line classified with its own source name and 1-based
number):

* the summary line `Matched: M / R (Ignored: I)` (stderr of filter, printed by histo as well),
* the multiset of emitted keys (stdout lines of `filter -e`, rows of `histo --csv`),
* for one reader, one worker and one file also the ORDER of the emitted keys.

The regular expression handed to `-m` is the harness matcher of the model written as a regex:
a line containing `x` does not match, group 1 is the text after the first `:` (absent otherwise).
This reaches what the in-process correspondence does not: flag parsing (`-i` / `-e` / `-m`), the
real fastregex matcher, BuildExtractorFromArguments, real files opened by name (so `{src}` is the
name given on the command line), stdout/stderr.

Round 4 (`run_flags`): the summary line byte for byte WITH thousands separators (inputs of 1000+ lines,
formatting on) against the model's `summary` op (`Model/C01Summary.extractorSummary`); the stdin path
(`rare filter` reading a pipe, with `-` and with no argument, time-flushing batcher); the usage guards
(`--batch 0`, `--batch-buffer -1`, `--readers 0`: exit code 2 and the message of the model's `flags` op,
`Model/C01Flags.configure`; `--batch-buffer 0`, `--workers 0/-3` accepted and correct); `filter -n NUM`
with several workers/readers/files (early consumer exit): NUM' = min(NUM, M) lines printed, each one of the
sequential keys and no key more often than it occurs, stderr `Matched: NUM' / NUM`, no hang.

Round 4b (`run_exit`): the process exit code and the totals when some sources are not well-behaved files – a missing
file, a directory given as a file (the first Read fails), files without any matching line, no match at all – for
`rare filter` and `rare histo`, against the model's `pipex` op (`Model/C01Chunk`: `scanSrc`, `readErrors`,
`determineErrorState`; theorem `cli_exit_code`): exit code 2 with `Read errors` as soon as one source failed, else 1
when nothing matched, else 0; the good files are still read completely and counted.
"""
import os, sys, re, csv, shutil, subprocess, collections
sys.path.insert(0, os.path.dirname(__file__))
from common import build_rare, Rand

REGEX = r"^[^x:]*(?::([^x]*))?$"

WORDS = [b"a", b"b", b"k:v", b"k:", b":v", b"1", b"2", b"h1", b"ax", b"x", b"k:x", b"", b" ", b"a b", b"a:b:c", b"k:v",
         b"\xc3\xa9", b"\xc3\xa9:\xe4\xb8\x96", b"f0001", b"line", b":", b"0", b"k: ", b"\t", b"q:1", b"\xff", b"k:\xfe"]

IGNORES = [
    [],
    ["{eq {line} 1}"],
    ["{eq {line} 1}"],
    ["{eq {src} f0001}"],
    ["{eq {src} f0000}"],
    ["{eq {line} 2}", "{eq {src} f0000}"],
    ["{1}"],
    ["{eq {1} v}"],
    ["{eq {line} 1}", "{1}"],
    ["{not {1}}"],
    ["{gt {line} 3}"],
    ["{eq {0} {line}}"],
    ["{and {eq {src} f0001} {lt {line} 3}}"],
]
EXTRACTS = ["{src}:{line}:{0}", "{src}:{line}:{0}", "{0}", "{1}", "{src}:{line}:{1}", "{line}", "{src}"]

SUMMARY = re.compile(rb"Matched: (\d+) / (\d+)(?:[^\n]*?\(Ignored: (\d+)\))?")


def hx(b):
    return b.hex() if b else "-"


def unhx(s):
    return b"" if s == "-" else bytes.fromhex(s)


def model_answers(driver, cases):
    p = subprocess.run([driver], input="".join(c + "\n" for c in cases).encode(), stdout=subprocess.PIPE,
                       stderr=subprocess.PIPE, timeout=900)
    if p.returncode != 0:
        raise RuntimeError("driver failed: %r" % p.stderr[-400:])
    out = p.stdout.decode().split("\n")[:-1]
    if len(out) != len(cases):
        raise RuntimeError("driver answered %d lines for %d cases" % (len(out), len(cases)))
    return out


def parse_model(ans):
    """`ok read=R matched=M ignored=I inorder=1 matches=src:num:hextext:hexkey,...` -> (R, M, I, [keys in input order])"""
    f = dict(kv.split("=", 1) for kv in ans.split()[1:])
    keys = []
    if f["matches"] != ".":
        for m in f["matches"].split(","):
            keys.append(unhx(m.split(":")[3]))
    return int(f["read"]), int(f["matched"]), int(f["ignored"]), keys


def gen_file(rnd, nlines):
    lines = []
    for _ in range(nlines):
        r = rnd.intn(10)
        if r < 6:
            lines.append(rnd.pick(WORDS))
        elif r < 8:
            lines.append(rnd.pick(WORDS) + rnd.pick([b" ", b":", b"", b"-"]) + rnd.pick(WORDS))
        else:
            lines.append(str(rnd.intn(6)).encode())  # a line that may equal its own line number
    body = b"".join(l + b"\n" for l in lines)
    if lines and rnd.intn(5) == 0:
        body = body[:-1]  # no final newline
    return body


def run_flags(ctx, exe, driver, rnd, viol):
    """summary with separators, stdin, usage guards, filter -n; returns the number of real runs"""
    quick = ctx["tier"] == "quick"
    root = os.path.join(ctx["work"], "cli-flags")
    shutil.rmtree(root, ignore_errors=True)
    os.makedirs(root)
    runs = 0
    nocol = [exe, "--nocolor"]

    # ---- data sets: (files, contents); big ones for the thousands separators
    sets = []
    sizes = [0, 1, 999, 1000, 1001, 2500] if quick else [0, 1, 99, 100, 999, 1000, 1001, 2500, 12345, 100000]
    for si, n in enumerate(sizes):
        d = os.path.join(root, "b%02d" % si)
        os.makedirs(d)
        lines = []
        for k in range(n):
            r = rnd.intn(10)
            lines.append(b"x%d" % k if r == 0 else (b"k%d:v" % (k % 7) if r < 4 else (b"" if r == 4 else b"w%d" % (k % 13))))
        body = b"".join(l + b"\n" for l in lines)
        nf = 1 if si % 2 == 0 else 3
        contents = []
        per = (len(lines) + nf - 1) // nf if nf else 0
        for fi in range(nf):
            part = lines[fi * per:(fi + 1) * per] if per else []
            c = b"".join(l + b"\n" for l in part)
            contents.append(c)
            with open(os.path.join(d, "f%04d" % fi), "wb") as f:
                f.write(c)
        sets.append((d, contents, body))

    igs = [[], ["{1}"], ["{eq {line} 1}"], ["{gt {line} 1200}"]]
    cases, meta = [], []
    for si, (d, contents, body) in enumerate(sets):
        for ig in igs[: (2 if quick else 4)] if si else igs[:1]:
            ins = ";".join(hx(c) for c in contents)
            igs_s = "N" if not ig else "+".join(hx(t.encode()) for t in ig)
            cases.append("C01 pipe %s files 1 1 1 1 0 . 0 0 h %s %s" % (ins, igs_s, hx(b"{0}")))
            meta.append(("files", si, ig))
        # stdin: one stream (the concatenation), source name is not used by these expressions
        cases.append("C01 pipe %s reader 1 1 1 1 0 . 0 0 h %s %s" % (hx(body) if body else "-", "N", hx(b"{0}")))
        meta.append(("stdin", si, []))
    answers = model_answers(driver, cases)

    sum_cases, sum_meta = [], []
    for (kind, si, ig), case, ans in zip(meta, cases, answers):
        if not ans.startswith("ok "):
            viol("cli-model-answer", case=case, model=ans)
            continue
        R, M, I, keys = parse_model(ans)
        d, contents, body = sets[si]
        args = ["-m", REGEX, "-e", "{0}"]
        for t in ig:
            args += ["-i", t]
        w, b, r, bb = rnd.pick([1, 2, 4]), rnd.pick([1, 7, 1000]), rnd.pick([1, 2, 3]), rnd.pick([0, 1, 6])
        par = ["--workers", str(w), "--batch", str(b), "--readers", str(r), "--batch-buffer", str(bb)]
        if kind == "files":
            cmd = nocol + ["filter"] + args + par + ["f%04d" % i for i in range(len(contents))]
            stdin = None
        else:
            cmd = nocol + ["filter"] + args + par + rnd.pick([[], ["-"]])
            stdin = body
        try:
            p = subprocess.run(cmd, cwd=d, input=stdin, stdout=subprocess.PIPE, stderr=subprocess.PIPE, timeout=120)
        except subprocess.TimeoutExpired:
            viol("cli-flags-hang", case=case, cmd=" ".join(cmd[1:]))
            continue
        runs += 1
        got = p.stdout.split(b"\n")
        got = got[:-1] if got and got[-1] == b"" else got
        if sorted(got) != sorted(keys):
            viol("cli-flags-keys", case=case, cmd=" ".join(cmd[1:]), cwd=d, got=len(got), want=len(keys))
        sum_cases.append("C01 summary 1 0 %d %d %d 0 ." % (M, R, I))
        sum_meta.append((case, cmd, d, p.stderr))
        # ---- filter -n with several workers: early consumer exit
        for lim in ([1, 3, 1000] if quick else [1, 2, 3, 10, 1000, 5000]):
            cmdn = cmd[:3] + ["-n", str(lim)] + cmd[3:]
            try:
                pn = subprocess.run(cmdn, cwd=d, input=stdin, stdout=subprocess.PIPE, stderr=subprocess.PIPE, timeout=120)
            except subprocess.TimeoutExpired:
                viol("cli-limit-hang", case=case, cmd=" ".join(cmdn[1:]))
                continue
            runs += 1
            gotn = pn.stdout.split(b"\n")
            gotn = gotn[:-1] if gotn and gotn[-1] == b"" else gotn
            want_n = min(lim, M)
            over = collections.Counter(gotn) - collections.Counter(keys)
            if len(gotn) != want_n or over:
                viol("cli-limit-keys", case=case, cmd=" ".join(cmdn[1:]), cwd=d, printed=len(gotn), want=want_n,
                     unexpected=[k.hex() for k in list(over)[:3]])
            sum_cases.append("C01 summary 1 0 %d %d 0 0 ." % (len(gotn), lim))
            sum_meta.append((case, cmdn, d, pn.stderr))

    # the summary lines, byte for byte (thousands separators on)
    for (case, cmd, d, stderr), sc, ans in zip(sum_meta, sum_cases, model_answers(driver, sum_cases)):
        want = unhx(ans.split()[1]) + b"\n" if ans.startswith("ok ") else None
        lines = [l for l in stderr.split(b"\n") if l.startswith(b"Matched: ")]
        if want is None or not lines or lines[-1] + b"\n" != want:
            viol("cli-summary-bytes", case=case, cmd=" ".join(cmd[1:]), cwd=d, model_case=sc,
                 got=(lines[-1] if lines else stderr[-120:]).decode(errors="replace"),
                 want=(want or b"?").decode(errors="replace").strip())

    # ---- usage guards and accepted boundary values
    d = sets[1][0]
    fcases, fmeta = [], []
    combos = [(0, 2, 1, 1), (-1, 2, 1, 1), (1, -1, 1, 1), (1000, -5, 2, 3), (1, 2, 1, 0), (1, 2, 1, -2), (0, -1, 0, 0),
              (1, 0, 0, 1), (1, 0, -3, 1), (2, 0, 1, 2), (1000, 6, 3, 3)]
    for (b, bb, w, r) in combos:
        for kind in ("files", "stdin"):
            fcases.append("C01 flags %s %d %d %d %d" % (kind, b, bb, w, r))
            fmeta.append((kind, b, bb, w, r))
    for (kind, b, bb, w, r), fc, ans in zip(fmeta, fcases, model_answers(driver, fcases)):
        cmd = nocol + ["filter", "--batch", str(b), "--batch-buffer", str(bb), "--workers", str(w), "--readers", str(r)]
        cmd += ["f0000"] if kind == "files" else []
        try:
            p = subprocess.run(cmd, cwd=d, input=(sets[1][2] if kind == "stdin" else None), stdout=subprocess.PIPE,
                               stderr=subprocess.PIPE, timeout=60)
        except subprocess.TimeoutExpired:
            viol("cli-usage-hang", case=fc, cmd=" ".join(cmd[1:]))
            continue
        runs += 1
        f = ans.split()
        if f[0] == "usage":
            msg = unhx(f[2])
            if p.returncode != int(f[1]) or (b"[Log] " + msg) not in p.stderr or b"panic" in p.stderr:
                viol("cli-usage", case=fc, cmd=" ".join(cmd[1:]), rc=p.returncode, want_rc=int(f[1]),
                     stderr=p.stderr[-200:].decode(errors="replace"), want=msg.decode())
        elif f[0] == "ok":
            m = SUMMARY.search(p.stderr)
            if p.returncode not in (0, 1) or not m or int(m.group(2)) != 1 or b"panic" in p.stderr:
                viol("cli-usage-accepted", case=fc, cmd=" ".join(cmd[1:]), rc=p.returncode,
                     stderr=p.stderr[-200:].decode(errors="replace"))
        else:
            viol("cli-model-answer", case=fc, model=ans)
    return runs


def run_exit(ctx, exe, driver, rnd, viol):
    """exit code + totals with failing sources; returns the number of real runs"""
    quick = ctx["tier"] == "quick"
    root = os.path.join(ctx["work"], "cli-exit")
    shutil.rmtree(root, ignore_errors=True)
    os.makedirs(root)
    nsets = 8 if quick else 60
    cases, meta = [], []
    for si in range(nsets):
        d = os.path.join(root, "e%03d" % si)
        os.makedirs(d)
        nf = rnd.pick([1, 2, 3, 4])
        items, files = [], []
        for fi in range(nf):
            name = "f%04d" % fi
            files.append(name)
            kind = rnd.pick(["d", "d", "d", "m", "D", "nomatch"]) if si >= 3 else ["d", "m", "D"][(si + fi) % 3]
            if kind == "m":
                items.append("m/-/.")
            elif kind == "D":
                os.makedirs(os.path.join(d, name))
                items.append("D/-/0:f")
            else:
                body = gen_file(rnd, rnd.pick([0, 1, 3, 9])) if kind == "d" else b"ax\nx\n"
                with open(os.path.join(d, name), "wb") as f:
                    f.write(body)
                items.append("d/%s/." % hx(body))
        ig = rnd.pick([[], [], ["{1}"], ["{eq {line} 1}"], ["1"]])
        igs_s = "N" if not ig else "+".join(hx(t.encode()) for t in ig)
        cases.append("C01 pipex files 1 1 1 1 0 %s h %s %s" % (";".join(items), igs_s, hx(b"{0}")))
        meta.append((d, files, ig))
    # stdin: an empty stream, a stream without a match, a stream with matches
    for body in [b"", b"x\nax\n", b"a\nk:v\nx\nlast"]:
        cases.append("C01 pipex reader 1 1 1 1 0 r/%s/. h N %s" % (hx(body), hx(b"{0}")))
        meta.append((root, None, [], body))
    runs = 0
    for m4, case, ans in zip(meta, cases, model_answers(driver, cases)):
        d, files, ig = m4[0], m4[1], m4[2]
        stdin = m4[3] if len(m4) > 3 else None
        if not ans.startswith("ok "):
            viol("cli-model-answer", case=case, model=ans)
            continue
        f = dict(kv.split("=", 1) for kv in ans.split()[1:])
        want = (int(f["read"]), int(f["matched"]), int(f["ignored"]))
        want_rc, errs = int(f["exit"]), int(f["errors"])
        args = ["-m", REGEX, "-e", "{0}"]
        for t in ig:
            args += ["-i", t]
        par = ["--workers", str(rnd.pick([1, 2, 4])), "--batch", str(rnd.pick([1, 3, 1000])), "--readers", str(rnd.pick([1, 2, 3]))]
        for sub in ("filter", "histo"):
            cmd = [exe, "--nocolor", "--noformat", sub] + args + par + (files if files is not None else rnd.pick([[], ["-"]]))
            try:
                p = subprocess.run(cmd, cwd=d, input=stdin, stdin=(subprocess.DEVNULL if stdin is None else None),
                                   stdout=subprocess.PIPE, stderr=subprocess.PIPE, timeout=60)
            except subprocess.TimeoutExpired:
                viol("cli-exit-hang", case=case, cmd=" ".join(cmd[1:]))
                continue
            runs += 1
            m = SUMMARY.search(p.stdout + b"\n" + p.stderr if sub == "histo" else p.stderr)
            summ = (int(m.group(2)), int(m.group(1)), int(m.group(3) or 0)) if m else None
            logged = p.stderr.count(b"Error opening file") + p.stderr.count(b"Error reading ")
            if p.returncode != want_rc or summ != want or logged != errs or (errs > 0) != (b"Read errors" in p.stderr) \
                    or b"panic" in p.stderr:
                viol("cli-exit-code", case=case, cmd=" ".join(cmd[1:]), cwd=d, rc=p.returncode, want_rc=want_rc,
                     got="read=%s matched=%s ignored=%s" % (summ if summ else ("?", "?", "?")),
                     want="read=%d matched=%d ignored=%d" % want, logged_errors=logged, want_errors=errs,
                     stderr=p.stderr[-200:].decode(errors="replace"))
    return runs


def run_extra(ctx):
    rnd = Rand(ctx["seed"] * 7919 + 101)
    exe = build_rare(ctx)
    driver = ctx["driver"]
    quick = ctx["tier"] == "quick"
    nsets = 40 if quick else 300
    runs, violations, skipped = 0, [], 0
    base = [exe, "--nocolor", "--noformat"]

    reported = set()

    def viol(key, **kw):
        # at most one violation per (kind, case): the five reported are five different inputs
        if len(violations) < 5 and (key, kw.get("case")) not in reported:
            reported.add((key, kw.get("case")))
            violations.append(dict(kw, key=key))

    root = os.path.join(ctx["work"], "cli")
    shutil.rmtree(root, ignore_errors=True)
    os.makedirs(root)

    # ---- the data sets and their configurations; one driver call for all model answers
    sets = []
    for si in range(nsets):
        d = os.path.join(root, "s%03d" % si)
        os.makedirs(d)
        nfiles = 1 if si % 5 == 0 else 1 + rnd.intn(4)
        contents = []
        for fi in range(nfiles):
            n = rnd.pick([0, 1, 2, 3, 5, 9, 30]) if not quick else rnd.pick([0, 1, 2, 3, 5, 9, 17])
            if si == 1:
                n = 6  # the header/rows shape of the seeded-change demo
            body = gen_file(rnd, n)
            contents.append(body)
            with open(os.path.join(d, "f%04d" % fi), "wb") as f:
                f.write(body)
        cfgs = []
        ncfg = 3 if quick else 5
        for ci in range(ncfg):
            ig = IGNORES[(si + ci * 5 + rnd.intn(len(IGNORES))) % len(IGNORES)] if (si, ci) != (1, 0) else ["{eq {line} 1}"]
            ex = rnd.pick(EXTRACTS) if (si, ci) != (1, 0) else "{src}:{line}:{0}"
            cfgs.append((ig, ex))
        sets.append((d, contents, cfgs))

    cases, index = [], []
    for si, (d, contents, cfgs) in enumerate(sets):
        ins = ";".join(hx(c) for c in contents)  # an empty file is `-` inside the list
        for ci, (ig, ex) in enumerate(cfgs):
            igs = "N" if not ig else "+".join(hx(t.encode()) for t in ig)
            cases.append("C01 pipe %s files 1 1 1 1 0 . 0 0 h %s %s" % (ins, igs, hx(ex.encode())))
            index.append((si, ci))
    answers = model_answers(driver, cases)

    for (si, ci), case, ans in zip(index, cases, answers):
        d, contents, cfgs = sets[si]
        ig, ex = cfgs[ci]
        if not ans.startswith("ok "):
            skipped += 1
            if not (ans.startswith("unmodelled") or ans.startswith("compile-error")):
                viol("cli-model-answer", case=case, model=ans)
            continue
        R, M, I, keys = parse_model(ans)
        files = ["f%04d" % i for i in range(len(contents))]
        args = ["-m", REGEX]
        for t in ig:
            args += ["-i", t]
        args += ["-e", ex]
        want_sorted = sorted(keys)
        combos = [(1, 1, 1)]
        for _ in range(2 if quick else 4):
            combos.append((rnd.pick([1, 2, 3, 5, 8]), rnd.pick([1, 1, 2, 3, 7, 1000]), rnd.pick([1, 2, 3])))
        for (w, b, r) in combos:
            par = ["--workers", str(w), "--batch", str(b), "--readers", str(r)]
            # ---- filter
            cmd = base + ["filter"] + args + par + files
            try:
                p = subprocess.run(cmd, cwd=d, stdout=subprocess.PIPE, stderr=subprocess.PIPE, timeout=60)
            except subprocess.TimeoutExpired:
                viol("cli-filter-hang", case=case, cmd=" ".join(cmd[1:]))
                continue
            runs += 1
            got = p.stdout.split(b"\n")
            got = got[:-1] if got and got[-1] == b"" else got
            m = SUMMARY.search(p.stderr)
            summ = (int(m.group(2)), int(m.group(1)), int(m.group(3) or 0)) if m else None
            if summ != (R, M, I):
                viol("cli-filter-summary", case=case, cmd=" ".join(cmd[1:]), cwd=d,
                     got="read=%s matched=%s ignored=%s" % (summ if summ else ("?", "?", "?")),
                     want="read=%d matched=%d ignored=%d" % (R, M, I), stderr=p.stderr[-200:].decode(errors="replace"))
            elif sorted(got) != want_sorted:
                extra = collections.Counter(got) - collections.Counter(keys)
                missing = collections.Counter(keys) - collections.Counter(got)
                viol("cli-filter-keys", case=case, cmd=" ".join(cmd[1:]), cwd=d,
                     unexpected=[k.hex() for k in list(extra)[:3]], missing=[k.hex() for k in list(missing)[:3]])
            elif w == 1 and len(files) == 1 and got != keys:
                # one worker, one file: the output is in input order for every --readers / --batch
                viol("cli-filter-order", case=case, cmd=" ".join(cmd[1:]), cwd=d)
            elif w == 1 and ex.startswith("{src}:") and any(
                    [k for k in got if k.startswith(f.encode() + b":")] != [k for k in keys if k.startswith(f.encode() + b":")]
                    for f in files):
                # one worker, several files (any --readers): every file's matches in the file's line order
                # (theorem single_worker_file_order); lines of different files may interleave
                viol("cli-filter-file-order", case=case, cmd=" ".join(cmd[1:]), cwd=d)
            # ---- filter --line: "<file> <number>: " in front of every match (theorem filter_line_prefix) - the prefix is
            # Match.Source / Match.LineNumber as they travelled through readers, batches and workers
            if (w, b, r) != combos[0] and rnd.intn(2 if quick else 4) == 0:
                cmd = base + ["filter", "-l"] + args + par + files
                try:
                    p = subprocess.run(cmd, cwd=d, stdout=subprocess.PIPE, stderr=subprocess.PIPE, timeout=60)
                except subprocess.TimeoutExpired:
                    viol("cli-filter-line-hang", case=case, cmd=" ".join(cmd[1:]))
                    continue
                runs += 1
                got = p.stdout.split(b"\n")
                got = got[:-1] if got and got[-1] == b"" else got
                want = []
                fm = dict(kv.split("=", 1) for kv in ans.split()[1:])["matches"]
                for mt in ([] if fm == "." else fm.split(",")):
                    q = mt.split(":")
                    want.append(b"f%04d %d: " % (int(q[0]), int(q[1])) + unhx(q[3]))
                if sorted(got) != sorted(want):
                    extra = collections.Counter(got) - collections.Counter(want)
                    missing = collections.Counter(want) - collections.Counter(got)
                    viol("cli-filter-line-prefix", case=case, cmd=" ".join(cmd[1:]), cwd=d,
                         unexpected=[k.hex() for k in list(extra)[:3]], missing=[k.hex() for k in list(missing)[:3]])
            # ---- histo (same classification, keys counted)
            if (w, b, r) == combos[0] or rnd.intn(2) == 0:
                out_csv = os.path.join(d, "h.csv")
                if os.path.exists(out_csv):
                    os.remove(out_csv)
                cmd = base + ["histo"] + args + par + ["--csv", out_csv] + files
                try:
                    p = subprocess.run(cmd, cwd=d, stdout=subprocess.PIPE, stderr=subprocess.PIPE, timeout=60)
                except subprocess.TimeoutExpired:
                    viol("cli-histo-hang", case=case, cmd=" ".join(cmd[1:]))
                    continue
                runs += 1
                m = SUMMARY.search(p.stdout + b"\n" + p.stderr)
                summ = (int(m.group(2)), int(m.group(1)), int(m.group(3) or 0)) if m else None
                if summ != (R, M, I):
                    viol("cli-histo-summary", case=case, cmd=" ".join(cmd[1:]), cwd=d,
                         got="read=%s matched=%s ignored=%s" % (summ if summ else ("?", "?", "?")),
                         want="read=%d matched=%d ignored=%d" % (R, M, I))
                    continue
                counted = {}
                if os.path.exists(out_csv):
                    with open(out_csv, newline="", encoding="latin-1") as f:
                        rows = list(csv.reader(f))
                    for row in rows[1:]:
                        if len(row) >= 2:
                            counted[row[0].encode("latin-1")] = int(row[1])
                want = dict(collections.Counter(keys))
                if counted != want:
                    viol("cli-histo-counts", case=case, cmd=" ".join(cmd[1:]), cwd=d,
                         got=sorted((k.hex(), v) for k, v in counted.items())[:6],
                         want=sorted((k.hex(), v) for k, v in want.items())[:6])
    runs += run_flags(ctx, exe, driver, rnd, viol)
    runs += run_exit(ctx, exe, driver, rnd, viol)
    if not violations:
        shutil.rmtree(root, ignore_errors=True)
        shutil.rmtree(os.path.join(ctx["work"], "cli-flags"), ignore_errors=True)
        shutil.rmtree(os.path.join(ctx["work"], "cli-exit"), ignore_errors=True)
    return {"runs": runs, "violations": violations, "model_declined": skipped,
            "assumptions": ["CLI step: the harness matcher of the model is handed to rare as the regular expression "
                            + REGEX + " (the regex engine is a trusted library); keys are compared as multisets "
                            "(order only for one reader, one worker, one file)"]}


def run(*a, **k):
    return run_extra(a[0])
