"""C01 extra step: the classification totals and the emitted keys of the REAL `rare` CLI.

`rare filter` and `rare histo` are run (binary built from /repo's working tree) on several generated
files with ignore expressions over the match context – `-i '{eq {line} 1}'`, `-i '{eq {src} f0001}'`,
`-i '{1}'`, … – and extraction expressions `-e '{src}:{line}:{0}'`, `{0}`, `{1}`, …, for
--workers x --batch x --readers combinations.  Compared with the model's SEQUENTIAL reference
(driver op `pipe`, the op the in-process correspondence uses: `Rare.C01.seqTotals` / `seqMatches`
over `processLine` of `Model/C01Classify`, every line classified with its own source name and 1-based
number):

* the summary line `Matched: M / R (Ignored: I)` (stderr of filter, printed by histo as well),
* the multiset of emitted keys (stdout lines of `filter -e`, rows of `histo --csv`),
* for one reader, one worker and one file also the ORDER of the emitted keys.

The regular expression handed to `-m` is the harness matcher of the model written as a regex:
a line containing `x` does not match, group 1 is the text after the first `:` (absent otherwise).
This reaches what the in-process correspondence does not: flag parsing (`-i` / `-e` / `-m`), the
real fastregex matcher, BuildExtractorFromArguments, real files opened by name (so `{src}` is the
name given on the command line), stdout/stderr.
"""
import os, sys, re, csv, shutil, subprocess, collections
sys.path.insert(0, os.path.dirname(__file__))
from common import build_rare, Rand

REGEX = r"^[^x:]*(?::([^x]*))?$"

WORDS = [b"a", b"b", b"k:v", b"k:", b":v", b"1", b"2", b"h1", b"ax", b"x", b"k:x", b"", b" ", b"a b", b"a:b:c", b"k:v",
         b"\xc3\xa9", b"\xc3\xa9:\xe4\xb8\x96", b"f0001", b"line", b":", b"0", b"k: ", b"\t", b"q:1", b"\xff", b"k:\xfe"]

IGNORES = [
    [],
    ["{eq {line} 1}"],
    ["{eq {line} 1}"],
    ["{eq {src} f0001}"],
    ["{eq {src} f0000}"],
    ["{eq {line} 2}", "{eq {src} f0000}"],
    ["{1}"],
    ["{eq {1} v}"],
    ["{eq {line} 1}", "{1}"],
    ["{not {1}}"],
    ["{gt {line} 3}"],
    ["{eq {0} {line}}"],
    ["{and {eq {src} f0001} {lt {line} 3}}"],
]
EXTRACTS = ["{src}:{line}:{0}", "{src}:{line}:{0}", "{0}", "{1}", "{src}:{line}:{1}", "{line}", "{src}"]

SUMMARY = re.compile(rb"Matched: (\d+) / (\d+)(?:[^\n]*?\(Ignored: (\d+)\))?")


def hx(b):
    return b.hex() if b else "-"


def unhx(s):
    return b"" if s == "-" else bytes.fromhex(s)


def model_answers(driver, cases):
    p = subprocess.run([driver], input="".join(c + "\n" for c in cases).encode(), stdout=subprocess.PIPE,
                       stderr=subprocess.PIPE, timeout=900)
    if p.returncode != 0:
        raise RuntimeError("driver failed: %r" % p.stderr[-400:])
    out = p.stdout.decode().split("\n")[:-1]
    if len(out) != len(cases):
        raise RuntimeError("driver answered %d lines for %d cases" % (len(out), len(cases)))
    return out


def parse_model(ans):
    """`ok read=R matched=M ignored=I inorder=1 matches=src:num:hextext:hexkey,...` -> (R, M, I, [keys in input order])"""
    f = dict(kv.split("=", 1) for kv in ans.split()[1:])
    keys = []
    if f["matches"] != ".":
        for m in f["matches"].split(","):
            keys.append(unhx(m.split(":")[3]))
    return int(f["read"]), int(f["matched"]), int(f["ignored"]), keys


def gen_file(rnd, nlines):
    lines = []
    for _ in range(nlines):
        r = rnd.intn(10)
        if r < 6:
            lines.append(rnd.pick(WORDS))
        elif r < 8:
            lines.append(rnd.pick(WORDS) + rnd.pick([b" ", b":", b"", b"-"]) + rnd.pick(WORDS))
        else:
            lines.append(str(rnd.intn(6)).encode())  # a line that may equal its own line number
    body = b"".join(l + b"\n" for l in lines)
    if lines and rnd.intn(5) == 0:
        body = body[:-1]  # no final newline
    return body


def run_extra(ctx):
    rnd = Rand(ctx["seed"] * 7919 + 101)
    exe = build_rare(ctx)
    driver = ctx["driver"]
    quick = ctx["tier"] == "quick"
    nsets = 40 if quick else 300
    runs, violations, skipped = 0, [], 0
    base = [exe, "--nocolor", "--noformat"]

    reported = set()

    def viol(key, **kw):
        # at most one violation per (kind, case): the five reported are five different inputs
        if len(violations) < 5 and (key, kw.get("case")) not in reported:
            reported.add((key, kw.get("case")))
            violations.append(dict(kw, key=key))

    root = os.path.join(ctx["work"], "cli")
    shutil.rmtree(root, ignore_errors=True)
    os.makedirs(root)

    # ---- the data sets and their configurations; one driver call for all model answers
    sets = []
    for si in range(nsets):
        d = os.path.join(root, "s%03d" % si)
        os.makedirs(d)
        nfiles = 1 if si % 5 == 0 else 1 + rnd.intn(4)
        contents = []
        for fi in range(nfiles):
            n = rnd.pick([0, 1, 2, 3, 5, 9, 30]) if not quick else rnd.pick([0, 1, 2, 3, 5, 9, 17])
            if si == 1:
                n = 6  # the header/rows shape of the seeded-change demo
            body = gen_file(rnd, n)
            contents.append(body)
            with open(os.path.join(d, "f%04d" % fi), "wb") as f:
                f.write(body)
        cfgs = []
        ncfg = 3 if quick else 5
        for ci in range(ncfg):
            ig = IGNORES[(si + ci * 5 + rnd.intn(len(IGNORES))) % len(IGNORES)] if (si, ci) != (1, 0) else ["{eq {line} 1}"]
            ex = rnd.pick(EXTRACTS) if (si, ci) != (1, 0) else "{src}:{line}:{0}"
            cfgs.append((ig, ex))
        sets.append((d, contents, cfgs))

    cases, index = [], []
    for si, (d, contents, cfgs) in enumerate(sets):
        ins = ";".join(hx(c) for c in contents)  # an empty file is `-` inside the list
        for ci, (ig, ex) in enumerate(cfgs):
            igs = "N" if not ig else "+".join(hx(t.encode()) for t in ig)
            cases.append("C01 pipe %s files 1 1 1 1 0 . 0 0 h %s %s" % (ins, igs, hx(ex.encode())))
            index.append((si, ci))
    answers = model_answers(driver, cases)

    for (si, ci), case, ans in zip(index, cases, answers):
        d, contents, cfgs = sets[si]
        ig, ex = cfgs[ci]
        if not ans.startswith("ok "):
            skipped += 1
            if not (ans.startswith("unmodelled") or ans.startswith("compile-error")):
                viol("cli-model-answer", case=case, model=ans)
            continue
        R, M, I, keys = parse_model(ans)
        files = ["f%04d" % i for i in range(len(contents))]
        args = ["-m", REGEX]
        for t in ig:
            args += ["-i", t]
        args += ["-e", ex]
        want_sorted = sorted(keys)
        combos = [(1, 1, 1)]
        for _ in range(2 if quick else 4):
            combos.append((rnd.pick([1, 2, 3, 5, 8]), rnd.pick([1, 1, 2, 3, 7, 1000]), rnd.pick([1, 2, 3])))
        for (w, b, r) in combos:
            par = ["--workers", str(w), "--batch", str(b), "--readers", str(r)]
            # ---- filter
            cmd = base + ["filter"] + args + par + files
            try:
                p = subprocess.run(cmd, cwd=d, stdout=subprocess.PIPE, stderr=subprocess.PIPE, timeout=60)
            except subprocess.TimeoutExpired:
                viol("cli-filter-hang", case=case, cmd=" ".join(cmd[1:]))
                continue
            runs += 1
            got = p.stdout.split(b"\n")
            got = got[:-1] if got and got[-1] == b"" else got
            m = SUMMARY.search(p.stderr)
            summ = (int(m.group(2)), int(m.group(1)), int(m.group(3) or 0)) if m else None
            if summ != (R, M, I):
                viol("cli-filter-summary", case=case, cmd=" ".join(cmd[1:]), cwd=d,
                     got="read=%s matched=%s ignored=%s" % (summ if summ else ("?", "?", "?")),
                     want="read=%d matched=%d ignored=%d" % (R, M, I), stderr=p.stderr[-200:].decode(errors="replace"))
            elif sorted(got) != want_sorted:
                extra = collections.Counter(got) - collections.Counter(keys)
                missing = collections.Counter(keys) - collections.Counter(got)
                viol("cli-filter-keys", case=case, cmd=" ".join(cmd[1:]), cwd=d,
                     unexpected=[k.hex() for k in list(extra)[:3]], missing=[k.hex() for k in list(missing)[:3]])
            elif (w, r) == (1, 1) and len(files) == 1 and got != keys:
                viol("cli-filter-order", case=case, cmd=" ".join(cmd[1:]), cwd=d)
            # ---- histo (same classification, keys counted)
            if (w, b, r) == combos[0] or rnd.intn(2) == 0:
                out_csv = os.path.join(d, "h.csv")
                if os.path.exists(out_csv):
                    os.remove(out_csv)
                cmd = base + ["histo"] + args + par + ["--csv", out_csv] + files
                try:
                    p = subprocess.run(cmd, cwd=d, stdout=subprocess.PIPE, stderr=subprocess.PIPE, timeout=60)
                except subprocess.TimeoutExpired:
                    viol("cli-histo-hang", case=case, cmd=" ".join(cmd[1:]))
                    continue
                runs += 1
                m = SUMMARY.search(p.stdout + b"\n" + p.stderr)
                summ = (int(m.group(2)), int(m.group(1)), int(m.group(3) or 0)) if m else None
                if summ != (R, M, I):
                    viol("cli-histo-summary", case=case, cmd=" ".join(cmd[1:]), cwd=d,
                         got="read=%s matched=%s ignored=%s" % (summ if summ else ("?", "?", "?")),
                         want="read=%d matched=%d ignored=%d" % (R, M, I))
                    continue
                counted = {}
                if os.path.exists(out_csv):
                    with open(out_csv, newline="", encoding="latin-1") as f:
                        rows = list(csv.reader(f))
                    for row in rows[1:]:
                        if len(row) >= 2:
                            counted[row[0].encode("latin-1")] = int(row[1])
                want = dict(collections.Counter(keys))
                if counted != want:
                    viol("cli-histo-counts", case=case, cmd=" ".join(cmd[1:]), cwd=d,
                         got=sorted((k.hex(), v) for k, v in counted.items())[:6],
                         want=sorted((k.hex(), v) for k, v in want.items())[:6])
    if not violations:
        shutil.rmtree(root, ignore_errors=True)
    return {"runs": runs, "violations": violations, "model_declined": skipped,
            "assumptions": ["CLI step: the harness matcher of the model is handed to rare as the regular expression "
                            + REGEX + " (the regex engine is a trusted library); keys are compared as multisets "
                            "(order only for one reader, one worker, one file)"]}


def run(*a, **k):
    return run_extra(a[0])
