"""C05 extra step: (1) run the real CLI built with the race detector on many small files with several
readers and workers; a race report (or a hang) is a concrete failing schedule.  (2) trace inclusion through
the real CLI binary: the CLI built with the tag `verif` runs its hidden command `veriftrace` (real flag
plumbing -> batcher -> extractor -> RunAggregationLoop -> histogram renderer, event log recording); the log is turned into an `atrace` case and checked by the Lean
driver against the pipeline and aggregation-loop transition systems."""
import os, shutil, subprocess, sys, json, hashlib, time
sys.path.insert(0, os.path.dirname(__file__))
from common import build_rare, run, Rand

# event name -> code (harness/corr/c01trace.go traceKinds)
TRACE_KINDS = {
    "sema.acq": "aq", "rd.start": "rs", "src.open": "so", "src.err": "se", "sync.begin": "sb",
    "flush": "fl", "flush.eof": "fe", "sent": "st", "sync.end": "sn", "sema.rel": "rl",
    "src.close": "sc", "rd.end": "re", "c.wait": "cw", "c.close": "cc",
    "w.start": "ws", "w.recv": "wr", "line.m": "lm", "line.i": "li", "line.u": "lu",
    "w.count": "wc", "w.send": "wd", "w.sent": "wt", "w.exit": "wx", "rc.close": "rc",
    "c.recv": "cr", "c.done": "cd",
    "t.done": "td", "t.tick": "tt", "t.locked": "tl", "t.rendered": "tr",
    "m.signal": "ms", "m.eof": "me", "m.recv": "mr", "m.locked": "ml", "m.unlock": "mu",
    "m.done.send": "md", "m.done.sent": "mt", "m.final.begin": "mf", "m.final.end": "mg",
    "sample": "sa", "render.begin": "rb", "render.end": "rn",
}
# the classification the pipeline model's legacy configuration stands for (harnessMatcher / ignore {1} /
# extract {0}): a line containing 'x' does not match, group 1 is the text after the first ':'
CLI_MATCH = r"^[^x:]*(?::([^x]*))?$"


def hexs(b):
    return b.hex() if b else "-"


def src_index(name):
    base = os.path.basename(name)
    if base[:1] in ("f", "s") and base[1:].isdigit():
        return int(base[1:])
    return -1


def cli_trace(ctx, rnd, violations):
    """One (quick) or several (thorough) traced runs of the real CLI; returns the number of runs checked."""
    exe = os.path.join(ctx["work"], "rare-verif")
    p = subprocess.run(["go", "build", "-tags", "verif", "-o", exe, "."], cwd=ctx["repo"], env=ctx["goenv"],
                       stdout=subprocess.PIPE, stderr=subprocess.STDOUT, text=True, timeout=1200)
    if p.returncode != 0:
        raise RuntimeError("go build -tags verif of rare failed: " + p.stdout[-2000:])
    d = os.path.join(ctx["work"], "clitrace")
    done = 0
    keys = [b"a", b"b", b"cc", b"x", b"k:v", b"", b"dd d"]
    for k in range(1 if ctx["tier"] == "quick" else 8):
        shutil.rmtree(d, ignore_errors=True)
        os.makedirs(d)
        inputs = []
        for i in range(rnd.pick([1, 3, 6])):
            data = b"".join(rnd.pick(keys) + b"\n" for _ in range(rnd.pick([0, 2, 30, 200])))
            inputs.append(data)
            with open(os.path.join(d, "f%04d" % i), "wb") as f:
                f.write(data)
        batch, buf, workers, readers = rnd.pick([1, 2, 7, 1000]), rnd.pick([1, 2, 4]), rnd.pick([1, 2, 4, 8]), rnd.pick([1, 2, 4])
        out = os.path.join(d, "trace.txt")
        cmd = [exe, "veriftrace", "-m", CLI_MATCH, "-i", "{1}", "-e", "{0}", "--batch", str(batch), "--batch-buffer", str(buf),
               "--workers", str(workers), "--readers", str(readers)] + [os.path.join(d, "f%04d" % i) for i in range(len(inputs))]
        env = dict(os.environ, RARE_VERIF_TRACE=out)
        try:
            rc, so, se = run(cmd, timeout=120, env=env)
        except Exception as e:
            violations.append({"key": "cli-trace-hang", "kind": "hang", "cmd": cmd, "error": str(e)})
            continue
        if not os.path.exists(out):
            violations.append({"key": "cli-trace-no-log", "kind": "cli-trace", "cmd": cmd, "rc": rc, "stderr": se.decode("utf8", "replace")[-1500:],
                               "explanation": "the traced CLI run wrote no event log"})
            continue
        summary, evs, gs = None, [], {}
        for line in open(out):
            w = line.split()
            if w[0] == "summary":
                summary = w[1:]
            elif w[0] == "ev":
                g = gs.setdefault(w[1], len(gs))
                kind = TRACE_KINDS.get(w[2], "zz")
                src = "x"
                if w[3] != "-":
                    src = w[3] if kind == "sa" else str(src_index(bytes.fromhex(w[3]).decode("utf8", "replace")))
                evs.append("%d.%s.%s.%s.%s" % (g, kind, src, w[4], w[5]))
        cfg = "f.%d.%d.%d.%d.0.0.0.0.0.0.0.0.0" % (batch, workers, readers, buf)
        final = ".".join(summary[:5])
        blob = cfg + "/" + "_".join(hexs(b) for b in inputs) + "/" + final + "-" + summary[5] + "-" + summary[6] + "/" + ("_".join(evs) if evs else ".")
        case = "C05 atrace " + blob
        want = "ok accepted final=%s renders=%s last=%s" % (final, summary[5], summary[6])
        p = subprocess.run([ctx["driver"]], input=case + "\n", stdout=subprocess.PIPE, stderr=subprocess.PIPE, text=True, timeout=300)
        got = p.stdout.strip()
        done += 1
        if got != want:
            violations.append({"key": "cli-trace-rejected", "kind": "cli-trace", "cmd": cmd, "case": case[:200000], "implementation": want, "model": got,
                               "explanation": "the event log of a real CLI run is not a path of the pipeline / aggregation-loop transition systems "
                                              "(or its final counters differ from the model's terminal state)"})
            break
    shutil.rmtree(d, ignore_errors=True)
    return done


LOCKSET_TABLES = ["batcher", "extractor", "ignoreSet", "objectPool", "logger", "multitermGlobals", "aggLoop", "stageState",
                  "stageStateFuncfile", "stdlibGlobals", "stageStateExpressions", "stageStateStdmath", "compiledKeyBuilder",
                  "expressionsGlobals", "stdmathGlobals", "aggregation", "multiterm", "termrenderers"]
CLASS_TABLES = ["stageState", "stageStateFuncfile", "stageStateExpressions", "stageStateStdmath"]


def lockset_broken(ctx):
    """Static verdicts of the lockset / stage-class tables regenerated from the tree under test (Lean driver)."""
    cases = ["C05 lockset " + t for t in LOCKSET_TABLES] + ["C05 stageclass " + t for t in CLASS_TABLES]
    try:
        p = subprocess.run([ctx["driver"]], input="\n".join(cases) + "\n", stdout=subprocess.PIPE, stderr=subprocess.PIPE, text=True, timeout=300)
        out = p.stdout.split("\n")
    except Exception as e:
        return ["driver: " + str(e)]
    bad = []
    for c, a in zip(cases, out):
        if a not in ("ok racefree", "ok mutable=."):
            bad.append(c + " -> " + a[:400])
    return bad


def source_moved(ctx):
    try:
        want = json.load(open(os.path.join(ctx["root"], "harness", "source_fingerprints.json"))).get("C05", {})
    except Exception:
        return ["no fingerprints"]
    moved = []
    for f, h in want.items():
        try:
            cur = hashlib.sha256(open(os.path.join(ctx["repo"], f), "rb").read()).hexdigest()[:16]
        except OSError:
            cur = "absent"
        if cur != h:
            moved.append(f)
    return moved


def stage_search(ctx, violations):
    """Search for a failing SCHEDULE of the state the workers of one compiled expression share: the correspondence
    harness built with the race detector runs `stages` cases (>= 8 workers over {@map} {@reduce} {@for} {@filter}
    {! math} funcs-file functions {time}, many small batches; mode d = harness goroutines on the compiled expression,
    mode x = the real extractor), every case in a process of its own.  A race report, a worker's value that differs
    from the sequential value, or a crash is the replay.  Budget: a smoke run normally, 25 s when a lockset table of
    the tree under test is not race free or the mirrored sources moved (quick tier); 60 s in the thorough tier."""
    broken = lockset_broken(ctx)
    moved = source_moved(ctx)
    budget = 4.0 if ctx["tier"] == "quick" else 60.0
    if ctx["tier"] == "quick" and (broken or moved):
        budget = 25.0
    if os.environ.get("VERIF_C05_STAGE_BUDGET"):
        budget = float(os.environ["VERIF_C05_STAGE_BUDGET"])
    harn = os.path.join(ctx["root"], "harness")
    modfile = os.path.join(os.path.dirname(ctx["bin"]), "gomod", "go.mod")
    exe = os.path.join(ctx["work"], "corr_C05_race")
    p = subprocess.run(["go", "build", "-race", "-modfile", modfile, "-tags", "verif c05", "-o", exe, "./corr"], cwd=harn, env=ctx["goenv"],
                       stdout=subprocess.PIPE, stderr=subprocess.STDOUT, text=True, timeout=1200)
    if p.returncode != 0:
        raise RuntimeError("go build -race of the correspondence harness failed: " + p.stdout[-2000:])
    plain = os.path.join(ctx["bin"], "corr_C05")
    t0 = time.time()
    done = {"d": 0, "x": 0}
    rounds = 0
    env = dict(os.environ, GORACE="halt_on_error=1 exitcode=66", **{k: v for k, v in ctx["goenv"].items() if k.startswith("VERIF_")})
    while time.time() - t0 < budget and not violations:
        rounds += 1
        tier = "search" if (broken or moved or ctx["tier"] != "quick") else "quick"
        rc, out, err = run([plain, "run", "C05"], inp=("C05 stagecases %s %d\n" % (tier, ctx["seed"] * 1000 + rounds)).encode(), timeout=60)
        line = out.decode("utf8", "replace").strip()
        if not line.startswith("ok "):
            raise RuntimeError("stagecases: " + line[:300])
        for case in line[3:].split("|"):
            if time.time() - t0 >= budget:
                break
            case = "C05 " + case
            try:
                rc, out, err = run([exe, "run", "C05"], inp=(case + "\n").encode(), timeout=120, env=env)
            except Exception as e:
                violations.append({"key": "stage-hang", "kind": "hang", "case": case, "error": str(e),
                                   "explanation": "workers evaluating one compiled expression did not finish"})
                break
            done[case.split()[2]] += 1
            ans = out.decode("utf8", "replace").strip()
            txt = err.decode("utf8", "replace")
            if b"DATA RACE" in err or rc == 66:
                i = txt.find("WARNING: DATA RACE")
                violations.append({"key": "stage-data-race", "kind": "data-race", "case": case, "implementation": ans, "model": "ok bad=0 panics=0",
                                   "report": txt[i:i + 3000], "lockset": broken[:4],
                                   "replay_cmd": "echo '<case>' | GORACE=halt_on_error=1 work/C05/corr_C05_race run C05",
                                   "explanation": "the Go race detector reported a data race while several workers evaluated one compiled expression"})
                break
            if rc != 0:
                violations.append({"key": "stage-crash", "kind": "panic", "case": case, "rc": rc, "stderr": txt[-3000:], "lockset": broken[:4],
                                   "explanation": "a worker goroutine crashed the process while several workers evaluated one compiled expression (no final render)"})
                break
            if ans != "ok bad=0 panics=0":
                violations.append({"key": "stage-wrong-value", "kind": "correspondence", "case": case, "implementation": ans, "model": "ok bad=0 panics=0",
                                   "lockset": broken[:4],
                                   "explanation": "a worker computed a key that differs from the sequential value of the same compiled expression on the same line (or panicked)"})
                break
    return {"stage_cases_race": done, "stage_budget_s": budget, "stage_lockset_broken": broken[:6], "stage_source_moved": moved}


def run_extra(ctx):
    rnd = Rand(ctx["seed"] * 7919 + 5)
    exe = build_rare(ctx, race=True)
    d = os.path.join(ctx["work"], "racefiles")
    shutil.rmtree(d, ignore_errors=True)
    os.makedirs(d)
    nfiles = 1500 if ctx["tier"] == "quick" else 4000
    words = ["alpha", "beta", "gamma", "delta", "x", "k:v"]
    for i in range(nfiles):
        with open(os.path.join(d, "f%05d.log" % i), "w") as f:
            for _ in range(rnd.intn(4)):
                f.write(rnd.pick(words) + " " + str(rnd.intn(5)) + "\n")
    runs = 2 if ctx["tier"] == "quick" else 12
    violations = []
    done = 0
    cmds = []
    for k in range(runs):
        readers = rnd.pick([2, 3, 4])
        workers = rnd.pick([1, 2, 4, 8])
        sub = rnd.pick(["histo", "table", "bars"])
        extra = {"histo": ["-e", "{1}"], "table": ["-e", "{$ {1} {2}}"], "bars": ["-e", "{1}", "-e", "{2}"]}[sub]
        cmd = [exe, sub, "-m", r"(\w+) (\d+)"] + extra + ["--readers", str(readers), "--workers", str(workers), "--batch", str(rnd.pick([1, 3, 1000])), d + "/"]
        cmd = cmd[:-1] + ["-R", d]
        env = dict(os.environ, GORACE="halt_on_error=0 exitcode=66", GOMAXPROCS=str(rnd.pick([2, 4, 16])))
        try:
            rc, out, err = run(cmd, timeout=180, env=env)
        except Exception as e:  # timeout = the run never terminated
            violations.append({"key": "race-run-hang", "kind": "hang", "cmd": cmd, "error": str(e)})
            continue
        done += 1
        cmds.append(" ".join(cmd[1:8]))
        if b"DATA RACE" in err or rc == 66:
            txt = err.decode("utf8", "replace")
            i = txt.find("WARNING: DATA RACE")
            violations.append({"key": "data-race", "kind": "data-race", "cmd": cmd, "report": txt[i:i + 2500],
                               "explanation": "the Go race detector reported a data race in the real CLI on this run"})
            break
    shutil.rmtree(d, ignore_errors=True)
    traced = cli_trace(ctx, rnd, violations)
    stage = stage_search(ctx, violations)
    return {"runs": done, "cli_traces_checked": traced, "violations": violations, "race_cmds": cmds[:3], **stage,
            "assumptions": ["the race detector can only exhibit races on the schedules it sees; absence of a report is not a proof (the lockset theorem is)"]}


def run(*a, **k):  # keep the name `run` usable both as helper (imported above) and as the check's entry point
    if len(a) == 1 and isinstance(a[0], dict) and "tier" in a[0]:
        return run_extra(a[0])
    from common import run as _run
    return _run(*a, **k)
