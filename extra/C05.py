"""C05 extra step: run the real CLI built with the race detector on many small files with several
readers and workers; a race report (or a hang) is a concrete failing schedule."""
import os, shutil, sys
sys.path.insert(0, os.path.dirname(__file__))
from common import build_rare, run, Rand


def run_extra(ctx):
    rnd = Rand(ctx["seed"] * 7919 + 5)
    exe = build_rare(ctx, race=True)
    d = os.path.join(ctx["work"], "racefiles")
    shutil.rmtree(d, ignore_errors=True)
    os.makedirs(d)
    nfiles = 1500 if ctx["tier"] == "quick" else 4000
    words = ["alpha", "beta", "gamma", "delta", "x", "k:v"]
    for i in range(nfiles):
        with open(os.path.join(d, "f%05d.log" % i), "w") as f:
            for _ in range(rnd.intn(4)):
                f.write(rnd.pick(words) + " " + str(rnd.intn(5)) + "\n")
    runs = 2 if ctx["tier"] == "quick" else 12
    violations = []
    done = 0
    cmds = []
    for k in range(runs):
        readers = rnd.pick([2, 3, 4])
        workers = rnd.pick([1, 2, 4, 8])
        sub = rnd.pick(["histo", "table", "bars"])
        extra = {"histo": ["-e", "{1}"], "table": ["-e", "{$ {1} {2}}"], "bars": ["-e", "{1}", "-e", "{2}"]}[sub]
        cmd = [exe, sub, "-m", r"(\w+) (\d+)"] + extra + ["--readers", str(readers), "--workers", str(workers), "--batch", str(rnd.pick([1, 3, 1000])), d + "/"]
        cmd = cmd[:-1] + ["-R", d]
        env = dict(os.environ, GORACE="halt_on_error=0 exitcode=66", GOMAXPROCS=str(rnd.pick([2, 4, 16])))
        try:
            rc, out, err = run(cmd, timeout=180, env=env)
        except Exception as e:  # timeout = the run never terminated
            violations.append({"key": "race-run-hang", "kind": "hang", "cmd": cmd, "error": str(e)})
            continue
        done += 1
        cmds.append(" ".join(cmd[1:8]))
        if b"DATA RACE" in err or rc == 66:
            txt = err.decode("utf8", "replace")
            i = txt.find("WARNING: DATA RACE")
            violations.append({"key": "data-race", "kind": "data-race", "cmd": cmd, "report": txt[i:i + 2500],
                               "explanation": "the Go race detector reported a data race in the real CLI on this run"})
            break
    shutil.rmtree(d, ignore_errors=True)
    return {"runs": done, "violations": violations, "race_cmds": cmds[:3],
            "assumptions": ["the race detector can only exhibit races on the schedules it sees; absence of a report is not a proof (the lockset theorem is)"]}


def run(*a, **k):  # keep the name `run` usable both as helper (imported above) and as the check's entry point
    if len(a) == 1 and isinstance(a[0], dict) and "tier" in a[0]:
        return run_extra(a[0])
    from common import run as _run
    return _run(*a, **k)
