"""C05 extra step: (1) run the real CLI built with the race detector on many small files with several
readers and workers; a race report (or a hang) is a concrete failing schedule.  (2) trace inclusion through
the real CLI binary: the CLI built with the tag `verif` runs its hidden command `veriftrace` (real flag
plumbing -> batcher -> extractor -> RunAggregationLoop -> histogram renderer, event log recording); the log is turned into an `atrace` case and checked by the Lean
driver against the pipeline and aggregation-loop transition systems."""
import os, shutil, subprocess, sys
sys.path.insert(0, os.path.dirname(__file__))
from common import build_rare, run, Rand

# event name -> code (harness/corr/c01trace.go traceKinds)
TRACE_KINDS = {
    "sema.acq": "aq", "rd.start": "rs", "src.open": "so", "src.err": "se", "sync.begin": "sb",
    "flush": "fl", "flush.eof": "fe", "sent": "st", "sync.end": "sn", "sema.rel": "rl",
    "src.close": "sc", "rd.end": "re", "c.wait": "cw", "c.close": "cc",
    "w.start": "ws", "w.recv": "wr", "line.m": "lm", "line.i": "li", "line.u": "lu",
    "w.count": "wc", "w.send": "wd", "w.sent": "wt", "w.exit": "wx", "rc.close": "rc",
    "c.recv": "cr", "c.done": "cd",
    "t.done": "td", "t.tick": "tt", "t.locked": "tl", "t.rendered": "tr",
    "m.signal": "ms", "m.eof": "me", "m.recv": "mr", "m.locked": "ml", "m.unlock": "mu",
    "m.done.send": "md", "m.done.sent": "mt", "m.final.begin": "mf", "m.final.end": "mg",
    "sample": "sa", "render.begin": "rb", "render.end": "rn",
}
# the classification the pipeline model's legacy configuration stands for (harnessMatcher / ignore {1} /
# extract {0}): a line containing 'x' does not match, group 1 is the text after the first ':'
CLI_MATCH = r"^[^x:]*(?::([^x]*))?$"


def hexs(b):
    return b.hex() if b else "-"


def src_index(name):
    base = os.path.basename(name)
    if base[:1] in ("f", "s") and base[1:].isdigit():
        return int(base[1:])
    return -1


def cli_trace(ctx, rnd, violations):
    """One (quick) or several (thorough) traced runs of the real CLI; returns the number of runs checked."""
    exe = os.path.join(ctx["work"], "rare-verif")
    p = subprocess.run(["go", "build", "-tags", "verif", "-o", exe, "."], cwd=ctx["repo"], env=ctx["goenv"],
                       stdout=subprocess.PIPE, stderr=subprocess.STDOUT, text=True, timeout=1200)
    if p.returncode != 0:
        raise RuntimeError("go build -tags verif of rare failed: " + p.stdout[-2000:])
    d = os.path.join(ctx["work"], "clitrace")
    done = 0
    keys = [b"a", b"b", b"cc", b"x", b"k:v", b"", b"dd d"]
    for k in range(1 if ctx["tier"] == "quick" else 8):
        shutil.rmtree(d, ignore_errors=True)
        os.makedirs(d)
        inputs = []
        for i in range(rnd.pick([1, 3, 6])):
            data = b"".join(rnd.pick(keys) + b"\n" for _ in range(rnd.pick([0, 2, 30, 200])))
            inputs.append(data)
            with open(os.path.join(d, "f%04d" % i), "wb") as f:
                f.write(data)
        batch, buf, workers, readers = rnd.pick([1, 2, 7, 1000]), rnd.pick([1, 2, 4]), rnd.pick([1, 2, 4, 8]), rnd.pick([1, 2, 4])
        out = os.path.join(d, "trace.txt")
        cmd = [exe, "veriftrace", "-m", CLI_MATCH, "-i", "{1}", "-e", "{0}", "--batch", str(batch), "--batch-buffer", str(buf),
               "--workers", str(workers), "--readers", str(readers)] + [os.path.join(d, "f%04d" % i) for i in range(len(inputs))]
        env = dict(os.environ, RARE_VERIF_TRACE=out)
        try:
            rc, so, se = run(cmd, timeout=120, env=env)
        except Exception as e:
            violations.append({"key": "cli-trace-hang", "kind": "hang", "cmd": cmd, "error": str(e)})
            continue
        if not os.path.exists(out):
            violations.append({"key": "cli-trace-no-log", "kind": "cli-trace", "cmd": cmd, "rc": rc, "stderr": se.decode("utf8", "replace")[-1500:],
                               "explanation": "the traced CLI run wrote no event log"})
            continue
        summary, evs, gs = None, [], {}
        for line in open(out):
            w = line.split()
            if w[0] == "summary":
                summary = w[1:]
            elif w[0] == "ev":
                g = gs.setdefault(w[1], len(gs))
                kind = TRACE_KINDS.get(w[2], "zz")
                src = "x"
                if w[3] != "-":
                    src = w[3] if kind == "sa" else str(src_index(bytes.fromhex(w[3]).decode("utf8", "replace")))
                evs.append("%d.%s.%s.%s.%s" % (g, kind, src, w[4], w[5]))
        cfg = "f.%d.%d.%d.%d.0.0.0.0.0.0.0.0.0" % (batch, workers, readers, buf)
        final = ".".join(summary[:5])
        blob = cfg + "/" + "_".join(hexs(b) for b in inputs) + "/" + final + "-" + summary[5] + "-" + summary[6] + "/" + ("_".join(evs) if evs else ".")
        case = "C05 atrace " + blob
        want = "ok accepted final=%s renders=%s last=%s" % (final, summary[5], summary[6])
        p = subprocess.run([ctx["driver"]], input=case + "\n", stdout=subprocess.PIPE, stderr=subprocess.PIPE, text=True, timeout=300)
        got = p.stdout.strip()
        done += 1
        if got != want:
            violations.append({"key": "cli-trace-rejected", "kind": "cli-trace", "cmd": cmd, "case": case[:200000], "implementation": want, "model": got,
                               "explanation": "the event log of a real CLI run is not a path of the pipeline / aggregation-loop transition systems "
                                              "(or its final counters differ from the model's terminal state)"})
            break
    shutil.rmtree(d, ignore_errors=True)
    return done


def run_extra(ctx):
    rnd = Rand(ctx["seed"] * 7919 + 5)
    exe = build_rare(ctx, race=True)
    d = os.path.join(ctx["work"], "racefiles")
    shutil.rmtree(d, ignore_errors=True)
    os.makedirs(d)
    nfiles = 1500 if ctx["tier"] == "quick" else 4000
    words = ["alpha", "beta", "gamma", "delta", "x", "k:v"]
    for i in range(nfiles):
        with open(os.path.join(d, "f%05d.log" % i), "w") as f:
            for _ in range(rnd.intn(4)):
                f.write(rnd.pick(words) + " " + str(rnd.intn(5)) + "\n")
    runs = 2 if ctx["tier"] == "quick" else 12
    violations = []
    done = 0
    cmds = []
    for k in range(runs):
        readers = rnd.pick([2, 3, 4])
        workers = rnd.pick([1, 2, 4, 8])
        sub = rnd.pick(["histo", "table", "bars"])
        extra = {"histo": ["-e", "{1}"], "table": ["-e", "{$ {1} {2}}"], "bars": ["-e", "{1}", "-e", "{2}"]}[sub]
        cmd = [exe, sub, "-m", r"(\w+) (\d+)"] + extra + ["--readers", str(readers), "--workers", str(workers), "--batch", str(rnd.pick([1, 3, 1000])), d + "/"]
        cmd = cmd[:-1] + ["-R", d]
        env = dict(os.environ, GORACE="halt_on_error=0 exitcode=66", GOMAXPROCS=str(rnd.pick([2, 4, 16])))
        try:
            rc, out, err = run(cmd, timeout=180, env=env)
        except Exception as e:  # timeout = the run never terminated
            violations.append({"key": "race-run-hang", "kind": "hang", "cmd": cmd, "error": str(e)})
            continue
        done += 1
        cmds.append(" ".join(cmd[1:8]))
        if b"DATA RACE" in err or rc == 66:
            txt = err.decode("utf8", "replace")
            i = txt.find("WARNING: DATA RACE")
            violations.append({"key": "data-race", "kind": "data-race", "cmd": cmd, "report": txt[i:i + 2500],
                               "explanation": "the Go race detector reported a data race in the real CLI on this run"})
            break
    shutil.rmtree(d, ignore_errors=True)
    traced = cli_trace(ctx, rnd, violations)
    return {"runs": done, "cli_traces_checked": traced, "violations": violations, "race_cmds": cmds[:3],
            "assumptions": ["the race detector can only exhibit races on the schedules it sees; absence of a report is not a proof (the lockset theorem is)"]}


def run(*a, **k):  # keep the name `run` usable both as helper (imported above) and as the check's entry point
    if len(a) == 1 and isinstance(a[0], dict) and "tier" in a[0]:
        return run_extra(a[0])
    from common import run as _run
    return _run(*a, **k)
