"""Helpers shared by the property-specific extra steps (building and running the real rare CLI)."""
import os, subprocess, shutil, hashlib


def build_rare(ctx, race=False):
    """Build the real CLI from /repo's working tree (plain or -race) into the property's work dir."""
    out = os.path.join(ctx["work"], "rare-race" if race else "rare")
    os.makedirs(ctx["work"], exist_ok=True)
    cmd = ["go", "build"] + (["-race"] if race else []) + ["-o", out, "."]
    p = subprocess.run(cmd, cwd=ctx["repo"], env=ctx["goenv"], stdout=subprocess.PIPE, stderr=subprocess.STDOUT, text=True, timeout=1200)
    if p.returncode != 0:
        raise RuntimeError("go build of rare failed: " + p.stdout[-2000:])
    return out


def run(cmd, cwd=None, inp=None, timeout=120, env=None):
    p = subprocess.run(cmd, cwd=cwd, input=inp, stdout=subprocess.PIPE, stderr=subprocess.PIPE, timeout=timeout, env=env)
    return p.returncode, p.stdout, p.stderr


class Rand:
    """splitmix64, same as the Go harness: every choice derives from VERIF_SEED."""
    def __init__(self, seed):
        self.s = seed & 0xFFFFFFFFFFFFFFFF

    def u64(self):
        self.s = (self.s + 0x9E3779B97F4A7C15) & 0xFFFFFFFFFFFFFFFF
        z = self.s
        z = ((z ^ (z >> 30)) * 0xBF58476D1CE4E5B9) & 0xFFFFFFFFFFFFFFFF
        z = ((z ^ (z >> 27)) * 0x94D049BB133111EB) & 0xFFFFFFFFFFFFFFFF
        return z ^ (z >> 31)

    def intn(self, n):
        return self.u64() % n if n > 0 else 0

    def pick(self, xs):
        return xs[self.intn(len(xs))]
