"""C03 end-to-end step: the real `rare` CLI on generated corpora.

For every scenario (one corpus of log lines + one aggregator command line) the CLI is run under many
configurations that must not matter:
  --workers / --batch / --batch-buffer / --readers / GOMAXPROCS,
  one file / the same lines cut into several files / the files in another order / the lines dealt
  differently among the files / gzip (-z) / stdin.
Compared:
  (a) ACROSS configurations: exit status, `--csv -` output and `--snapshot` output (global flags
      --nocolor --noformat; the last status line, which shows bytes and a read rate, is dropped) must be
      byte-identical (analyze: numbers within a tolerance, the Welford recurrence is order sensitive in
      floating point);
  (b) AGAINST THE MODEL: the CSV text equals the text the Lean model computes from the sequential key
      list (`agg` / `csv` ops of driver_C03, byte for byte); the CSV re-read with the proved RFC 4180
      reader (`parse` op) equals an aggregation done here in Python; the exit status equals the `exit` op.
Keys contain `,` `"` CR NUL TAB spaces and UTF-8 / invalid UTF-8 (from the log lines) and LF (from the
extraction expression).  Order-sensitive accumulators (reduce) are compared only with one reader, one
worker and files in sequence (FIFO theorem).  A timing-controlled run reproduces the spark truncation
finding (F24).
"""
import gzip, os, re, shutil, subprocess, sys, time
sys.path.insert(0, os.path.dirname(__file__))
from common import build_rare, Rand

NUL = b"\x00"
KEY_ATOMS = [b"a", b"b", b"k", b"GET", b"x1", b",", b'"', b"\r", b"\x00", b" ", b"\t", b"\\", b".", b"\\.", b"\xc3\xa9",
             b"\xc2\xa0", b"\xe6\x97\xa5", b"\xff", b"'", b";", b"=", b"{", b"}", b"-", b"0", b"10", b"2"]
MATCH = r"^([^|]*)\|([^|]*)\|(.*)$"
DISSECT = "%{k}|%{s}|%{n}"


def hx(b):
    return b.hex() if b else "-"


def hexlist(l):
    return ";".join(hx(x) for x in l) if l else "."


def enc_rows(rows):
    return "|".join(hexlist(r) for r in rows) if rows else "_"


def dec_rows(s):
    if s == "_":
        return []
    return [[] if r == "." else [b"" if f == "-" else bytes.fromhex(f) for f in r.split(";")] for r in s.split("|")]


class Driver:
    """driver_C03 answers when its input ends (it flushes once), so every question is one short-lived process"""
    def __init__(self, path):
        self.path = path

    def ask_all(self, lines):
        p = subprocess.run([self.path], input="".join("C03 " + l + "\n" for l in lines), stdout=subprocess.PIPE, text=True, timeout=300)
        out = p.stdout.split("\n")
        return out[:len(lines)] + ["driver-died"] * (len(lines) - len(out))

    def ask(self, line):
        return self.ask_all([line])[0]

    def close(self):
        pass


# ------------------------------------------------------------------ corpus

def gen_key(rnd, pool):
    if rnd.intn(5) < 2:
        return rnd.pick(pool)
    return b"".join(rnd.pick(KEY_ATOMS) for _ in range(1 + rnd.intn(3)))


def gen_lines(rnd, kind):
    """lines `key|sub|num` (no LF, no `|` inside key and sub); some lines do not match, some are ignored,
    some carry a number that is not an int64."""
    pool = [gen_key(rnd, [b"a", b"b", b"c"]) for _ in range(1 + rnd.intn(5))] + [b"a", b"b"]
    if rnd.intn(4) == 0:
        pool.append(b"")
    subs = [gen_key(rnd, [b"x", b"y", b"10", b"9"]) for _ in range(1 + rnd.intn(3))] + [b"x"]
    n = rnd.pick([0, 1, 2, 5, 12, 40, 120]) if rnd.intn(6) else rnd.pick([300, 1500])
    bad = rnd.intn(5) == 0          # this corpus has numbers that do not parse
    nomatch = rnd.intn(3) == 0
    lines = []
    for _ in range(n):
        k, s = rnd.pick(pool), rnd.pick(subs)
        if kind == "reduce":        # keep the group / accumulator arithmetic inside the modelled fragment
            k, s = k.replace(NUL, b"_"), s.replace(NUL, b"_")
        if rnd.intn(9) == 0:
            s = b"skip"
        if kind == "analyze":
            num = rnd.pick([b"1", b"2", b"2", b"3", b"10", b"-4", b"0", b"7", b"100", b"2.5", b"1e2", b"0.125"])
            if bad and rnd.intn(6) == 0:
                num = rnd.pick([b"x", b"", b"1,5", b"--1"])
        else:
            num = str(rnd.intn(14) - 3).encode()
            if bad and rnd.intn(6) == 0:
                num = rnd.pick([b"x", b"", b"1.5", b" 1", b"9223372036854775808"])
        line = k + b"|" + s + b"|" + num
        if nomatch and rnd.intn(5) == 0:
            line = rnd.pick([b"", b"no bars here", k + b"|" + s, b"\r", k])
        if rnd.intn(15) == 0:
            line += b"\r"           # CR LF line end: the CR is not part of the line
        lines.append(line)
    return lines


def logical(line):
    """the line as the scanner hands it over (one trailing CR dropped)"""
    return line[:-1] if line.endswith(b"\r") else line


def groups_of(line):
    p = logical(line).split(b"|", 2)
    return p if len(p) == 3 else None


# ------------------------------------------------------------------ expressions (a tiny evaluator)

def tpl_text(t):
    out = ""
    for kind, v in t:
        out += "{%d}" % v if kind == "g" else v[0]
    return out


def tpl_eval(t, g):
    out = b""
    for kind, v in t:
        out += g[v - 1] if kind == "g" else v[1]
    return out


LITS = [("\\n", b"\n"), ("\\n", b"\n"), ("\\n", b"\n"), ("\\r\\n", b"\r\n"), ("\\t", b"\t"), ("\\r", b"\r"), ("-", b"-"), (" ", b" "), ("\"", b"\""), ("x", b"x"),
        ("é", b"\xc3\xa9"), (".", b"."), ("\\\\.", b"\\.")]


def gen_tpl(rnd, g):
    r = rnd.intn(6)
    if r < 3:
        return [("g", g)]
    if r == 3:
        return [("g", g), ("l", rnd.pick(LITS)), ("g", 3 - g if g in (1, 2) else 1)]
    edge = [l for l in LITS if l[0] != " "]     # urfave/cli trims the value of a slice flag: no plain space at either end
    if r == 4:
        return [("l", rnd.pick(edge)), ("g", g)]
    return [("g", g), ("l", rnd.pick(edge))]


def go_atoi(b):
    if not re.fullmatch(rb"[+-]?[0-9]+", b):
        return None
    v = int(b)
    return v if -2**63 <= v < 2**63 else None


def wrap64(v):
    return (v + 2**63) % 2**64 - 2**63


def split_sample(sample, delim, want):
    """strings.Split semantics as the aggregators read a sample: keys, then the increment"""
    p = sample.split(delim)
    keys = p[:want] + [b""] * (want - len(p[:want]))
    if len(p) > want:
        return keys, go_atoi(p[want])
    return keys, 1


# ------------------------------------------------------------------ scenarios

class Scenario:
    pass


def make_scenario(rnd, kind):
    sc = Scenario()
    sc.kind = kind
    sc.lines = gen_lines(rnd, kind)
    sc.use_dissect = rnd.intn(3) == 0
    sc.ignore = rnd.intn(3) == 0
    sc.extra = []
    sc.ordered = False
    if kind == "histo":
        sc.exprs = [gen_tpl(rnd, 1)] + ([[("g", 3)]] if rnd.intn(2) else [])
        sc.extra = rnd.pick([[], ["-n", "3"], ["--sort", "text"], ["-x"], ["--atleast", "2"]])
    elif kind in ("table", "heatmap", "spark"):
        sc.exprs = [gen_tpl(rnd, 1), gen_tpl(rnd, 2)] + ([[("g", 3)]] if rnd.intn(2) else [])
        sc.ncols = None
        if kind == "spark" and rnd.intn(2):
            sc.ncols = rnd.pick([1, 2, 3])
            sc.extra = ["--sort-cols", "text", "--cols", str(sc.ncols)]
        elif kind == "table":
            sc.extra = rnd.pick([[], ["--sort-rows", "text"], ["-x"], ["--sort-cols", "numeric", "--cols", "2"]])
    elif kind == "bars":
        sc.exprs = [gen_tpl(rnd, 1), gen_tpl(rnd, 2)] + ([[("g", 3)]] if rnd.intn(2) else [])
        sc.extra = rnd.pick([[], ["--stacked"], ["--sort", "text"]])
    elif kind == "analyze":
        sc.exprs = [[("g", 3)]]
        sc.extra = rnd.pick([[], ["-x"], ["-x", "-q", "50", "-q", "100"], ["-x", "-r"]])
    elif kind == "reduce":
        sc.exprs = None
        sc.ngroups = rnd.pick([0, 1, 1, 2])
        sc.ordered = rnd.intn(2) == 0
        sc.sort = rnd.intn(2) == 0
        sc.extra = ["--sort", "{n}"] if sc.sort else []
    return sc


def samples_of(sc):
    """the sequential list of extracted keys + the extractor counters (read, matched, ignored)"""
    out, read, ign = [], 0, 0
    for l in sc.lines:
        read += 1
        g = groups_of(l)
        if g is None:
            continue
        if sc.ignore and g[1] == b"skip":
            ign += 1
            continue
        if sc.kind == "reduce":
            key = NUL.join(g)           # `{@}`
        else:
            key = NUL.join(tpl_eval(t, g) for t in sc.exprs)
        if key == b"":
            ign += 1
            continue
        out.append(key)
    return out, read, ign


def base_args(sc):
    a = ["-d", DISSECT] if sc.use_dissect else ["-m", MATCH]
    if sc.ignore:
        a += ["-i", "{eq {2} skip}"]
    if sc.kind == "reduce":
        for i in range(sc.ngroups):
            a += ["-g", "g%d={%d}" % (i, i + 1)]
        a += ["-a", "total={sumi {.} {3}}", "-a", "n={sumi {.} 1}", "-a", "mx={maxi {.} {3}}"]
        if sc.ordered:
            a += ["-a", "last={2}", "--initial", "0", "-a", "cat:={.}{3}."]
    else:
        for t in sc.exprs:
            a += ["-e", tpl_text(t)]
    return a + sc.extra


SUB = {"histo": "histo", "table": "table", "heatmap": "heatmap", "spark": "spark", "bars": "bars", "analyze": "analyze", "reduce": "reduce"}


# ------------------------------------------------------------------ python-side reference aggregation (independent of the model)

def py_rows(sc, samples):
    """the expected parsed CSV as a canonical object; None when this command has no CSV"""
    k = sc.kind
    if k == "histo":
        d, errs = {}, 0
        for s in samples:
            (key,), inc = split_sample(s, NUL, 1)
            if inc is None:
                errs += 1
                continue
            d[key] = wrap64(d.get(key, 0) + inc)
        rows = sorted(d.items(), key=lambda kv: (-kv[1], kv[0]))
        return [[b"group", b"value"]] + [[a, str(b).encode()] for a, b in rows], errs
    if k in ("table", "heatmap", "spark"):
        cells, errs = {}, 0
        for s in samples:
            (c, r), inc = split_sample(s, NUL, 2)
            if inc is None:
                errs += 1
                continue
            cells[(c, r)] = wrap64(cells.get((c, r), 0) + inc)
        cols = sorted({c for c, _ in cells})
        if k == "spark" and sc.ncols is not None and len(cols) > sc.ncols:
            cols = cols[len(cols) - sc.ncols:]
        rows = sorted({r for c, r in cells if c in cols})
        return [[b""] + cols] + [[r] + [str(cells.get((c, r), 0)).encode() for c in cols] for r in rows], errs
    if k == "bars":
        cells, errs, keys = {}, 0, set()
        for s in samples:
            (a, b), inc = split_sample(s, NUL, 2)
            if inc is None:
                errs += 1
                continue
            keys.add(a)
            cells[(a, b)] = wrap64(cells.get((a, b), 0) + inc)
        subs = sorted({b for _, b in cells})
        return [[b"group"] + subs] + [[a] + [str(cells.get((a, b), 0)).encode() for b in subs] for a in sorted(keys)], errs
    if k == "reduce":
        groups = {}
        for s in samples:
            p = s.split(NUL)
            g = lambda i: p[i - 1] if i - 1 < len(p) else b""
            gk = NUL.join(g(i + 1) for i in range(sc.ngroups))
            row = groups.get(gk)
            if row is None:
                row = groups[gk] = {"total": 0, "n": 0, "mx": 0, "last": b"0", "cat": b""}
            v = go_atoi(g(3))
            if v is None or row["total"] is None:
                row["total"] = None
                row["mx"] = None
            else:
                row["total"] += v
                row["mx"] = max(row["mx"], v)
            row["n"] += 1
            row["last"] = g(2)
            row["cat"] = row["cat"] + g(3) + b"."
        names = ["total", "n", "mx"] + (["last", "cat"] if sc.ordered else [])
        hdr = [("g%d" % i).encode() for i in range(sc.ngroups)] + [n.encode() for n in names]
        rows = []
        order = sorted(groups, key=lambda gk: (str(groups[gk]["n"]).encode(), gk)) if sc.sort else sorted(groups)
        for gk in order:
            row = groups[gk]
            if row["total"] is None:
                return None, 0          # <BAD-TYPE>: outside the fragment evaluated here
            parts = gk.split(NUL) if sc.ngroups else []
            rows.append(parts + [row[n] if isinstance(row[n], bytes) else str(row[n]).encode() for n in names])
        return [hdr] + rows, 0
    return None, 0


def py_analyze(sc, samples):
    vals, errs = [], 0
    for s in samples:
        try:
            if not re.fullmatch(rb"[+-]?([0-9]+\.?[0-9]*|\.[0-9]+)([eE][+-]?[0-9]+)?", s):
                raise ValueError
            vals.append(float(s))
        except ValueError:
            errs += 1
    return vals, errs


# ------------------------------------------------------------------ layouts and tuning

def write_layout(rnd, d, lines, layout):
    """returns (args, stdin_bytes or None, sequential: bool) for one way of delivering the same lines"""
    shutil.rmtree(d, ignore_errors=True)
    os.makedirs(d)

    def put(name, ls, gz=False, final_nl=True):
        data = b"\n".join(ls) + (b"\n" if ls and final_nl else b"")
        path = os.path.join(d, name)
        if gz:
            with gzip.open(path, "wb") as f:
                f.write(data)
        else:
            with open(path, "wb") as f:
                f.write(data)
        return path

    def chunks(k):
        cuts = sorted(rnd.intn(len(lines) + 1) for _ in range(k - 1))
        cuts = [0] + cuts + [len(lines)]
        return [lines[cuts[i]:cuts[i + 1]] for i in range(k)]

    if layout == "one":
        last_ok = bool(lines) and lines[-1] != b"" and not lines[-1].endswith(b"\r")
        return [put("a.log", lines, final_nl=(rnd.intn(3) != 0 or not last_ok))], None, True
    if layout == "stdin":
        return ["-"], b"\n".join(lines) + (b"\n" if lines else b""), True
    if layout == "split":
        return [put("f%02d.log" % i, c) for i, c in enumerate(chunks(1 + rnd.intn(6)))], None, True
    if layout == "shuffle":
        fs = [put("f%02d.log" % i, c) for i, c in enumerate(chunks(2 + rnd.intn(5)))]
        for i in range(len(fs) - 1, 0, -1):
            j = rnd.intn(i + 1)
            fs[i], fs[j] = fs[j], fs[i]
        return fs, None, False
    if layout == "redeal":
        k = 2 + rnd.intn(4)
        buckets = [[] for _ in range(k)]
        for l in lines:
            buckets[rnd.intn(k)].append(l)
        return [put("r%02d.log" % i, c) for i, c in enumerate(buckets)], None, False
    if layout == "gzip":
        return ["-z"] + [put("g%02d.log.gz" % i, c, gz=True) for i, c in enumerate(chunks(1 + rnd.intn(4)))], None, True
    if layout == "glob":
        for i, c in enumerate(chunks(2 + rnd.intn(3))):
            put("w%02d.log" % i, c)
        return [os.path.join(d, "w*.log")], None, True
    raise ValueError(layout)


def tuning(rnd, plain):
    if plain:
        return ["--workers", "1", "--readers", "1"], "1"
    return (["--workers", str(rnd.pick([1, 2, 3, 8])), "--batch", str(rnd.pick([1, 2, 7, 1000])),
             "--batch-buffer", str(rnd.pick([1, 2, 18])), "--readers", str(rnd.pick([1, 2, 5]))],
            str(rnd.pick([1, 2, 4, 16])))


STATUS = re.compile(rb"^(\[\d+/\d+\] )?\S+( \S+)? \(\S+( \S+)?/s\) ?(\|.*)?$")


def norm_snapshot(out):
    ls = out.split(b"\n")
    while ls and ls[-1] == b"":
        ls.pop()
    if ls and STATUS.match(ls[-1]):
        ls.pop()
    return b"\n".join(ls)


FLOAT = re.compile(rb"-?\d+(?:\.\d+)?(?:e[+-]?\d+)?")


def analyze_close(a, b):
    la, lb = a.split(b"\n"), b.split(b"\n")
    if len(la) != len(lb):
        return False
    for x, y in zip(la, lb):
        if x == y:
            continue
        fx, fy = FLOAT.findall(x), FLOAT.findall(y)
        if FLOAT.sub(b"#", x) != FLOAT.sub(b"#", y) or len(fx) != len(fy):
            return False
        for p, q in zip(fx, fy):
            p, q = float(p), float(q)
            if abs(p - q) > 1e-3 * max(1.0, abs(p), abs(q)):
                return False
    return True


def run_cli(exe, sub, args, files, stdin, gmp, mode):
    glob = ["--nocolor", "--noformat"]
    out_flag = ["--csv", "-"] if mode == "csv" else ["--snapshot"]
    cmd = [exe] + glob + [sub] + args + out_flag + files
    env = dict(os.environ, GOMAXPROCS=gmp)
    p = subprocess.run(cmd, input=stdin if stdin is not None else b"", stdout=subprocess.PIPE, stderr=subprocess.PIPE,
                       timeout=40, env=env)
    return p.returncode, p.stdout, p.stderr, cmd


def show(cmd):
    return " ".join(repr(c) if re.search(r"[^\w./=:-]", c) else c for c in cmd[1:])


# ------------------------------------------------------------------ the timing-controlled spark run (F24)

def spark_timing(exe):
    """`spark --sort-cols value:asc --cols 1`: the same nine lines, once in one go, once with a pause after the
    fourth line so that a periodic render (which trims every column but the one it currently ranks last) runs in
    between.  Returns (fast_csv, slow_csv)."""
    a, b = b"a r\na r\na r\nb r\n", b"b r\nb r\nb r\nb r\nc r\n"
    cmd = [exe, "--nocolor", "--noformat", "spark", "-m", r"(\w+) (\w+)", "-e", "{1}", "-e", "{2}", "--sort-cols", "value:asc",
           "--cols", "1", "--batch", "1", "--csv", "-"]
    fast = subprocess.run(cmd, input=a + b, stdout=subprocess.PIPE, stderr=subprocess.PIPE, timeout=60).stdout
    p = subprocess.Popen(cmd, stdin=subprocess.PIPE, stdout=subprocess.PIPE, stderr=subprocess.PIPE)
    p.stdin.write(a)
    p.stdin.flush()
    time.sleep(0.6)
    p.stdin.write(b)
    p.stdin.close()
    slow = p.stdout.read()
    p.wait(timeout=60)
    return fast, slow, cmd


def reduce_regressions(exe, work):
    """fixed defects, re-run on every check: `reduce --sort` with equal sort keys (row order came from map iteration)
    and the empty group key in `reduce --csv` (exported under the previous row's name)."""
    os.makedirs(work, exist_ok=True)
    f = os.path.join(work, "reg.log")
    with open(f, "wb") as w:
        w.write(b"a|x|1\nb|x|1\nc|x|1\nd|x|1\ne|x|1\nf|x|1\n|x|1\n")
    cmd = [exe, "reduce", "-m", MATCH, "-g", "k={1}", "-a", "n={sumi {.} 1}", "--sort", "{n}", "--csv", "-", f]
    outs = set()
    for _ in range(8):
        outs.add(subprocess.run(cmd, stdout=subprocess.PIPE, stderr=subprocess.PIPE, timeout=60).stdout)
    return outs, b"k,n\n,1\na,1\nb,1\nc,1\nd,1\ne,1\nf,1\n", cmd


# ------------------------------------------------------------------ main

def run_extra(ctx):
    rnd = Rand(ctx["seed"] * 1000003 + 3)
    exe = build_rare(ctx)
    drv = Driver(ctx["driver"])
    work = os.path.join(ctx["work"], "e2e")
    thorough = ctx["tier"] != "quick"
    kinds = ["histo", "table", "heatmap", "spark", "bars", "analyze", "reduce"]
    nscen = 70 if not thorough else 700
    nconf = 5 if not thorough else 9
    layouts = ["split", "shuffle", "redeal", "gzip", "stdin", "glob", "one"]
    violations, runs, stats = [], 0, {}

    def bump(k, n=1):
        stats[k] = stats.get(k, 0) + n

    def viol(key, **kw):
        if len(violations) < 6:
            violations.append(dict(kw, key=key))

    for si in range(nscen):
        kind = kinds[si % len(kinds)]
        sc = make_scenario(rnd, kind)
        samples, nread, nign = samples_of(sc)
        bump("scenario." + kind)
        bump("lines", len(sc.lines))
        bump("samples", len(samples))
        if any(b"\n" in s for s in samples):
            bump("scenario.keyWithLF")
        if any(b'"' in s or b"," in s for s in samples):
            bump("scenario.keyWithQuoteOrComma")
        args = base_args(sc)
        sub = SUB[kind]
        # ---- expectations
        if kind == "analyze":
            vals, errs = py_analyze(sc, samples)
            want_rows = None
        else:
            want_rows, errs = py_rows(sc, samples)
        ans = drv.ask("exit 0 0 %d %d" % (errs, len(samples)))
        want_rc = int(ans.split()[1]) if ans.startswith("ok ") else -1
        model_csv = None
        if kind == "histo":
            ans = drv.ask("agg counter " + hexlist(samples))
        elif kind in ("table", "heatmap") or (kind == "spark" and sc.ncols is None):
            ans = drv.ask("agg table 00 " + hexlist(samples))
        elif kind == "spark":
            ans = drv.ask("agg spark 00 %d %s" % (sc.ncols, hexlist(samples)))
        elif kind == "bars":
            ans = drv.ask("agg subkey " + hexlist(samples))
        elif kind == "reduce" and want_rows is not None:
            ans = drv.ask("csv " + enc_rows(want_rows))
        else:
            ans = None
        if ans is not None:
            if not ans.startswith("ok "):
                viol("e2e-driver", case=ans)
            else:
                model_csv = bytes.fromhex(ans.split()[1]) if ans.split()[1] != "-" else b""
        # ---- configurations
        base = {}
        confs = [("one", True)] + [(rnd.pick(layouts), False) for _ in range(nconf)]
        for ci, (layout, plain) in enumerate(confs):
            files, stdin, sequential = write_layout(rnd, work, sc.lines, layout)
            tune, gmp = tuning(rnd, plain)
            if sc.ordered:
                # order-sensitive accumulators: one reader, one worker, files in sequence (FIFO theorem)
                if not sequential:
                    continue
                tune = ["--workers", "1", "--readers", "1", "--batch", str(rnd.pick([1, 3, 1000])), "--batch-buffer", str(rnd.pick([1, 18]))]
            bump("layout." + layout)
            modes = ["csv", "snap"] if kind != "analyze" else ["snap"]
            if kind == "heatmap" and any(split_sample(x, NUL, 2)[0][0] == b"" for x in samples):
                modes = ["csv"]     # F21(b), property C14: the heatmap renderer never returns on an empty column key
                bump("heatmap.snapshotSkipped.emptyColumnKey")
            for mode in modes:
                try:
                    rc, out, err, cmd = run_cli(exe, sub, args + tune, files, stdin, gmp, mode)
                except subprocess.TimeoutExpired:
                    viol("e2e-hang", cmd=show([exe, sub] + args + tune + files), layout=layout)
                    continue
                runs += 1
                if mode == "snap":
                    out = norm_snapshot(out)
                if rc != want_rc:
                    viol("e2e-exit-status", cmd=show(cmd), layout=layout, rc=rc, model_rc=want_rc, stderr=err.decode("utf8", "replace")[-300:],
                         explanation="exit status differs from DetermineErrorState on the sequential reference")
                if mode not in base:
                    base[mode] = (rc, out, show(cmd))
                    if mode == "csv" and model_csv is not None:
                        if out != model_csv:
                            viol("e2e-csv-vs-model", cmd=show(cmd), cli=out.decode("utf8", "replace")[:600], model=model_csv.decode("utf8", "replace")[:600],
                                 explanation="CSV text differs from the model's sequential reference")
                        pans = drv.ask("parse " + hx(out))
                        if want_rows is not None and (not pans.startswith("ok ") or dec_rows(pans[3:]) != want_rows):
                            viol("e2e-csv-reparse", cmd=show(cmd), parsed=pans[:600], expected=enc_rows(want_rows)[:600],
                                 explanation="the CSV export, re-read by the RFC 4180 reader, is not the reference aggregation")
                        bump("csv.comparedWithModel")
                    if kind == "analyze" and vals:
                        m = re.search(rb"Samples:\s+(\d+)\nMean:\s+(\S+)", out)
                        mean = sum(vals) / len(vals)
                        if not m or int(m.group(1)) != len(vals) or abs(float(m.group(2)) - mean) > 1e-3 * max(1, abs(mean)):
                            viol("e2e-analyze-vs-reference", cmd=show(cmd), out=out.decode("utf8", "replace")[:300], n=len(vals), mean=mean)
                        bump("analyze.comparedWithReference")
                else:
                    brc, bout, bcmd = base[mode]
                    same = (out == bout) if kind != "analyze" else analyze_close(out, bout)
                    if rc != brc or not same:
                        viol("e2e-config-dependence", mode=mode, cmd_a=bcmd, cmd_b=show(cmd), layout=layout, rc_a=brc, rc_b=rc,
                             out_a=bout.decode("utf8", "replace")[:500], out_b=out.decode("utf8", "replace")[:500],
                             explanation="same lines, same command line, different tuning/layout: the result differs")
                    bump("compared.acrossConfigs")
    # ---- timing-controlled spark truncation (F24)
    known = []
    fast, slow, cmd = spark_timing(exe)
    runs += 2
    if fast != slow:
        viol("spark-value-trim-timing", cmd=show(cmd), all_at_once=fast.decode(), with_pause=slow.decode(),
             explanation="spark with a value-ordered column sort trims columns inside intermediate renders, so the exported table depends on render timing")
    outs, want, cmd = reduce_regressions(exe, work)
    runs += 8
    if outs != {want}:
        viol("reduce-sort-ties-empty-group", cmd=show(cmd), outputs=[o.decode("utf8", "replace") for o in sorted(outs)], expected=want.decode(),
             explanation="reduce --sort with equal sort keys / the empty group key: the CSV is not the deterministic reference")
    drv.close()
    shutil.rmtree(work, ignore_errors=True)
    return {"runs": runs, "violations": violations, "distribution": stats,
            "assumptions": ["e2e: the real CLI built from /repo is executed on generated files; the OS schedule is whatever happened on these runs",
                            "e2e reference: the extracted keys are computed by a small Python evaluator for the generated templates ({n}, literals, escapes); regex/dissect matching is replaced by splitting at the first two `|`"]}


def run(*a, **k):  # the check's entry point is run(ctx); otherwise behave like common.run
    if len(a) == 1 and isinstance(a[0], dict) and "tier" in a[0]:
        return run_extra(a[0])
    from common import run as _run
    return _run(*a, **k)
