"""C03 end-to-end step: the real `rare` CLI on generated corpora.

For every scenario (one corpus of log lines + one aggregator command line) the CLI is run under many
configurations that must not matter:
  --workers / --batch / --batch-buffer / --readers / GOMAXPROCS,
  one file / the same lines cut into several files / the files in another order / the lines dealt
  differently among the files / gzip (-z) / stdin.
Compared:
  (a) ACROSS configurations: exit status, `--csv -` output and `--snapshot` output (global flags
      --nocolor --noformat; the last status line, which shows bytes and a read rate, is dropped) must be
      byte-identical (analyze: numbers within a tolerance, the Welford recurrence is order sensitive in
      floating point);
  (b) AGAINST THE MODEL: the CSV text equals the text the Lean model computes from the sequential key
      list (`agg` / `csv` ops of driver_C03, byte for byte); the CSV re-read with the proved RFC 4180
      reader (`parse` op) equals an aggregation done here in Python; the exit status equals the `exit` op.
Keys contain `,` `"` CR NUL TAB spaces and UTF-8 / invalid UTF-8 (from the log lines) and LF (from the
extraction expression).  Order-sensitive accumulators (reduce) are compared only with one reader, one
worker and files in sequence (FIFO theorem).  A timing-controlled run reproduces the spark truncation
finding (F24).

Three scenario classes go through the layouts x tuning x GOMAXPROCS matrix:
  random  small corpora, keys with `,` `"` CR NUL ...; half of them PHASED (gen_phases: the keys of an earlier phase
          stop recurring before later phases bring new sub-keys / columns);
  phase   make_phase_scenario: bars / table / heatmap / spark, disjoint key sets per phase, every phase with NEW
          sub-keys behind (in front of, between) all earlier ones; mostly plain names, so that the final
          --snapshot frame can be READ BACK (snap_check) and compared cell by cell with the reference and the CSV;
  late    make_late_scenario / check_late: LATE SAMPLING.  130k-1.5M lines, 10k-200k distinct keys, --batch 20000 /
          50000 and 12-32 workers (5 + workers batches are counted as read before any of them is sampled), so that
          100 ms render ticks fall between "last line read" and "last batch sampled"; also a SLOW STDIN WRITER
          (pace_plan / run_cli_paced: pieces with pauses > 100 ms, final burst or trickle).  Every command line is
          run several times; the final frame is compared with the CSV export of the same command line, with an
          independent aggregation (late_reference) and with the other runs.
Snapshot texts of runs that may have seen a render tick are compared with runs of spaces collapsed (squash): the
padding of the final frame depends on intermediate frames (F25, layout_memory_timing reproduces it on purpose).
"""
import gzip, os, re, shutil, subprocess, sys, threading, time
sys.path.insert(0, os.path.dirname(__file__))
from common import build_rare, Rand

NUL = b"\x00"
KEY_ATOMS = [b"a", b"b", b"k", b"GET", b"x1", b",", b'"', b"\r", b"\x00", b" ", b"\t", b"\\", b".", b"\\.", b"\xc3\xa9",
             b"\xc2\xa0", b"\xe6\x97\xa5", b"\xff", b"'", b";", b"=", b"{", b"}", b"-", b"0", b"10", b"2"]
MATCH = r"^([^|]*)\|([^|]*)\|(.*)$"
DISSECT = "%{k}|%{s}|%{n}"


def hx(b):
    return b.hex() if b else "-"


def hexlist(l):
    return ";".join(hx(x) for x in l) if l else "."


def enc_rows(rows):
    return "|".join(hexlist(r) for r in rows) if rows else "_"


def dec_rows(s):
    if s == "_":
        return []
    return [[] if r == "." else [b"" if f == "-" else bytes.fromhex(f) for f in r.split(";")] for r in s.split("|")]


class Driver:
    """driver_C03 answers when its input ends (it flushes once), so every question is one short-lived process"""
    def __init__(self, path):
        self.path = path

    def ask_all(self, lines):
        p = subprocess.run([self.path], input="".join("C03 " + l + "\n" for l in lines), stdout=subprocess.PIPE, text=True, timeout=300)
        out = p.stdout.split("\n")
        return out[:len(lines)] + ["driver-died"] * (len(lines) - len(out))

    def ask(self, line):
        return self.ask_all([line])[0]

    def close(self):
        pass


# ------------------------------------------------------------------ corpus

def gen_key(rnd, pool):
    if rnd.intn(5) < 2:
        return rnd.pick(pool)
    return b"".join(rnd.pick(KEY_ATOMS) for _ in range(1 + rnd.intn(3)))


AFTER = [b"z", b"~", b"\xff", b"y", b"zz"]      # prefixes that put a new sub-key behind the ones seen so far
BEFORE = [b"!", b"0", b" ", b"+"]               # ... or in front of them


def gen_phases(rnd, pool, subs):
    """half of the corpora are PHASED: the keys of an earlier phase stop recurring before the later phases bring
    new sub-keys / columns (behind, in front of, or between the old ones).  Returns [(pool, subs, weight)]."""
    phases = [(pool, subs, 1 + rnd.intn(3))]
    if rnd.intn(2) == 0:
        return phases
    for p in range(1 + rnd.intn(2)):
        letters = [[b"d", b"e", b"f"], [b"g", b"h", b"i"]][p]
        npool = [gen_key(rnd, letters) for _ in range(1 + rnd.intn(4))]
        if rnd.intn(3) == 0:
            npool.append(rnd.pick(pool))        # one old key keeps recurring
        mode = rnd.intn(4)
        fresh = lambda pre: rnd.pick(pre) + gen_key(rnd, [b"x", b"y", b"1"])
        if mode == 0:
            nsubs = [fresh(AFTER) for _ in range(1 + rnd.intn(2))]
        elif mode == 1:
            nsubs = [fresh(BEFORE) for _ in range(1 + rnd.intn(2))]
        elif mode == 2:
            nsubs = [fresh(AFTER), gen_key(rnd, [b"x", b"y", b"10", b"9"]), fresh(BEFORE)]
        else:
            nsubs = [rnd.pick(phases[-1][1]), fresh(AFTER)]
        phases.append((npool, nsubs, 1 + rnd.intn(3)))
    return phases


def gen_lines(rnd, kind):
    """lines `key|sub|num` (no LF, no `|` inside key and sub); some lines do not match, some are ignored,
    some carry a number that is not an int64."""
    pool = [gen_key(rnd, [b"a", b"b", b"c"]) for _ in range(1 + rnd.intn(5))] + [b"a", b"b"]
    if rnd.intn(4) == 0:
        pool.append(b"")
    subs = [gen_key(rnd, [b"x", b"y", b"10", b"9"]) for _ in range(1 + rnd.intn(3))] + [b"x"]
    n = rnd.pick([0, 1, 2, 5, 12, 40, 120]) if rnd.intn(6) else rnd.pick([300, 1500])
    bad = rnd.intn(5) == 0          # this corpus has numbers that do not parse
    nomatch = rnd.intn(3) == 0
    phases = gen_phases(rnd, pool, subs)
    total = sum(w for _, _, w in phases)
    ends, acc = [], 0
    for _, _, w in phases:
        acc += w
        ends.append(n * acc // total)
    lines = []
    for i in range(n):
        ph = 0
        while i >= ends[ph]:
            ph += 1
        pool, subs = phases[ph][0], phases[ph][1]
        k, s = rnd.pick(pool), rnd.pick(subs)
        if kind == "reduce":        # keep the group / accumulator arithmetic inside the modelled fragment
            k, s = k.replace(NUL, b"_"), s.replace(NUL, b"_")
        if rnd.intn(9) == 0:
            s = b"skip"
        if kind == "analyze":
            num = rnd.pick([b"1", b"2", b"2", b"3", b"10", b"-4", b"0", b"7", b"100", b"2.5", b"1e2", b"0.125"])
            if bad and rnd.intn(6) == 0:
                num = rnd.pick([b"x", b"", b"1,5", b"--1"])
        else:
            num = str(rnd.intn(14) - 3).encode()
            if bad and rnd.intn(6) == 0:
                num = rnd.pick([b"x", b"", b"1.5", b" 1", b"9223372036854775808"])
        line = k + b"|" + s + b"|" + num
        if nomatch and rnd.intn(5) == 0:
            line = rnd.pick([b"", b"no bars here", k + b"|" + s, b"\r", k])
        if rnd.intn(15) == 0:
            line += b"\r"           # CR LF line end: the CR is not part of the line
        lines.append(line)
    return lines


def logical(line):
    """the line as the scanner hands it over (one trailing CR dropped)"""
    return line[:-1] if line.endswith(b"\r") else line


def groups_of(line):
    p = logical(line).split(b"|", 2)
    return p if len(p) == 3 else None


# ------------------------------------------------------------------ expressions (a tiny evaluator)

def tpl_text(t):
    out = ""
    for kind, v in t:
        out += "{%d}" % v if kind == "g" else v[0]
    return out


def tpl_eval(t, g):
    out = b""
    for kind, v in t:
        out += g[v - 1] if kind == "g" else v[1]
    return out


LITS = [("\\n", b"\n"), ("\\n", b"\n"), ("\\n", b"\n"), ("\\r\\n", b"\r\n"), ("\\t", b"\t"), ("\\r", b"\r"), ("-", b"-"), (" ", b" "), ("\"", b"\""), ("x", b"x"),
        ("é", b"\xc3\xa9"), (".", b"."), ("\\\\.", b"\\.")]


def gen_tpl(rnd, g):
    r = rnd.intn(6)
    if r < 3:
        return [("g", g)]
    if r == 3:
        return [("g", g), ("l", rnd.pick(LITS)), ("g", 3 - g if g in (1, 2) else 1)]
    edge = [l for l in LITS if l[0] != " "]     # urfave/cli trims the value of a slice flag: no plain space at either end
    if r == 4:
        return [("l", rnd.pick(edge)), ("g", g)]
    return [("g", g), ("l", rnd.pick(edge))]


def go_atoi(b):
    if not re.fullmatch(rb"[+-]?[0-9]+", b):
        return None
    v = int(b)
    return v if -2**63 <= v < 2**63 else None


def wrap64(v):
    return (v + 2**63) % 2**64 - 2**63


def split_sample(sample, delim, want):
    """strings.Split semantics as the aggregators read a sample: keys, then the increment"""
    p = sample.split(delim)
    keys = p[:want] + [b""] * (want - len(p[:want]))
    if len(p) > want:
        return keys, go_atoi(p[want])
    return keys, 1


# ------------------------------------------------------------------ scenarios

class Scenario:
    pass


def make_scenario(rnd, kind):
    sc = Scenario()
    sc.kind = kind
    sc.lines = gen_lines(rnd, kind)
    sc.use_dissect = rnd.intn(3) == 0
    sc.ignore = rnd.intn(3) == 0
    sc.extra = []
    sc.ordered = False
    if kind == "histo":
        sc.exprs = [gen_tpl(rnd, 1)] + ([[("g", 3)]] if rnd.intn(2) else [])
        sc.extra = rnd.pick([[], ["-n", "3"], ["--sort", "text"], ["-x"], ["--atleast", "2"]])
    elif kind in ("table", "heatmap", "spark"):
        sc.exprs = [gen_tpl(rnd, 1), gen_tpl(rnd, 2)] + ([[("g", 3)]] if rnd.intn(2) else [])
        sc.ncols = None
        if kind == "spark" and rnd.intn(2):
            sc.ncols = rnd.pick([1, 2, 3])
            sc.extra = ["--sort-cols", "text", "--cols", str(sc.ncols)]
        elif kind == "spark" and rnd.intn(3) == 0:
            # a value-ordered column sort never trims the aggregate (b216f7d): the export is the whole table
            sc.extra = ["--sort-cols", rnd.pick(["value", "value:asc", "VALUE:rev", "VALUE", "Value:desc"]), "--cols", str(rnd.pick([1, 2, 3]))]
        elif kind == "table":
            sc.extra = rnd.pick([[], ["--sort-rows", "text"], ["-x"], ["--sort-cols", "numeric", "--cols", "2"]])
    elif kind == "bars":
        sc.exprs = [gen_tpl(rnd, 1), gen_tpl(rnd, 2)] + ([[("g", 3)]] if rnd.intn(2) else [])
        sc.extra = rnd.pick([[], ["--stacked"], ["--sort", "text"]])
    elif kind == "analyze":
        sc.exprs = [[("g", 3)]]
        sc.extra = rnd.pick([[], ["-x"], ["-x", "-q", "50", "-q", "100"], ["-x", "-r"]])
    elif kind == "reduce":
        sc.exprs = None
        sc.ngroups = rnd.pick([0, 1, 1, 2])
        sc.ordered = rnd.intn(2) == 0
        sc.sort = rnd.intn(2) == 0
        sc.extra = ["--sort", "{n}"] if sc.sort else []
    return sc


def shuffled(rnd, xs):
    xs = list(xs)
    for i in range(len(xs) - 1, 0, -1):
        j = rnd.intn(i + 1)
        xs[i], xs[j] = xs[j], xs[i]
    return xs


def make_phase_scenario(rnd, kind):
    """class (b): keys that STOP RECURRING before new sub-keys / columns appear (bars, table, heatmap, spark).
    The key names are dealt to 2-3 phases (so old and new keys interleave in name order); every phase brings new
    sub-keys that sort behind all earlier ones (and sometimes in front / in between); the keys of an earlier
    phase are never sampled again (except one `carry` key in a third of the scenarios).  Mostly plain
    alphanumeric names, so that the snapshot text can be read back and compared cell by cell."""
    sc = Scenario()
    sc.kind, sc.cls = kind, "phase"
    plain = rnd.intn(4) != 0
    deco = (lambda b: b) if plain else (lambda b: b + rnd.pick([b",", b'"', b" x", b"\xc3\xa9", b"\r", b"'"]))
    nph = 2 + rnd.intn(2)
    names = shuffled(rnd, [deco(b"k%02d" % i) for i in range(nph + rnd.intn(9))])
    keysets = [names[p::nph] for p in range(nph)]
    carry = names[0] if rnd.intn(3) == 0 else None
    subsets, seen = [], []
    for p in range(nph):
        mode = 0 if p == 0 else rnd.pick([1, 1, 1, 2, 3, 4])
        new = []
        for j in range(1 + rnd.intn(3)):
            if mode == 0:
                nm = b"m%d" % (2 * j + 2)
            elif mode in (1, 4):
                nm = b"s%d%d" % (p, j)              # behind everything so far (m.. < s1. < s2.)
            elif mode == 2:
                nm = b"b%d%d" % (9 - p, j)          # in front of everything so far
            else:
                nm = b"m%d%d" % (2 * j + 2, 4 + p)  # in between (bytewise: m2 < m25 < m4)
            new.append(deco(nm))
        if mode == 4:
            new.append(deco(b"b%d9" % (9 - p)))      # behind AND in front
        subsets.append(new)
    lines = []
    for p in range(nph):
        for _ in range(rnd.pick([3, 8, 20, 60])):
            k = rnd.pick(keysets[p])
            if carry is not None and rnd.intn(4) == 0:
                k = carry
            s = rnd.pick(subsets[p]) if (not seen or rnd.intn(4)) else rnd.pick(seen)
            num = rnd.pick([b"1", b"2", b"3", b"5", b"7", b"9", b"4", b"-2", b"0"])
            lines.append(k + b"|" + s + b"|" + num)
        seen += subsets[p]
    sc.lines = lines
    sc.use_dissect = rnd.intn(3) == 0
    sc.ignore = rnd.intn(4) == 0
    sc.ordered = False
    sc.ncols = None
    g = [[("g", 1)], [("g", 2)]]
    if kind != "bars" and rnd.intn(2):
        g.reverse()
    sc.exprs = g + ([[("g", 3)]] if rnd.intn(3) else [])
    if kind == "bars":
        sc.extra = rnd.pick([[], ["--stacked"], ["--sort", "text"]])
    elif kind == "spark":
        sc.extra = []
        if rnd.intn(2):
            sc.ncols = rnd.pick([1, 2, 3, 5])
            sc.extra = ["--sort-cols", "text", "--cols", str(sc.ncols)]
        elif kind == "spark" and rnd.intn(3) == 0:
            # a value-ordered column sort never trims the aggregate (b216f7d): the export is the whole table
            sc.extra = ["--sort-cols", rnd.pick(["value", "value:asc", "VALUE:rev", "VALUE", "Value:desc"]), "--cols", str(rnd.pick([1, 2, 3]))]
    elif kind == "table":
        sc.extra = rnd.pick([[], ["--sort-rows", "text"], ["-x"], ["--sort-cols", "numeric", "--cols", "2"], ["--rows", "3"]])
    else:
        sc.extra = rnd.pick([[], ["--rows", "3"]])
    return sc


LATE_SIZES = {          # kind: (lines, distinct keys) for quick / thorough; measured on a 16 core box, see check_late
    "histo":   ([(300000, 100000)], [(300000, 150000), (1500000, 200000)]),
    "table":   ([(260000, 80000)], [(260000, 80000), (500000, 120000)]),
    "heatmap": ([(100000, 10000)], [(200000, 30000), (400000, 60000)]),
    "spark":   ([(260000, 80000)], [(260000, 80000), (500000, 120000)]),
    "bars":    ([(300000, 10000)], [(300000, 20000), (400000, 40000)]),
    "reduce":  ([(130000, 10000)], [(130000, 10000), (250000, 40000)]),
    "analyze": ([(150000, 1)], [(400000, 1), (1500000, 1)]),
}
LATE_ACCS = [("t2", "{sumi {.} {3}}", 0), ("n2", "{sumi {.} 1}", 1), ("m2", "{maxi {.} {3}}", 2), ("t3", "{sumi {.} {3}}", 0), ("n3", "{sumi {.} 1}", 1)]


def make_late_scenario(rnd, kind, size):
    """class (a), LATE SAMPLING: a big corpus with very many distinct keys, read with big batches by many workers, so
    that the last lines are READ (counted by the extractor) long before they are SAMPLED by the aggregator, and
    several 100 ms render ticks fall into that window.  The last tenth of the lines uses keys and sub-keys that
    did not occur before (a snapshot taken early lacks whole groups / columns).  Plain names `k<i>`, `s<j>`,
    `t<j>`; a quarter of the lines hits a small set of hot keys so that the top rows have distinct counts.
    The corpus is a closed-form function of (n, K, S, a, hot): see `recipe`."""
    sc = Scenario()
    sc.kind, sc.cls = kind, "late"
    n, K = size
    S = 3 + rnd.intn(5)
    a = rnd.pick([7919, 104729, 15485863, 32452843])
    hot = rnd.pick([17, 40, 90])
    n = n - rnd.intn(n // 20)
    tail = n - n // 10
    sc.with_inc = rnd.intn(2) == 0
    ki = [((i * a) % K if i & 3 else (i * i) % hot) if i < tail else K + (i * a) % (K // 8 + 1) for i in range(n)]
    si = [(i * 31 + i // 977) % S if i < tail else S + (i // 5) % 2 for i in range(n)]
    ni = [i % 7 for i in range(n)]
    sc.triples = (ki, si, ni)
    sc.subnames = [b"s%d" % j for j in range(S)] + [b"t0", b"t1"]
    sn = sc.subnames
    sc.lines = [b"k%d|%s|%d" % (k, sn[s], v) for k, s, v in zip(ki, si, ni)]
    sc.recipe = ("n=%d;K=%d;S=%d;a=%d;hot=%d;tail=n-n//10;sn=[b's%%d'%%j for j in range(S)]+[b't0',b't1'];"
                 "open('in.log','wb').write(b''.join(b'k%%d|%%s|%%d\\n'%%(((i*a)%%K if i&3 else (i*i)%%hot) if i<tail else K+(i*a)%%(K//8+1),"
                 "sn[(i*31+i//977)%%S if i<tail else S+(i//5)%%2],i%%7) for i in range(n)))") % (n, K, S, a, hot)
    sc.use_dissect = rnd.intn(3) == 0
    sc.ignore = False
    sc.ordered = False
    sc.ncols = None
    inc = [[("g", 3)]] if sc.with_inc else []
    if kind == "histo":
        sc.exprs = [[("g", 1)]] + inc
        sc.extra = ["-n", str(rnd.pick([12, 30]))] + rnd.pick([[], ["-x"]])
    elif kind in ("table", "heatmap", "spark"):
        sc.exprs = [[("g", 2)], [("g", 1)]] + inc       # few columns (sub-keys), very many rows (keys)
        sc.extra = ["--rows", str(rnd.pick([10, 25]))]
    elif kind == "bars":
        sc.exprs = [[("g", 1)], [("g", 2)]] + inc
        sc.extra = ["--stacked"]                        # one display line per key
    elif kind == "analyze":
        sc.exprs = [[("g", 3)]]
        sc.extra = rnd.pick([[], ["-x"]])
    elif kind == "reduce":
        sc.exprs = None
        sc.ngroups = 1
        sc.sort = rnd.intn(2) == 0
        sc.extra = []
        for name, expr, _ in LATE_ACCS:         # several accumulators: sampling is slow relative to reading
            sc.extra += ["-a", name + "=" + expr]
        sc.extra += ["--sort", "{n}"] if sc.sort else []
    return sc


def late_reference(sc):
    """the independent sequential aggregation of a late scenario, straight from the integer triples (the general
    `samples_of` + `py_rows` pair does the same thing in seconds instead of a fraction of one; every run
    cross-checks the two on small corpora of the same shape).  Returns (rows, number of samples)."""
    ki, si, ni = sc.triples
    kind, sn = sc.kind, sc.subnames
    num = lambda v: b"%d" % v
    if kind == "analyze":
        return None, len(ki)
    if kind == "histo":
        d = {}
        if sc.with_inc:
            for k, v in zip(ki, ni):
                d[k] = d.get(k, 0) + v
        else:
            for k in ki:
                d[k] = d.get(k, 0) + 1
        rows = sorted(((b"k%d" % k, v) for k, v in d.items()), key=lambda kv: (-kv[1], kv[0]))
        return [[b"group", b"value"]] + [[k, num(v)] for k, v in rows], len(ki)
    if kind == "reduce":
        d = {}
        for k, v in zip(ki, ni):
            r = d.get(k)
            if r is None:
                d[k] = [v, 1, v]
            else:
                r[0] += v
                r[1] += 1
                if v > r[2]:
                    r[2] = v
        named = [(b"k%d" % k, r) for k, r in d.items()]
        named.sort(key=(lambda kr: (num(kr[1][1]), kr[0])) if sc.sort else (lambda kr: kr[0]))
        more = [i for _, _, i in LATE_ACCS]
        return [[b"g0", b"total", b"n", b"mx"] + [a.encode() for a, _, _ in LATE_ACCS]] + \
               [[k, num(r[0]), num(r[1]), num(r[2])] + [num(r[i]) for i in more] for k, r in named], len(ki)
    S = len(sn)
    d = {}
    for k, s, v in zip(ki, si, ni if sc.with_inc else [1] * len(ki)):
        r = d.get(k)
        if r is None:
            r = d[k] = [0] * S
        r[s] += v
    used = sorted({s for s in si}, key=lambda s: sn[s])
    named = sorted((b"k%d" % k, r) for k, r in d.items())
    hdr = [b"group" if kind == "bars" else b""] + [sn[s] for s in used]
    return [hdr] + [[k] + [num(r[s]) for s in used] for k, r in named], len(ki)


def samples_of(sc):
    """the sequential list of extracted keys + the extractor counters (read, matched, ignored)"""
    out, read, ign = [], 0, 0
    for l in sc.lines:
        read += 1
        g = groups_of(l)
        if g is None:
            continue
        if sc.ignore and g[1] == b"skip":
            ign += 1
            continue
        if sc.kind == "reduce":
            key = NUL.join(g)           # `{@}`
        else:
            key = NUL.join(tpl_eval(t, g) for t in sc.exprs)
        if key == b"":
            ign += 1
            continue
        out.append(key)
    return out, read, ign


def base_args(sc):
    a = ["-d", DISSECT] if sc.use_dissect else ["-m", MATCH]
    if sc.ignore:
        a += ["-i", "{eq {2} skip}"]
    if sc.kind == "reduce":
        for i in range(sc.ngroups):
            a += ["-g", "g%d={%d}" % (i, i + 1)]
        a += ["-a", "total={sumi {.} {3}}", "-a", "n={sumi {.} 1}", "-a", "mx={maxi {.} {3}}"]
        if sc.ordered:
            a += ["-a", "last={2}", "--initial", "0", "-a", "cat:={.}{3}."]
    else:
        for t in sc.exprs:
            a += ["-e", tpl_text(t)]
    return a + sc.extra


SUB = {"histo": "histo", "table": "table", "heatmap": "heatmap", "spark": "spark", "bars": "bars", "analyze": "analyze", "reduce": "reduce"}


# ------------------------------------------------------------------ python-side reference aggregation (independent of the model)

def py_rows(sc, samples):
    """the expected parsed CSV as a canonical object; None when this command has no CSV"""
    k = sc.kind
    if k == "histo":
        d, errs = {}, 0
        for s in samples:
            (key,), inc = split_sample(s, NUL, 1)
            if inc is None:
                errs += 1
                continue
            d[key] = wrap64(d.get(key, 0) + inc)
        rows = sorted(d.items(), key=lambda kv: (-kv[1], kv[0]))
        return [[b"group", b"value"]] + [[a, str(b).encode()] for a, b in rows], errs
    if k in ("table", "heatmap", "spark"):
        cells, errs = {}, 0
        for s in samples:
            (c, r), inc = split_sample(s, NUL, 2)
            if inc is None:
                errs += 1
                continue
            cells[(c, r)] = wrap64(cells.get((c, r), 0) + inc)
        cols = sorted({c for c, _ in cells})
        if k == "spark" and sc.ncols is not None and len(cols) > sc.ncols:
            cols = cols[len(cols) - sc.ncols:]
        rows = sorted({r for c, r in cells if c in cols})
        return [[b""] + cols] + [[r] + [str(cells.get((c, r), 0)).encode() for c in cols] for r in rows], errs
    if k == "bars":
        cells, errs, keys = {}, 0, set()
        for s in samples:
            (a, b), inc = split_sample(s, NUL, 2)
            if inc is None:
                errs += 1
                continue
            keys.add(a)
            cells[(a, b)] = wrap64(cells.get((a, b), 0) + inc)
        subs = sorted({b for _, b in cells})
        return [[b"group"] + subs] + [[a] + [str(cells.get((a, b), 0)).encode() for b in subs] for a in sorted(keys)], errs
    if k == "reduce":
        groups = {}
        for s in samples:
            p = s.split(NUL)
            g = lambda i: p[i - 1] if i - 1 < len(p) else b""
            gk = NUL.join(g(i + 1) for i in range(sc.ngroups))
            row = groups.get(gk)
            if row is None:
                row = groups[gk] = {"total": 0, "n": 0, "mx": 0, "last": b"0", "cat": b""}
            v = go_atoi(g(3))
            if v is None or row["total"] is None:
                row["total"] = None
                row["mx"] = None
            else:
                row["total"] += v
                row["mx"] = max(row["mx"], v)
            row["n"] += 1
            row["last"] = g(2)
            row["cat"] = row["cat"] + g(3) + b"."
        names = ["total", "n", "mx"] + (["last", "cat"] if sc.ordered else [])
        hdr = [("g%d" % i).encode() for i in range(sc.ngroups)] + [n.encode() for n in names]
        rows = []
        order = sorted(groups, key=lambda gk: (str(groups[gk]["n"]).encode(), gk)) if sc.sort else sorted(groups)
        for gk in order:
            row = groups[gk]
            if row["total"] is None:
                return None, 0          # <BAD-TYPE>: outside the fragment evaluated here
            parts = gk.split(NUL) if sc.ngroups else []
            rows.append(parts + [row[n] if isinstance(row[n], bytes) else str(row[n]).encode() for n in names])
        return [hdr] + rows, 0
    return None, 0


def py_analyze(sc, samples):
    vals, errs = [], 0
    for s in samples:
        try:
            if not re.fullmatch(rb"[+-]?([0-9]+\.?[0-9]*|\.[0-9]+)([eE][+-]?[0-9]+)?", s):
                raise ValueError
            vals.append(float(s))
        except ValueError:
            errs += 1
    return vals, errs


# ------------------------------------------------------------------ layouts and tuning

def write_layout(rnd, d, lines, layout):
    """returns (args, stdin_bytes or None, sequential: bool) for one way of delivering the same lines"""
    shutil.rmtree(d, ignore_errors=True)
    os.makedirs(d)

    def put(name, ls, gz=False, final_nl=True):
        data = b"\n".join(ls) + (b"\n" if ls and final_nl else b"")
        path = os.path.join(d, name)
        if gz:
            with gzip.open(path, "wb", compresslevel=(1 if len(data) > 500000 else 9)) as f:
                f.write(data)
        else:
            with open(path, "wb") as f:
                f.write(data)
        return path

    def chunks(k):
        cuts = sorted(rnd.intn(len(lines) + 1) for _ in range(k - 1))
        cuts = [0] + cuts + [len(lines)]
        return [lines[cuts[i]:cuts[i + 1]] for i in range(k)]

    if layout == "one":
        last_ok = bool(lines) and lines[-1] != b"" and not lines[-1].endswith(b"\r")
        return [put("a.log", lines, final_nl=(rnd.intn(3) != 0 or not last_ok))], None, True
    if layout == "stdin":
        return ["-"], b"\n".join(lines) + (b"\n" if lines else b""), True
    if layout == "split":
        return [put("f%02d.log" % i, c) for i, c in enumerate(chunks(1 + rnd.intn(6)))], None, True
    if layout == "shuffle":
        fs = [put("f%02d.log" % i, c) for i, c in enumerate(chunks(2 + rnd.intn(5)))]
        for i in range(len(fs) - 1, 0, -1):
            j = rnd.intn(i + 1)
            fs[i], fs[j] = fs[j], fs[i]
        return fs, None, False
    if layout == "redeal":
        k = 2 + rnd.intn(4)
        buckets = [[] for _ in range(k)]
        if len(lines) > 20000:          # big corpus: deal runs of lines instead of single lines
            i = 0
            while i < len(lines):
                j = i + 1 + rnd.intn(1 + len(lines) // 40)
                buckets[rnd.intn(k)] += lines[i:j]
                i = j
        else:
            for l in lines:
                buckets[rnd.intn(k)].append(l)
        return [put("r%02d.log" % i, c) for i, c in enumerate(buckets)], None, False
    if layout == "gzip":
        return ["-z"] + [put("g%02d.log.gz" % i, c, gz=True) for i, c in enumerate(chunks(1 + rnd.intn(4)))], None, True
    if layout == "glob":
        for i, c in enumerate(chunks(2 + rnd.intn(3))):
            put("w%02d.log" % i, c)
        return [os.path.join(d, "w*.log")], None, True
    raise ValueError(layout)


def tuning(rnd, plain):
    if plain:
        return ["--workers", "1", "--readers", "1"], "1"
    return (["--workers", str(rnd.pick([1, 2, 3, 8])), "--batch", str(rnd.pick([1, 2, 7, 1000])),
             "--batch-buffer", str(rnd.pick([1, 2, 18])), "--readers", str(rnd.pick([1, 2, 5]))],
            str(rnd.pick([1, 2, 4, 16])))


STATUS = re.compile(rb"^(\[\d+/\d+\] )?\S+( \S+)? \(\S+( \S+)?/s\) ?(\|.*)?$")


def norm_snapshot(out):
    ls = out.split(b"\n")
    while ls and ls[-1] == b"":
        ls.pop()
    if ls and STATUS.match(ls[-1]):
        ls.pop()
    return b"\n".join(ls)


FLOAT = re.compile(rb"-?\d+(?:\.\d+)?(?:e[+-]?\d+)?")


def analyze_close(a, b):
    la, lb = a.split(b"\n"), b.split(b"\n")
    if len(la) != len(lb):
        return False
    for x, y in zip(la, lb):
        if x == y:
            continue
        fx, fy = FLOAT.findall(x), FLOAT.findall(y)
        if FLOAT.sub(b"#", x) != FLOAT.sub(b"#", y) or len(fx) != len(fy):
            return False
        for p, q in zip(fx, fy):
            p, q = float(p), float(q)
            if abs(p - q) > 1e-3 * max(1.0, abs(p), abs(q)):
                return False
    return True


def run_cli(exe, sub, args, files, stdin, gmp, mode):
    glob = ["--nocolor", "--noformat"]
    out_flag = ["--csv", "-"] if mode == "csv" else ["--snapshot"]
    cmd = [exe] + glob + [sub] + args + out_flag + files
    env = dict(os.environ, GOMAXPROCS=gmp)
    p = subprocess.run(cmd, input=stdin if stdin is not None else b"", stdout=subprocess.PIPE, stderr=subprocess.PIPE,
                       timeout=40, env=env)
    return p.returncode, p.stdout, p.stderr, cmd


def show(cmd):
    return " ".join(repr(c) if re.search(r"[^\w./=:-]", c) else c for c in cmd[1:])


def late_tuning(rnd, n):
    """big batches and many workers: 5 + workers batches can be counted as read while none of them is sampled yet"""
    w = rnd.pick([12, 16, 24, 32])
    batch = rnd.pick([20000, 50000])
    if (5 + w) * batch < n:
        batch = 50000
    return ["--workers", str(w), "--batch", str(batch), "--batch-buffer", str(rnd.pick([2, 18, 40])),
            "--readers", str(rnd.pick([1, 3, 5]))]


def pace_plan(rnd, size):
    """the SLOW STDIN WRITER: byte offsets (anywhere, also inside a line) after which the writer pauses for more than
    one render period.  With a final burst (the bulk arrives after the last pause) or trickling out (the last
    piece is tiny)."""
    style = rnd.pick(["burst", "trickle", "even"])
    if style == "burst":
        cuts = [size // 50 + rnd.intn(size // 10 + 1)]
        if rnd.intn(2):
            cuts.append(cuts[0] + size // 4)
    elif style == "trickle":
        cuts = [size // 2 + rnd.intn(size // 4 + 1), size - 1 - rnd.intn(min(size, 40))]
    else:
        k = 2 + rnd.intn(2)
        cuts = [size * (i + 1) // (k + 1) for i in range(k)]
    return style, [(c, rnd.pick([0.12, 0.16, 0.27, 0.33])) for c in sorted(set(max(0, min(size, c)) for c in cuts))]


def run_cli_paced(exe, sub, args, data, plan, gmp, mode):
    """stdin fed in pieces with pauses (a thread writes, the main thread collects the output)"""
    cmd = [exe, "--nocolor", "--noformat", sub] + args + (["--csv", "-"] if mode == "csv" else ["--snapshot"]) + ["-"]
    p = subprocess.Popen(cmd, stdin=subprocess.PIPE, stdout=subprocess.PIPE, stderr=subprocess.PIPE, env=dict(os.environ, GOMAXPROCS=gmp))

    def feed():
        try:
            pos = 0
            for cut, pause in plan:
                p.stdin.write(data[pos:cut])
                p.stdin.flush()
                pos = cut
                time.sleep(pause)
            p.stdin.write(data[pos:])
            p.stdin.close()
        except (BrokenPipeError, ValueError, OSError):
            pass

    t = threading.Thread(target=feed, daemon=True)
    t.start()
    try:
        out, err = _collect(p, 60)
    except subprocess.TimeoutExpired:
        p.kill()
        t.join(5)
        raise
    t.join(5)
    return p.returncode, out, err, cmd


def _collect(p, timeout):
    """read stdout and stderr to the end without touching stdin (Popen.communicate would close it)"""
    bufs = {}

    def rd(name, f):
        bufs[name] = f.read()

    ts = [threading.Thread(target=rd, args=("o", p.stdout), daemon=True), threading.Thread(target=rd, args=("e", p.stderr), daemon=True)]
    for t in ts:
        t.start()
    p.wait(timeout=timeout)
    for t in ts:
        t.join(10)
    return bufs.get("o", b""), bufs.get("e", b"")


# ------------------------------------------------------------------ reading a snapshot back

PLAIN = re.compile(rb"[A-Za-z0-9]+\Z")
SPACES = re.compile(rb" +")
GOFLOATISH = re.compile(rb"(?i)([0-9]+e[0-9]+|0x[0-9a-f]+(p[0-9]+)?|inf|infinity|nan)\Z")   # strconv.ParseFloat takes more than digits
FOOTER = re.compile(rb"^Matched: (\d+) / (\d+)(?: \((?:Groups: (\d+)|R: (\d+); C: (\d+))\))?")


def squash(out):
    """F25 (snapshot-layout-memory): the renderers remember the widest cell of EARLIER renders, so the padding of the
    final frame depends on which intermediate frames happened.  Comparisons of snapshot texts that may have seen a
    100 ms tick therefore collapse runs of spaces and drop trailing ones; everything else stays significant."""
    return b"\n".join(SPACES.sub(b" ", l).rstrip(b" ") for l in out.split(b"\n"))


def snap_check(sc, snap, rows, nsamples=None, nread=None, cache=None):
    """compare a (normalized) --snapshot text with an aggregate given as parsed-CSV rows (header + rows): every
    DISPLAYED number must be the aggregate's number for that key, and the footer must count the aggregate's
    groups / rows / columns.  Only what is displayed is compared (top -n rows, --rows / --cols truncation).
    Requires readable(sc, rows).  Returns None or a description of the first difference."""
    kind = sc.kind
    ls = [l for l in snap.split(b"\n")]
    fi = [i for i, l in enumerate(ls) if l.startswith(b"Matched: ")]
    if not fi:
        return "no footer line"
    m = FOOTER.match(ls[fi[-1]])
    body = ls[:fi[-1]]
    if nsamples is not None and int(m.group(1)) != nsamples:
        return "footer shows %s matched lines, expected %d" % (m.group(1).decode(), nsamples)
    if nread is not None and int(m.group(2)) != nread:
        return "footer shows %s lines read, expected %d" % (m.group(2).decode(), nread)
    hdr, data = rows[0], rows[1:]

    def lookup():
        if cache is None:
            return dict((r[0], r[1:]) for r in data)
        if cache.get("rows") is not rows:
            cache["rows"], cache["d"] = rows, dict((r[0], r[1:]) for r in data)
        return cache["d"]

    if kind == "histo":
        if m.group(3) is None or int(m.group(3)) != len(data):
            return "footer shows Groups: %s, the aggregate has %d" % ((m.group(3) or b"?").decode(), len(data))
        d = lookup()
        shown = []
        for l in body:
            t = l.split()
            if not t:
                continue
            if len(t) < 2 or t[0] not in d:
                return "row of an unknown key: %r" % l
            if d[t[0]] != [t[1]]:
                return "key %s is shown with %s, the aggregate has %s" % (t[0].decode(), t[1].decode(), d[t[0]][0].decode())
            shown.append(int(t[1]))
        if sc.cls == "late":        # `-n N`, default sort by value, no --atleast: the N biggest counts
            n = int(sc.extra[sc.extra.index("-n") + 1])
            top = sorted((int(r[1]) for r in data if int(r[1]) >= 0), reverse=True)[:n]
            if sorted(shown, reverse=True) != top:
                return "the %d displayed counts %r are not the top counts %r" % (len(shown), sorted(shown, reverse=True)[:8], top[:8])
        return None
    if kind == "bars":
        d = lookup()
        stacked = "--stacked" in sc.extra
        cur, got = None, {}
        for l in body[1:]:
            t = l.split()
            if not t:
                continue
            if not l.startswith(b" "):
                cur = t[0]
                if cur not in d:
                    return "row of an unknown key: %r" % l
                got[cur] = []
            if cur is None or (len(t) < 2 and not l.startswith(b" ")):
                return "unreadable bar line %r" % l
            got[cur].append(t[-1])
        for k, vals in got.items():
            want = [b"%d" % sum(int(x) for x in d[k])] if stacked else d[k]
            if vals != want:
                return "key %s is shown with %r, the aggregate has %r" % (k.decode(), vals, want)
        if len(got) != len(d):
            return "%d keys displayed, the aggregate has %d" % (len(got), len(d))
        return None
    if kind in ("table", "heatmap", "spark", "reduce"):
        if m.group(4) is None:
            return "footer without R/C"
        ncols = len(hdr) if kind == "reduce" else len(hdr) - 1
        if int(m.group(4)) != len(data) or int(m.group(5)) != ncols:
            return "footer shows R: %s; C: %s, the aggregate has %d rows and %d columns" % (m.group(4).decode(), m.group(5).decode(), len(data), ncols)
        if kind == "heatmap" or not body:
            return None
        if kind == "reduce":
            ng = sc.ngroups
            if ng != 1:
                return None
            d = lookup()
            if body[0].split() != hdr:
                return "header %r, expected %r" % (body[0], hdr)
            for l in body[1:]:
                t = l.split()
                if not t or t[0].startswith(b"("):
                    continue
                if t[0] not in d:
                    return "row of an unknown group: %r" % l
                if t[1:] != d[t[0]]:
                    return "group %s is shown with %r, the aggregate has %r" % (t[0].decode(), t[1:], d[t[0]])
            return None
        d = lookup()
        cols = hdr[1:]
        if kind == "spark":
            # First / Last are the cells of the first / last DISPLAYED column: --sort-cols text as in the CSV, the default
            # `numeric` puts names that parse as numbers first, by magnitude (sorting.ByNameSmart)
            fi, la = 0, len(cols) - 1
            if "--sort-cols" in sc.extra and sc.extra[sc.extra.index("--sort-cols") + 1].lower().startswith("value"):
                return None     # displayed columns are ranked by their totals; footer (R, C of the untrimmed aggregate) checked above
            if cols and "--sort-cols" not in sc.extra:
                if any(GOFLOATISH.match(c) for c in cols):
                    return None
                order = sorted(cols, key=lambda c: (0, int(c), c) if c.isdigit() else (1, 0, c))
                fi, la = cols.index(order[0]), cols.index(order[-1])
            for l in body[1:]:
                t = l.split()
                if not t or t[0].startswith(b"("):
                    continue
                if t[0] not in d or len(t) < 3:
                    return "row of an unknown key: %r" % l
                if cols and (t[1], t[-1]) != (d[t[0]][fi], d[t[0]][la]):
                    return "row %s is shown with First %s Last %s, the aggregate has %s and %s" % (t[0].decode(), t[1].decode(), t[-1].decode(),
                                                                                                   d[t[0]][fi].decode(), d[t[0]][la].decode())
            return None
        extra = "-x" in sc.extra
        shown_cols = body[0].split()
        if extra and shown_cols and shown_cols[-1] == b"Total":
            shown_cols = shown_cols[:-1]
        if any(c not in cols for c in shown_cols):
            return "header with an unknown column: %r" % body[0]
        idx = [cols.index(c) for c in shown_cols]
        for l in body[1:]:
            t = l.split()
            if not t or (extra and t[0] == b"Total") or t[0].startswith(b"("):
                continue
            if t[0] not in d:
                return "row of an unknown key: %r" % l
            vals = t[1:1 + len(idx)]
            want = [d[t[0]][i] for i in idx]
            if vals != want:
                return "row %s is shown with %r for the columns %r, the aggregate has %r" % (t[0].decode(), vals, shown_cols, want)
        return None
    return None


# ------------------------------------------------------------------ the timing-controlled spark run (F24)

def spark_timing(exe, sort_cols="value:asc"):
    """`spark --sort-cols value:asc --cols 1`: the same nine lines, once in one go, once with a pause after the
    fourth line so that a periodic render (which trims every column but the one it currently ranks last) runs in
    between.  Returns (fast_csv, slow_csv)."""
    a, b = b"a r\na r\na r\nb r\n", b"b r\nb r\nb r\nb r\nc r\n"
    cmd = [exe, "--nocolor", "--noformat", "spark", "-m", r"(\w+) (\w+)", "-e", "{1}", "-e", "{2}", "--sort-cols", sort_cols,
           "--cols", "1", "--batch", "1", "--csv", "-"]
    fast = subprocess.run(cmd, input=a + b, stdout=subprocess.PIPE, stderr=subprocess.PIPE, timeout=60).stdout
    p = subprocess.Popen(cmd, stdin=subprocess.PIPE, stdout=subprocess.PIPE, stderr=subprocess.PIPE)
    p.stdin.write(a)
    p.stdin.flush()
    time.sleep(0.6)
    p.stdin.write(b)
    p.stdin.close()
    slow = p.stdout.read()
    p.wait(timeout=60)
    return fast, slow, cmd


def spark_row_timing(exe):
    """`spark --cols 1` with the DEFAULT column order (`--sort-cols numeric`), one worker, one-line batches: `2 x`, `1 w`,
    then `2 w` - once in one go, once with a pause before the third line, so that a periodic render trims column 1 and with
    it the whole row w (its only cell), and the next sample re-creates that row.  A table aggregator that keeps a handle on
    a row across the Trim (seeded/C03-table-row-cache, C03-table-lastrow-memo) loses the third sample in the paced run only."""
    a, b = b"2 x\n1 w\n", b"2 w\n"
    cmd = [exe, "--nocolor", "--noformat", "spark", "-m", r"(\w+) (\w+)", "-e", "{1}", "-e", "{2}", "--cols", "1",
           "--workers", "1", "--readers", "1", "--batch", "1", "--csv", "-"]
    fast = subprocess.run(cmd, input=a + b, stdout=subprocess.PIPE, stderr=subprocess.PIPE, timeout=60).stdout
    p = subprocess.Popen(cmd, stdin=subprocess.PIPE, stdout=subprocess.PIPE, stderr=subprocess.PIPE)
    p.stdin.write(a)
    p.stdin.flush()
    time.sleep(0.6)
    p.stdin.write(b)
    p.stdin.close()
    slow = p.stdout.read()
    p.wait(timeout=60)
    return fast, slow, cmd


def reduce_regressions(exe, work):
    """fixed defects, re-run on every check: `reduce --sort` with equal sort keys (row order came from map iteration)
    and the empty group key in `reduce --csv` (exported under the previous row's name)."""
    os.makedirs(work, exist_ok=True)
    f = os.path.join(work, "reg.log")
    with open(f, "wb") as w:
        w.write(b"a|x|1\nb|x|1\nc|x|1\nd|x|1\ne|x|1\nf|x|1\n|x|1\n")
    cmd = [exe, "reduce", "-m", MATCH, "-g", "k={1}", "-a", "n={sumi {.} 1}", "--sort", "{n}", "--csv", "-", f]
    outs = set()
    for _ in range(8):
        outs.add(subprocess.run(cmd, stdout=subprocess.PIPE, stderr=subprocess.PIPE, timeout=60).stdout)
    return outs, b"k,n\n,1\na,1\nb,1\nc,1\nd,1\ne,1\nf,1\n", cmd


def analyze_file_order(exe, work):
    """F26: `rare analyze a.log b.log` against `rare analyze b.log a.log` (a.log = `2`, b.log = `0.0001`), one worker
    and one reader, so the sample order is the file order: the printed Mean is 1.0000 one way and 1.0001 the other
    (float Welford recurrence; the exact mean 1.00005… is a hair above the tie of the 4-decimal rendering)."""
    os.makedirs(work, exist_ok=True)
    a, b = os.path.join(work, "an-a.log"), os.path.join(work, "an-b.log")
    with open(a, "wb") as w:
        w.write(b"2\n")
    with open(b, "wb") as w:
        w.write(b"0.0001\n")
    cmd = [exe, "--nocolor", "--noformat", "analyze", "--snapshot", "--workers", "1", "--readers", "1"]
    ab = subprocess.run(cmd + [a, b], stdout=subprocess.PIPE, stderr=subprocess.PIPE, timeout=60).stdout
    ba = subprocess.run(cmd + [b, a], stdout=subprocess.PIPE, stderr=subprocess.PIPE, timeout=60).stdout
    return norm_snapshot(ab), norm_snapshot(ba), cmd


def layout_memory_timing(exe):
    """F25 (snapshot-layout-memory): the table renderer keeps the widest cell it has ever drawn, so the PADDING of the
    final frame depends on which intermediate frames were rendered.  Two lines into `reduce -a last={1}`: once in
    one go, once with a pause after the first (long) value so that a periodic render draws it.  Returns
    (all_at_once, with_pause, cmd); the two differ in runs of spaces only (checked by the caller)."""
    a, b = b"aaaaaaaaaaaaaaaa k\n", b"b k\n"
    cmd = [exe, "--nocolor", "--noformat", "reduce", "-m", r"(\w+) (\w+)", "-g", "g={2}", "-a", "last={1}", "--workers", "1", "--readers", "1",
           "--batch", "1", "--snapshot"]
    fast = subprocess.run(cmd, input=a + b, stdout=subprocess.PIPE, stderr=subprocess.PIPE, timeout=60).stdout
    p = subprocess.Popen(cmd, stdin=subprocess.PIPE, stdout=subprocess.PIPE, stderr=subprocess.PIPE)
    p.stdin.write(a)
    p.stdin.flush()
    time.sleep(0.6)
    p.stdin.write(b)
    p.stdin.close()
    slow = p.stdout.read()
    p.wait(timeout=60)
    return norm_snapshot(fast), norm_snapshot(slow), cmd


# ------------------------------------------------------------------ main

NUMCELL = re.compile(rb"-?[0-9]+\Z")


def readable(sc, rows):
    """can the snapshot of this aggregate be read back token by token?  (plain alphanumeric names, integer cells)"""
    if rows is None or sc.kind == "analyze" or (sc.kind == "reduce" and (sc.ordered or sc.ngroups != 1)):
        return False
    nk = sc.ngroups if sc.kind == "reduce" else 1
    for r in rows[1:]:
        if not all(PLAIN.match(c) for c in r[:nk]) or not all(NUMCELL.match(c) for c in r[nk:]):
            return False
        if nk and r[0] in (b"Matched", b"Total"):
            return False
    if sc.kind in ("table", "heatmap", "spark", "bars"):
        return all(PLAIN.match(c) and c != b"Total" for c in rows[0][1:])
    return True


def run_extra(ctx):
    rnd = Rand(ctx["seed"] * 1000003 + 3)
    t_start = time.time()
    exe = build_rare(ctx)
    drv = Driver(ctx["driver"])
    work = os.path.join(ctx["work"], "e2e-%d" % os.getpid())     # two checks of one property may run at the same time
    thorough = ctx["tier"] != "quick"
    kinds = ["histo", "table", "heatmap", "spark", "bars", "analyze", "reduce"]
    nscen = 56 if not thorough else 700
    nconf = 4 if not thorough else 9
    nphase = 12 if not thorough else 140
    layouts = ["split", "shuffle", "redeal", "gzip", "stdin", "glob", "one"]
    ncpu = str(max(2, os.cpu_count() or 2))
    KNOWN = ("snapshot-layout-memory", "analyze-mean-order")
    violations, stats, secs = [], {}, {}
    nruns = [0]

    def bump(k, n=1):
        stats[k] = stats.get(k, 0) + n

    def viol(key, **kw):
        bump("violation." + key)
        if "scenario_class" in kw:
            bump("violation.%s.%s" % (key, kw["scenario_class"]))
        if key in KNOWN or sum(1 for v in violations if v["key"] not in KNOWN) < 6:
            violations.append(dict(kw, key=key))

    def text(b, n=500):
        return b.decode("utf8", "replace")[:n]

    # ---------------------------------------------------------------- small scenarios (random and phased corpora)
    def check_scenario(sc):
        kind = sc.kind
        sviol = lambda key, **kw: viol(key, scenario_class=sc.cls, **kw)
        samples, nread, nign = samples_of(sc)
        bump("scenario." + kind)
        bump("lines", len(sc.lines))
        bump("samples", len(samples))
        if any(b"\n" in s for s in samples):
            bump("scenario.keyWithLF")
        if any(b'"' in s or b"," in s for s in samples):
            bump("scenario.keyWithQuoteOrComma")
        args = base_args(sc)
        sub = SUB[kind]
        inp = repr(b"\n".join(sc.lines))[:2500]
        # ---- expectations
        if kind == "analyze":
            vals, errs = py_analyze(sc, samples)
            want_rows = None
        else:
            want_rows, errs = py_rows(sc, samples)
        can_read = readable(sc, want_rows)
        if can_read:
            bump("scenario.snapshotReadable")
        if kind in ("bars", "table", "heatmap", "spark"):
            # the shape of class (b): some key is sampled for the last time before a later sub-key / column shows up
            last_of, first_of = {}, {}
            for i, s in enumerate(samples):
                (a, b), inc = split_sample(s, NUL, 2)
                if inc is not None:
                    last_of[a] = i
                    first_of.setdefault(b, i)
                    if kind != "bars":
                        last_of[(1, b)] = i
                        first_of.setdefault((1, a), i)
            newest = max([v for k, v in first_of.items() if not isinstance(k, tuple)], default=-1)
            newest2 = max([v for k, v in first_of.items() if isinstance(k, tuple)], default=-1)
            if any(v < newest for k, v in last_of.items() if not isinstance(k, tuple)) or \
               any(v < newest2 for k, v in last_of.items() if isinstance(k, tuple)):
                bump("scenario.keyStopsBeforeNewSubkey")
                bump("scenario.keyStopsBeforeNewSubkey." + kind)
                bump(sc.cls + ".keyStopsBeforeNewSubkey")
        ans = drv.ask("exit 0 0 %d %d" % (errs, len(samples)))
        want_rc = int(ans.split()[1]) if ans.startswith("ok ") else -1
        model_csv = None
        if kind == "histo":
            ans = drv.ask("agg counter " + hexlist(samples))
        elif kind in ("table", "heatmap") or (kind == "spark" and sc.ncols is None):
            ans = drv.ask("agg table 00 " + hexlist(samples))
        elif kind == "spark":
            ans = drv.ask("agg spark 00 %d %s" % (sc.ncols, hexlist(samples)))
        elif kind == "bars":
            ans = drv.ask("agg subkey " + hexlist(samples))
        elif kind == "reduce" and want_rows is not None:
            ans = drv.ask("csv " + enc_rows(want_rows))
        else:
            ans = None
        if ans is not None:
            if not ans.startswith("ok "):
                sviol("e2e-driver", case=ans)
            else:
                model_csv = bytes.fromhex(ans.split()[1]) if ans.split()[1] != "-" else b""
        # ---- configurations
        base = {}
        csv_rows = None
        confs = [("one", True)] + [(rnd.pick(layouts), False) for _ in range(nconf)]
        for ci, (layout, plain) in enumerate(confs):
            files, stdin, sequential = write_layout(rnd, work, sc.lines, layout)
            tune, gmp = tuning(rnd, plain)
            if sc.ordered:
                # order-sensitive accumulators: one reader, one worker, files in sequence (FIFO theorem)
                if not sequential:
                    continue
                tune = ["--workers", "1", "--readers", "1", "--batch", str(rnd.pick([1, 3, 1000])), "--batch-buffer", str(rnd.pick([1, 18]))]
            bump("layout." + layout)
            bump(sc.cls + ".layout." + layout)
            bump(sc.cls + ".gomaxprocs." + gmp)
            modes = ["csv", "snap"] if kind != "analyze" else ["snap"]
            if kind == "heatmap" and any(split_sample(x, NUL, 2)[0][0] == b"" for x in samples):
                modes = ["csv"]     # F21(b), property C14: the heatmap renderer never returns on an empty column key
                bump("heatmap.snapshotSkipped.emptyColumnKey")
            for mode in modes:
                try:
                    rc, out, err, cmd = run_cli(exe, sub, args + tune, files, stdin, gmp, mode)
                except subprocess.TimeoutExpired:
                    sviol("e2e-hang", cmd=show([exe, sub] + args + tune + files), layout=layout, input=inp)
                    continue
                nruns[0] += 1
                bump(sc.cls + ".runs")
                if mode == "snap":
                    out = norm_snapshot(out)
                if rc != want_rc:
                    sviol("e2e-exit-status", cmd=show(cmd), layout=layout, rc=rc, model_rc=want_rc, stderr=err.decode("utf8", "replace")[-300:], input=inp,
                         explanation="exit status differs from DetermineErrorState on the sequential reference")
                if mode == "snap" and can_read:
                    why = snap_check(sc, out, want_rows, len(samples), nread)
                    bump("snapshot.comparedWithReference")
                    if why is not None:
                        sviol("e2e-snapshot-vs-reference", cmd=show(cmd), gomaxprocs=gmp, layout=layout, why=why, snapshot=text(out), input=inp,
                             explanation="a number displayed in the final --snapshot frame is not the sequential reference aggregation's number")
                    if csv_rows is not None and csv_rows != want_rows and readable(sc, csv_rows):
                        why = snap_check(sc, out, csv_rows)
                        if why is not None:
                            sviol("e2e-snapshot-vs-csv", cmd=show(cmd), gomaxprocs=gmp, layout=layout, why=why, snapshot=text(out), input=inp,
                                 explanation="the final --snapshot frame and the --csv export of the same command line describe different aggregates")
                if mode not in base:
                    base[mode] = (rc, out, show(cmd))
                    if mode == "csv" and model_csv is not None:
                        if out != model_csv:
                            sviol("e2e-csv-vs-model", cmd=show(cmd), cli=out.decode("utf8", "replace")[:600], model=model_csv.decode("utf8", "replace")[:600], input=inp,
                                 explanation="CSV text differs from the model's sequential reference")
                        pans = drv.ask("parse " + hx(out))
                        if pans.startswith("ok "):
                            csv_rows = dec_rows(pans[3:])
                        if want_rows is not None and (not pans.startswith("ok ") or csv_rows != want_rows):
                            sviol("e2e-csv-reparse", cmd=show(cmd), parsed=pans[:600], expected=enc_rows(want_rows)[:600], input=inp,
                                 explanation="the CSV export, re-read by the RFC 4180 reader, is not the reference aggregation")
                        bump("csv.comparedWithModel")
                    if kind == "analyze" and vals:
                        m = re.search(rb"Samples:\s+(\d+)\nMean:\s+(\S+)", out)
                        mean = sum(vals) / len(vals)
                        if not m or int(m.group(1)) != len(vals) or abs(float(m.group(2)) - mean) > 1e-3 * max(1, abs(mean)):
                            sviol("e2e-analyze-vs-reference", cmd=show(cmd), out=out.decode("utf8", "replace")[:300], n=len(vals), mean=mean)
                        bump("analyze.comparedWithReference")
                else:
                    brc, bout, bcmd = base[mode]
                    same = (out == bout) if kind != "analyze" else analyze_close(out, bout)
                    if not same and mode == "snap" and kind != "analyze" and squash(out) == squash(bout):
                        same = True     # F25: padding only (a render tick happened in one of the two runs)
                        bump("snapshot.paddingOnlyDifference")
                    if rc != brc or not same:
                        sviol("e2e-config-dependence", mode=mode, cmd_a=bcmd, cmd_b=show(cmd), layout=layout, rc_a=brc, rc_b=rc, input=inp,
                             out_a=bout.decode("utf8", "replace")[:500], out_b=out.decode("utf8", "replace")[:500],
                             explanation="same lines, same command line, different tuning/layout: the result differs")
                    bump("compared.acrossConfigs")

    # ---------------------------------------------------------------- late sampling (big corpora, render ticks mid-run)
    def check_late(sc, reps):
        kind, sub, args, n = sc.kind, SUB[sc.kind], base_args(sc), len(sc.lines)
        want_rows, nsamp = late_reference(sc)
        can_read = readable(sc, want_rows)
        cache = {}
        bump("late.scenarios")
        bump("late.scenario." + kind)
        bump("late.lines", n)
        if want_rows is not None:
            bump("late.groups", len(want_rows) - 1)
        mean = sum(sc.triples[2]) / float(n)
        ans = drv.ask("exit 0 0 0 %d" % nsamp)
        want_rc = int(ans.split()[1]) if ans.startswith("ok ") else -1
        confs = [("one", True, ncpu, reps[0]),
                 (rnd.pick(layouts[:6]), True, rnd.pick(["1", "2", ncpu] if thorough else ["2", "4", ncpu]), reps[1]),
                 ("paced", True, rnd.pick(["1", "4", ncpu]), reps[2]),
                 (rnd.pick(layouts[:6]), False, None, 1)]
        base = {}
        for layout, late, gmp, nrep in confs:
            plan, style, data = None, None, None
            if layout == "paced":
                data = b"\n".join(sc.lines) + b"\n"
                style, plan = pace_plan(rnd, len(data))
                files, stdin = ["-"], None
                bump("late.paced." + style)
            else:
                files, stdin, _ = write_layout(rnd, work, sc.lines, layout)
            if late:
                tune = late_tuning(rnd, n)
            elif thorough:
                tune, gmp = tuning(rnd, False)
            else:                       # quick: ordinary tuning without the settings that take seconds on a big corpus (--batch 1, GOMAXPROCS 1)
                tune = ["--workers", str(rnd.pick([1, 2, 3, 8])), "--batch", str(rnd.pick([250, 1000, 4000])),
                        "--batch-buffer", str(rnd.pick([1, 2, 18])), "--readers", str(rnd.pick([1, 2, 5]))]
                gmp = rnd.pick(["2", "4", ncpu])
            bump("late.layout." + layout)
            bump("late.gomaxprocs." + gmp)
            where = dict(layout=layout, gomaxprocs=gmp, input_recipe=sc.recipe, scenario_class="late")
            if plan is not None:
                where["stdin_pauses"] = "write up to byte offset, then sleep: " + ", ".join("%d: %.2fs" % c for c in plan)

            def once(mode):
                t0 = time.time()
                try:
                    if plan is not None:
                        r = run_cli_paced(exe, sub, args + tune, data, plan, gmp, mode)
                    else:
                        r = run_cli(exe, sub, args + tune, files, stdin, gmp, mode)
                except subprocess.TimeoutExpired:
                    viol("e2e-hang", cmd=show([exe, sub] + args + tune + files), **where)
                    return None
                nruns[0] += 1
                bump("late.runs")
                dt = time.time() - t0
                if dt > 0.15:
                    bump("late.runsOver150ms")
                for k in ("late.seconds." + kind, "late.seconds.gomaxprocs." + gmp, "late.seconds.layout." + layout):
                    secs[k] = secs.get(k, 0.0) + dt
                if r[0] != want_rc:
                    viol("e2e-exit-status", cmd=show(r[3]), rc=r[0], model_rc=want_rc, stderr=r[2].decode("utf8", "replace")[-300:],
                         explanation="exit status differs from DetermineErrorState on the sequential reference", **where)
                return r

            # ---- the CSV export of this command line
            csv_rows, have_csv = want_rows, False
            if kind != "analyze" and (thorough or (late and layout != "paced")):
                r = once("csv")
                if r is not None:
                    rc, out, err, cmd = r
                    have_csv = True
                    csv_rows = [l.split(b",") for l in out.split(b"\n")[:-1]]
                    bump("late.csvVsReference")
                    if csv_rows != want_rows:
                        diff = next((i for i, (x, y) in enumerate(zip(csv_rows, want_rows)) if x != y), min(len(csv_rows), len(want_rows)))
                        viol("e2e-csv-vs-reference", cmd=show(cmd), rows_cli=len(csv_rows), rows_reference=len(want_rows), first_difference_at_row=diff,
                             cli=repr(csv_rows[diff:diff + 3]), reference=repr(want_rows[diff:diff + 3]),
                             explanation="the CSV export is not the independent sequential aggregation of the input", **where)
                    if "csv" not in base:
                        base["csv"] = (out, show(cmd))
                    elif out != base["csv"][0]:
                        viol("e2e-config-dependence", mode="csv", cmd_a=base["csv"][1], cmd_b=show(cmd),
                             explanation="same lines, same command line, different tuning/layout: the CSV differs", **where)
            # ---- the final frame, several times (the schedule differs from run to run)
            for rep in range(nrep):
                r = once("snap")
                if r is None:
                    continue
                rc, out, err, cmd = r
                out = norm_snapshot(out)
                bump("late.snapshots")
                stale = False
                if kind == "analyze":
                    m = re.search(rb"Samples:\s+(\d+)\nMean:\s+(\S+)", out)
                    bump("late.snapshotVsReference")
                    if not m or int(m.group(1)) != nsamp or abs(float(m.group(2)) - mean) > 1e-3 * max(1, abs(mean)):
                        stale = True
                        viol("e2e-analyze-vs-reference", cmd=show(cmd), out=text(out, 300), n=nsamp, mean=mean, **where)
                elif can_read:
                    why_ref = snap_check(sc, out, want_rows, nsamp, n, cache)
                    why_csv = why_ref if csv_rows == want_rows else (snap_check(sc, out, csv_rows) if readable(sc, csv_rows) else None)
                    bump("late.snapshotVsReference")
                    if have_csv:
                        bump("late.snapshotVsCsv")
                    if why_csv is not None and have_csv:
                        stale = True
                        viol("e2e-snapshot-vs-csv", cmd=show(cmd), why=why_csv, snapshot=text(out, 700), csv_equals_reference=(csv_rows == want_rows),
                             csv_head=repr(csv_rows[:4]), run="%d of %d with this command line" % (rep + 1, nrep),
                             explanation="the final --snapshot frame and the --csv export of the same command line and input describe different aggregates "
                                         "(every displayed row is looked up in the CSV; the footer's group / row / column counts against the CSV's)", **where)
                    elif why_ref is not None:       # (no CSV run for this configuration in the quick tier, or the CSV itself is off)
                        stale = True
                        viol("e2e-snapshot-vs-reference", cmd=show(cmd), why=why_ref, snapshot=text(out, 700), run="%d of %d with this command line" % (rep + 1, nrep),
                             explanation="a number displayed in the final --snapshot frame is not the sequential reference aggregation's number", **where)
                if stale:
                    bump("late.snapshotWrong")
                    bump("late.snapshotWrong." + kind)
                    bump("late.snapshotWrong.layout." + layout)
                sq = squash(out)
                if "snap" not in base:
                    base["snap"] = (sq, show(cmd), out)
                else:
                    same = (sq == base["snap"][0]) if kind != "analyze" else analyze_close(sq, base["snap"][0])
                    if out != base["snap"][2] and same:
                        bump("snapshot.paddingOnlyDifference")
                    bump("late.snapshotVsSnapshot")
                    if not same:
                        bump("late.snapshotDiffers")
                        viol("e2e-config-dependence" if show(cmd) != base["snap"][1] else "e2e-snapshot-nondeterministic", mode="snap",
                             cmd_a=base["snap"][1], cmd_b=show(cmd), out_a=text(base["snap"][0]), out_b=text(sq),
                             explanation="same lines, same aggregation: the final --snapshot frame differs between two runs (compared with runs of spaces collapsed)", **where)

    # ---- class (b): phased corpora
    pk = ["bars", "table", "spark", "heatmap"]
    t_sec = time.time()
    stats["seconds.build"] = round(t_sec - t_start, 1)
    for si in range(nphase):
        sc = make_phase_scenario(rnd, pk[si % len(pk)])
        bump("phase.scenarios")
        bump("phase.scenario." + sc.kind)
        check_scenario(sc)
    # ---- class (a): late sampling
    t_late = time.time()
    stats["seconds.phase"] = round(t_late - t_sec, 1)
    lk = ["table", "reduce", "spark", "bars", "histo", "heatmap", "analyze"]
    if not thorough:
        # quick: the two commands with the widest window every time, one of the others per seed (time budget; the draw of
        # the second index is kept so that the random stream of the later sections is the one of earlier rounds)
        rest = lk[2:]
        i = rnd.intn(len(rest))
        j = (i + 1 + rnd.intn(len(rest) - 1)) % len(rest)
        late_plan = [(k, LATE_SIZES[k][0][0], (2, 1, 1)) for k in lk[:2] + [rest[i]]]
    else:
        late_plan = [(k, sz, (3, 2, 1) if i == 0 else (2, 1, 1)) for k in lk for i, sz in enumerate(LATE_SIZES[k][1])]
    # the fast reference of the late scenarios against the general one (samples_of + py_rows), on small corpora of the same shape
    for kind in (lk[:6] if thorough else [rnd.pick(lk[:6]), rnd.pick(lk[:6])]):
        sc = make_late_scenario(rnd, kind, (20000 + rnd.intn(20000), 3000))
        samples, nread, _ = samples_of(sc)
        slow_rows, errs = py_rows(sc, samples)
        bump("late.referenceCrossChecked")
        fast_rows = late_reference(sc)[0]
        if kind == "reduce":                            # the extra accumulators repeat the first three
            fast_rows = [r[:4] for r in fast_rows]
        if slow_rows != fast_rows or errs or nread != len(sc.lines):
            viol("e2e-late-reference-selfcheck", kind=kind, input_recipe=sc.recipe)
    for kind, size, reps in late_plan:
        sc = make_late_scenario(rnd, kind, size)
        check_late(sc, reps)
        sc.lines = sc.triples = None
    stats["late.seconds"] = round(time.time() - t_late, 1)
    for k, v in secs.items():
        stats[k] = round(v, 1)
    # ---- random corpora
    t_sec = time.time()
    for si in range(nscen):
        kind = kinds[si % len(kinds)]
        sc = make_scenario(rnd, kind)
        sc.cls = "random"
        check_scenario(sc)
    stats["seconds.random"] = round(time.time() - t_sec, 1)
    t_sec = time.time()
    # ---- timing-controlled spark truncation (F24, fixed by b216f7d: a value-ordered column sort no longer trims)
    # (the four timing-controlled pairs each sleep 0.6 s: run them side by side)
    timed = {}
    def _timed(name, fn, *a):
        try:
            timed[name] = fn(*a)
        except Exception as e:  # reported below as a violation of that run
            timed[name] = (b"", ("error: %s" % e).encode(), ["?"])
    ths = [threading.Thread(target=_timed, args=x) for x in (("value", spark_timing, exe), ("VALUE", spark_timing, exe, "VALUE:Asc"),
                                                             ("row", spark_row_timing, exe), ("layout", layout_memory_timing, exe))]
    for th in ths:
        th.start()
    for th in ths:
        th.join()
    fast, slow, cmd = timed["value"]
    nruns[0] += 2
    if fast != slow or fast != b",a,b,c\nr,3,5,1\n":
        viol("spark-value-trim-timing", cmd=show(cmd), all_at_once=fast.decode(), with_pause=slow.decode(), expected=",a,b,c\nr,3,5,1\n",
             explanation="spark with a value-ordered column sort trims columns inside intermediate renders, so the exported table depends on render timing")
    # the same with an upper-case spelling of the value order (sort names are case-insensitive: seeded/C03-sortsbyvalue-case)
    fast, slow, cmd = timed["VALUE"]
    nruns[0] += 2
    if fast != slow or fast != b",a,b,c\nr,3,5,1\n":
        viol("spark-value-trim-timing-spelling", cmd=show(cmd), all_at_once=fast.decode(), with_pause=slow.decode(), expected=",a,b,c\nr,3,5,1\n",
             explanation="spark with a value-ordered column sort trims columns inside intermediate renders, so the exported table depends on render timing")
    # ---- a row emptied by a render's trim and sampled again right afterwards is a fresh row (default --sort-cols numeric)
    fast, slow, cmd = timed["row"]
    nruns[0] += 2
    if fast != slow or fast != b",2\nw,1\nx,1\n":
        viol("spark-row-after-trim-timing", cmd=show(cmd), all_at_once=fast.decode("utf8", "replace"), with_pause=slow.decode("utf8", "replace"),
             expected=",2\nw,1\nx,1\n", input="2 x / 1 w / (0.6 s pause in the second run) / 2 w",
             explanation="spark --cols 1: the render between the second and the third line trims column 1 and deletes the emptied row w; "
                         "the third sample must re-create row w - the exported table must not depend on whether that render happened")
    # ---- timing-controlled padding of the final frame (F25)
    fast, slow, cmd = timed["layout"]
    nruns[0] += 2
    if fast != slow:
        if squash(fast) == squash(slow):
            viol("snapshot-layout-memory", cmd=show(cmd), all_at_once=fast.decode("utf8", "replace"), with_pause=slow.decode("utf8", "replace"),
                 explanation="the table renderer keeps the widest cell of earlier (intermediate) renders, so the padding of the final --snapshot frame depends on "
                             "render timing; the two texts are equal once runs of spaces are collapsed")
        else:
            viol("e2e-config-dependence", mode="snap", cmd_a=show(cmd), cmd_b=show(cmd) + "  (0.6 s pause after the first line)", out_a=text(fast), out_b=text(slow),
                 explanation="same lines, same command line, paced stdin: the final frame differs in more than padding")
    # ---- the printed mean of analyze depends on the sample order (F26)
    ab, ba, cmd = analyze_file_order(exe, work)
    nruns[0] += 2
    if ab != ba:
        viol("analyze-mean-order", cmd=show(cmd) + " a.log b.log  |  … b.log a.log   (a.log = `2`, b.log = `0.0001`)",
             a_then_b=ab.decode("utf8", "replace"), b_then_a=ba.decode("utf8", "replace"),
             explanation="the same two files in either order: the printed Mean differs (binary64 Welford recurrence is order sensitive in the last bit, "
                         "the 4-decimal rendering shows it at a tie)")
    outs, want, cmd = reduce_regressions(exe, work)
    nruns[0] += 8
    if outs != {want}:
        viol("reduce-sort-ties-empty-group", cmd=show(cmd), outputs=[o.decode("utf8", "replace") for o in sorted(outs)], expected=want.decode(),
             explanation="reduce --sort with equal sort keys / the empty group key: the CSV is not the deterministic reference")
    stats["seconds.timingControlled"] = round(time.time() - t_sec, 1)
    drv.close()
    shutil.rmtree(work, ignore_errors=True)
    return {"runs": nruns[0], "violations": violations, "distribution": stats,
            "assumptions": ["e2e: the real CLI built from /repo is executed on generated files; the OS schedule is whatever happened on these runs",
                            "e2e reference: the extracted keys are computed by a small Python evaluator for the generated templates ({n}, literals, escapes); regex/dissect matching is replaced by splitting at the first two `|`",
                            "e2e snapshot read-back: only scenarios whose keys are plain alphanumeric tokens; only the displayed rows / columns and the footer counts are compared; snapshot texts are compared with runs of spaces collapsed wherever a render tick may have happened (F25)",
                            "e2e late sampling: whether a render tick falls between 'last line read' and 'last batch sampled' is up to the OS schedule; every such command line is run several times"]}


def run(*a, **k):  # the check's entry point is run(ctx); otherwise behave like common.run
    if len(a) == 1 and isinstance(a[0], dict) and "tier" in a[0]:
        return run_extra(a[0])
    from common import run as _run
    return _run(*a, **k)
