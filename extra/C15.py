"""C15 extra step, observation point (c): stdout of the real `rare filter -f / -F [--poll] [--tail]`.

The real CLI (built from the tree under test) follows a file that THIS script appends to with generated
timing: bursts, single lines, pauses longer than the 250 ms flush timeout, a line written in two pieces,
CRLF lines, empty lines, an unterminated last line, with -F a rotation (remove after drain + re-create, rename away +
re-create, or an atomic replace: a new file renamed ONTO the path).
`--line` makes every output line carry the line number the batcher attached (BatchStart + index), so the
comparison is: stdout == [ "<path> <n>: <line>" for the n-th line appended after the start position,
if non-empty ], exactly once, in order (`--workers 1`; with more workers the batches may overtake each
other and the lines are compared after sorting by their number).

Facts of the code the script has to live with (and that the Lean model states, `tail_sent_so_far`):
a followed line is only ever flushed by the ARRIVAL of a line (no timer goroutine), so after the
generated appends a sentinel line is written > 250 ms later and awaited on stdout; plain follow ends by
itself when the drained file is removed, re-open follow is ended with SIGINT after the sentinel was seen.
"""
import os, sys, time, signal, subprocess, shutil, threading
sys.path.insert(0, os.path.dirname(__file__))
from common import build_rare, Rand

FLUSH = 0.25          # batchers.AutoFlushTimeout
POLL = 0.25           # PollingFollowReader.PollDelay
ATTEMPTS = 5          # PollingFollowReader.ReadAttempts


class Out:
    """Collects the child's stdout in a thread."""
    def __init__(self, pipe):
        self.buf = b""
        self.lock = threading.Lock()
        self.cv = threading.Condition(self.lock)
        self.eof = False
        self.t = threading.Thread(target=self._run, args=(pipe,), daemon=True)
        self.t.start()

    def _run(self, pipe):
        while True:
            b = os.read(pipe.fileno(), 65536)
            with self.cv:
                if not b:
                    self.eof = True
                    self.cv.notify_all()
                    return
                self.buf += b
                self.cv.notify_all()

    def wait_for(self, needle, timeout):
        end = time.time() + timeout
        with self.cv:
            while needle not in self.buf and not self.eof:
                left = end - time.time()
                if left <= 0:
                    return False
                self.cv.wait(left)
            return needle in self.buf


def wait_following(pid, path, tail, timeout=5.0):
    """Wait until the child has the file open (and, with --tail, has sought to its end)."""
    end = time.time() + timeout
    while time.time() < end:
        try:
            for fd in os.listdir("/proc/%d/fd" % pid):
                try:
                    if os.readlink("/proc/%d/fd/%s" % (pid, fd)) == path:
                        if not tail:
                            return True
                        for l in open("/proc/%d/fdinfo/%s" % (pid, fd)):
                            if l.startswith("pos:") and int(l.split()[1]) == os.path.getsize(path):
                                return True
                except OSError:
                    pass
        except OSError:
            return False
        time.sleep(0.005)
    return False


ALPHA = [b"a", b"b", b"z", b" ", b"\xff", b"\xc3\xa9", b'"', b"q", b"\x00"]


class Writer:
    def __init__(self, rnd, path):
        self.rnd = rnd
        self.path = path
        self.k = 0
        self.log = b""          # bytes appended after the start position, all file generations in order

    def line(self):
        self.k += 1
        r = self.rnd.intn(8)
        if r == 0:
            return b""
        if r == 1:
            return b"L%04d\r" % self.k
        body = b"".join(self.rnd.pick(ALPHA) for _ in range(self.rnd.intn(10)))
        if self.rnd.intn(30) == 0:
            body = body * 400
        return b"L%04d:" % self.k + body

    def append(self, data):
        with open(self.path, "ab") as f:
            f.write(data)
        self.log += data

    def trickle(self, n):
        for _ in range(n):
            r = self.rnd.intn(6)
            if r == 0:
                self.append(b"".join(self.line() + b"\n" for _ in range(2 + self.rnd.intn(5))))
            elif r == 1:
                l = self.line()
                cut = len(l) // 2
                self.append(l[:cut])
                if self.rnd.intn(2):
                    time.sleep(FLUSH + 0.02 + self.rnd.intn(40) / 1000.0)
                self.append(l[cut:] + b"\n")
            else:
                self.append(self.line() + b"\n")
            r = self.rnd.intn(4)
            if r == 0:
                pass
            elif r == 1:
                time.sleep(0.002)
            else:
                time.sleep(FLUSH + 0.01 + self.rnd.intn(60) / 1000.0)


def expected(path, stream, with_numbers=True):
    """What `rare filter --line -f` must print for the bytes `stream` (after the start position)."""
    out = []
    lines = stream.split(b"\n")
    if lines and lines[-1] == b"":
        lines.pop()             # nothing follows a trailing newline
        terminated = True
    else:
        terminated = False
    for i, l in enumerate(lines):
        if (i < len(lines) - 1 or terminated) and l.endswith(b"\r"):
            l = l[:-1]
        if l == b"":
            continue            # an empty key is ignored by the extractor (counted as Ignored)
        out.append((i + 1, l))
    return out


def parse_stdout(path, data):
    pre = path.encode() + b" "
    got = []
    bad = None
    for raw in data.split(b"\n")[:-1] if data.endswith(b"\n") else data.split(b"\n"):
        if not raw.startswith(pre):
            bad = raw
            continue
        rest = raw[len(pre):]
        j = rest.find(b": ")
        try:
            n = int(rest[:j])
        except ValueError:
            bad = raw
            continue
        got.append((n, rest[j + 2:]))
    return got, bad


def one_run(exe, work, rnd, idx, poll, reopen, tail, rotate, race=False):
    d = os.path.join(work, "cli-%d" % idx)
    shutil.rmtree(d, ignore_errors=True)
    os.makedirs(d)
    path = os.path.join(d, "followed.log")
    w = Writer(rnd, path)
    initial = b"".join(w.line() + b"\n" for _ in range(1 + rnd.intn(3)))
    if initial.replace(b"\n", b"") == b"":
        initial = b"first\n"
    with open(path, "wb") as f:
        f.write(initial)
    if not tail:
        w.log = initial
    workers = rnd.pick([1, 1, 1, 2, 3])
    batch = rnd.pick([1, 2, 5, 1000])
    cmd = [exe, "--nocolor", "filter", "--line", "-F" if reopen else "-f", "--workers", str(workers), "--batch", str(batch),
           "--batch-buffer", str(rnd.pick([1, 2, 8]))]
    if poll:
        cmd.append("--poll")
    if tail:
        cmd.append("--tail")
    cmd.append(path)
    env = dict(os.environ, GORACE="halt_on_error=0 exitcode=66") if race else None
    p = subprocess.Popen(cmd, stdout=subprocess.PIPE, stderr=subprocess.PIPE, stdin=subprocess.DEVNULL, cwd=d, env=env)
    out = Out(p.stdout)
    info = {"cmd": " ".join(cmd[1:]), "notes": [], "fatal": []}
    try:
        if not wait_following(p.pid, path, tail):
            info["fatal"].append("the child never opened the file")
        w.trickle(2 + rnd.intn(4 if not poll else 2))
        sentinels = 0

        def sentinel():
            nonlocal sentinels
            sentinels += 1
            if not w.log.endswith(b"\n") and w.log != b"":
                w.append(b"\n")
            time.sleep(FLUSH + 0.06 + (POLL if poll else 0))
            s = b"END%d-%d" % (idx, sentinels)
            w.append(s + b"\n")
            ok = out.wait_for(b": " + s + b"\n", 4.0 + (ATTEMPTS * POLL if poll else 0))
            if not ok:
                info["notes"].append("sentinel %d not seen" % sentinels)
            return ok

        sentinel()
        if rotate and reopen:
            # kinds of rotation: remove + re-create (True), rename away + re-create ("rename": logrotate's default),
            # atomic replace ("replace": a new file renamed ONTO the path - one Create event, no Remove; /repo f4a9570)
            kind = rotate if isinstance(rotate, str) else "remove"
            # polling re-open needs the new file to be SHORTER than what was delivered when the poller looks
            first = b"n%d\n" % idx
            if kind == "replace":
                tmp = path + ".tmp"
                with open(tmp, "wb") as f:
                    f.write(first)
                os.replace(tmp, path)
                w.log += first
            else:
                if kind == "rename":
                    os.rename(path, path + ".1")
                else:
                    os.remove(path)
                time.sleep(rnd.intn(20) / 1000.0)
                with open(path, "wb"):
                    pass
                w.append(first)
            if poll:
                time.sleep((ATTEMPTS + 3) * POLL)   # let the poller notice the (still short) new file
            w.trickle(1 + rnd.intn(2))
            sentinel()
        unterminated = (not reopen) and rnd.intn(3) == 0
        if unterminated:
            # plain follow: an unterminated last line is flushed at EOF (it was read before the removal)
            w.append(b"tail-without-newline")
            time.sleep(0.05 + (2 * POLL if poll else 0))
        if not reopen:
            os.remove(path)
            try:
                p.wait(timeout=6.0 + ATTEMPTS * POLL)
            except subprocess.TimeoutExpired:
                info["fatal"].append("plain follow did not end after the removal of the file")
        else:
            time.sleep(0.05)
            p.send_signal(signal.SIGINT)
            try:
                p.wait(timeout=5.0)
            except subprocess.TimeoutExpired:
                info["fatal"].append("did not exit on SIGINT")
    finally:
        if p.poll() is None:
            p.kill()
            p.wait()
        out.t.join(timeout=2.0)
    err = p.stderr.read()
    if race and b"DATA RACE" in err:
        txt = err.decode("utf8", "replace")
        i = txt.find("WARNING: DATA RACE")
        shutil.rmtree(d, ignore_errors=True)
        return {"key": "cli-follow-data-race", "kind": "data-race", "cmd": info["cmd"], "report": txt[i:i + 2500],
                "explanation": "the Go race detector reported a data race in the real CLI while following a file"}, info
    got, bad = parse_stdout(path, out.buf)
    want = expected(path, w.log)
    if workers > 1:
        got = sorted(got, key=lambda x: x[0])
    info.update({"rc": p.returncode, "lines": len(want), "workers": workers, "batch": batch})
    shutil.rmtree(d, ignore_errors=True)
    if got == want and bad is None and not info["fatal"]:
        return None, info
    # first difference
    k = 0
    while k < len(got) and k < len(want) and got[k] == want[k]:
        k += 1
    def show(x):
        return None if x is None else {"number": x[0], "line_hex": x[1][:200].hex()}
    return {"key": "cli-follow-%s%s%s%s" % ("poll" if poll else "notify", "-reopen" if reopen else "", "-tail" if tail else "",
                                           ("-rotate" if rotate is True else "-rotate-" + rotate) if rotate else ""),
            "kind": "cli-follow-stdout", "cmd": info["cmd"], "notes": info["fatal"] + info["notes"], "rc": p.returncode,
            "printed_lines": len(got), "expected_lines": len(want), "first_difference_at": k,
            "printed": show(got[k] if k < len(got) else None), "expected": show(want[k] if k < len(want) else None),
            "garbled": None if bad is None else bad[:200].hex(), "stderr": err[-600:].decode("utf8", "replace"),
            "appended_hex": w.log[:4000].hex(),
            "explanation": "stdout of the real `rare filter --line` in follow mode differs from the lines appended after the start "
                           "position (each exactly once, in order, with its true line number)"}, info


def multi_run(exe, work, rnd, idx, poll, reopen):
    """Several followed files with `--readers 1`: TailFilesToChan starts one follower per file (no semaphore), so a
    follower that never finishes must not keep the later files from being followed (`multi_no_starvation`)."""
    d = os.path.join(work, "cli-%d" % idx)
    shutil.rmtree(d, ignore_errors=True)
    os.makedirs(d)
    names = ["a.log", "b.log", "c.log"]
    paths = [os.path.join(d, n) for n in names]
    logs = {}
    for i, pth in enumerate(paths):
        first = b"first-%d\n" % i
        with open(pth, "wb") as f:
            f.write(first)
        logs[pth] = first
    cmd = [exe, "--nocolor", "filter", "--line", "-F" if reopen else "-f", "--readers", "1", "--workers", "1", "--batch", "1",
           "--batch-buffer", str(rnd.pick([0, 1, 2]))]
    if poll:
        cmd.append("--poll")
    cmd += paths
    p = subprocess.Popen(cmd, stdout=subprocess.PIPE, stderr=subprocess.PIPE, stdin=subprocess.DEVNULL, cwd=d)
    out = Out(p.stdout)
    info = {"cmd": " ".join(cmd[1:5]) + " … 3 files", "notes": [], "fatal": []}
    try:
        for pth in paths:
            if not wait_following(p.pid, pth, False):
                info["fatal"].append("the child never opened %s (a follower of an earlier file holds the only reader slot?)"
                                     % os.path.basename(pth))
        k = 0
        for rnd_round in range(2 + rnd.intn(2)):
            order = [2, 0, 1] if rnd_round % 2 == 0 else [1, 2, 0]
            for i in order:
                k += 1
                line = b"M%d-%d-%d" % (idx, i, k)
                with open(paths[i], "ab") as f:
                    f.write(line + b"\n")
                logs[paths[i]] += line + b"\n"
                if not out.wait_for(b": " + line + b"\n", 4.0 + (ATTEMPTS * POLL if poll else 0)):
                    info["notes"].append("line appended to %s not seen" % names[i])
        if not reopen:
            for pth in paths:
                os.remove(pth)
            try:
                p.wait(timeout=6.0 + ATTEMPTS * POLL)
            except subprocess.TimeoutExpired:
                info["fatal"].append("plain follow did not end after the removal of all files")
        else:
            p.send_signal(signal.SIGINT)
            try:
                p.wait(timeout=5.0)
            except subprocess.TimeoutExpired:
                info["fatal"].append("did not exit on SIGINT")
    finally:
        if p.poll() is None:
            p.kill()
            p.wait()
        out.t.join(timeout=2.0)
    err = p.stderr.read()
    data = out.buf
    bad_files = []
    for pth in paths:
        mine = b"".join(l + b"\n" for l in data.split(b"\n") if l.startswith(pth.encode() + b" "))
        got, bad = parse_stdout(pth, mine)
        if got != expected(pth, logs[pth]) or bad is not None:
            bad_files.append({"file": os.path.basename(pth), "printed": [g[1][:60].hex() for g in got],
                              "expected": [w[1][:60].hex() for w in expected(pth, logs[pth])]})
    info.update({"rc": p.returncode, "files": 3})
    shutil.rmtree(d, ignore_errors=True)
    if not bad_files and not info["fatal"]:
        return None, info
    return {"key": "cli-follow-multi-%s%s" % ("poll" if poll else "notify", "-reopen" if reopen else ""),
            "kind": "cli-follow-multi", "cmd": " ".join(cmd[1:]), "notes": info["fatal"] + info["notes"], "rc": p.returncode,
            "files": bad_files, "stderr": err[-600:].decode("utf8", "replace"),
            "explanation": "three files followed with --readers 1: the lines printed for some file are not the lines appended to it "
                           "(each exactly once, in order, with its true line number) - a followed file was starved or mixed up"}, info


def run(ctx):
    rnd = Rand(ctx["seed"] * 7919 + 15)
    exe = build_rare(ctx)
    exe_race = build_rare(ctx, race=True) if ctx["tier"] != "quick" else None
    work = ctx["work"]
    # (poll, reopen, tail, rotate)
    plan = [(False, False, False, False), (False, True, False, True), (False, False, True, False),
            (True, False, False, False), (False, True, True, False), (True, True, False, True),
            (False, True, False, "replace")]
    if ctx["tier"] != "quick":
        extra = []
        for i in range(34):
            poll = i % 5 == 4
            reopen = rnd.intn(2) == 1
            extra.append((poll, reopen, rnd.intn(3) == 0, rnd.pick([True, "rename", "replace", "replace"]) if reopen and rnd.intn(2) == 1 else False))
        plan = plan + extra
    # several files at once, --readers 1 (None = multi_run); quick: one notify run, thorough: all four combinations
    multi = [(False, False)] if ctx["tier"] == "quick" else [(False, False), (False, True), (True, False), (True, True)]
    plan = plan + [("multi",) + m for m in multi]
    violations, infos, done = [], [], 0
    # independent runs, a few at a time (they mostly sleep)
    results = [None] * len(plan)
    seeds = [rnd.u64() for _ in plan]

    def worker(i):
        try:
            if plan[i][0] == "multi":
                results[i] = multi_run(exe, work, Rand(seeds[i]), i, plan[i][1], plan[i][2])
                return
            poll, reopen, tail, rotate = plan[i]
            race = exe_race is not None and len(plan) - 8 - len(multi) <= i     # the last single-file runs of the thorough tier: -race binary
            results[i] = one_run(exe_race if race else exe, work, Rand(seeds[i]), i, poll, reopen, tail, rotate, race)
        except Exception as e:   # noqa
            results[i] = ({"key": "cli-follow-harness-error", "kind": "harness-error", "error": repr(e)}, {})

    par = 4
    for base in range(0, len(plan), par):
        ts = [threading.Thread(target=worker, args=(i,)) for i in range(base, min(base + par, len(plan)))]
        for t in ts:
            t.start()
        for t in ts:
            t.join()
    for r in results:
        if r is None:
            continue
        v, info = r
        done += 1
        if v is not None:
            violations.append(v)
        elif len(infos) < 4:
            infos.append(info)
    return {"runs": done, "race_runs": 8 if exe_race else 0, "violations": violations, "cli_samples": infos,
            "assumptions": ["CLI follow runs are wall-clock bound: a followed line surfaces only when a later line arrives "
                            "(no timer goroutine), the runs use a sentinel line written > 250 ms later"]}
