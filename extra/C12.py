"""C12 extra step: dissect through the real public path `rare filter -d PATTERN [-I]`.

The in-process correspondence calls `dissect.CompileEx` / `FindSubmatchIndex` directly.  This step
runs the built CLI end to end - `BuildMatcherFromArguments` (flag -> CompileEx(expr, ignoreCase)),
`matchers.ToFactory` (pkg/matchers/factory.go), one `CreateInstance` per extractor worker goroutine,
the named-field look-up `{name}` of the match context - on a file with several thousand lines, so
that every worker's IntPool is refilled (more than 1024 matches per instance) while earlier index
slices are still referenced by batches in flight, with 1 and with several workers, and (thorough
tier) under the race detector.

Round 4c: the same file is also given to `rare filter -m REGEX [-I]` where REGEX is the pattern read as
the regular expression `lit0(?P<f1>.*?)lit1...` (skipped tokens `(?:.*?)`, a token without trailing
literal `(.*)`): whenever bytes and runes agree (literals are valid UTF-8 here; with -I the literals
must be ASCII) the two matchers must print the same lines ("replicates logic from regex";
`dissect_eq_regexp_model` in Props/C12.lean is the statement about the two models).

Oracle: an independent re-statement of the property text in Python (`bytes.find` = first
occurrence; `bytes.lower` = ASCII-only fold): for every line the CLI must print exactly
`{line}@@{0}@@{name}...` of the specification's match, and nothing for unmatched lines.
"""
import os, subprocess, sys

sys.path.insert(0, os.path.dirname(__file__))
from common import build_rare, Rand  # noqa: E402


def spec(pre, toks, line, ic):
    """specDissect / specDissectIC of Spec/C12.lean, restated: (start, end, [(a, b) per capture]) or None."""
    hay = line.lower() if ic else line
    if ic:
        pre = pre.lower()
        toks = [(k, lit.lower()) for k, lit in toks]
    s = hay.find(pre)
    if s < 0:
        return None
    pos = s + len(pre)
    caps = []
    for key, lit in toks:
        if lit == b"":
            n = len(hay) - pos
        else:
            j = hay.find(lit, pos)
            if j < 0:
                return None
            n = j - pos
        if not (key == b"" or key.startswith(b"?")):
            caps.append((pos, pos + n))
        pos += n + len(lit)
    return s, pos, caps


LIT_ATOMS = [b"a", b"b", b"A", b"B", b" ", b"=", b":", b"%", b"\xc3\xa9", b"\xc3\x89", b"\xe4\xb8\x96", b"ab", b"aB", b"-", b"{", b"%%", b";"]
VAL_ATOMS = [b"x", b"y", b"1", b"a", b"b", b"A", b" ", b"=", b"\xc3\xa9", b"\xc3\x89", b"%", b"", b"xy", b"ab", b"aB", b":"]


def gen_lit(r, minlen):
    n = minlen + r.intn(3)
    s = b"".join(r.pick(LIT_ATOMS) for _ in range(n))
    return s.replace(b"%{", b"%")


def gen_pattern(r):
    pre = gen_lit(r, 1) if r.intn(5) < 3 else b""
    nt = 1 + r.intn(4)
    toks, names = [], []
    for i in range(nt):
        kind = r.intn(6)
        if kind == 0:
            key = b""
        elif kind == 1:
            key = b"?s%d" % i
        else:
            key = b"f%d" % i
            names.append(key)
        lit = gen_lit(r, 1) or b" "
        if pre and r.intn(6) == 0:
            lit = pre
        if toks and r.intn(6) == 0:
            lit = toks[-1][1]
        if i == nt - 1 and r.intn(2) == 0:
            lit = b""
        toks.append((key, lit))
    return pre, toks, names


def quote_meta(b):
    """regexp.QuoteMeta"""
    out = bytearray()
    for c in b:
        if c in b"\\.+*?()|[]{}^$":
            out.append(92)
        out.append(c)
    return bytes(out)


def to_regex(pre, toks):
    """the regular expression a dissect pattern stands for (see harness/corr/c12d.go)"""
    out = b"(?s)" + quote_meta(pre)
    for key, lit in toks:
        body = b".*?" if lit else b".*"
        if key == b"" or key.startswith(b"?"):
            out += b"(?:" + body + b")"
        else:
            out += b"(?P<" + key + b">" + body + b")"
        out += quote_meta(lit)
    return out


def parse_out(stdout):
    """{line number: rest} of `{line}@@...` output lines, or a violation key"""
    got = {}
    for out in stdout.split(b"\n")[:-1]:
        no, _, rest = out.partition(b"@@")
        try:
            no = int(no)
        except ValueError:
            return None, ("cli-unparsable-output", out)
        if no in got:
            return None, ("cli-line-printed-twice", out)
        got[no] = rest
    return got, None


def render(pre, toks):
    return pre + b"".join(b"%{" + k + b"}" + lit for k, lit in toks)


def flip(r, s):
    out = bytearray(s)
    for i, c in enumerate(out):
        if r.intn(3) == 0:
            if 97 <= c <= 122:
                out[i] = c - 32
            elif 65 <= c <= 90:
                out[i] = c + 32
    return bytes(out)


def gen_line(r, pre, toks, ic):
    val = lambda: b"".join(r.pick(VAL_ATOMS) for _ in range(r.intn(4)))
    if r.intn(15) == 0:
        return val() + val()
    s = (val() if r.intn(3) == 0 else b"") + pre
    for _, lit in toks:
        s += val()
        if r.intn(14) != 0:
            s += lit
    if r.intn(3) == 0:
        s += val()
    if s and r.intn(6) == 0:
        # a decoy: one literal written OVER the line at a random place, so that everything after it keeps
        # its column (an instance that remembered where it found something in an earlier line finds it
        # there again - and must still report the first occurrence)
        lit = r.pick([pre] + [l for _, l in toks])
        k = r.intn(len(s))
        s = s[:k] + lit + s[k + len(lit):]
    if ic or r.intn(8) == 0:
        s = flip(r, s)
    if s and r.intn(12) == 0:
        k = r.intn(len(s))
        s = s[:k] + s[k + 1:]
    return s.replace(b"@@", b"@")


def wiring(exe, work, viol):
    """the four arms of BuildMatcherFromArguments (Model/C12Rx.lean `buildMatcher`,
    `matcher_wiring_matches_source`): -d and -m together are refused, -d takes -I as CompileEx's ignoreCase,
    -m takes -I as a "(?i)" prefix, neither flag = every line matches; compile errors end the run with rc 2"""
    path = os.path.join(work, "cli_wire.txt")
    with open(path, "wb") as f:
        f.write(b"k=1;x\nzzz\nK=2;y\n")
    both = b"1@@k=1;@@1\n3@@K=2;@@2\n"
    cases = [
        ([b"-d", b"k=%{v};", b"-m", b"k=(.*?);"], 2, b"", b"match and dissect conflict"),
        ([b"-d", b"k=%{v};"], 0, b"1@@k=1;@@1\n", b""),
        ([b"-d", b"k=%{v};", b"-I"], 0, both, b""),
        ([b"-I", b"-d", b"K=%{v};"], 0, both, b""),
        ([b"-m", b"k=(?P<v>.*?);"], 0, b"1@@k=1;@@1\n", b""),
        ([b"-m", b"k=(?P<v>.*?);", b"-I"], 0, both, b""),
        ([b"-d", b"q=%{v};"], 1, b"", b""),
        ([], 0, b"1@@k=1;x@@<NAME>\n2@@zzz@@<NAME>\n3@@K=2;y@@<NAME>\n", b""),
        ([b"-d", b"%{a}%{b}"], 2, b"", b"sequential token"),
        ([b"-d", b"%{a"], 2, b"", b"unclosed token"),
        ([b"-d", b"%{a} %{a}"], 2, b"", b"conflict"),
    ]
    n = 0
    for args, rc, out, errtext in cases:
        cmd = [exe.encode(), b"filter"] + args + [b"-e", b"{line}@@{0}@@{v}", b"-w", b"1", path.encode()]
        p = subprocess.run(cmd, stdout=subprocess.PIPE, stderr=subprocess.PIPE, timeout=60)
        n += 1
        if p.returncode != rc or p.stdout != out or errtext.lower() not in p.stderr.lower():
            viol("cli-matcher-wiring", args=b" ".join(args).decode(), rc=p.returncode, want_rc=rc,
                 stdout=p.stdout.decode("utf-8", "replace")[:300], want_stdout=out.decode(),
                 stderr=p.stderr.decode("utf-8", "replace")[-300:])
    return n


def run(ctx):
    work = ctx["work"]
    os.makedirs(work, exist_ok=True)
    thorough = ctx["tier"] != "quick"
    exe = build_rare(ctx)
    exes = [(exe, "plain")]
    if thorough:
        exes.append((build_rare(ctx, race=True), "race"))
    r = Rand(ctx["seed"] * 1000003 + 12)
    n_pat = 4 if not thorough else 14
    n_lines = 5000 if not thorough else 12000
    runs, violations = 0, []
    stats = {"lines": 0, "matched": 0, "max_matches_one_run": 0}

    def viol(key, **kw):
        if len(violations) < 5:
            violations.append(dict(kw, key=key))

    runs += wiring(exe, work, viol)

    for pi in range(n_pat):
        pre, toks, names = gen_pattern(r)
        pat = render(pre, toks)
        for ic in (False, True):
            lines = [gen_line(r, pre, toks, ic) for _ in range(n_lines)]
            path = os.path.join(work, "cli_in.txt")
            with open(path, "wb") as f:
                f.write(b"".join(l + b"\n" for l in lines))
            want = {}
            for no, l in enumerate(lines, 1):
                m = spec(pre, toks, l, ic)
                if m is not None:
                    s, e, caps = m
                    want[no] = b"@@".join([l[s:e]] + [l[a:b] for a, b in caps])
            stats["lines"] += len(lines)
            stats["matched"] += len(want)
            stats["max_matches_one_run"] = max(stats["max_matches_one_run"], len(want))
            expr = b"{line}@@{0}" + b"".join(b"@@{" + n + b"}" for n in names)
            ascii_lits = all(c < 0x80 for c in pre + b"".join(l for _, l in toks))
            if not ic or ascii_lits:
                # the regex matcher of `--match` on the pattern's regular expression prints the same lines
                cmd = [exe.encode(), b"filter", b"-m", to_regex(pre, toks)] + ([b"-I"] if ic else []) + \
                      [b"-e", expr, b"-w", b"2", b"--batch", b"64", path.encode()]
                p = subprocess.run(cmd, stdout=subprocess.PIPE, stderr=subprocess.PIPE, timeout=600)
                runs += 1
                stats["regex_runs"] = stats.get("regex_runs", 0) + 1
                info = dict(pattern=pat.hex(), regex=to_regex(pre, toks).hex(), ignore_case=ic)
                if p.returncode not in (0, 1):
                    viol("cli-regex-exit", rc=p.returncode, stderr=p.stderr.decode("utf-8", "replace")[-500:], **info)
                else:
                    got, err = parse_out(p.stdout)
                    if err:
                        viol("cli-regex-" + err[0], line=err[1].hex(), **info)
                    else:
                        for no in sorted(set(want) | set(got)):
                            if want.get(no) != got.get(no):
                                viol("cli-regex-differs-from-dissect-spec", line_no=no, line=lines[no - 1].hex(),
                                     spec=(want[no].hex() if no in want else None),
                                     regex_cli=(got[no].hex() if no in got else None), **info)
                                break
            for exe_path, kind in exes:
                for workers in ((1, 4) if kind == "plain" else (4,)):
                    cmd = [exe_path.encode(), b"filter", b"-d", pat] + ([b"-I"] if ic else []) + \
                          [b"-e", expr, b"-w", str(workers).encode(), b"--batch", b"64", path.encode()]
                    env = dict(os.environ, GORACE="halt_on_error=1")
                    p = subprocess.run(cmd, stdout=subprocess.PIPE, stderr=subprocess.PIPE, timeout=600, env=env)
                    runs += 1
                    info = dict(pattern=pat.hex(), ignore_case=ic, workers=workers, build=kind)
                    if b"DATA RACE" in p.stderr:
                        viol("cli-data-race", stderr=p.stderr.decode("utf-8", "replace")[-1500:], **info)
                        continue
                    if p.returncode not in (0, 1):  # 1 = no line matched
                        viol("cli-exit", rc=p.returncode, stderr=p.stderr.decode("utf-8", "replace")[-500:], **info)
                        continue
                    got = {}
                    bad = False
                    for out in p.stdout.split(b"\n")[:-1]:
                        no, _, rest = out.partition(b"@@")
                        try:
                            no = int(no)
                        except ValueError:
                            viol("cli-unparsable-output", line=out.hex(), **info)
                            bad = True
                            break
                        if no in got:
                            viol("cli-line-printed-twice", line_no=no, **info)
                            bad = True
                            break
                        got[no] = rest
                    if bad:
                        continue
                    for no in sorted(set(want) | set(got)):
                        if want.get(no) != got.get(no):
                            viol("cli-dissect-differs-from-spec", line_no=no, line=lines[no - 1].hex(),
                                 spec=(want[no].hex() if no in want else None),
                                 cli=(got[no].hex() if no in got else None), **info)
                            break
    return {"runs": runs, "violations": violations, "stats": stats,
            "assumptions": ["CLI step: the specification is restated in Python (bytes.find, bytes.lower) as a second "
                            "oracle; lines are newline-free and contain no '@@'; names of capturing tokens are "
                            "alphanumeric (special key names are covered by the in-process op `field`)"]}
