"""C14 extra step: the renderers through the real public path (the built `rare` CLI, `--snapshot`).

The in-process correspondence drives the renderer packages directly and has to copy the few lines of
`cmd/*.go` that call them.  This step runs the unmodified binary, so the command code itself
(`cmd/reduce.go` table path, `cmd/bargraph.go`, `cmd/tabulate.go`, …) is under test:

* `rare reduce` (table output): generated group / accumulator expressions of the template language the
  driver evaluates, generated input lines (EMPTY group values included), `--sort-reverse`; stdout (without the two status
  lines) must equal the lines the Lean model predicts for the same state (op `rcli` through the driver).  Includes group
  values that contain the array separator (more key parts than group columns: index out of range before 73473fc), and two
  runs whose stdin arrives in two parts 350 ms apart (several frames: the row buffer, seeded change C14-reduce-rowbuf-hoisted).
* `--format` expressions that read the range: every number `rare bars` / `rare tabulate` print must be the
  aggregated number under the formatter WITH THE RANGE OF THE FINAL STATE (`N of MAX` on every row), whatever
  was formatted before.
* `rare histo`: every key with at least `--atleast` samples is displayed with its count – also rows with count 0 or a
  negative count whose key widens the key column (not drawn before 7b183e0).
* `rare heatmap`: the `--scale` names are accepted / refused as `scalerByName` says; the legend line of a linear heatmap is
  the strictly increasing key list from the minimum to the maximum with the cell of each key.
* every renderer command on generated inputs with awkward keys and limits: no panic, exit status 0.
"""
import os, re, subprocess, sys, time

sys.path.insert(0, os.path.dirname(__file__))
from common import build_rare, Rand


def _hx(b):
    if isinstance(b, str):
        b = b.encode("utf-8")
    return b.hex() if b else "-"


def _hexlist(items):
    return ";".join(_hx(i) for i in items) if items else "."


WORDS = ["a", "bb", "ccc", "x1", "héllo", "日本", "0", "42", "-7", "k", "Total", "w" * 23, "é" * 9, "z.z", "A"]
GROUP_WORDS = ["ka", "kb", "kc", "kd", "ke", "zz", "ab", "abc", "", ""]  # plain text or empty: the contextual sort is the byte order
GEXPRS = ["{1}", "{1}", "{2}", "{0}", "{0}", "lit", "{1}{2}", "{2}-{1}"]  # no NUL in argv: {0} (the whole array) gives the over-long keys
DEXPRS = ["{3}", "{.}{3}", "{.}", "{2}", "{0}", "x", "{.}+{4}", "{3}{3}"]
NAMES = ["g", "k", "name", "n", "sum", "v", "日本", "héllo", "Total", "a b"]


def _panicked(p):
    err = p.stderr.decode("utf-8", errors="replace")
    return p.returncode < 0 or "panic:" in err or "goroutine " in err


def run(ctx):
    exe = build_rare(ctx)
    work = ctx["work"]
    r = Rand(ctx["seed"] * 1000003 + 14)
    quick = ctx["tier"] == "quick"
    runs, violations = 0, []

    def viol(key, **kw):
        if len(violations) < 6:
            violations.append(dict(kw, key=key))

    def distinct(pool, n):
        out = []
        while len(out) < min(n, len(pool)):
            k = r.pick(pool)
            if k not in out:
                out.append(k)
        return out

    # ---------------------------------------------------------------- reduce table vs the model
    cases = []
    n_reduce = 40 if quick else 400
    fixed = [
        # the witness of 73473fc: one group column whose value is the whole array
        (["k"], ["{0}"], [], [], [["a", "b", "c"]], 20, 10),
        (["k"], ["{0}"], ["n"], ["{.}{2}"], [["a", "b", "c"], ["a", "b", "d"]], 20, 10),
    ]
    for i in range(n_reduce):
        rev = False
        if i < len(fixed):
            gn, ge, dn, de, lines, rows, cols = fixed[i]
        else:
            ng, nd = r.intn(4), r.intn(4)
            if r.intn(2):
                ng = 1   # one group column: the empty group value is the empty key (no parts)
            gn, dn = distinct(NAMES, ng), distinct(NAMES, nd)
            ge = [r.pick(GEXPRS) if r.intn(2) else "{%d}" % (j + 1) for j in range(ng)]
            de = [r.pick(DEXPRS) for _ in range(nd)]
            lines = [[r.pick(GROUP_WORDS), r.pick(GROUP_WORDS), r.pick(WORDS)] for _ in range(r.intn(9))]
            rows, cols = r.pick([0, 1, 2, 3, 20, 20]), r.pick([0, 1, 2, 10, 10])
            rev = r.intn(2) == 1
        inp = os.path.join(work, "e2e_reduce.txt")
        with open(inp, "w", encoding="utf-8") as f:
            f.write("".join(";".join(l) + "\n" for l in lines))
        cmd = [exe, "reduce", "--snapshot", "--table", "--initial", "i", "-m", r"^([^;]*);([^;]*);([^;]*)$", "--rows", str(rows), "--cols", str(cols)]
        if rev:
            cmd.append("--sort-reverse")
        for n, e in zip(gn, ge):
            cmd += ["-g", n + "=" + e]
        for n, e in zip(dn, de):
            cmd += ["-a", n + "=" + e]
        cmd.append(inp)
        p = subprocess.run(cmd, stdout=subprocess.PIPE, stderr=subprocess.PIPE, timeout=60)
        runs += 1
        if _panicked(p) or p.returncode not in (0, 1):  # 1: nothing matched
            viol("reduce-cli-failed", argv=cmd[1:], input=lines, rc=p.returncode, stderr=p.stderr.decode("utf-8", "replace")[-600:])
            continue
        pool = []
        for l in lines:
            for w in l:
                if w not in pool:
                    pool.append(w)
        if not pool:
            pool = ["x"]
        samples = ",".join(":".join(str(pool.index(w)) for w in l) for l in lines) or "."
        case = "C14 rcli %d %d %d %s %s %s %s - %s %s" % (1 if rev else 0, rows, cols, _hexlist(gn), _hexlist(ge), _hexlist(dn), _hexlist(de), _hexlist(pool), samples)
        cases.append((case, p.stdout, cmd[1:], lines))

    # several frames through the unmodified binary: stdin arrives in two parts more than one refresh (100 ms) apart, the empty
    # group value in the second part (default order: it is the FIRST row of the second frame); cell widths only grow, so the
    # snapshot does not depend on whether the intermediate frame was really drawn
    for first, second, rev in ([(["alpha", "1", "x"],), (["", "5", "x"],), False],
                               [(["kb", "2", "x"], ["", "7", "x"]), (["zz", "1", "x"], ["", "3", "x"]), True]):
        cmd = [exe, "reduce", "--snapshot", "--table", "--initial", "i", "--batch", "1", "--workers", "1", "-m", r"^([^;]*);([^;]*);([^;]*)$",
               "-g", "grp={1}", "-a", "total={.}{2}"] + (["--sort-reverse"] if rev else [])
        pr = subprocess.Popen(cmd, stdin=subprocess.PIPE, stdout=subprocess.PIPE, stderr=subprocess.PIPE)
        try:
            pr.stdin.write("".join(";".join(l) + "\n" for l in first).encode("utf-8"))
            pr.stdin.flush()
            time.sleep(0.35)
            pr.stdin.write("".join(";".join(l) + "\n" for l in second).encode("utf-8"))
            pr.stdin.close()
            out = pr.stdout.read()
            err = pr.stderr.read()
            rc = pr.wait(timeout=60)
        except Exception as e:  # noqa
            pr.kill()
            viol("reduce-cli-failed", argv=cmd[1:], input=[first, second], rc=-1, stderr=str(e))
            continue
        runs += 1
        if rc not in (0, 1) or b"panic:" in err:
            viol("reduce-cli-failed", argv=cmd[1:], input=[first, second], rc=rc, stderr=err.decode("utf-8", "replace")[-600:])
            continue
        pool = []
        for l in list(first) + list(second):
            for w in l:
                if w not in pool:
                    pool.append(w)
        ph = "|".join(",".join(":".join(str(pool.index(w)) for w in l) for l in part) for part in (first, second))
        case = "C14 rcli %d 20 10 %s %s %s %s - %s %s" % (1 if rev else 0, _hexlist(["grp"]), _hexlist(["{1}"]), _hexlist(["total"]), _hexlist(["{.}{2}"]), _hexlist(pool), ph)
        cases.append((case, out, cmd[1:], [list(first), list(second)]))
    if cases:
        d = subprocess.run([ctx["driver"]], input="".join(c[0] + "\n" for c in cases).encode(), stdout=subprocess.PIPE, timeout=600)
        answers = d.stdout.decode().split("\n")
        for (case, out, argv, lines), ans in zip(cases, answers):
            if not ans.startswith("ok "):
                viol("reduce-model-answer", case=case, model=ans)
                continue
            body = ans[3:]
            want = [] if body == "." else [bytes.fromhex(x) if x != "-" else b"" for x in body.split(";")]
            got = out.split(b"\n")
            if got and got[-1] == b"":
                got = got[:-1]
            # the last two lines are the status lines (model: F0 / F1)
            if got[:-2] != want[:-2] or len(got) != len(want):
                viol("reduce-cli-vs-model", case=case, argv=argv, input=lines,
                     cli=[x.decode("utf-8", "replace") for x in got[:-2]], model=[x.decode("utf-8", "replace") for x in want[:-2]])

    # ---------------------------------------------------------------- --format reading the range
    n_fmt = 25 if quick else 250
    for i in range(n_fmt):
        keys = distinct(["a", "b", "c", "d", "e", "f"], 2 + r.intn(4))
        counts = {}
        lines = []
        for k in keys:
            for _ in range(1 + r.intn(3)):
                v = 1 + r.intn(30) if i else (5 if k == keys[0] else 9)
                lines.append("%s %d" % (k, v))
                counts[k] = counts.get(k, 0) + v
        data = "".join(l + "\n" for l in lines).encode()
        mx = max(counts.values())
        p = subprocess.run([exe, "bars", "--snapshot", "-m", r"(\w+) (\d+)", "-e", "{$ {1} x {2}}", "--format", "{0} of {2}"],
                           input=data, stdout=subprocess.PIPE, stderr=subprocess.PIPE, timeout=60)
        runs += 1
        if _panicked(p) or p.returncode not in (0, 1):  # 1: nothing matched
            viol("bars-cli-failed", input=lines, rc=p.returncode, stderr=p.stderr.decode("utf-8", "replace")[-600:])
            continue
        shown = {}
        for line in p.stdout.decode("utf-8", "replace").split("\n"):
            m = re.match(r"^(\w+)\s.* (\d+) of (\d+)$", line)
            if m:
                shown[m.group(1)] = (int(m.group(2)), int(m.group(3)))
        want = {k: (v, mx) for k, v in counts.items()}
        if shown != want:
            viol("bars-format-range", input=lines, format="{0} of {2}", shown=shown, want=want)
        # tabulate: every cell is value/max of the final table
        p = subprocess.run([exe, "tabulate", "--snapshot", "-m", r"(\w+) (\d+)", "-e", "{$ c {1} {2}}", "--format", "{0}/{2}"],
                           input=data, stdout=subprocess.PIPE, stderr=subprocess.PIPE, timeout=60)
        runs += 1
        if _panicked(p) or p.returncode not in (0, 1):  # 1: nothing matched
            viol("tabulate-cli-failed", input=lines, rc=p.returncode, stderr=p.stderr.decode("utf-8", "replace")[-600:])
            continue
        shown = {}
        for line in p.stdout.decode("utf-8", "replace").split("\n"):
            m = re.match(r"^(\w+)\s+(\d+)/(\d+)\s*$", line)
            if m:
                shown[m.group(1)] = (int(m.group(2)), int(m.group(3)))
        if shown != want:
            viol("tabulate-format-range", input=lines, format="{0}/{2}", shown=shown, want=want)

    # ---------------------------------------------------------------- histogram: every displayed key with its count
    # (7b183e0: a row with count 0 – or a negative count under --atleast – whose key widens the key column was not drawn)
    n_histo = 15 if quick else 150
    for i in range(n_histo):
        keys = distinct(["a", "bb", "k" * 17, "w" * 23, "日本語のキーはここにあります長い", "zero-count-and-long-key", "x"], 2 + r.intn(4))
        counts = {}
        lines = []
        for j, k in enumerate(keys):
            if i == 0:
                v = [3, 0, 2, 0, 1, 0][j]   # the witness: a long key with count 0 after a short one
                lines.append("%s %d" % (k, v))
                counts[k] = counts.get(k, 0) + v
                continue
            for _ in range(1 + r.intn(3)):
                v = r.pick([0, 0, 1, 2, 5, -1, -4, 30])
                lines.append("%s %d" % (k, v))
                counts[k] = counts.get(k, 0) + v
        if i == 0:
            keys = ["b", "zero-count-and-long-key", "c"]
            counts = {"b": 3, "zero-count-and-long-key": 0, "c": 2}
            lines = ["b 3", "zero-count-and-long-key 0", "c 2"]
        at_least = r.pick([0, 0, -100]) if i else 0
        data = "".join(l + "\n" for l in lines).encode("utf-8")
        cmd = ["histo", "--snapshot", "-n", "20", "--atleast", str(at_least), "-m", r"^(\S+) (-?\d+)$", "-e", "{$ {1} {2}}", "--format", "={0}="]
        p = subprocess.run([exe] + cmd, input=data, stdout=subprocess.PIPE, stderr=subprocess.PIPE, timeout=60)
        runs += 1
        if _panicked(p) or p.returncode not in (0, 1):
            viol("histo-cli-failed", argv=cmd, input=lines, rc=p.returncode, stderr=p.stderr.decode("utf-8", "replace")[-600:])
            continue
        shown = {}
        for line in p.stdout.decode("utf-8", "replace").split("\n"):
            mm = re.match(r"^(\S+)\s+=(-?\d+)=\s*$", line)
            if mm:
                shown[mm.group(1)] = int(mm.group(2))
        want = {k: v for k, v in counts.items() if v >= at_least}
        if shown != want:
            viol("histo-rows-vs-counts", argv=cmd, input=lines, shown=shown, want=want)

    # ---------------------------------------------------------------- heatmap: the --scale names and the legend line
    # (theorems scaler_names_table, heat_legend_line, legend_linear_exact, legend_linear_f64_boundary)
    hm = ["-m", r"^(\S+) (\S+) (-?\d+)$", "-e", "{$ {1} {2} {3}}"]
    for name, ok in [("linear", True), ("lin", True), ("", True), ("LINEAR", True), ("L\u0130N", True), ("log", True), ("Log10", True), ("LOG2", True),
                     ("ln", False), ("log1", False), ("log 2", False), ("linea", False), ("lo\u212a", False), ("none", False)]:
        p = subprocess.run([exe, "heatmap", "--snapshot", "--scale", name] + hm, input=b"x a 1\ny a 5\n", stdout=subprocess.PIPE, stderr=subprocess.PIPE, timeout=60)
        runs += 1
        if _panicked(p) or (p.returncode == 0) != ok or (not ok and b"invalid scaler" not in p.stderr):
            viol("scale-name", name=name, want_accepted=ok, rc=p.returncode, stderr=p.stderr.decode("utf-8", "replace")[-300:])
    n_legend = 12 if quick else 150
    for i in range(n_legend):
        mn, mx = [(0, 10), (0, 3), (-7, 40), (5, 6), (0, 1000000)][i] if i < 5 else sorted([r.pick([0, 0, 1, -3, -50, 7]) , r.pick([2, 9, 10, 11, 99, 100, 12345, 2 ** 40 + 1])])
        data = ("x a %d\ny a %d\n" % (mn, mx)).encode()
        p = subprocess.run([exe, "--nocolor", "--nounicode", "heatmap", "--snapshot", "--format", "{0}"] + hm, input=data, stdout=subprocess.PIPE, stderr=subprocess.PIPE, timeout=60)
        runs += 1
        if _panicked(p) or p.returncode != 0:
            viol("heatmap-cli-failed", input=[mn, mx], rc=p.returncode, stderr=p.stderr.decode("utf-8", "replace")[-600:])
            continue
        # ScaleKeys(6, mn, mx) on the linear scale with the same binary64 operations, consecutive duplicates dropped
        keys = []
        for j in range(6):
            k = int((float(mx) - float(mn)) * float(j) / 5.0 + float(mn))
            if not keys or keys[-1] != k:
                keys.append(k)
        parts = []
        for k in keys:
            u = (float(k) - float(mn)) / (float(mx) - float(mn))
            parts.append("-123456789"[int(u * 9.0)] + " " + str(k))
        want = "  " + "    ".join(parts)          # row keys are one cell wide: indentation maxRowKeyWidth(0) + 1 … of the FIRST render
        got = p.stdout.decode("utf-8", "replace").split("\n")[0]
        if got.strip() != want.strip() or keys[0] != mn or keys[-1] != mx or keys != sorted(set(keys)):
            viol("heatmap-legend", input=[mn, mx], shown=got, want=want)

    # ---------------------------------------------------------------- no panic, any renderer command
    n_sweep = 12 if quick else 120
    keypool = WORDS + ["", "\x1b[31mred\x1b[0m", "\x1b[1", "a\tb", " lead", "x y"]
    for i in range(n_sweep):
        lines = []
        for _ in range(r.intn(12)):
            lines.append("%s|%s|%d" % (r.pick(keypool), r.pick(keypool), r.pick([0, 1, 2, 5, -3, 1000, 2 ** 62, -2 ** 62, 7])))
        data = "".join(l + "\n" for l in lines).encode("utf-8")
        m = ["-m", r"^([^|]*)\|([^|]*)\|(-?\d+)$"]
        lim = str(r.pick([0, 1, 2, 20]))
        cmds = [
            ["histo", "--snapshot", "-x", "--all", "--atleast", str(r.pick([0, 1, 3])), "-n", lim] + m + ["-e", "{$ {1} {3}}"],
            ["bars", "--snapshot"] + (["--stacked"] if r.intn(2) else ["--scale", r.pick(["linear", "log2", "log10"])]) + m + ["-e", "{$ {1} {2} {3}}"],
            ["tabulate", "--snapshot", "-x", "--num", lim, "--cols", str(r.pick([0, 1, 3, 10]))] + m + ["-e", "{$ {1} {2} {3}}"],
            ["heatmap", "--snapshot", "--num", lim, "--cols", str(r.pick([0, 1, 3, 10])), "--scale", r.pick(["linear", "log2", "log10"])] + m + ["-e", "{$ {1} {2} {3}}"],
            ["spark", "--snapshot", "--num", lim, "--cols", str(r.pick([0, 1, 3, 10]))] + (["--notruncate"] if r.intn(2) else []) + m + ["-e", "{$ {1} {2} {3}}"],
            ["reduce", "--snapshot", "--rows", lim, "--cols", str(r.pick([0, 1, 3, 10]))] + m + ["-g", "k={0}", "-g", "j={2}", "-a", "n={sumi {.} {3}}"],
            # the output path of reduce without groups (lines written straight to the terminal)
            ["reduce", "--snapshot"] + m + ["-a", "n={sumi {.} {3}}", "-a", "日本語のキー={2}", "-a", "={1}"],
        ]
        for c in cmds:
            p = subprocess.run([exe] + c, input=data, stdout=subprocess.PIPE, stderr=subprocess.PIPE, timeout=60)
            runs += 1
            if _panicked(p) or p.returncode not in (0, 1):  # 1: nothing matched
                viol("renderer-cli-failed", argv=c, input=lines, rc=p.returncode, stderr=p.stderr.decode("utf-8", "replace")[-600:])

    return {"runs": runs, "violations": violations,
            "assumptions": ["CLI runs use --snapshot on inputs small enough to be rendered once (no intermediate ticker render)",
                            "group keys of the reduce CLI runs are plain words, for which the contextual sort is the byte order"]}
