#!/bin/sh
# tools/try_seed.sh <property id> <patch.diff> [tier]
# Runs ./check <id> against a scratch worktree of /repo's HEAD with the patch applied (never touches /repo).
set -e
ID=$1; PATCH=$2; TIER=${3:-quick}
WT=/tmp/try-$ID-$$
git -C /repo worktree add -q "$WT" HEAD
if ! git -C "$WT" apply "$PATCH"; then echo "PATCH DOES NOT APPLY"; git -C /repo worktree remove --force "$WT"; exit 3; fi
set +e
VERIF_REPO=$WT VERIF_WORKDIR=/tmp/trywk-$ID-$$ VERIF_EVIDENCE_DIR=/tmp/trywk-$ID-$$/ev /verif/check "$ID" --tier "$TIER"
RC=$?
for f in /tmp/trywk-$ID-$$/$ID/replay-*.json; do [ -f "$f" ] && { echo "--- $f"; head -c 1500 "$f"; echo; }; done
git -C /repo worktree remove --force "$WT"
rm -rf /tmp/trywk-$ID-$$
echo "try_seed rc=$RC"
exit $RC
