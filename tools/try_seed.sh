#!/bin/sh
# tools/try_seed.sh <property id> <patch.diff> [tier]
# Runs ./check <id> against a scratch worktree of /repo's HEAD with the patch applied (never touches /repo).
ID=$1; PATCH=$(readlink -f "$2"); TIER=${3:-quick}
WT=/tmp/try-$ID-$$
git -C /repo worktree add -q "$WT" HEAD || exit 3
HEADPORT="$(dirname "$PATCH")/patch.head.diff"
if ! git -C "$WT" apply --check "$PATCH" 2>/dev/null && [ -f "$HEADPORT" ]; then PATCH="$HEADPORT"; echo "using $HEADPORT"; fi
if ! git -C "$WT" apply "$PATCH" 2>/dev/null; then
  # the seed may have been written against an older HEAD (hook commits landed since): 3-way apply
  if git -C "$WT" apply -3 "$PATCH"; then git -C "$WT" reset -q; else echo "PATCH DOES NOT APPLY"; git -C /repo worktree remove --force "$WT"; exit 3; fi
fi
VERIF_REPO=$WT VERIF_WORKDIR=/tmp/trywk-$ID-$$ VERIF_EVIDENCE_DIR=/tmp/trywk-$ID-$$/ev /verif/check "$ID" --tier "$TIER"
RC=$?
for f in /tmp/trywk-$ID-$$/$ID/replay-*.json; do [ -f "$f" ] && { echo "--- $f"; head -c 1500 "$f"; echo; }; done
git -C /repo worktree remove --force "$WT"
rm -rf /tmp/trywk-$ID-$$
echo "try_seed rc=$RC"
exit $RC
