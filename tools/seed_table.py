#!/usr/bin/env python3
"""tools/seed_table.py – markdown table of seeded/*/meta.json (first confirmation run and latest retest)."""
import json, os, glob
rows = []
for p in sorted(glob.glob("/verif/seeded/*/meta.json")):
    m = json.load(open(p)); n = os.path.basename(os.path.dirname(p))
    c = m.get("confirmation", {})
    first = "caught" if c.get("detected") else "**missed**"
    rts = m.get("retests", [])
    last = ""
    if rts:
        r = rts[-1]
        last = ("caught" + ("" if r.get("concrete_input") else " (no-failing-input-found)")) if r.get("detected") else "**missed**"
        last += f" @{r.get('verif_commit')}"
    elif c.get("detected_after_strengthening"):
        last = "caught (after strengthening)"
    title = (m.get("title") or "").replace("|", "/")[:160]
    needs = (m.get("needs") or "").replace("|", "/").replace("\n", " ")[:200]
    rows.append(f"| {n} | {m.get('property') or c.get('property')} | {title} | {needs} | {first} | {last} |")
print("| Seed | Prop | Change | Needs | First run | Latest re-test |\n|---|---|---|---|---|---|")
print("\n".join(rows))
