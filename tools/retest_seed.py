#!/usr/bin/env python3
"""tools/retest_seed.py <seed name> [--tier quick|thorough] [--property Cxx]

Re-runs ./check for a stored seeded change (seeded/<name>/patch.diff) against a scratch worktree of
/repo's HEAD with the patch applied, and appends the verdict to seeded/<name>/meta.json["retests"].
Never touches /repo's working tree."""
import sys, os, json, subprocess, time, re, shutil
name = sys.argv[1]
tier = sys.argv[sys.argv.index("--tier") + 1] if "--tier" in sys.argv else "quick"
d = os.path.join("/verif/seeded", name)
meta = json.load(open(os.path.join(d, "meta.json")))
pid = sys.argv[sys.argv.index("--property") + 1] if "--property" in sys.argv else meta.get("property") or meta["confirmation"]["property"]
wt = f"/tmp/retest-{name}-{os.getpid()}"
wk = f"/tmp/retestwk-{name}-{os.getpid()}"
env = dict(os.environ, GOFLAGS="-mod=mod", GOPROXY="off", GOSUMDB="off", GOTOOLCHAIN="local")
subprocess.check_call(["git", "-C", "/repo", "worktree", "add", "-q", wt, "HEAD"])
res = {"at": time.strftime("%Y-%m-%d %H:%M:%S"), "property": pid, "tier": tier,
       "verif_commit": subprocess.check_output(["git", "-C", "/verif", "rev-parse", "--short", "HEAD"], text=True).strip(),
       "repo_commit": subprocess.check_output(["git", "-C", "/repo", "rev-parse", "--short", "HEAD"], text=True).strip()}
try:
    patch = os.path.join(d, "patch.diff")
    head = os.path.join(d, "patch.head.diff")     # the same change re-made against a later HEAD of /repo (hooks/fixes moved the context)
    if os.path.exists(head) and subprocess.call(["git", "apply", "--check", patch], cwd=wt, stderr=subprocess.DEVNULL) != 0:
        patch = head
        res["used_head_port"] = True
    rc = subprocess.call(["git", "apply", patch], cwd=wt)
    if rc != 0:
        rc = subprocess.call(["git", "apply", "-3", patch], cwd=wt)
        if rc == 0:
            subprocess.call(["git", "reset", "-q"], cwd=wt)
            # the stored patch was written against an older HEAD of /repo: store it rebased
            d2 = subprocess.check_output(["git", "diff"], cwd=wt, text=True)
            if d2.strip():
                open(patch, "w").write(d2)
                res["patch_rebased"] = True
    if rc != 0:
        res["error"] = "patch does not apply to /repo HEAD"
    else:
        rc = subprocess.call(["go", "build", "./..."], cwd=wt, env=env)
        res["builds"] = rc == 0
        t0 = time.time()
        p = subprocess.run(["/verif/check", pid, "--tier", tier], cwd="/verif", text=True, stdout=subprocess.PIPE, stderr=subprocess.STDOUT,
                           env=dict(env, VERIF_REPO=wt, VERIF_WORKDIR=wk, VERIF_EVIDENCE_DIR=wk + "/ev"), timeout=3600)
        out = [l for l in p.stdout.split("\n") if l and not l.startswith("WARNING") and not l.startswith("KNOWN-FINDING")]
        res["check_exit"] = p.returncode
        res["wall_s"] = round(time.time() - t0, 1)
        res["output"] = [l[:300] for l in out[-6:]]
        res["detected"] = p.returncode == 1 and "VIOLATION" in p.stdout
        res["concrete_input"] = res["detected"] and any("VIOLATION" in l and "no-failing-input-found" not in l for l in out)
        rp = re.findall(r"replay=(\S+)", p.stdout)
        if rp and os.path.exists(rp[0]):
            r = json.load(open(rp[0]))
            res["first_replay"] = {k: (v if not isinstance(v, str) else v[:500]) for k, v in r.items() if k in ("kind", "case", "implementation", "model", "broken", "key")}
finally:
    subprocess.call(["git", "-C", "/repo", "worktree", "remove", "--force", wt])
    shutil.rmtree(wk, ignore_errors=True)
meta.setdefault("retests", []).append(res)
json.dump(meta, open(os.path.join(d, "meta.json"), "w"), indent=1)
print(name, pid, "detected=%s concrete=%s" % (res.get("detected"), res.get("concrete_input")), res.get("output", [res.get("error")])[-1:] )
