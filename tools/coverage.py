#!/usr/bin/env python3
"""tools/coverage.py <Cxx> [tier] [seed]

Which statements of the source files a property's model mirrors does the correspondence harness
actually execute?  Builds corr_<id> with `go build -cover -coverpkg=rare/...`, runs the generator
(`gen`, which also runs every case on the real code), and prints per anchored file the share of
statements covered and the uncovered blocks (file:line ranges).  Diagnostic only: it guides the
generators ("generator quality bounds what the correspondence sees"); it decides nothing.
Writes work/cov/<id>.json."""
import sys, os, json, subprocess, re, shutil, importlib.machinery, importlib.util
ROOT = "/verif"
pid = sys.argv[1]
tier = sys.argv[2] if len(sys.argv) > 2 else "quick"
seed = sys.argv[3] if len(sys.argv) > 3 else "1"
REPO = os.environ.get("VERIF_REPO", "/repo")
env = dict(os.environ, GOFLAGS="-mod=mod", GOPROXY="off", GOSUMDB="off", GOTOOLCHAIN="local", VERIF_ROOT=ROOT,
           VERIF_WORK=os.path.join(ROOT, "work", "tmp"))
loader = importlib.machinery.SourceFileLoader("chk", os.path.join(ROOT, "check"))
spec = importlib.util.spec_from_loader("chk", loader); chk = importlib.util.module_from_spec(spec); loader.exec_module(chk)
files = chk.property_files(pid)
cov = os.path.join(ROOT, "work", "cov"); os.makedirs(cov, exist_ok=True)
binp = os.path.join(cov, "corr_" + pid)
moddir = os.path.join(ROOT, "work", "gomod"); os.makedirs(moddir, exist_ok=True)
modfile = os.path.join(moddir, "go.mod")
if not os.path.exists(modfile):
    open(modfile, "w").write(open(os.path.join(ROOT, "harness", "go.mod")).read().replace("=> /repo", "=> " + REPO))
    shutil.copyfile(os.path.join(REPO, "go.sum"), os.path.join(moddir, "go.sum"))
subprocess.check_call(["go", "build", "-modfile", modfile, "-cover", "-coverpkg=verifharness/corr,rare/...", "-tags", "verif " + pid.lower(),
                       "-o", binp, "./corr"], cwd=os.path.join(ROOT, "harness"), env=env, stderr=subprocess.DEVNULL)
d = os.path.join(cov, "data_" + pid); shutil.rmtree(d, ignore_errors=True); os.makedirs(d)
out = os.path.join(cov, "out_" + pid); shutil.rmtree(out, ignore_errors=True); os.makedirs(out)
subprocess.run([binp, "gen", pid, tier, seed, out], env=dict(env, GOCOVERDIR=d), timeout=3600, stdout=subprocess.DEVNULL)
txt = os.path.join(cov, pid + ".txt")
subprocess.check_call(["go", "tool", "covdata", "textfmt", "-i=" + d, "-o", txt], env=env)
per = {}
for l in open(txt):
    m = re.match(r"rare/(.+?):(\d+)\.(\d+),(\d+)\.(\d+) (\d+) (\d+)", l)
    if not m:
        continue
    f, l0, _, l1, _, n, cnt = m.groups()
    if f not in files:
        continue
    e = per.setdefault(f, {"stmts": 0, "covered": 0, "uncovered": []})
    e["stmts"] += int(n)
    if int(cnt) > 0:
        e["covered"] += int(n)
    else:
        e["uncovered"].append(f"{l0}-{l1}")
tot = sum(e["stmts"] for e in per.values()); covd = sum(e["covered"] for e in per.values())
rep = {"property": pid, "tier": tier, "seed": seed, "statements": tot, "covered": covd, "files": per,
       "files_never_loaded": [f for f in files if f not in per]}
json.dump(rep, open(os.path.join(cov, pid + ".json"), "w"), indent=1)
print(f"{pid} {tier}: {covd}/{tot} statements of the mirrored files covered by the correspondence ({100.0*covd/max(tot,1):.1f}%)")
for f, e in sorted(per.items()):
    print(f"  {f}: {e['covered']}/{e['stmts']}" + (("  uncovered: " + " ".join(e["uncovered"][:40])) if e["uncovered"] else ""))
for f in rep["files_never_loaded"]:
    print(f"  {f}: not linked into the harness (exercised only by the CLI extra step, if any)")
shutil.rmtree(d, ignore_errors=True); shutil.rmtree(out, ignore_errors=True); os.remove(binp)
