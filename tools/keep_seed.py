#!/usr/bin/env python3
"""tools/keep_seed.py <property id> <seed worktree> <name> [--tier quick|thorough]

Confirms a seeded defect produced by an independent sub-agent in its scratch worktree and, if it
holds up, stores it under /verif/seeded/<name>/ (patch.diff, demonstration, meta.json):
  1. fresh worktree of /repo HEAD + patch: `go build ./...` and the whole test suite (minus the
     baseline's always-failing TestTryWriteCSV) must pass;
  2. the demonstration must fail with the patch and pass without it;
  3. ./check <id> is run against the patched worktree (VERIF_REPO) and its verdict recorded.
Never touches /repo's working tree.
"""
import sys, os, subprocess, json, shutil, re, time

pid, seedwt, name = sys.argv[1], sys.argv[2], sys.argv[3]
tier = sys.argv[sys.argv.index("--tier") + 1] if "--tier" in sys.argv else "quick"
env = dict(os.environ, GOFLAGS="-mod=mod", GOPROXY="off", GOSUMDB="off", GOTOOLCHAIN="local")
sd = os.path.join(seedwt, ".seed")
patch = os.path.join(sd, "patch.diff")
wt = f"/tmp/keep-{name}-{os.getpid()}"


def sh(cmd, cwd=None, timeout=1800, extra_env=None):
    p = subprocess.run(cmd, cwd=cwd, env=dict(env, **(extra_env or {})), stdout=subprocess.PIPE, stderr=subprocess.STDOUT, text=True, timeout=timeout, shell=isinstance(cmd, str))
    return p.returncode, p.stdout


res = {"property": pid, "name": name, "confirmed_at": time.strftime("%Y-%m-%d %H:%M:%S")}
subprocess.check_call(["git", "-C", "/repo", "worktree", "add", "-q", wt, "HEAD"])
try:
    res["base_commit"] = subprocess.check_output(["git", "-C", wt, "rev-parse", "--short", "HEAD"], text=True).strip()
    rc, out = sh(["git", "apply", patch], cwd=wt)
    if rc != 0:
        # the seed was written against an older HEAD of /repo (hook commits landed since): 3-way apply and
        # regenerate the patch against the current HEAD
        rc, out = sh(["git", "apply", "-3", patch], cwd=wt)
        if rc == 0:
            sh(["git", "reset", "-q"], cwd=wt)
            rc2, d = sh(["git", "diff"], cwd=wt)
            patch = os.path.join(sd, "patch.diff")
            open(patch, "w").write(d)
            res["patch_rebased"] = True
    res["patch_applies"] = rc == 0
    if rc != 0:
        print("patch does not apply:", out); raise SystemExit(3)
    rc, out = sh(["go", "build", "./..."], cwd=wt)
    res["builds"] = rc == 0
    rc, out = sh("go test -vet=off -count=1 ./... 2>&1", cwd=wt, timeout=2400)
    fails = sorted(set(re.findall(r"^--- FAIL: (\S+)", out, re.M)))
    res["test_failures"] = fails
    res["tests_pass"] = [f for f in fails if f != "TestTryWriteCSV"] == []
    # demonstration: copy every file of .seed except patch/meta into the same relative place as in the seed worktree
    demo_files = []
    for root, _, files in os.walk(seedwt):
        if "/.git" in root or root.startswith(sd):
            continue
        for f in files:
            rel = os.path.relpath(os.path.join(root, f), seedwt)
            if not os.path.exists(os.path.join(wt, rel)):   # files the seeder added (demo tests, programs)
                demo_files.append(rel)
    for rel in demo_files:
        os.makedirs(os.path.dirname(os.path.join(wt, rel)) or wt, exist_ok=True)
        shutil.copyfile(os.path.join(seedwt, rel), os.path.join(wt, rel))
    os.makedirs(os.path.join(wt, ".seed"), exist_ok=True)
    for f in os.listdir(sd):
        if os.path.isdir(os.path.join(sd, f)):
            shutil.copytree(os.path.join(sd, f), os.path.join(wt, ".seed", f), dirs_exist_ok=True)
        else:
            shutil.copyfile(os.path.join(sd, f), os.path.join(wt, ".seed", f))
    rc_with, out_with = sh(["sh", ".seed/run_demo.sh"], cwd=wt, timeout=900)
    sh(["git", "apply", "-R", patch], cwd=wt)
    rc_without, out_without = sh(["sh", ".seed/run_demo.sh"], cwd=wt, timeout=900)
    sh(["git", "apply", patch], cwd=wt)
    res["demo_fails_with_change"] = rc_with != 0
    res["demo_passes_without_change"] = rc_without == 0
    res["demo_files"] = demo_files
    # our check against the patched tree
    for rel in demo_files:            # the demonstration is not part of the defect
        os.remove(os.path.join(wt, rel))
    shutil.rmtree(os.path.join(wt, ".seed"), ignore_errors=True)
    wk = f"/tmp/keepwk-{name}-{os.getpid()}"
    t0 = time.time()
    rc, out = sh(["/verif/check", pid, "--tier", tier], cwd="/verif", timeout=3000,
                 extra_env={"VERIF_REPO": wt, "VERIF_WORKDIR": wk, "VERIF_EVIDENCE_DIR": wk + "/ev"})
    res["check_cmd"] = f"VERIF_REPO=<worktree with patch> ./check {pid} --tier {tier}"
    res["check_exit"] = rc
    res["check_wall_s"] = round(time.time() - t0, 1)
    res["check_output"] = [l for l in out.split("\n") if l and not l.startswith("WARNING")][-8:]
    res["detected"] = rc == 1 and "VIOLATION" in out
    rp = re.findall(r"replay=(\S+)", out)
    if rp and os.path.exists(rp[0]):
        r = json.load(open(rp[0]))
        res["first_replay"] = {k: (v if not isinstance(v, str) else v[:600]) for k, v in r.items() if k in ("kind", "case", "implementation", "model", "broken", "key", "report", "explanation")}
    shutil.rmtree(wk, ignore_errors=True)
finally:
    subprocess.call(["git", "-C", "/repo", "worktree", "remove", "--force", wt])
ok = res.get("builds") and res.get("tests_pass") and res.get("demo_fails_with_change") and res.get("demo_passes_without_change")
res["kept"] = bool(ok)
print(json.dumps({k: v for k, v in res.items() if k not in ("check_output", "first_replay")}, indent=1))
print("\n".join(res.get("check_output", [])))
if ok:
    dst = os.path.join("/verif/seeded", name)
    os.makedirs(dst, exist_ok=True)
    for f in os.listdir(sd):
        if os.path.isdir(os.path.join(sd, f)):
            shutil.copytree(os.path.join(sd, f), os.path.join(dst, f), dirs_exist_ok=True)
        else:
            shutil.copyfile(os.path.join(sd, f), os.path.join(dst, f))
    meta = {}
    try:
        meta = json.load(open(os.path.join(sd, "meta.json")))
    except Exception:
        pass
    meta["confirmation"] = res
    json.dump(meta, open(os.path.join(dst, "meta.json"), "w"), indent=1)
    print("kept in", dst)
else:
    print("NOT kept")
