#!/usr/bin/env python3
"""tools/manifest_hooks.py - refreshes MANIFEST.json's hooks section from /repo: every commit whose subject starts
with "hook:" goes into source_commits (oldest first) and the list of files built only under the tag `verif` is
re-read from the tree."""
import json, subprocess
m = json.load(open("/verif/MANIFEST.json"))
log = subprocess.check_output(["git", "-C", "/repo", "log", "--reverse", "--format=%h %s"], text=True).splitlines()
hooks = [l.split(" ", 1)[0] for l in log if l.split(" ", 1)[1].startswith("hook:")]
files = subprocess.check_output("cd /repo && grep -rl '^//go:build verif' --include=*.go . | sort", shell=True, text=True).split()
off = subprocess.check_output("cd /repo && grep -rl '^//go:build !verif' --include=*.go . | sort", shell=True, text=True).split()
m["hooks"]["source_commits"] = hooks
m["hooks"]["enable"] = ("go build -tags verif (the harness module /verif/harness is built with -tags 'verif <id>' and -modfile so that module rare => /repo's "
    "working tree); hook files (all //go:build verif, new files): " + ", ".join(f[2:] for f in files) +
    "; their empty inlinable twins (//go:build !verif): " + ", ".join(f[2:] for f in off) +
    "; add-only one-line verifTrace(...) calls in pkg/extractor/extractor.go, pkg/extractor/batchers/{batcher,fileBatcher,readerBatcher}.go and "
    "cmd/helpers/updatingAggregator.go (no existing line rewritten or deleted in the net diff; one hook commit, b021235 verifTick, rewrote a line and was "
    "reverted by 80477e8; without the tag verifTrace is an empty function)")
json.dump(m, open("/verif/MANIFEST.json", "w"), indent=1, ensure_ascii=False)
print(len(hooks), "hook commits,", len(files), "hook files")
