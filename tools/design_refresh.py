#!/usr/bin/env python3
"""tools/design_refresh.py – regenerates the generated regions of DESIGN.md (between
`<!-- BEGIN:<name> -->` and `<!-- END:<name> -->` markers): findings (known_findings/*.json),
seeds (seeded/*/meta.json), counts (theorems per property).  Also runs tools/theorem_index.py."""
import json, glob, os, re, subprocess
ROOT = "/verif"
def findings():
    rows = ["| Property | Disposition | Commit in /repo | What failed |", "|---|---|---|---|"]
    for p in sorted(glob.glob(ROOT + "/known_findings/C*.json")):
        for f in json.load(open(p)).get("findings", []):
            what = " ".join((f.get("what") or "").split()).replace("|", "\\|")
            rows.append(f"| {f.get('property')} | {f.get('status')} | {(f.get('commit') or '')[:12]} | {what[:420]} |")
    return "\n".join(rows)
def seeds():
    return subprocess.check_output(["python3", ROOT + "/tools/seed_table.py"], text=True).strip()
def counts():
    rows = ["| Id | Theorems in Props/<id>.lean | Lean lines (Model+Spec+Proofs+Props+Drv mentioning the id) |", "|---|---|---|"]
    tot = 0
    for i in range(1, 21):
        pid = "C%02d" % i
        src = open(f"{ROOT}/lean/Rare/Props/{pid}.lean").read()
        src = re.sub(r"/-(?:(?!-/).)*?-/", "", src, flags=re.S)
        n = len([m for m in re.finditer(r"^\s*(?:@\[[^\]]*\]\s*)?(?:protected\s+)?theorem\s+\S+", src, re.M)])
        tot += n
        lines = 0
        for f in glob.glob(f"{ROOT}/lean/Rare/*/*{pid}*.lean"):
            lines += sum(1 for _ in open(f))
        rows.append(f"| {pid} | {n} | {lines} |")
    rows.append(f"| total | {tot} | |")
    return "\n".join(rows)
gen = {"findings": findings, "seeds": seeds, "counts": counts}
p = ROOT + "/DESIGN.md"
s = open(p).read()
for name, fn in gen.items():
    b, e = f"<!-- BEGIN:{name} -->", f"<!-- END:{name} -->"
    if b in s and e in s:
        i, j = s.index(b) + len(b), s.index(e)
        s = s[:i] + "\n" + fn() + "\n" + s[j:]
open(p, "w").write(s)
print(subprocess.check_output(["python3", ROOT + "/tools/theorem_index.py"], text=True).strip())
