#!/bin/sh
# tools/sweep.sh <tier> <seed>...   runs every claimed check on the unchanged tree; prints one line per run
TIER=$1; shift
./check --setup > sweep-setup.log 2>&1 || { echo "SETUP FAILED"; tail -20 sweep-setup.log; exit 1; }
for S in "$@"; do
  for P in $(python3 -c "import json; print(' '.join(c['property_id'] for c in json.load(open('MANIFEST.json'))['checks']))"); do
    START=$(date +%s)
    OUT=$(VERIF_SEED=$S ./check $P --tier $TIER 2>&1 | grep -v "^WARNING" | grep "tier=\|VIOLATION" | tr '\n' ' ')
    RC=$?
    echo "seed=$S $(( $(date +%s) - START ))s $OUT"
  done
done
echo SWEEP-DONE
