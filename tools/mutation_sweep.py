#!/usr/bin/env python3
"""tools/mutation_sweep.py <Cxx> [--n N] [--workers W] [--seed S] [--escalate SECONDS] [--files f1,f2]

Diagnostic of the verification machinery (decides nothing about a property): samples N small syntactic
mutants (harness/mutate: comparison/arith operator swaps, integer literal +-1, ++/--, negated conditions,
break/continue, deleted statements) of the source files the property's model mirrors, and for each one, in a
scratch worktree of /repo's HEAD under /tmp (never /repo itself):

  1. `go build ./...`                                  -> "nobuild" (discarded)
  2. the repository's own test suite                   -> "tests"   (killed by the existing tests: uninteresting)
  3. `./check <id> --tier quick` with VERIF_REPO=...   -> "caught" (VIOLATION with a failing input),
                                                         "caught-nfi" (VIOLATION ... no-failing-input-found),
                                                         "survived" (rc 0)

Survivors are either equivalent mutants (no observable change, or a change outside the property) or reach
gaps of the generators/model; they are listed in work/mut/<id>.jsonl for review.  Results are appended, so a
sweep can be resumed; already classified (file, k) pairs are skipped.
"""
import sys, os, json, subprocess, random, shutil, threading, queue, time, importlib.machinery, importlib.util, re

ROOT = "/verif"
args = sys.argv[1:]
pid = args[0]
def opt(name, default):
    return args[args.index(name) + 1] if name in args else default
N = int(opt("--n", "40")); W = int(opt("--workers", "4")); SEED = int(opt("--seed", "1"))
ESC = opt("--escalate", "45")
only = opt("--files", None)
TESTS_ONLY = "--tests-only" in args   # stop after the repository's own tests: verdict "alive" marks a mutant worth a check run
TT = opt("--test-timeout", "240")
env = dict(os.environ, GOFLAGS="-mod=mod", GOPROXY="off", GOSUMDB="off", GOTOOLCHAIN="local")
loader = importlib.machinery.SourceFileLoader("chk", os.path.join(ROOT, "check"))
spec = importlib.util.spec_from_loader("chk", loader); chk = importlib.util.module_from_spec(spec); loader.exec_module(chk)
files = [f for f in chk.property_files(pid) if os.path.exists(os.path.join("/repo", f))]
if only:
    files = [f for f in files if f in only.split(",")]
MUT = os.path.join(ROOT, "work", "bin", "mutate")
if not os.path.exists(MUT):
    subprocess.check_call(["go", "build", "-modfile", os.path.join(ROOT, "work", "gomod", "go.mod"), "-o", MUT, "./mutate"],
                          cwd=os.path.join(ROOT, "harness"), env=env)
outdir = os.path.join(ROOT, "work", "mut"); os.makedirs(outdir, exist_ok=True)
outp = os.path.join(outdir, pid + ".jsonl")
ALIVE_ONLY = "--alive-only" in args   # second stage: run ./check only on mutants an earlier --tests-only pass left alive
alive = set()
done = set()
if os.path.exists(outp):
    for l in open(outp):
        r = json.loads(l)
        if r["verdict"] != "alive" or TESTS_ONLY:
            done.add((r["file"], r["k"], r["old"], r["new"]))
        if r["verdict"] == "alive":
            alive.add((r["file"], r["k"], r["old"], r["new"]))
points = []
for f in files:
    out = subprocess.run([MUT, "list", os.path.join("/repo", f)], stdout=subprocess.PIPE, text=True).stdout
    for l in out.splitlines():
        m = json.loads(l); m["file"] = f
        key = (f, m["k"], m["old"], m["new"])
        if key not in done and (not ALIVE_ONLY or key in alive):
            points.append(m)
rnd = random.Random(SEED)
rnd.shuffle(points)
points = points[:N]
print(f"{pid}: {len(files)} files, sampling {len(points)} mutants, {W} workers", flush=True)
q = queue.Queue()
for p in points:
    q.put(p)
lock = threading.Lock()
counts = {}


def sh(cmd, cwd=None, timeout=1800, extra=None):
    try:
        p = subprocess.run(cmd, cwd=cwd, env=dict(env, **(extra or {})), stdout=subprocess.PIPE, stderr=subprocess.STDOUT, text=True, timeout=timeout)
        return p.returncode, p.stdout
    except subprocess.TimeoutExpired as e:
        return 124, (e.stdout or b"").decode("utf-8", "replace") if isinstance(e.stdout, bytes) else (e.stdout or "")


def worker(i):
    wt = f"/tmp/mut-{pid}-{os.getpid()}-{i}"
    wk = f"/tmp/mutwk-{pid}-{os.getpid()}-{i}"
    subprocess.check_call(["git", "-C", "/repo", "worktree", "add", "-q", wt, "HEAD"])
    try:
        while True:
            try:
                m = q.get_nowait()
            except queue.Empty:
                return
            t0 = time.time()
            sh(["git", "checkout", "-q", "--", "."], cwd=wt)
            target = os.path.join(wt, m["file"])
            sh([MUT, "apply", os.path.join("/repo", m["file"]), str(m["k"]), target])
            verdict, detail = None, ""
            rc, out = sh(["go", "build", "./..."], cwd=wt, timeout=600)
            if rc != 0:
                verdict = "nobuild"
            if verdict is None:
                rc, out = sh(["go", "test", "-vet=off", "-count=1", "-timeout", TT + "s", "./..."], cwd=wt, timeout=900)
                fails = sorted(set(re.findall(r"^--- FAIL: (\S+)", out, re.M)))
                pkgfail = re.findall(r"^FAIL[ \t]+(\S+)", out, re.M)
                other = [f for f in fails if f != "TestTryWriteCSV"]
                if other or [p for p in pkgfail if p != "rare/cmd/helpers"] or "panic: test timed out" in out:
                    verdict = "tests"; detail = ",".join(other[:3] or pkgfail[:3])
            if verdict is None and TESTS_ONLY:
                verdict = "alive"
            if verdict is None:
                shutil.rmtree(wk, ignore_errors=True)
                rc, out = sh([os.path.join(ROOT, "check"), pid, "--tier", "quick"], cwd=ROOT, timeout=1500,
                             extra={"VERIF_REPO": wt, "VERIF_WORKDIR": wk, "VERIF_EVIDENCE_DIR": os.path.join(wk, "ev"), "VERIF_ESCALATE_S": ESC})
                viol = [l for l in out.splitlines() if l.startswith("VIOLATION")]
                summ = [l for l in out.splitlines() if re.match(r"C\d+ tier=", l)]
                if viol and all("no-failing-input-found" in v for v in viol):
                    verdict = "caught-nfi"
                elif viol:
                    verdict = "caught"
                elif rc != 0:
                    verdict = "check-error"; detail = out[-400:]
                else:
                    verdict = "survived"
                detail = detail or (summ[-1] if summ else "")
                shutil.rmtree(wk, ignore_errors=True)
            rec = dict(m, verdict=verdict, detail=detail, secs=round(time.time() - t0, 1))
            with lock:
                counts[verdict] = counts.get(verdict, 0) + 1
                open(outp, "a").write(json.dumps(rec) + "\n")
                print(f"[{sum(counts.values())}/{len(points)}] {verdict:10s} {m['file']}:{m['line']} {m['func']} {m['kind']} {m['old'][:40]!r} -> {m['new'][:40]!r} {rec['secs']}s", flush=True)
    finally:
        subprocess.call(["git", "-C", "/repo", "worktree", "remove", "--force", wt])
        shutil.rmtree(wk, ignore_errors=True)


ths = [threading.Thread(target=worker, args=(i,)) for i in range(W)]
for t in ths:
    t.start()
for t in ths:
    t.join()
print(json.dumps(counts))
