#!/bin/sh
# tools/keep_wave.sh "<prop>:<worktree suffix>:<name>" ...   waits for each seeder's .seed/meta.json, then confirms it
for x in "$@"; do
  P=$(echo $x | cut -d: -f1); S=$(echo $x | cut -d: -f2); N=$(echo $x | cut -d: -f3)
  i=0; while [ ! -f /tmp/seed-$S/.seed/meta.json ] && [ $i -lt 240 ]; do sleep 15; i=$((i+1)); done
  sleep 20
  echo "=== $N"
  timeout 2700 python3 /verif/tools/keep_seed.py $P /tmp/seed-$S $N 2>&1 | grep -v WARNING | grep -v '^ "\|^{\|^}\|^ \]\|^  "' | tail -8
done
