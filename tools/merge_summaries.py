#!/usr/bin/env python3
"""tools/merge_summaries.py - merges docs/round4/summary/Cxx.json (written from the builders' reports) into
MANIFEST.json (level_claimed.text, level_note per property) and DESIGN.md (the row of the property in the table of
section 0.1; the generated region `round4` of section 0.5).  Idempotent; properties without a summary are left alone.
The theorem count in every text is re-read from lean/Rare/Props/<id>.lean at merge time."""
import json, glob, os, re, sys, importlib.machinery, importlib.util
ROOT = "/verif"
loader = importlib.machinery.SourceFileLoader("chk", os.path.join(ROOT, "check"))
spec = importlib.util.spec_from_loader("chk", loader); chk = importlib.util.module_from_spec(spec); loader.exec_module(chk)


def count(pid):
    src = chk.strip_lean_comments(open(f"{ROOT}/lean/Rare/Props/{pid}.lean").read())
    return len(re.findall(r"^\s*(?:@\[[^\]]*\]\s*)?(?:protected\s+)?theorem\s+\S+", src, re.M))


def cell(s):
    return " ".join(str(s).split()).replace("|", "/")


sums = {}
for p in sorted(glob.glob(ROOT + "/docs/round4/summary/C*.json")):
    try:
        j = json.load(open(p))
        sums[j["id"]] = j
    except Exception as e:
        print("skip", p, e)
m = json.load(open(ROOT + "/MANIFEST.json"))
for c in m["checks"]:
    pid = c["property_id"]
    s = sums.get(pid)
    if not s:
        continue
    n = count(pid)
    txt = re.sub(r"\s*\d+ theorems\.\s*$", "", " ".join(s["level_text"].split())).rstrip(". ") + f". {n} theorems."
    c["level_claimed"]["text"] = txt
    c["level_note"] = " ".join(s["level_note"].split())
json.dump(m, open(ROOT + "/MANIFEST.json", "w"), indent=1, ensure_ascii=False)

d = open(ROOT + "/DESIGN.md").read()
total = 0
for i in range(1, 21):
    pid = "C%02d" % i
    n = count(pid); total += n
    s = sums.get(pid)
    if not s:
        continue
    r = s["design_row"]
    th = re.sub(r"^\s*\d+\s*(theorems)?\s*[:;,.-]?\s*", "", cell(r["theorems"]))
    row = f"| {pid} | {cell(r['model'])} | {n}: {th} | {cell(r['partial'])} | {cell(r['ties'])} |"
    d, k = re.subn(r"^\| " + pid + r" \|.*$", lambda _m: row, d, count=1, flags=re.M)
    if k != 1:
        print("row not found", pid)
d = re.sub(r"### 0\.1 What is proved, per property \(\d+ theorems", f"### 0.1 What is proved, per property ({total} theorems", d)
blk = ["<!-- BEGIN:round4 -->"]
for pid in sorted(sums):
    blk.append(f"* **{pid}** ({count(pid)} theorems). " + " ".join(sums[pid]["round4_added"].split()))
blk.append("<!-- END:round4 -->")
if "<!-- BEGIN:round4 -->" in d:
    d = re.sub(r"<!-- BEGIN:round4 -->.*?<!-- END:round4 -->", lambda _m: "\n".join(blk), d, flags=re.S)
else:
    print("no round4 region in DESIGN.md (add the markers in section 0.5)")
open(ROOT + "/DESIGN.md", "w").write(d)
print("merged", len(sums), "summaries; total theorems", total)
