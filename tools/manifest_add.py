#!/usr/bin/env python3
"""tools/manifest_add.py <id> <text> <note> [technique] : claim a property in MANIFEST.json."""
import json, sys
i, text, note = sys.argv[1], sys.argv[2], sys.argv[3]
tech = sys.argv[4] if len(sys.argv) > 4 else "machine-checked proof in Lean 4 + model/code correspondence"
m = json.load(open('/verif/MANIFEST.json'))
m['not_applicable'] = [x for x in m['not_applicable'] if x['property_id'] != i]
m['checks'] = [c for c in m['checks'] if c['property_id'] != i]
m['checks'].append({"property_id": i, "quick_cmd": f"./check {i} --tier quick", "thorough_cmd": f"./check {i} --tier thorough",
    "evidence_file": f"/verif/evidence/{i}.json", "replay_cmd_template": f"./check {i} --replay {{path}}", "engine": "lean-proof+correspondence",
    "level_claimed": {"category": "proof", "text": text, "design_ref": "DESIGN.md section 5 " + i}, "level_note": note, "technique": tech})
m['checks'].sort(key=lambda c: c['property_id'])
m['engines'][0]['serves_properties'] = sorted(c['property_id'] for c in m['checks'])
json.dump(m, open('/verif/MANIFEST.json', 'w'), indent=1)
