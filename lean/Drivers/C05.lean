import Rare.Drv.Main
import Rare.Drv.C05

def main : IO Unit := Rare.Drv.runDriver "C05" Rare.Drv.C05.handle
