import Rare.Drv.Main
import Rare.Drv.C16

def main : IO Unit := Rare.Drv.runDriver "C16" Rare.Drv.C16.handle
