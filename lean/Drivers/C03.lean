import Rare.Drv.Main
import Rare.Drv.C03

def main : IO Unit := Rare.Drv.runDriver "C03" Rare.Drv.C03.handle
