import Rare.Drv.Main
import Rare.Drv.C01

def main : IO Unit := Rare.Drv.runDriver "C01" Rare.Drv.C01.handle
