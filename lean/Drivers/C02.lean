import Rare.Drv.Main
import Rare.Drv.C02

def main : IO Unit := Rare.Drv.runDriver "C02" Rare.Drv.C02.handle
