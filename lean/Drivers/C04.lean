import Rare.Drv.Main
import Rare.Drv.C04

def main : IO Unit := Rare.Drv.runDriver "C04" Rare.Drv.C04.handle
