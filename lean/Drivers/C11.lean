import Rare.Drv.Main
import Rare.Drv.C11

def main : IO Unit := Rare.Drv.runDriver "C11" Rare.Drv.C11.handle
