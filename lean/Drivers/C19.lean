import Rare.Drv.Main
import Rare.Drv.C19

def main : IO Unit := Rare.Drv.runDriver "C19" Rare.Drv.C19.handle
