import Rare.Drv.Main
import Rare.Drv.C18

def main : IO Unit := Rare.Drv.runDriver "C18" Rare.Drv.C18.handle
