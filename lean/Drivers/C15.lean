import Rare.Drv.Main
import Rare.Drv.C15

def main : IO Unit := Rare.Drv.runDriver "C15" Rare.Drv.C15.handle
