import Rare.Drv.Main
import Rare.Drv.C13

def main : IO Unit := Rare.Drv.runDriver "C13" Rare.Drv.C13.handle
