import Rare.Drv.Main
import Rare.Drv.C14

def main : IO Unit := Rare.Drv.runDriver "C14" Rare.Drv.C14.handle
