import Rare.Drv.Main
import Rare.Drv.C06

def main : IO Unit := Rare.Drv.runDriver "C06" Rare.Drv.C06.handle
