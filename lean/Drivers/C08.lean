import Rare.Drv.Main
import Rare.Drv.C08

def main : IO Unit := Rare.Drv.runDriver "C08" Rare.Drv.C08.handle
