import Rare.Drv.Main
import Rare.Drv.C09

def main : IO Unit := Rare.Drv.runDriver "C09" Rare.Drv.C09.handle
