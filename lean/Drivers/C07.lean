import Rare.Drv.Main
import Rare.Drv.C07

def main : IO Unit := Rare.Drv.runDriver "C07" Rare.Drv.C07.handle
