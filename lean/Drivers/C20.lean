import Rare.Drv.Main
import Rare.Drv.C20

def main : IO Unit := Rare.Drv.runDriver "C20" Rare.Drv.C20.handle
