import Rare.Drv.Main
import Rare.Drv.C17

def main : IO Unit := Rare.Drv.runDriver "C17" Rare.Drv.C17.handle
