import Rare.Drv.Main
import Rare.Drv.C12

def main : IO Unit := Rare.Drv.runDriver "C12" Rare.Drv.C12.handle
