import Rare.Drv.Main
import Rare.Drv.C10

def main : IO Unit := Rare.Drv.runDriver "C10" Rare.Drv.C10.handle
