import Rare.Base.Bytes
import Rare.Base.GoInt
import Rare.Base.Proto
