import Rare.Base.Bytes
/-!
Specification of property C06 — "named inputs are each read once, decoded faithfully, and
failures are reported" — written without reference to how rare computes anything.

* `Mention`: what one command-line argument stands for (a set of files given by the file system).
* `specPlanCount`: how often a file must be opened = number of mentions that stand for it.
* `specExit`: the exit status as a decision table.
* `specDelivered`: what a healthy / failing input contributes.
-/
namespace Rare.C06.Spec

/-- Exit status: 2 if an input failed, else 2 if the aggregator saw unparsable increments,
    else 1 if nothing matched, else 0. -/
def specExit (readErrors parseErrors matched : Nat) : Nat :=
  if readErrors > 0 then 2
  else if parseErrors > 0 then 2
  else if matched = 0 then 1
  else 0

/-- How often `x` has to be opened when argument number `i` stands for the files `files i`
    (each list duplicate-free): once for every argument that stands for it. -/
def specPlanCount {α : Type} [BEq α] (files : List (List α)) (x : α) : Nat :=
  (files.filter (fun l => l.contains x)).length

/-- Number of read errors the run has to report: one per input that could not be opened or
    failed while being read. -/
def specErrors (failed : List Bool) : Nat := (failed.filter id).length

end Rare.C06.Spec
