import Rare.Spec.C09WF
/-!
C09: `WellFormed` as a program – the decision procedure the correspondence driver runs (`wfB`); proved equal to
the inductive grammar in `Rare/Proofs/C09WFB.lean` for splitters that never lengthen their input.
-/
namespace Rare.C09

def wfB (split : List Char → List (List Char)) (known : List Char → Bool) : Nat → List Char → Bool
  | 0, _ => false
  | f + 1, t =>
    braceDepth false 0 t == 0 && (bodies t).all fun b =>
      match split b with
      | [] => false
      | [_] => true
      | name :: x :: xs => known name && (x :: xs).all (wfB split known f)

end Rare.C09
