import Rare.Spec.C09Frag
import Rare.Model.Expr.Funcs.Format
import Rare.Model.Expr.Funcs.TimeW
/-!
C09: the fragment of the standard function table, **world-relative** (`print_compile_std_fragment_world`,
`Rare/Props/C09.lean`; proofs in `Rare/Proofs/C09FragW.lean`).

`Spec/C09Frag.lean` gives a call a meaning on the VALUES of its arguments.  Three groups of the real table
are not functions of argument values alone:

* `@map @filter @reduce @for` evaluate an argument once per element in a SUB-CONTEXT in which `{0}` / `{1}` are
  bound (`bindCtx`) – the argument is a *body*, the braces nest a binder.  Their meaning is a function of the
  argument's DENOTATION (`Ctx → Bytes`), not of its value.
* `format` asks Go's `unicode.IsPrint` (for `%q`), the time helpers ask Go's `time` package where the model of
  C18 stops: a *world* (`FragWorld`) answers these questions.

So the entry of a name (`EntryD`) gives the meaning of a call as a function of the argument denotations and the
context, relative to the world; `evalD` is the tree semantics with binders built from it (`evalTree` of
`Spec/C09.lean` is the binder-free special case: `evalD_eq_evalTree`, Props).  Core Lean only: the driver
evaluates `evalD` / `fragOkW` (op `wtree`).
-/
namespace Rare.C09
open Rare Rare.Expr

/-- The context in which `@map @filter @reduce @for` evaluate a body: `{0}`, `{1}` are the two bound values,
    every larger group is empty, negative indices and all named keys are the enclosing context's. -/
def bindCtx (ctx : Ctx) (v0 v1 : Bytes) : Ctx :=
  { getMatch := fun i => if i < 0 then ctx.getMatch i else if i = 0 then v0 else if i = 1 then v1 else [],
    getKey := ctx.getKey }

/-- What the templates cannot say themselves. -/
structure FragWorld where
  /-- `unicode.IsPrint` for non-ASCII runes (`%q` of `{format}`) -/
  isPrint : Nat → Bool
  /-- the process's time world (zone database, `dateparse`, wall clock, library calls beyond the model) -/
  tw : Funcs.TimeW.TimeWorld
  /-- the value of a library call beyond the model of C18 (`time-abs-range`, sub-second durations …) -/
  lib : String → Bytes

/-- The only assumption on the world: a library call beyond the model returns its value without touching the
    match context. -/
def FragWorld.Ok (w : FragWorld) : Prop := ∀ r, w.tw.lib r = .ret (w.lib r)

/-- One name of the widened fragment: like `Entry`, the meaning now on argument DENOTATIONS. -/
structure EntryD where
  builder : Builder
  arity : Nat → Bool
  pre : (C09.Expr → Bytes) → (C09.Expr → Bool) → List C09.Expr → Bool
  semD : List (Ctx → Bytes) → Ctx → Bytes
  first : Bool

/-- A value-level entry as a denotation-level entry: evaluate the arguments in the same context. -/
def Entry.toD (e : Entry) : EntryD :=
  ⟨e.builder, e.arity, e.pre, fun ds ctx => e.sem (ds.map fun d => d ctx), e.first⟩

namespace FW
open Rare.C17

/-! ### `format` -/

/-- `{format fmt a b …}` = `fmt.Sprintf(fmt, a, b, …)` on strings (`Funcs/Format.lean`; it never fails:
    `C08.format_safe`). -/
def formatSem (isPrint : Nat → Bool) : List Bytes → Bytes
  | [] => []
  | f :: rest => match Funcs.Format.sprintf isPrint f rest with
    | .ok v => v
    | .error _ => []

def formatE (isPrint : Nat → Bool) : Entry :=
  ⟨Funcs.Format.kfFormat isPrint, fun n => 1 ≤ n, noPre, formatSem isPrint, true⟩

/-! ### binders -/

/-- `{@map arr body}`: `body` with `{0}` = the element, for every element. -/
def mapSemD : List (Ctx → Bytes) → Ctx → Bytes
  | [arr, body], ctx => pack ((elems (arr ctx)).map fun x => body (bindCtx ctx x []))
  | _, _ => []

def mapE : EntryD := ⟨Funcs.Range.kfArrayMap, fun n => n == 2, noPre, mapSemD, true⟩

/-- `{@filter arr body}`: the elements for which `body` (`{0}` = the element) is truthy. -/
def filterSemD : List (Ctx → Bytes) → Ctx → Bytes
  | [arr, body], ctx => pack ((elems (arr ctx)).filter fun x => truthy (body (bindCtx ctx x [])))
  | _, _ => []

def filterE : EntryD := ⟨Funcs.Range.kfArrayFilter, fun n => n == 2, noPre, filterSemD, true⟩

/-- `{@reduce arr body [init]}`: left fold, `{0}` = the accumulator, `{1}` = the element (`C17.reduce`: without
    an initial value the first element starts the fold). -/
def reduceSemD : List (Ctx → Bytes) → Ctx → Bytes
  | [arr, body], ctx => reduce (fun m x => body (bindCtx ctx m x)) [] (elems (arr ctx))
  | [arr, body, init], ctx => reduce (fun m x => body (bindCtx ctx m x)) (init ctx) (elems (arr ctx))
  | _, _ => []

/-- the initial value is a constant: a literal -/
def reducePre : (C09.Expr → Bytes) → (C09.Expr → Bool) → List C09.Expr → Bool := fun _ _ args =>
  match args with
  | [_, _] => true
  | [_, _, .lit _] => true
  | _ => false

def reduceE : EntryD := ⟨Funcs.Range.kfArrayReduce, fun n => n == 2 || n == 3, reducePre, reduceSemD, true⟩

/-- `{@for start cond next}`: `v₀ = start`, `vₖ₊₁ = next` with `{0} = vₖ`, `{1} = k`; the values before the first
    round whose `cond` is not truthy; `<INF>` beyond `MAX_ITERATIONS` values (`C17.iterateWhile`). -/
def forSemD : List (Ctx → Bytes) → Ctx → Bytes
  | [start, cond, next], ctx =>
    match iterateWhile (fun v k => truthy (cond (bindCtx ctx v (itoa (k : Nat)))))
        (fun v k => next (bindCtx ctx v (itoa (k : Nat)))) Gen.maxIterations 0 (start ctx) with
    | some ys => pack ys
    | none => Funcs.Range.InfMarker
  | _, _ => []

def forE : EntryD := ⟨Funcs.Range.kfArrayFor, fun n => n == 3, noPre, forSemD, true⟩

/-! ### time helpers (UTC; a named zone is a question to the zone database – C18) -/

open Funcs.TimeW in
def outVal (lib : String → Bytes) : C18.Out → Bytes
  | .val b => b
  | .unmodelled why => lib why

/-- `{duration "1h30m"}` (seconds) and `{durationformat secs}`: `time.ParseDuration` / `Duration.String` as
    modelled in C18. -/
def durationE (w : FragWorld) : Entry :=
  ⟨Funcs.TimeW.kfDuration w.tw, fun n => n == 1, noPre, FS.mapSem fun s => outVal w.lib (C18.duration s), true⟩

def durationFormatE (w : FragWorld) : Entry :=
  ⟨Funcs.TimeW.kfDurationFormat w.tw, fun n => n == 1, noPre,
    FS.mapSem fun s => outVal w.lib (C18.durationFormat s), true⟩

def isAscii (b : Bytes) : Bool := b.all (· < 128)

/-- the zone argument names UTC (absent, empty or `utc` in any case) -/
def utcName (tz : Bytes) : Bool :=
  isAscii tz && (decide (C18.toUpper tz = []) || decide (C18.toUpper tz = C18.asc "UTC"))

/-- `time.Unix(u, 0).UTC()` as `Format` sees it. -/
def utcTime (u : Int) : Funcs.TimeW.TimeR := ⟨u, 0, 0, C18.asc "UTC"⟩

def timeformatVal (lib : String → Bytes) (fmtArg v : Bytes) : Bytes :=
  match atoi v with
  | none => ErrorNum
  | some u =>
    if Funcs.TimeW.inAbsRange u 0 then
      C18.formatLayout (C18.namedTimeFormatToFormat C18.timeFormats fmtArg) (Funcs.TimeW.timeVOfR (utcTime u))
    else lib "time-abs-range"

/-- `{timeformat unix [format=RFC3339] [utc]}`: the instant written in the layout (a name of rare's format
    table or a Go layout; `C18.formatLayout`). -/
def timeformatSem (lib : String → Bytes) : List Bytes → Bytes
  | [v] => timeformatVal lib C18.rfc3339 v
  | [v, f] => timeformatVal lib f v
  | [v, f, _] => timeformatVal lib f v
  | _ => []

def timeformatPre : (C09.Expr → Bytes) → (C09.Expr → Bool) → List C09.Expr → Bool := fun _ _ args =>
  match args with
  | [_] => true
  | [_, .lit f] => isAscii (utf8 f)
  | [_, .lit f, .lit tz] => isAscii (utf8 f) && utcName (utf8 tz)
  | _ => false

def timeformatE (w : FragWorld) : Entry :=
  ⟨Funcs.TimeW.kfTimeFormat w.tw, fun n => 1 ≤ n && n ≤ 3, timeformatPre, timeformatSem w.lib, true⟩

def timeattrVal (lib : String → Bytes) (attr v : Bytes) : Bytes :=
  match atoi v with
  | none => ErrorNum
  | some u =>
    if !Funcs.TimeW.inAbsRange u 0 then lib "time-abs-range"
    else match C18.timeAttr attr u 0 with
      | some b => b
      | none => lib "no-such-attr"

/-- `{timeattr unix attr [utc]}`: `WEEKDAY`, `WEEK`, `YEARWEEK`, `QUARTER` of the instant. -/
def timeattrSem (lib : String → Bytes) : List Bytes → Bytes
  | [v, a] => timeattrVal lib a v
  | [v, a, _] => timeattrVal lib a v
  | _ => []

def attrName (a : Bytes) : Bool := isAscii a && C18.attrKeys.contains (C18.toUpper a)

def timeattrPre : (C09.Expr → Bytes) → (C09.Expr → Bool) → List C09.Expr → Bool := fun _ _ args =>
  match args with
  | [_, .lit a] => attrName (utf8 a)
  | [_, .lit a, .lit tz] => attrName (utf8 a) && utcName (utf8 tz)
  | _ => false

def timeattrE (w : FragWorld) : Entry :=
  ⟨Funcs.TimeW.kfTimeAttr w.tw, fun n => n == 2 || n == 3, timeattrPre, timeattrSem w.lib, true⟩

end FW

/-- The names the widened fragment adds to `fragTable`. -/
def fragTableNew (w : FragWorld) : List (String × EntryD) := [
  ("format", (FW.formatE w.isPrint).toD),
  ("@map", FW.mapE), ("@filter", FW.filterE), ("@reduce", FW.reduceE), ("@for", FW.forE),
  ("duration", (FW.durationE w).toD), ("durationformat", (FW.durationFormatE w).toD),
  ("timeformat", (FW.timeformatE w).toD), ("timeattr", (FW.timeattrE w).toD)]

/-- **The widened fragment**: the 65 value-level names of `fragTable` and the world-relative / binding ones. -/
def fragTableW (w : FragWorld) : List (String × EntryD) :=
  fragTable.map (fun p => (p.1, p.2.toD)) ++ fragTableNew w

def fragLookupW (w : FragWorld) (n : String) : Option EntryD := ((fragTableW w).find? (·.1 == n)).map (·.2)

/-- The names (they do not depend on the world). -/
def fragNamesW : List String :=
  fragNames ++ ["format", "@map", "@filter", "@reduce", "@for", "duration", "durationformat", "timeformat", "timeattr"]

/-- The function table of the model the theorem is about: the standard table with `format` and the time
    helpers of the world. -/
def stdTableW (w : FragWorld) : Table :=
  stdTable ++ Funcs.Format.table w.isPrint ++ Funcs.TimeW.table w.tw

mutual
/-- **Tree semantics with binders**: the value of a tree in a context.  A call hands the denotations of its
    arguments to the entry of its name. -/
def evalD (look : String → Option EntryD) : C09.Expr → Ctx → Bytes
  | .lit s => fun _ => utf8 s
  | .group n => fun ctx => ctx.getMatch (n : Int)
  | .key k => fun ctx => ctx.getKey (utf8 k)
  | .call f args => match look (String.ofList f) with
    | some e => e.semD (evalDs look args)
    | none => fun _ => []
def evalDs (look : String → Option EntryD) : List C09.Expr → List (Ctx → Bytes)
  | [] => []
  | a :: rest => evalD look a :: evalDs look rest
end

/-- The meaning of a tree in the world `w`. -/
def evalW (w : FragWorld) : C09.Expr → Ctx → Bytes := evalD (fragLookupW w)

mutual
/-- Certainly dynamic (as `dynE`, over the widened table). -/
def dynW (w : FragWorld) : C09.Expr → Bool
  | .group _ => true
  | .key _ => true
  | .lit _ => false
  | .call f args => (match fragLookupW w (String.ofList f) with
    | some e => e.first
    | none => false) && dynHeadW w args
def dynHeadW (w : FragWorld) : List C09.Expr → Bool
  | [] => false
  | a :: _ => dynW w a
end

/-- A call site of the widened fragment. -/
def callOkW (w : FragWorld) (f : List Char) (args : List C09.Expr) : Bool :=
  match fragLookupW w (String.ofList f) with
  | some e => e.arity args.length && e.pre (fun a => evalW w a emptyCtx) (dynW w) args
  | none => false

mutual
/-- Every call in the tree is a call site of the widened fragment. -/
def fragOkW (w : FragWorld) : C09.Expr → Bool
  | .call f args => callOkW w f args && fragOkArgsW w args
  | .lit _ => true
  | .group _ => true
  | .key _ => true
def fragOkArgsW (w : FragWorld) : List C09.Expr → Bool
  | [] => true
  | a :: rest => fragOkW w a && fragOkArgsW w rest
end

end Rare.C09
