import Rare.Spec.C09
/-!
C09 – "Unterminated or empty statements and unknown functions are reported as compile errors": which templates
have such an error, for ALL templates.

* `bodies t` – the statements of a template: the text between an unescaped `{` outside any statement and its
  matching `}` (nested braces stay in the text, a backslash makes the next rune literal – `unescapeSpec` – and
  hides it from the brace count).  A `}` outside any statement is text.  Unclosed statements have no body here;
  they are `Unterminated` (`braceDepth ≠ 0`, `Spec/C09.lean`).
* `WellFormed split known t` – the grammar of templates without syntax errors, given how a statement's text is
  split into arguments (`split`; what that is for laid-out argument lists is `split_spec`) and which function
  names exist (`known`): every `{` is closed; every statement has at least one argument; a statement with one
  argument is a look-up; a statement with more has a known function name first and each of its arguments is
  itself a well-formed template.  Arguments of an unknown function are not looked at.

Nothing here mentions `Compile`.
-/
namespace Rare.C09

/-- `\n`, `\r`, `\t` give control characters; any other escaped rune stands for itself. -/
def unescapeSpec (c : Char) : Char :=
  if c = 'n' then '\n' else if c = 'r' then '\r' else if c = 't' then '\t' else c

/-- Statement bodies of the rest of a template, given whether the previous rune was an (unescaped) backslash,
    the current brace depth and the text of the statement (or literal) read so far. -/
def bodiesGo : Bool → Nat → List Char → List Char → List (List Char)
  | _, _, _, [] => []
  | true, d, cur, e :: rest => bodiesGo false d (cur ++ [unescapeSpec e]) rest
  | false, d, cur, c :: rest =>
    if c = '\\' then bodiesGo true d cur rest
    else if c = '{' then
      if d = 0 then bodiesGo false 1 [] rest else bodiesGo false (d + 1) (cur ++ ['{']) rest
    else if c = '}' then
      if d = 0 then bodiesGo false 0 (cur ++ ['}']) rest
      else if d = 1 then cur :: bodiesGo false 0 [] rest
      else bodiesGo false (d - 1) (cur ++ ['}']) rest
    else bodiesGo false d (cur ++ [c]) rest

/-- The bodies of the closed top-level statements of a template, in order. -/
def bodies (t : List Char) : List (List Char) := bodiesGo false 0 [] t

mutual
/-- A template without unterminated statements, empty statements or unknown functions – at any nesting level. -/
inductive WellFormed (split : List Char → List (List Char)) (known : List Char → Bool) : List Char → Prop
  | mk (t : List Char) : braceDepth false 0 t = 0 → (∀ b, b ∈ bodies t → WellFormedStmt split known b) →
      WellFormed split known t
/-- The text of one statement. -/
inductive WellFormedStmt (split : List Char → List (List Char)) (known : List Char → Bool) : List Char → Prop
  | lone (b a : List Char) : split b = [a] → WellFormedStmt split known b
  | call (b name x : List Char) (xs : List (List Char)) : split b = name :: x :: xs → known name = true →
      (∀ a, a ∈ x :: xs → WellFormed split known a) → WellFormedStmt split known b
end

end Rare.C09
