import Rare.Spec.C19
/-!
The grammar of math formulas (property C19, "malformed formulas are rejected at compile time"),
stated on token sequences and independently of parse trees and precedence:

    formula  ::=  operand ( binop operand | group )*
    operand  ::=  unary* ( literal | group )

where a `literal` must be a number or a variable (`okLit`), a `binop` one of the binary operators
(`isOp`), a `group` – the text between a pair of top-level parentheses – must itself be a formula,
and a `group` that directly follows an operand is an implied multiplication.  Everything else
(an empty formula, a dangling or doubled operator, two operands in a row, a unary operator after an
operand, a bad literal, a malformed group) is malformed.

`scan` is that regular grammar as a two-state recogniser; `accepts` applies it to the tokens of a
text, recursively through groups (the budget `s.length + 1` bounds the nesting depth: a group is
strictly shorter than the text around it).
-/
namespace Rare.C19

/-- `scan need toks`: `need = true` – an operand must come next; `need = false` – an operand has
    just been completed (end of input, a binary operator, or a group = implied `*` may follow). -/
def scan (okLit okGrp isOp : Bytes → Bool) : Bool → List Token → Bool
  | true, [] => false
  | false, [] => true
  | true, tk :: rest =>
    match tk.t with
    | .lit => okLit tk.val && scan okLit okGrp isOp false rest
    | .group => okGrp tk.val && scan okLit okGrp isOp false rest
    | .mod => scan okLit okGrp isOp true rest
    | .op => false
  | false, tk :: rest =>
    match tk.t with
    | .op => isOp tk.val && scan okLit okGrp isOp true rest
    | .group => okGrp tk.val && scan okLit okGrp isOp false rest
    | .lit => false
    | .mod => false

/-- The grammar on texts: `tk` is the tokenizer; a group must be accepted with one unit less of
    nesting budget. -/
def acceptsF (tk : Bytes → Option (List Token)) (okLit isOp : Bytes → Bool) : Nat → Bytes → Bool
  | 0, _ => false
  | f + 1, s =>
    match tk s with
    | none => false
    | some toks => scan okLit (acceptsF tk okLit isOp f) isOp true toks

def accepts (tk : Bytes → Option (List Token)) (okLit isOp : Bytes → Bool) (s : Bytes) : Bool :=
  acceptsF tk okLit isOp (s.length + 1) s

end Rare.C19

namespace Rare.C19

/-! ### Literals in base 2 / 8 / 16 and implied multiplication -/

/-- The digit an ASCII digit or letter stands for (`0`–`9`, then `a`/`A` = 10 … `z`/`Z` = 35). -/
def litDigit (b : UInt8) : Nat :=
  if 48 ≤ b ∧ b ≤ 57 then b.toNat - 48 else if 97 ≤ b ∧ b ≤ 122 then b.toNat - 87 else b.toNat - 55

def isAlnumB (b : UInt8) : Bool := (48 ≤ b && b ≤ 57) || (65 ≤ b && b ≤ 90) || (97 ≤ b && b ≤ 122)

/-- `b` is a digit of the given base. -/
def isBaseDigit (base : Nat) (b : UInt8) : Bool := isAlnumB b && decide (litDigit b < base)

/-- Positional value, most significant digit first. -/
def baseVal (base : Nat) (ds : Bytes) : Nat := ds.foldl (fun a d => a * base + litDigit d) 0

/-- The same parse with every implied multiplication of this text written out (`2(x)` ↦ `2*(x)`);
    the texts of groups are kept as they are. -/
def Tree.explicit : Tree → Tree
  | .bin _ op l r => .bin false op l.explicit r.explicit
  | .un m e => .un m e.explicit
  | t => t

end Rare.C19
