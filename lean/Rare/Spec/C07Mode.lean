import Rare.Spec.C07
/-! The mode of a sample list. -/
namespace Rare.C07

/-- `m` is a mode of `l`: a sample whose multiplicity no other value exceeds. -/
def IsMode (l : List Rat) (m : Rat) : Prop := m ∈ l ∧ ∀ y, l.count y ≤ l.count m

end Rare.C07
