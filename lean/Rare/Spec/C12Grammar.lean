import Rare.Spec.C12
/-!
The grammar of dissect patterns (property C12, "pattern compilation"), stated on the pattern TEXT
and independently of how `CompileEx` scans it:

    pattern  ::=  literal ( token literal )*
    token    ::=  "%{" key "}"             key ::= any bytes except "}"
    literal  ::=  any bytes in which the two-byte sequence "%{" does not occur

* a `%` that is not followed by `{` (also a trailing `%`), a lone `{` and a `}` outside a token are
  ordinary literal bytes;
* `%{name}` captures, `%{}` and `%{?name}` skip (`Tok.skip` / `Tok.name` of `Spec/C12.lean`);
* the literal between two ADJACENT tokens (the delimiter of the first) must not be empty
  (`ErrorSequentialToken`); the leading literal and the literal after the last token may be;
* the names of the capturing tokens are pairwise different (`ErrorKeyConflict`); skipped names
  may repeat and may coincide with captured ones;
* every `%{` starts a token, so a `%{` without a later `}` cannot be derived (`ErrorUnclosedToken`).

`PatternText s` says that the byte string `s` is derivable.  (`Pat.render` of `Spec/C12.lean` is the
text `lit₀ %{key₁}lit₁ … %{keyₙ}litₙ` of the derivation `p`.)
-/
namespace Rare.C12

/-- the two bytes that open a token -/
def tokOpen : Bytes := [pct, lbrace]

/-- `literal`: `%{` does not occur in it -/
def IsLiteral (l : Bytes) : Prop := ¬ tokOpen <:+: l

/-- `key`: no `}` -/
def IsKey (k : Bytes) : Prop := rbrace ∉ k

/-- the names under which the capturing tokens are stored, in pattern order -/
def capturedNames (toks : List Tok) : List Bytes := (toks.filter fun t => !t.skip).map Tok.name

/-- every token that is followed by another token has a non-empty delimiter -/
def DelimsNonEmpty : List Tok → Prop
  | [] => True
  | t :: ts => (ts ≠ [] → t.lit ≠ []) ∧ DelimsNonEmpty ts

/-- a derivation of the grammar -/
structure Pat.Grammar (p : Pat) : Prop where
  pre : IsLiteral p.pre
  keys : ∀ t ∈ p.toks, IsKey t.key
  lits : ∀ t ∈ p.toks, IsLiteral t.lit
  delims : DelimsNonEmpty p.toks
  names : (capturedNames p.toks).Nodup

/-- `s` is the text of a dissect pattern -/
def PatternText (s : Bytes) : Prop := ∃ p : Pat, p.Grammar ∧ s = p.render

/-! ### an executable recogniser of the grammar (one pass over the bytes, two states) -/

inductive ScanState
  /-- inside a literal; `afterTok`: a token stands before it; `empty`: no byte of it read yet -/
  | lit (afterTok empty : Bool)
  /-- inside `%{ … `; the bytes of the key read so far -/
  | key (acc : Bytes)

/-- `seen` = names of the capturing tokens read so far. -/
def scanPattern : ScanState → List Bytes → Bytes → Bool
  | .lit _ _, _, [] => true
  | .lit _ _, _, [_] => true
  | .lit a e, seen, c :: d :: r =>
    if c = pct ∧ d = lbrace then
      -- a token opens here: not directly after another token
      if a && e then false else scanPattern (.key []) seen r
    else scanPattern (.lit a false) seen (d :: r)
  | .key _, _, [] => false        -- `%{` without `}`
  | .key k, seen, c :: r =>
    if c = rbrace then
      let t : Tok := ⟨k, []⟩
      if t.skip then scanPattern (.lit true true) seen r
      else if t.name ∈ seen then false
      else scanPattern (.lit true true) (t.name :: seen) r
    else scanPattern (.key (k ++ [c])) seen r

/-- decides `PatternText` (`accepts_iff_grammar` in `Props/C12.lean`) -/
def acceptsPattern (s : Bytes) : Bool := scanPattern (.lit false true) [] s

end Rare.C12
