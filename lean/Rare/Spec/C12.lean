import Rare.Base.Bytes
/-!
Specification of dissect matching (property C12).

A dissect pattern is `lit₀ %{key₁}lit₁ %{key₂}lit₂ … %{keyₙ}litₙ`:

* literals never contain the two bytes `%{`, keys never contain `}`;
* a key that is empty or starts with `?` is a *skip* token (consumes, is not captured);
* `litᵢ` is the trailing literal ("delimiter") of token `i`.

`specDissect p line`:

* locate the FIRST occurrence of the leading literal `lit₀` (position `s`);
* then, for each token in order, its text runs from the current position up to the FIRST
  following occurrence of its trailing literal – to the end of the line if it has none –
  and the next token starts right after that literal;
* the answer is `[s, e, c₁start, c₁end, c₂start, c₂end, …]` where the `c` are the captured
  (non-skip) tokens and `e` is the position right after the last delimiter, i.e. `{0}` spans
  from the leading literal through the last delimiter;
* `none` (no match) as soon as a literal cannot be found.

`firstIndex needle hay` is the least position where `needle` is a prefix of the remainder
(`firstIndex_spec` in `Rare/Proofs/C12Spec.lean` states exactly that).

Ignore-case is specified by reduction: lower-case (ASCII letters, byte-wise) the literals of
the pattern and the line, then match case-sensitively (`specDissectIC`).
-/
namespace Rare.C12

/-- Least `i` such that `needle` is a prefix of `hay.drop i`. -/
def firstIndex (needle : Bytes) : Bytes → Option Nat
  | [] => if needle = [] then some 0 else none
  | c :: cs =>
    if needle.isPrefixOf (c :: cs) then some 0
    else (firstIndex needle cs).map (· + 1)

structure Tok where
  key : Bytes
  lit : Bytes
  deriving Repr, DecidableEq

structure Pat where
  pre : Bytes
  toks : List Tok
  deriving Repr, DecidableEq

def pct : UInt8 := 37      -- '%'
def lbrace : UInt8 := 123  -- '{'
def rbrace : UInt8 := 125  -- '}'
def qmark : UInt8 := 63    -- '?'

/-- `%{}` and `%{?name}` consume without capturing. -/
def Tok.skip (t : Tok) : Bool := t.key = [] || t.key.head? = some qmark

/-- Name under which a token is stored: the key without the `?` flag. -/
def Tok.name (t : Tok) : Bytes := if t.key.head? = some qmark then t.key.drop 1 else t.key

def Tok.render (t : Tok) : Bytes := [pct, lbrace] ++ t.key ++ [rbrace] ++ t.lit

/-- The text of a pattern. -/
def Pat.render (p : Pat) : Bytes := p.pre ++ (p.toks.map Tok.render).flatten

/-- Grammar side conditions (they make `render` unambiguous). -/
def Pat.Shape (p : Pat) : Prop :=
  firstIndex [pct, lbrace] p.pre = none ∧
  ∀ t ∈ p.toks, rbrace ∉ t.key ∧ firstIndex [pct, lbrace] t.lit = none

instance (p : Pat) : Decidable p.Shape := by unfold Pat.Shape; exact inferInstance

/-- Walk over the tokens from absolute position `pos`; returns the capture offsets and the end. -/
def specToks (line : Bytes) : List Tok → Nat → Option (List Nat × Nat)
  | [], pos => some ([], pos)
  | t :: ts, pos =>
    let rest := line.drop pos
    match (if t.lit = [] then some rest.length else firstIndex t.lit rest) with
    | none => none
    | some n =>
      match specToks line ts (pos + n + t.lit.length) with
      | none => none
      | some (caps, e) => some ((if t.skip then [] else [pos, pos + n]) ++ caps, e)

def specDissect (p : Pat) (line : Bytes) : Option (List Nat) :=
  match firstIndex p.pre line with
  | none => none
  | some s =>
    match specToks line p.toks (s + p.pre.length) with
    | none => none
    | some (caps, e) => some (s :: e :: caps)

/-- ASCII lower-casing of one byte (what Go's `strings.ToLower` does to ASCII text). -/
def lowerByte (c : UInt8) : UInt8 := if 65 ≤ c ∧ c ≤ 90 then c + 32 else c

def lower (b : Bytes) : Bytes := b.map lowerByte

def Tok.lowerLit (t : Tok) : Tok := { t with lit := lower t.lit }
def Pat.lowerLits (p : Pat) : Pat := { pre := lower p.pre, toks := p.toks.map Tok.lowerLit }

/-- Ignore-case matching = case-sensitive matching of the lower-cased pattern on the lower-cased line. -/
def specDissectIC (p : Pat) (line : Bytes) : Option (List Nat) :=
  specDissect p.lowerLits (lower line)

inductive CompileErr | unclosed | sequential | conflict
  deriving Repr, DecidableEq

/-- Name table: captured names numbered 1, 2, … in order of appearance. -/
def nameTable (toks : List Tok) : List (Bytes × Nat) :=
  let caps := toks.filter (fun t => !t.skip)
  (caps.map Tok.name).zipIdx 1

/-- Which compile error a pattern text `render p ++ tail` earns, where `tail` is either empty or an
unclosed token `%{…` without `}`.  Tokens are examined left to right; for each one: an empty
trailing literal although something follows is "sequential token", then a captured name seen
before is "key conflict"; an unclosed tail is reported when it is reached. -/
def specErrors (unclosedTail : Bool) : List Tok → List Bytes → Option CompileErr
  | [], _ => if unclosedTail then some .unclosed else none
  | t :: ts, seen =>
    if t.lit = [] ∧ (ts ≠ [] ∨ unclosedTail) then some .sequential
    else if !t.skip ∧ t.name ∈ seen then some .conflict
    else specErrors unclosedTail ts (if t.skip then seen else t.name :: seen)

end Rare.C12
