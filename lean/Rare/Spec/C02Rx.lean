import Rare.Model.C02Rx
/-!
Specification of the regex fragment: the *derivation relation* `Derives s r i j` – the expression `r`
matches the stretch `s[i:j]` of the text `s` (positions, not words, so that `^` and `$` have a meaning) –
and `Sub r n body` – `(body)` is the capture group number `n` inside `r`.  Loops are unfolded one
non-empty iteration at a time (the same language as the usual definition).
-/
namespace Rare.C02.Rx

inductive Derives (s : Bytes) : Re → Nat → Nat → Prop
  | eps (i : Nat) : Derives s .eps i i
  | cls {neg : Bool} {rs : List (UInt8 × UInt8)} {i : Nat} {b : UInt8} :
      s[i]? = some b → inCls neg rs b = true → Derives s (.cls neg rs) i (i + 1)
  | look {k : Look} {i : Nat} : holds s k i = true → Derives s (.look k) i i
  | cat {a b : Re} {i j k : Nat} : Derives s a i j → Derives s b j k → Derives s (.cat a b) i k
  | altL {a b : Re} {i j : Nat} : Derives s a i j → Derives s (.alt a b) i j
  | altR {a b : Re} {i j : Nat} : Derives s b i j → Derives s (.alt a b) i j
  | starNil (g : Bool) (a : Re) (i : Nat) : Derives s (.star g a) i i
  | starCons {g : Bool} {a : Re} {i j k : Nat} :
      i < j → Derives s a i j → Derives s (.star g a) j k → Derives s (.star g a) i k
  | grp {n : Nat} {a : Re} {i j : Nat} : Derives s a i j → Derives s (.grp n a) i j

/-- `Sub r n body`: the group `(body)` numbered `n` occurs in `r` -/
inductive Sub : Re → Nat → Re → Prop
  | here (n : Nat) (a : Re) : Sub (.grp n a) n a
  | grp {n m : Nat} {a b : Re} : Sub a m b → Sub (.grp n a) m b
  | catL {a b : Re} {m : Nat} {x : Re} : Sub a m x → Sub (.cat a b) m x
  | catR {a b : Re} {m : Nat} {x : Re} : Sub b m x → Sub (.cat a b) m x
  | altL {a b : Re} {m : Nat} {x : Re} : Sub a m x → Sub (.alt a b) m x
  | altR {a b : Re} {m : Nat} {x : Re} : Sub b m x → Sub (.alt a b) m x
  | star {g : Bool} {a : Re} {m : Nat} {x : Re} : Sub a m x → Sub (.star g a) m x

end Rare.C02.Rx

namespace Rare.C02.Rx

/-- `k` matches of `a` in a row cover `s[i:j]` -/
inductive Pow (s : Bytes) (a : Re) : Nat → Nat → Nat → Prop
  | zero (i : Nat) : Pow s a 0 i i
  | succ {k i j l : Nat} : Derives s a i j → Pow s a k j l → Pow s a (k + 1) i l

end Rare.C02.Rx
