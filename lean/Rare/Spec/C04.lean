import Rare.Base.Bytes
/-!
Specification of line splitting (property C04).

`splitLines bs` = the segments of `bs` between `\n` bytes; one trailing `\r` removed
from newline-terminated segments; a final unterminated non-empty segment is a line
(kept verbatim); nothing follows a trailing newline.
-/
namespace Rare.C04

def dropCR (l : Bytes) : Bytes := if l.getLast? = some cr then l.dropLast else l

def splitGo (cur : Bytes) : Bytes → List Bytes
  | [] => if cur = [] then [] else [cur]
  | b :: rest => if b = nl then dropCR cur :: splitGo [] rest else splitGo (cur ++ [b]) rest

def splitLines (bs : Bytes) : List Bytes := splitGo [] bs

end Rare.C04
