import Rare.Base.GoInt
/-!
# C18 – specification: the reference calendar, truncation, whole-second durations

Everything here is independent of how rare (or Go's `time` package) computes anything.

* proleptic Gregorian calendar on day numbers (days since 1970-01-01): `daysFromCivil`,
  `civilFromDays` (H. Hinnant's closed forms, all divisions are floor divisions),
* `weekday = (days + 4) mod 7` (1970-01-01 was a Thursday; 0 = Sunday),
* ISO-8601 week by the Thursday rule: a day belongs to the ISO year of the Thursday of its
  Monday-to-Sunday week, and its week number is the rank of that Thursday among the Thursdays
  of that year,
* `quarter = (month − 1) / 3 + 1`,
* a zone is nothing but the offset (seconds east of UTC) in force at the instant – a parameter,
* truncation of a civil date-time to a precision,
* a whole-second duration is `h·3600 + m·60 + s`.
-/
namespace Rare.C18

/-- Civil date. -/
structure Date where
  y : Int
  m : Int
  d : Int
  deriving DecidableEq, Repr

/-- Day number (days since 1970-01-01) of a civil date. -/
def daysFromCivil (y m d : Int) : Int :=
  let y' := if m ≤ 2 then y - 1 else y
  let era := y' / 400
  let yoe := y' - era * 400
  let mp := if m > 2 then m - 3 else m + 9
  let doy := (153 * mp + 2) / 5 + d - 1
  let doe := yoe * 365 + yoe / 4 - yoe / 100 + doy
  era * 146097 + doe - 719468

/-- Civil date of a day number. -/
def civilFromDays (z : Int) : Date :=
  let z' := z + 719468
  let era := z' / 146097
  let doe := z' - era * 146097
  let yoe := (doe - doe / 1460 + doe / 36524 - doe / 146096) / 365
  let doy := doe - (365 * yoe + yoe / 4 - yoe / 100)
  let mp := (5 * doy + 2) / 153
  let d := doy - (153 * mp + 2) / 5 + 1
  let m := if mp < 10 then mp + 3 else mp - 9
  ⟨yoe + era * 400 + (if m ≤ 2 then 1 else 0), m, d⟩

def isLeap (y : Int) : Bool := decide (y % 4 = 0) && (decide (y % 100 ≠ 0) || decide (y % 400 = 0))

def daysIn (m y : Int) : Int :=
  if m = 2 then (if isLeap y then 29 else 28)
  else if m = 4 ∨ m = 6 ∨ m = 9 ∨ m = 11 then 30 else 31

/-- 0 = Sunday … 6 = Saturday. -/
def weekday (days : Int) : Int := (days + 4) % 7

/-- The Thursday of the Monday-to-Sunday week containing `days`. -/
def thursdayOf (days : Int) : Int := days - (weekday days + 6) % 7 + 3

/-- 0-based day of the year. -/
def yearDay (days : Int) : Int := days - daysFromCivil (civilFromDays days).y 1 1

/-- ISO-8601 (year, week). -/
def isoYearWeek (days : Int) : Int × Int :=
  let thu := thursdayOf days
  ((civilFromDays thu).y, yearDay thu / 7 + 1)

def quarter (m : Int) : Int := (m - 1) / 3 + 1

/-- Local wall clock of an instant: day number and second of the day, given the zone offset in force. -/
def localDays (unix off : Int) : Int := (unix + off) / 86400
def localSecs (unix off : Int) : Int := (unix + off) % 86400

/-- Civil date-time (wall clock fields). -/
structure DateTime where
  y : Int
  m : Int
  d : Int
  hh : Int
  mi : Int
  ss : Int
  ns : Int
  deriving DecidableEq, Repr

def civilOf (unix off : Int) : DateTime :=
  let c := civilFromDays (localDays unix off)
  let s := localSecs unix off
  ⟨c.y, c.m, c.d, s / 3600, s % 3600 / 60, s % 60, 0⟩

/-- Wall-clock seconds since 1970-01-01T00:00:00 of the same wall clock. -/
def wallSeconds (t : DateTime) : Int := daysFromCivil t.y t.m t.d * 86400 + t.hh * 3600 + t.mi * 60 + t.ss

def DateTime.valid (t : DateTime) : Prop :=
  0 ≤ t.y ∧ t.y ≤ 9999 ∧ 1 ≤ t.m ∧ t.m ≤ 12 ∧ 1 ≤ t.d ∧ t.d ≤ daysIn t.m t.y ∧
  0 ≤ t.hh ∧ t.hh ≤ 23 ∧ 0 ≤ t.mi ∧ t.mi ≤ 59 ∧ 0 ≤ t.ss ∧ t.ss ≤ 59 ∧ 0 ≤ t.ns ∧ t.ns ≤ 999999999

/-- Precision a textual form carries, coarse to fine. -/
inductive Prec | year | month | day | hour | minute | second | nano
  deriving DecidableEq, Repr

/-- Truncation of a wall clock to a precision (the smaller fields take their least value). -/
def truncTo : Prec → DateTime → DateTime
  | .year, t => ⟨t.y, 1, 1, 0, 0, 0, 0⟩
  | .month, t => ⟨t.y, t.m, 1, 0, 0, 0, 0⟩
  | .day, t => ⟨t.y, t.m, t.d, 0, 0, 0, 0⟩
  | .hour, t => ⟨t.y, t.m, t.d, t.hh, 0, 0, 0⟩
  | .minute, t => ⟨t.y, t.m, t.d, t.hh, t.mi, 0, 0⟩
  | .second, t => ⟨t.y, t.m, t.d, t.hh, t.mi, t.ss, 0⟩
  | .nano, t => t

/-- Whole-second duration split into hours, minutes, seconds (of the magnitude). -/
def hmsOf (n : Nat) : Nat × Nat × Nat := (n / 3600, n / 60 % 60, n % 60)
def secondsOfHms (h m s : Nat) : Nat := h * 3600 + m * 60 + s

/-- The markers of `pkg/expressions/stdlib/errors.go`. -/
def errorParsing : Bytes := "<PARSE-ERROR>".toList.map (fun c => UInt8.ofNat c.toNat)
def errorNum : Bytes := "<BAD-TYPE>".toList.map (fun c => UInt8.ofNat c.toNat)

end Rare.C18
