import Rare.Base.Bytes
/-!
Specification side of C03: what a CSV text *means* (an RFC 4180 reader), and the shape of the
reference aggregation.  Nothing here mentions how rare or Go's `encoding/csv` produce anything.

`parseCsv` is an RFC 4180 reader, written as a byte-at-a-time state machine:

* a record is one or more fields separated by `,`; records are separated by LF or CRLF
  (RFC 4180 says CRLF; LF alone is accepted, as every reader does); a line break at the very end of
  the text does not start another record; the empty text has no records; an empty line is a record
  with one empty field;
* a field that starts with `"` is quoted: it extends to the next `"` that is not doubled, `""`
  stands for one `"`, every other byte – including `,`, CR and LF – stands for itself (a CR LF
  inside quotes is two bytes of data, it is NOT normalised);
* any other field is taken literally up to the next `,` or line break;
* lenient on malformed input (a `"` inside an unquoted field, text after a closing quote, a
  CR that is not followed by LF outside quotes are data) – the round-trip theorem never
  exercises these branches.
-/
namespace Rare.C03

inductive PMode
  | start       -- at the beginning of a field: nothing consumed for it yet
  | unq         -- inside an unquoted field
  | quoted      -- inside a quoted field
  | quoteSeen   -- inside a quoted field, just after a `"` (either the closing quote or half of `""`)
  | cr          -- outside quotes, just after a CR (either half of CRLF or data)
  deriving DecidableEq, Repr

structure PState where
  rows : List (List Bytes) := []
  row : List Bytes := []
  fld : Bytes := []
  mode : PMode := .start
  /-- nothing has been consumed for the current record -/
  fresh : Bool := true
  deriving Repr

def PState.endField (s : PState) : PState :=
  { s with row := s.row ++ [s.fld], fld := [], mode := .start, fresh := false }

def PState.endRecord (s : PState) : PState :=
  { rows := s.rows ++ [s.row ++ [s.fld]], row := [], fld := [], mode := .start, fresh := true }

def PState.push (s : PState) (b : UInt8) (m : PMode) : PState :=
  { s with fld := s.fld ++ [b], mode := m, fresh := false }

/-- a byte arriving outside quotes, after at least one byte of the field -/
def stepUnq (s : PState) (b : UInt8) : PState :=
  if b = 44 then s.endField
  else if b = 10 then s.endRecord
  else if b = 13 then { s with mode := .cr, fresh := false }
  else s.push b .unq

def step (s : PState) (b : UInt8) : PState :=
  match s.mode with
  | .start =>
    if b = 34 then { s with mode := .quoted, fresh := false } else stepUnq s b
  | .unq => stepUnq s b
  | .quoted =>
    if b = 34 then { s with mode := .quoteSeen, fresh := false } else s.push b .quoted
  | .quoteSeen =>
    if b = 34 then s.push 34 .quoted else stepUnq s b
  | .cr =>
    if b = 10 then s.endRecord else stepUnq (s.push 13 .unq) b

def finish (s : PState) : List (List Bytes) :=
  if s.fresh then s.rows
  else if s.mode = .cr then s.rows ++ [s.row ++ [s.fld ++ [13]]]
  else s.rows ++ [s.row ++ [s.fld]]

/-- RFC 4180 reader. -/
def parseCsv (text : Bytes) : List (List Bytes) := finish (text.foldl step {})

/-! ### the shape of the reference

`reference = render ∘ foldSamples ∘ keysOf`: the extracted keys of the matching lines, taken one
source after the other and one line after the other, are folded into the aggregator, and the
aggregator is rendered.  It is a plain sequential function; `Model/C03.lean` instantiates it
with the aggregators of C07 and the CSV writers. -/

def reference {line key state out : Type} (keyOf : line → Option key) (init : state)
    (sample : state → key → state) (render : state → out) (corpus : List (List line)) : out :=
  render ((corpus.flatten.filterMap keyOf).foldl sample init)

/-- Exit status (`DetermineErrorState`): 2 for read errors, else 2 for aggregator parse errors,
else 1 when nothing matched, else 0. -/
def exitStatus (readErrors parseErrors matched : Nat) : Nat :=
  if readErrors > 0 then 2 else if parseErrors > 0 then 2 else if matched = 0 then 1 else 0

end Rare.C03
