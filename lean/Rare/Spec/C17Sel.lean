import Rare.Base.GoInt
/-!
Specification of `{select s i}` (funcsStrings.go `selectField`) on strings without quotes, next to the array
helper `{@select a i}` (property C17): `{select}` counts WORDS – maximal runs of bytes that are none of space,
tab, newline and the array separator NUL – and so can be pointed at an array value, where it is a different
function from `{@select}` as soon as an element is empty, contains white space, or the index is negative.
Nothing here mentions byte offsets or loop states.
-/
namespace Rare.C17

/-- The delimiters of `{select}`: `' '`, `'\t'`, `'\n'`, `ArraySeparator`. -/
def isWordDelim (c : UInt8) : Bool := c == 32 || c == 9 || c == 10 || c == 0

/-- The words of a string, read left to right: `cur` is the word being collected, `inDelim` says that the
    previous byte was a delimiter.  A run of delimiters ends ONE word (however long the run is). -/
def wordsGo : Bytes → Bytes → Bool → List Bytes
  | [], cur, inDelim => if inDelim then [] else [cur]
  | c :: r, cur, inDelim =>
    if isWordDelim c then (if inDelim then wordsGo r [] true else cur :: wordsGo r [] true)
    else wordsGo r (cur ++ [c]) false

/-- The words `{select}` numbers from 0: the maximal delimiter-free runs; a string that STARTS with a
    delimiter has the empty word at position 0 (trailing delimiters add nothing). -/
def words (s : Bytes) : List Bytes := wordsGo s [] false

/-- `{select s i}`: the `i`-th word, nothing when there is none; a negative `i` never selects. -/
def selectWord (s : Bytes) (i : Int) : Bytes := if i < 0 then [] else (words s).getD i.toNat []

/-- An element that `{select}` and `{@select}` see alike: non-empty, no delimiter, no quote. -/
def IsPlainWord (w : Bytes) : Prop := w ≠ [] ∧ ∀ c ∈ w, isWordDelim c = false ∧ c ≠ 34

end Rare.C17
