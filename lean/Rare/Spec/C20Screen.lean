import Rare.Spec.C20
/-!
Specification side of property C20, round 2: the reference terminal `Scr`.

`Scr` supersedes the subset machine `Term` of `Rare/Spec/C20.lean` (kept there because other
properties import that file).  It was compared cell by cell with tmux 3.3a (`extra/C20.py`).  What it adds:

* **cell widths** – `cw : Rune → Nat` gives the number of cells a rune occupies: 0 (combining marks,
  C1 controls: nothing is stored), 1, or 2 (East Asian wide / emoji: the rune and a padding cell
  `padCell`; a wide rune that does not fit in the rest of the row wraps as a whole).  `eaWidth` is
  the table used by the driver and the tmux comparison; theorems quantify over any `cw`.
* **scrolling** – a line feed on the last row scrolls the screen up (`shift1`); cursor-up stops at
  row 0 (it cannot reach lines that scrolled off).
* **C0 controls** – BS (column - 1), HT (next multiple of 8, at most the last column), VT and FF
  (line feeds); as in a VT500-style parser they are executed also in the middle of an escape
  sequence, ESC restarts an escape sequence in every state, CAN / SUB abort one, DEL and non-ASCII
  runes inside a sequence are ignored.
* not modelled (none of it is emitted by `TermWriter`, and texts containing it are outside the class
  the theorems speak about): escape sequences with intermediate bytes (`ESC ( B`), CSI commands other
  than `A`, `K`/`0K`, `?25l`, `?25h` and SGR, reverse wrap of BS at column 0, blanking of the other
  half of a half-overwritten wide rune.
-/
namespace Rare.C20

/-- second cell of a wide rune -/
def padCell : Rune := 0

/-- East Asian wide / zero-width classes (a conservative table: CJK, Hangul, full-width forms,
emoji blocks are 2 cells; C0/C1 controls, combining diacriticals, variation selectors 0 cells) -/
def eaWidth (r : Rune) : Nat :=
  if r < 32 ∨ (127 ≤ r ∧ r < 160) then 0
  else if (0x300 ≤ r ∧ r ≤ 0x36F) ∨ (0x200B ≤ r ∧ r ≤ 0x200F) ∨ (0xFE00 ≤ r ∧ r ≤ 0xFE0F) then 0
  else if (0x1100 ≤ r ∧ r ≤ 0x115F) ∨ (0x2E80 ≤ r ∧ r ≤ 0x303E) ∨ (0x3041 ≤ r ∧ r ≤ 0x4DBF) ∨
      (0x4E00 ≤ r ∧ r ≤ 0xA4CF) ∨ (0xAC00 ≤ r ∧ r ≤ 0xD7A3) ∨ (0xF900 ≤ r ∧ r ≤ 0xFAFF) ∨
      (0xFE30 ≤ r ∧ r ≤ 0xFE6F) ∨ (0xFF00 ≤ r ∧ r ≤ 0xFF60) ∨ (0xFFE0 ≤ r ∧ r ≤ 0xFFE6) ∨
      (0x1F300 ≤ r ∧ r ≤ 0x1F64F) ∨ (0x1F900 ≤ r ∧ r ≤ 0x1F9FF) ∨ (0x20000 ≤ r ∧ r ≤ 0x3FFFD) then 2
  else 1

structure Scr where
  width : Nat
  height : Nat
  /-- the tty maps `\n` to `\r\n` (ONLCR); theorems hold for both settings -/
  onlcr : Bool
  /-- cells occupied by a rune -/
  cw : Rune → Nat
  rows : Nat → List Rune
  row : Nat
  col : Nat
  cursorVisible : Bool
  ps : PState

/-- the screen scrolled up by one row (`H` rows): row `j` shows what row `j+1` showed, the last row is empty -/
def shift1 (H : Nat) (rows : Nat → List Rune) : Nat → List Rune :=
  fun j => if j + 1 < H then rows (j + 1) else []

/-- scrolled up by `k` rows -/
def shiftN (H k : Nat) (rows : Nat → List Rune) : Nat → List Rune :=
  fun j => if k = 0 then rows j else if j + k < H then rows (j + k) else []

/-- move down one row, scrolling the screen up when already on the last row -/
def Scr.down (t : Scr) : Scr :=
  if t.row + 1 < t.height then { t with row := t.row + 1 }
  else { t with rows := shift1 t.height t.rows }

def Scr.lineFeed (t : Scr) : Scr :=
  let t' := t.down
  if t.onlcr then { t' with col := 0 } else t'

/-- a printable rune: nothing for width 0; wrap first when it does not fit in the rest of the row
(deferred wrap); one cell, or the rune and a padding cell -/
def Scr.putChar (t : Scr) (r : Rune) : Scr :=
  let w := t.cw r
  if w = 0 then t
  else
    let t' := if t.col + min w 2 > t.width then { t.down with col := 0 } else t
    let cells := writeAt (t'.rows t'.row) t'.col r
    if w = 1 then { t' with rows := setRow t'.rows t'.row cells, col := t'.col + 1 }
    else { t' with rows := setRow t'.rows t'.row (writeAt cells (t'.col + 1) padCell), col := t'.col + 2 }

def Scr.eraseToEol (t : Scr) : Scr :=
  { t with rows := setRow t.rows t.row ((t.rows t.row).take t.col) }

/-- a C0 control other than ESC / CAN / SUB (executed in every parser state) -/
def Scr.c0 (t : Scr) (r : Rune) : Scr :=
  if r = 10 ∨ r = 11 ∨ r = 12 then t.lineFeed
  else if r = 13 then { t with col := 0 }
  else if r = 8 then { t with col := t.col - 1 }
  else if r = 9 then
    (if t.col + 1 ≥ t.width then t else { t with col := min ((t.col / 8 + 1) * 8) (t.width - 1) })
  else t

def Scr.dispatch (t : Scr) (params : List Rune) (final : Rune) : Scr :=
  if final = 65 then                       -- 'A' cursor up, default / 0 = 1; stops at the top row
    match (if params = [] then some 1 else parseNum params) with
    | some n => let k := if n = 0 then 1 else n
                { t with row := t.row - min k t.row }
    | none => t
  else if final = 75 then                  -- 'K' erase in line; only "to end of line" is in the subset
    if params = [] ∨ params = [48] then t.eraseToEol else t
  else if final = 108 then                 -- 'l'
    if params = [63, 50, 53] then { t with cursorVisible := false } else t
  else if final = 104 then                 -- 'h'
    if params = [63, 50, 53] then { t with cursorVisible := true } else t
  else t                                   -- 'm' (SGR: zero width, colours are not tracked) and everything else

def Scr.step (t : Scr) (r : Rune) : Scr :=
  if r = 27 then { t with ps := .esc }                       -- ESC (re)starts an escape sequence in every state
  else if r = 24 ∨ r = 26 then { t with ps := .ground }      -- CAN / SUB abort it
  else if r < 32 then t.c0 r                                 -- other C0 controls are executed in place
  else match t.ps with
    | .ground => if r = 127 then t else t.putChar r
    | .esc => if 127 ≤ r then t else if r = 91 then { t with ps := .csi [] } else { t with ps := .ground }
    | .csi ps =>
      if r ≤ 0x3F then { t with ps := .csi (ps ++ [r]) }
      else if r ≤ 0x7E then ({ t with ps := .ground }).dispatch ps r
      else t

def Scr.feed (t : Scr) (rs : List Rune) : Scr := rs.foldl Scr.step t

/-- what the terminal does with a byte stream -/
def Scr.feedBytes (t : Scr) (b : Bytes) : Scr := t.feed (decodeUtf8 b)

def Scr.blank (width height : Nat) (onlcr : Bool) (cw : Rune → Nat) : Scr :=
  { width, height, onlcr, cw, rows := fun _ => [], row := 0, col := 0, cursorVisible := true, ps := .ground }

/-- cells occupied by a rune string -/
def cellsOf (cw : Rune → Nat) (rs : List Rune) : Nat := (rs.map cw).sum

/-- does the rune string end inside a colour sequence (an ESC with no `m` after it)?  `b` = already inside one -/
def endsInEsc : Bool → List Rune → Bool
  | b, [] => b
  | false, r :: rest => endsInEsc (r = 27) rest
  | true, r :: rest => endsInEsc (r ≠ 109) rest

/-! ### the class of texts the refinement theorems speak about -/

/-- a printable rune of width one, or a colour sequence `ESC [ (0-9 : ;)* m` -/
def Tok.Safe (cw : Rune → Nat) : Tok → Prop
  | .ch r => 32 ≤ r ∧ r ≠ 127 ∧ cw r = 1
  | .sgr b => ∃ p, b = 91 :: p ∧ ∀ c ∈ p, 48 ≤ c ∧ c ≤ 59

/-- an unterminated colour sequence at the very end of a text: nothing, `ESC`, or `ESC [ params` -/
def SgrTail (tail : List Rune) : Prop :=
  tail = [] ∨ tail = [27] ∨ ∃ p, tail = 27 :: 91 :: p ∧ ∀ c ∈ p, 48 ≤ c ∧ c ≤ 59

/-- **The class of texts for which the live terminal shows exactly what was written.**  The decoded
text (`[]rune(s)`: arbitrary bytes, every invalid byte is U+FFFD) consists of printable runes of
width one and terminated colour sequences, optionally followed by an unterminated colour sequence
at its very end.  No C0 control (`\n \r \t \b` …), no DEL, no other escape sequence, no wide or
zero-width rune.  With trimming off the text must moreover fit the width and be well-formed UTF-8
(its bytes reach the terminal unchanged). -/
def TextSafe (cw : Rune → Nat) (W : Nat) (trim : Bool) (txt : Bytes) : Prop :=
  ∃ (toks : List Tok) (tail : List Rune), (∀ t ∈ toks, t.Safe cw) ∧ SgrTail tail ∧
    decodeUtf8 txt = renderToks toks ++ tail ∧
    (trim = false → (visToks toks).length ≤ W ∧ ValidUtf8 txt)

/-- every update goes to a line that is still on the screen: with `m` the largest line written so
far, `r0 + max m l - (H-1)` rows have scrolled off the top once line `l` has been reached, and line
`l` (row `r0 + l` of the unscrolled picture) must not be one of them.  Always true when nothing
scrolls (`r0 + l < H` for every line). -/
def Reachable (H r0 : Nat) : Nat → List (Nat × Bytes) → Prop
  | _, [] => True
  | m, u :: rest => r0 + max m u.1 - (H - 1) ≤ r0 + u.1 ∧ Reachable H r0 (max m u.1) rest

end Rare.C20
