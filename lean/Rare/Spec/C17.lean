import Rare.Base.GoInt
/-!
Specification of the array helpers (property C17): a string is read as the list of its
NUL-separated elements, and every helper is an ordinary list function on that reading.
Nothing here mentions splitters, builders, indices into strings or pools.
-/
namespace Rare.C17

def NUL : UInt8 := 0

/-- `join d [x₀, x₁, …] = x₀ ++ d ++ x₁ ++ d ++ …` -/
def join (d : Bytes) : List Bytes → Bytes
  | [] => []
  | [x] => x
  | x :: y :: r => x ++ d ++ join d (y :: r)

/-- Split at every leftmost, non-overlapping occurrence of `d`, reading `s` byte by byte.
    `skip` > 0 while the bytes of a matched delimiter are being passed over; `cur` is the element
    collected so far. -/
def splitGo (d : Bytes) : Bytes → Nat → Bytes → List Bytes
  | [], _, cur => [cur]
  | _ :: r, skip + 1, cur => splitGo d r skip cur
  | c :: r, 0, cur =>
    if d.isPrefixOf (c :: r) then cur :: splitGo d r (d.length - 1) []
    else splitGo d r 0 (cur ++ [c])

def splitOn (d s : Bytes) : List Bytes := splitGo d s 0 []

/-- The elements of an array value. -/
def elems (s : Bytes) : List Bytes := splitOn [NUL] s

/-- The array value with the given elements. -/
def pack (xs : List Bytes) : Bytes := join [NUL] xs

/-- `{@len a}`: the empty string is the empty array. -/
def len (s : Bytes) : Nat := if s = [] then 0 else (elems s).length

/-- `{@select a i}`: the i-th element, a negative `i` counting from the end; nothing when out of range. -/
def select (xs : List Bytes) (i : Int) : Bytes :=
  let j := if i < 0 then i + xs.length else i
  if j < 0 then [] else xs.getD j.toNat []

/-- `{@slice a start [len]}`: `len` elements from `start`; a negative `start` counts from the end and is
    clamped to the beginning; a negative (or absent) `len` means "to the end". -/
def slice (xs : List Bytes) (start len : Int) : List Bytes :=
  let st := if start < 0 then max 0 (start + xs.length) else start
  let rest := xs.drop st.toNat
  if len < 0 then rest else rest.take len.toNat

/-- Number of terms of the progression `start, start+incr, …` strictly before `stop`
    (`incr ≠ 0` pointing from `start` towards `stop`). -/
def rangeCount (start stop incr : Int) : Nat :=
  if incr > 0 then ((stop - start + incr - 1) / incr).toNat
  else ((start - stop + (-incr) - 1) / (-incr)).toNat

/-- `{@range start stop incr}` as a list of integers. -/
def range (start stop incr : Int) : List Int :=
  (List.range (rangeCount start stop incr)).map fun (k : Nat) => start + (k : Int) * incr

/-- `a` lies strictly before `stop` in the direction of `incr`. -/
def before (incr a stop : Int) : Bool :=
  (decide (incr > 0) && decide (a < stop)) || (decide (incr < 0) && decide (a > stop))

/-- `{@range start stop incr}` term by term, in unbounded integers: `start + k·incr` for `k = 0, 1, …`
    as long as the term lies strictly before `stop`; `none` when more than `limit` terms would be
    produced.  (`range` above is the same list in closed form.) -/
def progWhile (start stop incr : Int) : (limit : Nat) → (k : Nat) → Option (List Int)
  | 0, k => if before incr (start + (k : Int) * incr) stop then none else some []
  | limit + 1, k =>
    if before incr (start + (k : Int) * incr) stop then
      (progWhile start stop incr limit (k + 1)).map ((start + (k : Int) * incr) :: ·)
    else some []

/-- `{@for start cond next}`: `v₀ = start`, `vₖ₊₁ = next vₖ k`; the values before the first `k` with
    `cond vₖ k` false.  `none` when more than `limit` values would be produced. -/
def iterateWhile (cond : Bytes → Nat → Bool) (next : Bytes → Nat → Bytes) :
    (limit : Nat) → (k : Nat) → Bytes → Option (List Bytes)
  | 0, k, v => if cond v k then none else some []
  | limit + 1, k, v =>
    if cond v k then (iterateWhile cond next limit (k + 1) (next v k)).map (v :: ·) else some []

/-- `{@reduce a f [init]}`: left fold; without an initial value the first element starts the fold. -/
def reduce (f : Bytes → Bytes → Bytes) (init : Bytes) (xs : List Bytes) : Bytes :=
  if init = [] then
    match xs with
    | [] => []
    | x :: r => r.foldl f x
  else xs.foldl f init

end Rare.C17
