import Rare.Base.GoInt
/-! Decimal reading of a digit string (specification side of `strconv.Atoi`, property C17). -/
namespace Rare.C17

/-- Decimal value of a digit string, most significant digit first. -/
def decVal (ds : Bytes) : Nat := ds.foldl (fun a b => a * 10 + (b.toNat - 48)) 0

end Rare.C17
