import Rare.Spec.C17
/-!
Well-formedness of array values (property C17, last sentence): "no separators appear that do not
delimit an element of the result".
-/
namespace Rare.C17

/-- `out` is a well-formed array value with elements `ys`: it is their packing, and – unless the
    list is empty, which is the empty string – reading it back gives exactly `ys` again (so every
    separator of `out` is a joint between two consecutive elements of `ys`). -/
def IsArray (out : Bytes) (ys : List Bytes) : Prop :=
  out = pack ys ∧ (ys = [] → out = []) ∧ (ys ≠ [] → elems out = ys)

end Rare.C17
