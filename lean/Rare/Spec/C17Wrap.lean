import Rare.Spec.C17
/-!
C17, specification level: `@select` and `@slice` for ALL lists, Go's 64-bit loop counter mirrored.

`select` / `slice` of `Spec/C17.lean` are the documented list functions; they describe the real helpers for
every array with fewer than 2^63 elements – every array a Go program can hold.  The model's lists are
unbounded, so the unconditional statements (`select_spec_wrapped`, `slice_spec_wrapped`, and through them the
meaning of `@select` / `@slice` in the C09 tree semantics) need functions that say what the helpers do with the
counter `i` (an `int`, so `i++` wraps from 2^63-1 to -2^63) on longer lists as well.  `selectW_eq_select` and
`sliceW_eq_slice` (`Proofs/C17Wrap.lean`) show that below 2^63 elements nothing wraps.
-/
namespace Rare.C17

/-- The value of the loop counter after `p` increments from 0 (`int` arithmetic). -/
def counter (p : Nat) : Int := wrap64 (p : Int)

/-- The index `@select` searches for: a negative index has the (64-bit) element count added. -/
def selectTarget (n : Nat) (index : Int) : Int :=
  if index < 0 then wrap64 (index + wrap64 (n : Int)) else index

/-- `{@select a i}` on any list: the element at the first position whose counter equals the target, i.e. at
    position `target mod 2^64`; nothing when the list is shorter. -/
def selectW (xs : List Bytes) (index : Int) : Bytes :=
  xs.getD (selectTarget xs.length index % 18446744073709551616).toNat []

/-- The first position `@slice` copies: a negative start has the (64-bit) element count added and is clamped. -/
def sliceTarget (n : Nat) (start : Int) : Int :=
  if start < 0 then
    let r := wrap64 (start + wrap64 (n : Int))
    if r < 0 then 0 else r
  else start

/-- The `@slice` loop from position `p` on: while `len < 0` or `counter - rs < len` (64-bit), an element whose
    counter is `≥ rs` is copied, preceded by a separator when the counter is `> rs`. -/
def sliceWalk (rs len : Int) : Nat → List Bytes → Bytes
  | _, [] => []
  | p, x :: xs =>
    if len < 0 ∨ wrap64 (counter p - rs) < len then
      (if counter p ≥ rs then (if counter p > rs then [NUL] else []) ++ x else []) ++ sliceWalk rs len (p + 1) xs
    else []

/-- `{@slice a start [len]}` on any list (the VALUE, separators included). -/
def sliceW (xs : List Bytes) (start len : Int) : Bytes :=
  sliceWalk (sliceTarget xs.length start) len 0 xs

end Rare.C17
