import Rare.Spec.C09WF
/-!
C09 – "Unterminated or empty statements and unknown functions are reported as compile errors": WHICH errors, in
which order, with which text and which position – for ALL templates, at every nesting level.

* `stmts t` – the closed top-level statements of a template with their positions: rune index of the opening `{`,
  rune index of the closing `}`, and the body (the text between them with escapes resolved, exactly the bodies of
  `Spec/C09WF.lean`: `stmts_bodies`).
* `openStart t` – the rune index of the `{` of the statement that is still open at the end of the template
  (`none` when every statement is closed).
* `synErrs split known t` – the syntax errors of `t`, in the order they are reported:
  for each closed statement, in order of appearance,
    - no argument: `empty statement` with the raw text `{…}` of the statement, at the index of its `{`;
    - one argument: nothing (a look-up);
    - several arguments, unknown head: `missing function` with the statement's body, at the index of its `{`;
      its arguments are not looked at;
    - several arguments, known head: the syntax errors of each further argument (itself a template), in order,
      each with its own text and with its index *relative to the argument* shifted by the index of the enclosing
      top-level statement's `{` (this is what `CompilerErrors.inherit` does; it is NOT the position of the text in
      the outer template – see `Props/C09.lean`, example after `syntax_errors_exact`);
  and last, if a statement is still open, `non-terminated statement` with the text from its `{` to the end.

Nothing here mentions `Compile`.  The recursion into arguments is by fuel (arguments are not structurally smaller
for Lean); `synErrs` starts with more fuel than the template has runes, which is always enough
(`synErrsF_fuel`), so the recursion equation `synErrs_unfold` holds as written above.
-/
namespace Rare.C09

inductive SynKind
  | unterminated | emptyStatement | missingFunction
  deriving Repr, DecidableEq

/-- One syntax error as reported: kind, context text, index. -/
structure SynErr where
  kind : SynKind
  context : List Char
  index : Nat
  deriving Repr, DecidableEq

/-- A closed top-level statement. -/
structure Stmt where
  start : Nat          -- rune index of its `{`
  stop : Nat           -- rune index of its `}`
  body : List Char     -- the text between, escapes resolved
  deriving Repr, DecidableEq

/-- `bodiesGo` with positions: `s` is the index of the `{` of the current statement, `i` the index of the head of
    the rest. -/
def stmtsGo : Bool → Nat → List Char → Nat → Nat → List Char → List Stmt
  | _, _, _, _, _, [] => []
  | true, d, cur, s, i, e :: rest => stmtsGo false d (cur ++ [unescapeSpec e]) s (i + 1) rest
  | false, d, cur, s, i, c :: rest =>
    if c = '\\' then stmtsGo true d cur s (i + 1) rest
    else if c = '{' then
      if d = 0 then stmtsGo false 1 [] i (i + 1) rest else stmtsGo false (d + 1) (cur ++ ['{']) s (i + 1) rest
    else if c = '}' then
      if d = 0 then stmtsGo false 0 (cur ++ ['}']) s (i + 1) rest
      else if d = 1 then ⟨s, i, cur⟩ :: stmtsGo false 0 [] s (i + 1) rest
      else stmtsGo false (d - 1) (cur ++ ['}']) s (i + 1) rest
    else stmtsGo false d (cur ++ [c]) s (i + 1) rest

/-- The closed top-level statements of a template, in order. -/
def stmts (t : List Char) : List Stmt := stmtsGo false 0 [] 0 0 t

/-- Where the statement that is open at the end began. -/
def openGo : Bool → Nat → Nat → Nat → List Char → Option Nat
  | _, d, s, _, [] => if d = 0 then none else some s
  | true, d, s, i, _ :: rest => openGo false d s (i + 1) rest
  | false, d, s, i, c :: rest =>
    if c = '\\' then openGo true d s (i + 1) rest
    else if c = '{' then
      if d = 0 then openGo false 1 i (i + 1) rest else openGo false (d + 1) s (i + 1) rest
    else if c = '}' then
      if d = 0 then openGo false 0 s (i + 1) rest else openGo false (d - 1) s (i + 1) rest
    else openGo false d s (i + 1) rest

def openStart (t : List Char) : Option Nat := openGo false 0 0 0 t

/-- `inherit(err, offset)`: same error, index moved by the enclosing statement's start. -/
def SynErr.shift (k : Nat) (e : SynErr) : SynErr := { e with index := e.index + k }

/-- The errors of one closed statement of template `t`, given the errors of templates one level down. -/
def stmtErrs (split : List Char → List (List Char)) (known : List Char → Bool)
    (inner : List Char → List SynErr) (t : List Char) (s : Stmt) : List SynErr :=
  match split s.body with
  | [] => [⟨.emptyStatement, (t.drop s.start).take (s.stop + 1 - s.start), s.start⟩]
  | [_] => []
  | name :: x :: xs =>
    if known name then ((x :: xs).flatMap inner).map (SynErr.shift s.start)
    else [⟨.missingFunction, s.body, s.start⟩]

/-- The error for a statement that is never closed. -/
def openErr (t : List Char) : List SynErr :=
  match openStart t with
  | none => []
  | some s => [⟨.unterminated, t.drop s, s⟩]

def synErrsF (split : List Char → List (List Char)) (known : List Char → Bool) : Nat → List Char → List SynErr
  | 0, _ => []
  | f + 1, t => (stmts t).flatMap (stmtErrs split known (synErrsF split known f) t) ++ openErr t

/-- The syntax errors of a template, as reported. -/
def synErrs (split : List Char → List (List Char)) (known : List Char → Bool) (t : List Char) : List SynErr :=
  synErrsF split known (t.length + 1) t

end Rare.C09
