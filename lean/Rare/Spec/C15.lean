/-!
# C15 — specification of "follow mode"

A followed path holds, over time, a sequence of files (inodes).  The writer only ever appends to
the file that is at the path, may remove it and may create a new, empty one.  What a follower must
deliver is described without any reference to channels, polling or signals:

* `extract c a b` – the bytes `[a, b)` of a file with content `c`;
* while the file stays in place the delivered stream is `extract c start pos` for the start
  position `start` (`0`, or the size at the time of `Drain` for `--tail`) and some `pos ≤ |c|`
  (`InPlaceOK`): a prefix of what was appended after `start` – nothing lost, nothing duplicated,
  nothing reordered – and *all* of it once the follower has caught up (`pos = |c|`);
* across removals and re-creations the delivered stream is the concatenation of one such segment
  per file that was opened, files in creation order, every file at most once, and every file other
  than the first from its beginning (`segments`).
-/
namespace Rare.C15.Spec

/-- Bytes `[a, b)` of `c`. -/
def extract {β : Type} (c : List β) (a b : Nat) : List β := (c.drop a).take (b - a)

/-- What must have been delivered from one file: the bytes between the start position and the
    follower's current offset. -/
structure Segment where
  ino : Nat
  start : Nat
  pos : Nat
  deriving DecidableEq, Repr

/-- Concatenation of the segments of a list of (closed, then current) file handles. -/
def segments {β : Type} (content : Nat → List β) (hs : List Segment) : List β :=
  hs.flatMap fun h => extract (content h.ino) h.start h.pos

/-- In-place follow: delivered is exactly the appended bytes between `start` and `pos`. -/
def InPlaceOK {β : Type} (c delivered : List β) (start pos : Nat) : Prop :=
  start ≤ pos ∧ pos ≤ c.length ∧ delivered = extract c start pos

/-- A caught-up follower has delivered everything after the start position. -/
theorem caught_up {β : Type} (c d : List β) (start : Nat) (h : InPlaceOK c d start c.length) :
    d = c.drop start := by
  rcases h with ⟨_, _, rfl⟩
  exact List.take_of_length_le (by simp)

/-- The delivered stream of an in-place follow is a prefix of what follows the start position
    (no loss, no duplication, in order). -/
theorem inplace_prefix {β : Type} (c d : List β) (start pos : Nat) (h : InPlaceOK c d start pos) :
    d <+: c.drop start ∧ d.length = pos - start := by
  rcases h with ⟨h1, h2, rfl⟩
  refine ⟨List.take_prefix _ _, ?_⟩
  simp [extract]; omega

end Rare.C15.Spec
