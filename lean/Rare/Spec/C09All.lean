import Rare.Spec.C09Pos
/-!
C09 – the COMPLETE list of errors `Compile` reports, builder errors included, for registries whose function
builders fail as a function of the NUMBER of their arguments ("bad arity").

`Spec/C09Pos.lean` gives the errors of the three parser kinds; a function builder may add an error of its own
(`stageError…` in rare's stdlib: `<ARGN>`, `<BAD-TYPE>` …).  Where that error depends on the argument count only,
the whole list is a function of the template text:

* `Sig` – what is known about a name: not registered, or registered together with the error its builder returns
  when called with `n` arguments (`none`: it accepts `n` arguments);
* `allErrs split sig t` – as `synErrs`, and for every closed statement with several arguments and a registered
  head: FIRST the errors of its arguments (in order, index shifted by the statement's start), THEN – if the
  builder rejects that many arguments – the builder's error, with the statement's body as text and the index of
  its `{`.  (The arguments are compiled before the builder runs.)

Nothing here mentions `Compile`.
-/
namespace Rare.C09

inductive RepKind
  | syn (k : SynKind)
  | builder (msg : String)
  deriving Repr, DecidableEq

/-- One reported error: kind, context text, index. -/
structure RepErr where
  kind : RepKind
  context : List Char
  index : Nat
  deriving Repr, DecidableEq

/-- `none`: no such function; `some ar`: registered, `ar n` = the error of a call with `n` arguments. -/
abbrev Sig := List Char → Option (Nat → Option String)

def RepErr.shift (k : Nat) (e : RepErr) : RepErr := { e with index := e.index + k }

def RepErr.ofSyn (e : SynErr) : RepErr := ⟨.syn e.kind, e.context, e.index⟩

/-- The errors of one closed statement of template `t`, given the errors of templates one level down. -/
def stmtErrsA (split : List Char → List (List Char)) (sig : Sig)
    (inner : List Char → List RepErr) (t : List Char) (s : Stmt) : List RepErr :=
  match split s.body with
  | [] => [⟨.syn .emptyStatement, (t.drop s.start).take (s.stop + 1 - s.start), s.start⟩]
  | [_] => []
  | name :: x :: xs =>
    match sig name with
    | none => [⟨.syn .missingFunction, s.body, s.start⟩]
    | some ar =>
      ((x :: xs).flatMap inner).map (RepErr.shift s.start) ++
        (match ar (x :: xs).length with
         | some msg => [⟨.builder msg, s.body, s.start⟩]
         | none => [])

def allErrsF (split : List Char → List (List Char)) (sig : Sig) : Nat → List Char → List RepErr
  | 0, _ => []
  | f + 1, t => (stmts t).flatMap (stmtErrsA split sig (allErrsF split sig f) t) ++ (openErr t).map RepErr.ofSyn

/-- Every error of a template, as reported. -/
def allErrs (split : List Char → List (List Char)) (sig : Sig) (t : List Char) : List RepErr :=
  allErrsF split sig (t.length + 1) t

/-- The syntax errors among them. -/
def RepErr.synPart (e : RepErr) : Option SynErr :=
  match e.kind with
  | .syn k => some ⟨k, e.context, e.index⟩
  | .builder _ => none

end Rare.C09
