import Rare.Base.F64
/-!
# C11 – what `{ln v}` must at least respect

`ln` is increasing and `ln 2 > 0.693`, so for a positive `x ≤ 2^-e` the logarithm is at most `-e · ln 2 ≤ -e · 0.693`.
An answer `r` that is larger than this bound for some `e` is not the logarithm of `x` (by a margin of `0.000147·e`,
far beyond rounding).  This elementary enclosure is all the finding about subnormal arguments needs.
-/
namespace Rare.C11.Spec

/-- `r` does not exceed the elementary upper bounds of `ln x` for a positive `x` below 1. -/
def LnUpperOK (x r : F64) : Prop :=
  ∀ e : Nat, x.toRat ≤ 1 / (((2 ^ e : Nat) : Int) : Rat) → r.toRat ≤ -(((e : Int) : Rat) * (693 / 1000))

end Rare.C11.Spec
