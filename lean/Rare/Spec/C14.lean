import Rare.Spec.C20
/-!
# C14 specification: what the renderers owe the reader

Core Lean only; nothing here mentions how rare computes anything.

* a scaled magnitude is a rational in `[0,1]`, monotone in the value (`UnitInterval`, `MonotoneIn`);
* a proportional bar of `val` out of `maxVal` on `maxLen` cells has `⌊val·maxLen/maxVal⌋` cells
  (`propBar`): never more than `maxLen`, growing with `val`;
* the visible width of a text is the number of its runes outside colour sequences (`visLen`);
* rows of a table are aligned when every cell starts at the same visible offset in every row
  (`Aligned`: one list of column offsets serves every rendered row, `CellAt`);
* a "(n more)" note shows `total - shown` (`notShown`).
-/
namespace Rare.C14.Spec
open Rare Rare.C20

def UnitInterval (u : Rat) : Prop := 0 ≤ u ∧ u ≤ 1

/-- proportional bar length: `⌊val·maxLen/maxVal⌋` for `0 < maxVal`, values above the maximum clamp -/
def propBar (val maxVal maxLen : Int) : Int :=
  if maxVal ≤ 0 ∨ val ≤ 0 ∨ maxLen ≤ 0 then 0 else (min val maxVal) * maxLen / maxVal

/-- visible width of a text: runes outside `ESC … m` sequences -/
def visLen (s : Bytes) : Nat := (visibleRunes (decodeUtf8 s)).length

/-- visible offsets at which the cells of a rendered row start, given the visible widths of the
padded cells (each followed by one blank) -/
def offsets : List Nat → Nat → List Nat
  | [], _ => []
  | w :: rest, at_ => at_ :: offsets rest (at_ + w + 1)

/-- `cell` is on `line`, starting at visible offset `off` and over before `next`:
`line = pre ++ cell ++ post` where `pre` is `off` cells wide -/
def CellAt (width : Bytes → Int) (line cell : Bytes) (off next : Int) : Prop :=
  ∃ pre post, line = pre ++ cell ++ post ∧ width pre = off ∧ off + width cell < next

/-- rows of a table, each given as (its displayed cells, its rendered line), are aligned: ONE increasing
list of column offsets serves every row – column `k` starts at the same visible offset in every row in
which it appears, and every cell is over before the next column starts -/
def Aligned (width : Bytes → Int) (rows : List (List Bytes × Bytes)) : Prop :=
  ∃ offs : Nat → Int, offs 0 = 0 ∧ (∀ k, offs k < offs (k + 1)) ∧
    ∀ p ∈ rows, ∀ (k : Nat) (cell : Bytes), p.1[k]? = some cell → CellAt width p.2 cell (offs k) (offs (k + 1))

/-- items that do not fit -/
def notShown (total shown : Nat) : Nat := total - shown

end Rare.C14.Spec
