import Rare.Base.Bytes
/-! Specification pieces for property C02 that need no model. -/
namespace Rare.C02

/-- the elements joined by a separator: no leading, no trailing separator; `[]` gives the empty text -/
def joinSep (sep : Bytes) : List Bytes → Bytes
  | [] => []
  | [x] => x
  | x :: y :: r => x ++ sep ++ joinSep sep (y :: r)

end Rare.C02
