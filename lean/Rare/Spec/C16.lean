import Rare.Base.GoInt
/-!
Specification for property C16: the JSON views `{.}`, `{#}`, `{.#}` of a match.

* `parseObj` – a parser for the RFC 8259 fragment that matters here: ONE object whose member
  values are strings (all escapes incl. `\uXXXX` for BMP scalars), numbers (the full JSON number
  grammar), `true`, `false`, `null`; insignificant white space everywhere the RFC allows it.
  Nested objects/arrays and surrogate `\u` escapes are outside the fragment (rejected).
  The parser is byte level, like `encoding/json`: bytes ≥ 0x20 other than `"` and `\` stand for
  themselves inside a string (UTF-8 well-formedness of the text is exactly that of the captures
  and is not judged here).
* `decodesTo v capture` – "the member value `v` decodes to the captured text": the same string,
  or a number of equal value when the capture is a plain decimal numeral, or a boolean when the
  capture is `true`/`false` in any ASCII case.
* `capture`, `expectedNamed`, `expectedNumbered` – which members a view must contain.
-/
namespace Rare.C16

/-- A JSON member value of the fragment. `num m e` denotes `m × 10^e`. -/
inductive JVal where
  | str (s : Bytes)
  | num (mant : Int) (exp : Int)
  | bool (b : Bool)
  | null
  deriving DecidableEq, Repr

def litTrue : Bytes := [0x74, 0x72, 0x75, 0x65]
def litFalse : Bytes := [0x66, 0x61, 0x6c, 0x73, 0x65]
def litNull : Bytes := [0x6e, 0x75, 0x6c, 0x6c]

def isDig (c : UInt8) : Bool := 0x30 ≤ c && c ≤ 0x39

def isWs (c : UInt8) : Bool := c = 0x20 || c = 0x09 || c = 0x0a || c = 0x0d

def skipWs (b : Bytes) : Bytes := b.dropWhile isWs

/-- value of a digit string, most significant first -/
def digVal (ds : Bytes) : Nat := ds.foldl (fun a c => a * 10 + (c.toNat - 48)) 0

def hexVal (c : UInt8) : Option Nat :=
  if 0x30 ≤ c ∧ c ≤ 0x39 then some (c.toNat - 0x30)
  else if 0x61 ≤ c ∧ c ≤ 0x66 then some (c.toNat - 0x61 + 10)
  else if 0x41 ≤ c ∧ c ≤ 0x46 then some (c.toNat - 0x41 + 10)
  else none

/-- UTF-8 encoding of a BMP code point (< 0x10000). -/
def utf8Enc (cp : Nat) : Bytes :=
  if cp < 0x80 then [UInt8.ofNat cp]
  else if cp < 0x800 then [UInt8.ofNat (0xC0 + cp / 64), UInt8.ofNat (0x80 + cp % 64)]
  else [UInt8.ofNat (0xE0 + cp / 4096), UInt8.ofNat (0x80 + cp / 64 % 64), UInt8.ofNat (0x80 + cp % 64)]

/-- two-character escapes `\" \\ \/ \b \f \n \r \t` -/
def unescape1 (c : UInt8) : Option UInt8 :=
  if c = 0x22 then some 0x22
  else if c = 0x5c then some 0x5c
  else if c = 0x2f then some 0x2f
  else if c = 0x62 then some 0x08
  else if c = 0x66 then some 0x0c
  else if c = 0x6e then some 0x0a
  else if c = 0x72 then some 0x0d
  else if c = 0x74 then some 0x09
  else none

inductive StrSt where
  | norm
  | esc
  | hex (k acc : Nat)

/-- The inside of a string, after the opening quote: decoded content and the text after the
closing quote. -/
def strBody : StrSt → Bytes → Option (Bytes × Bytes)
  | _, [] => none
  | .norm, c :: r =>
    if c = 0x22 then some ([], r)
    else if c = 0x5c then strBody .esc r
    else if c < 0x20 then none
    else (strBody .norm r).map fun p => (c :: p.1, p.2)
  | .esc, c :: r =>
    if c = 0x75 then strBody (.hex 4 0) r
    else match unescape1 c with
      | some d => (strBody .norm r).map fun p => (d :: p.1, p.2)
      | none => none
  | .hex k acc, c :: r =>
    match hexVal c with
    | none => none
    | some v =>
      if k ≤ 1 then
        if 0xD800 ≤ acc * 16 + v ∧ acc * 16 + v < 0xE000 then none
        else (strBody .norm r).map fun p => (utf8Enc (acc * 16 + v) ++ p.1, p.2)
      else strBody (.hex (k - 1) (acc * 16 + v)) r

/-- `frac = "." 1*DIGIT` (optional): the digits and the rest. -/
def parseFrac (b : Bytes) : Option (Bytes × Bytes) :=
  match b with
  | [] => some ([], [])
  | c :: r =>
    if c = 0x2e then
      if (r.span isDig).1 = [] then none else some (r.span isDig)
    else some ([], b)

/-- `exp = ("e" / "E") ["-" / "+"] 1*DIGIT` (optional): the exponent and the rest. -/
def parseExp (b : Bytes) : Option (Int × Bytes) :=
  match b with
  | [] => some (0, [])
  | c :: r =>
    if c = 0x65 ∨ c = 0x45 then
      let neg := r.head? = some 0x2d
      let r1 := if r.head? = some 0x2d ∨ r.head? = some 0x2b then r.tail else r
      if (r1.span isDig).1 = [] then none
      else some (if neg then -(digVal (r1.span isDig).1 : Int) else digVal (r1.span isDig).1, (r1.span isDig).2)
    else some (0, b)

/-- `number = ["-"] int [frac] [exp]`, `int = "0" / (digit1-9 *DIGIT)`. -/
def parseNumber (b : Bytes) : Option (JVal × Bytes) :=
  let neg := b.head? = some 0x2d
  let b1 := if neg then b.tail else b
  let ip := (b1.span isDig).1
  if ip = [] then none
  else if 1 < ip.length ∧ ip.head? = some 0x30 then none
  else
    match parseFrac (b1.span isDig).2 with
    | none => none
    | some (fp, b2) =>
      match parseExp b2 with
      | none => none
      | some (e, b3) =>
        let m : Int := digVal (ip ++ fp)
        some (.num (if neg then -m else m) (e - fp.length), b3)

def parseLit (lit : Bytes) (v : JVal) (b : Bytes) : Option (JVal × Bytes) :=
  if lit.isPrefixOf b then some (v, b.drop lit.length) else none

def parseValue (b : Bytes) : Option (JVal × Bytes) :=
  match b with
  | [] => none
  | c :: r =>
    if c = 0x22 then (strBody .norm r).map fun p => (.str p.1, p.2)
    else if c = 0x74 then parseLit litTrue (.bool true) b
    else if c = 0x66 then parseLit litFalse (.bool false) b
    else if c = 0x6e then parseLit litNull .null b
    else parseNumber b

/-- `member = string ws ":" ws value` -/
def parseMember (b : Bytes) : Option ((Bytes × JVal) × Bytes) :=
  match b with
  | [] => none
  | c :: r =>
    if c = 0x22 then
      match strBody .norm r with
      | none => none
      | some (k, r1) =>
        match skipWs r1 with
        | [] => none
        | c2 :: r2 =>
          if c2 = 0x3a then
            match parseValue (skipWs r2) with
            | none => none
            | some (v, r3) => some ((k, v), r3)
          else none
    else none

/-- `member *( ws "," ws member )`; the fuel bounds the number of members. -/
def parseMembers : Nat → Bytes → Option (List (Bytes × JVal) × Bytes)
  | 0, _ => none
  | n + 1, b =>
    match parseMember b with
    | none => none
    | some (m, r) =>
      match skipWs r with
      | [] => some ([m], [])
      | c :: r' =>
        if c = 0x2c then (parseMembers n (skipWs r')).map fun p => (m :: p.1, p.2)
        else some ([m], c :: r')

/-- A whole JSON text consisting of one object of the fragment: its members in order. -/
def parseObj (b : Bytes) : Option (List (Bytes × JVal)) :=
  match skipWs b with
  | [] => none
  | c :: r =>
    if c = 0x7b then
      match skipWs r with
      | [] => none
      | c1 :: r1 =>
        if c1 = 0x7d then (if skipWs r1 = [] then some [] else none)
        else
          match parseMembers b.length (c1 :: r1) with
          | some (ms, c2 :: r2) => if c2 = 0x7d ∧ skipWs r2 = [] then some ms else none
          | _ => none
    else none

/-! ### What a member may decode to -/

def lower (c : UInt8) : UInt8 := if 0x41 ≤ c ∧ c ≤ 0x5a then c + 32 else c

/-- A capture read as a plain decimal numeral `digits` or `digits.digits` (leading zeros allowed
here – this is the reading of the *capture*, not JSON syntax): mantissa and exponent. -/
def decimalValue (s : Bytes) : Option (Int × Int) :=
  let ip := (s.span isDig).1
  if ip = [] then none
  else
    match (s.span isDig).2 with
    | [] => some (digVal ip, 0)
    | c :: fp =>
      if c = 0x2e ∧ fp ≠ [] ∧ fp.all isDig then some (digVal (ip ++ fp), -(fp.length : Int)) else none

/-- `m₁ × 10^e₁ = m₂ × 10^e₂` -/
def sameValue (m1 e1 m2 e2 : Int) : Bool :=
  m1 * 10 ^ (e1 - min e1 e2).toNat == m2 * 10 ^ (e2 - min e1 e2).toNat

def decodesTo (v : JVal) (capture : Bytes) : Bool :=
  match v with
  | .str s => s == capture
  | .num m e =>
    match decimalValue capture with
    | some (m', e') => sameValue m e m' e'
    | none => false
  | .bool b => capture.map lower == (if b then litTrue else litFalse)
  | .null => false

/-- member-wise: same names in the same order, every value decodes to the capture -/
def membersDecode : List (Bytes × JVal) → List (Bytes × Bytes) → Bool
  | [], [] => true
  | m :: ms, e :: es => m.1 == e.1 && decodesTo m.2 e.2 && membersDecode ms es
  | _, _ => false

/-! ### Which members a view contains -/

/-- Text of group `i` for a `FindSubmatchIndex`-style index slice (empty when the group is out of
range or did not participate). -/
def capture (indices : List Int) (line : Bytes) (i : Int) : Bytes :=
  if i < 0 ∨ (2 * i + 1).toNat ≥ indices.length then []
  else
    let s := indices.getD (2 * i).toNat 0
    let e := indices.getD (2 * i + 1).toNat 0
    if s < 0 ∨ e < 0 then [] else (line.take e.toNat).drop s.toNat

/-- What every matcher's `FindSubmatchIndex` guarantees about its index slice: each group is
either absent (negative) or a well-formed range inside the line. -/
def FitsLine (indices : List Int) (line : Bytes) : Prop :=
  ∀ k : Nat, 2 * k + 1 < indices.length →
    (indices.getD (2 * k) 0 < 0 ∨ indices.getD (2 * k + 1) 0 < 0) ∨
    (indices.getD (2 * k) 0 ≤ indices.getD (2 * k + 1) 0 ∧ indices.getD (2 * k + 1) 0 ≤ line.length)

def expectedNamed (nameTable : List (Bytes × Int)) (indices : List Int) (line : Bytes) : List (Bytes × Bytes) :=
  nameTable.map fun p => (p.1, capture indices line p.2)

def natAscii (n : Nat) : Bytes := natDigits n

def expectedNumbered (indices : List Int) (line : Bytes) : List (Bytes × Bytes) :=
  (List.range (indices.length / 2)).filterMap fun i =>
    let v := capture indices line (i : Nat)
    if v = [] then none else some (natAscii i, v)

/-! ### UTF-8 well-formedness of a text (RFC 3629 / Unicode table 3-7) as a DFA

RFC 8259 section 8.1 wants JSON text exchanged as UTF-8; `parseObj` itself is byte level. -/

inductive U8 where
  | s0 | c1 | c2 | c3 | e0 | ed | f0 | f4
  deriving DecidableEq

def u8Step : U8 → UInt8 → Option U8
  | .s0, c =>
    if c < 0x80 then some .s0
    else if 0xC2 ≤ c ∧ c ≤ 0xDF then some .c1
    else if c = 0xE0 then some .e0
    else if c = 0xED then some .ed
    else if 0xE1 ≤ c ∧ c ≤ 0xEF then some .c2
    else if c = 0xF0 then some .f0
    else if 0xF1 ≤ c ∧ c ≤ 0xF3 then some .c3
    else if c = 0xF4 then some .f4
    else none
  | .c1, c => if 0x80 ≤ c ∧ c ≤ 0xBF then some .s0 else none
  | .c2, c => if 0x80 ≤ c ∧ c ≤ 0xBF then some .c1 else none
  | .c3, c => if 0x80 ≤ c ∧ c ≤ 0xBF then some .c2 else none
  | .e0, c => if 0xA0 ≤ c ∧ c ≤ 0xBF then some .c1 else none
  | .ed, c => if 0x80 ≤ c ∧ c ≤ 0x9F then some .c1 else none
  | .f0, c => if 0x90 ≤ c ∧ c ≤ 0xBF then some .c2 else none
  | .f4, c => if 0x80 ≤ c ∧ c ≤ 0x8F then some .c2 else none

def u8Run : U8 → Bytes → Option U8
  | st, [] => some st
  | st, c :: r =>
    match u8Step st c with
    | some st' => u8Run st' r
    | none => none

def validUtf8 (b : Bytes) : Bool := u8Run .s0 b == some .s0

/-! ### Go values

The model represents Go's `int` by `Int` and slices by `List`; these are the typing facts of the
values it stands for (a group number is an `int`, `len` of a slice is an `int`).  They are not
assumptions about what the matchers compute. -/

structure GoTyped (nameTable : List (Bytes × Int)) (indices : List Int) : Prop where
  idx : ∀ p ∈ nameTable, minInt64 ≤ p.2 ∧ p.2 ≤ maxInt64
  len : (indices.length : Int) ≤ maxInt64

/-! ### numbers as rationals -/

/-- `m × 10^e` as a rational number -/
def ratOf (m e : Int) : Rat := (m : Rat) * (10 : Rat) ^ e

/-- the number a JSON value denotes -/
def JVal.toRat : JVal → Option Rat
  | .num m e => some (ratOf m e)
  | _ => none

/-- A capture read as a plain decimal numeral `digits` or `digits.digits`, as a rational:
integer part plus fraction digits over the power of ten (leading zeros allowed – this is the reading
of the *capture*).  Written without reference to mantissa/exponent pairs. -/
def decimalRat (s : Bytes) : Option Rat :=
  let ip := (s.span isDig).1
  if ip = [] then none
  else
    match (s.span isDig).2 with
    | [] => some (digVal ip : Rat)
    | c :: fp =>
      if c = 0x2e ∧ fp ≠ [] ∧ fp.all isDig then some ((digVal ip : Rat) + (digVal fp : Rat) / (10 : Rat) ^ fp.length)
      else none

/-! ### boolean words -/

/-- all spellings of an ASCII lower-case word with each letter in either ASCII case -/
def spellings : Bytes → List Bytes
  | [] => [[]]
  | c :: r => (spellings r).flatMap fun t => [c :: t, (c - 32) :: t]

/-! ### Which members each key selects -/

/-- `(named, numbered)` for the special keys of `GetKey`; `none` = not a JSON view -/
def viewFlags (key : Bytes) : Option (Bool × Bool) :=
  if key = [0x2e] then some (true, false)
  else if key = [0x23] then some (false, true)
  else if key = [0x2e, 0x23] ∨ key = [0x23, 0x2e] then some (true, true)
  else none

/-- byte-wise lexicographic `≤` (Go string comparison) -/
def bytesLe : Bytes → Bytes → Bool
  | [], _ => true
  | _ :: _, [] => false
  | a :: as, b :: bs => a < b || (a == b && bytesLe as bs)

/-! ### U+FFFD substitution

What `encoding/json` and Go's `range` over a string do with ill-formed UTF-8:
every byte that does not start a well-formed sequence is replaced by U+FFFD (`EF BF BD`), one per
byte (`utf8.DecodeRune` returns `(RuneError, 1)`), well-formed sequences are kept.  (Decoders that
follow the Unicode "maximal subpart" practice – WHATWG, Python's `errors="replace"` – emit ONE
U+FFFD for a truncated sequence such as `E2 82` where Go emits two; they replace the same positions,
only the number of U+FFFD differs.  The correspondence op `san` checks this definition against Go.)  As a machine over
the DFA above: `pend` holds the bytes of the sequence being read in state `st`. -/

def fffd : Bytes := [0xEF, 0xBF, 0xBD]

def fffds (pend : Bytes) : Bytes := pend.flatMap fun _ => fffd

def san : U8 → Bytes → Bytes → Bytes
  | _, pend, [] => fffds pend
  | st, pend, c :: r =>
    match u8Step st c with
    | some st' => if st' = .s0 then pend ++ c :: san .s0 [] r else san st' (pend ++ [c]) r
    | none =>
      -- the sequence is broken: one U+FFFD per pending byte, then `c` is read afresh
      fffds pend ++
        (if pend = [] then fffd ++ san .s0 [] r
         else match u8Step .s0 c with
          | some st' => if st' = .s0 then c :: san .s0 [] r else san st' [c] r
          | none => fffd ++ san .s0 [] r)

def sanitize (b : Bytes) : Bytes := san .s0 [] b

end Rare.C16
