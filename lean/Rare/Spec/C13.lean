import Rare.Base.Bytes
/-!
Specification of output ordering (property C13).

A sort mode is a *rank* of every key into a lexicographically ordered product; `less a b`
is "rank a < rank b".  If `less` is a strict total order on the (distinct) keys there is
exactly one `Pairwise less` permutation of the key set – "the sorted sequence" – so the
output cannot depend on the order in which a Go map handed the keys to the sorter.

Nothing here mentions how rare computes anything.
-/
namespace Rare.C13

abbrev Key := Bytes

/-! ## Order vocabulary -/

/-- `less` is a strict total order on the elements satisfying `P`. -/
structure StrictTotalOn {α : Type} (P : α → Prop) (less : α → α → Bool) : Prop where
  irrefl : ∀ a, P a → less a a = false
  trans : ∀ a b c, P a → P b → P c → less a b = true → less b c = true → less a c = true
  total : ∀ a b, P a → P b → a ≠ b → less a b = true ∨ less b a = true

/-- What `sort.Sort` needs on a list of *distinct* elements: asymmetric, total and transitive on
distinct elements of `P` (nothing is said about `less a a`; `Reverse` makes that `true`). -/
structure OrderOn {α : Type} (P : α → Prop) (less : α → α → Bool) : Prop where
  asymm : ∀ a b, P a → P b → a ≠ b → less a b = true → less b a = false
  total : ∀ a b, P a → P b → a ≠ b → less a b = true ∨ less b a = true
  trans : ∀ a b c, P a → P b → P c → a ≠ b → b ≠ c → a ≠ c →
    less a b = true → less b c = true → less a c = true

/-- `out` is a sorted arrangement of `keys`. -/
def IsSorted {α : Type} (less : α → α → Bool) (out keys : List α) : Prop :=
  out.Perm keys ∧ out.Pairwise (fun a b => less a b = true)

/-! ## Ranks and lexicographic products -/

/-- Go's `a < b` on strings: lexicographic on bytes, a proper prefix is smaller. -/
def bytesLt : Bytes → Bytes → Bool
  | _, [] => false
  | [], _ :: _ => true
  | a :: as, b :: bs => a < b || (a == b && bytesLt as bs)

def intLt (a b : Int) : Bool := decide (a < b)
def natLt (a b : Nat) : Bool := decide (a < b)

/-- Lexicographic product of two orders. -/
def lexLt {α β : Type} [DecidableEq α] (lt1 : α → α → Bool) (lt2 : β → β → Bool)
    (p q : α × β) : Bool :=
  lt1 p.1 q.1 || (decide (p.1 = q.1) && lt2 p.2 q.2)

/-- `some x` (a number of magnitude `x`) before `none` (not a number). -/
def optLt : Option Int → Option Int → Bool
  | some x, some y => decide (x < y)
  | some _, none => true
  | none, _ => false

/-- Order induced by a rank. -/
def byRank {κ ρ : Type} (rank : κ → ρ) (lt : ρ → ρ → Bool) (a b : κ) : Bool := lt (rank a) (rank b)

/-- A named row with its total. -/
structure NV where
  name : Key
  value : Int
  deriving DecidableEq, Repr

/-- `text`: the key itself. -/
def textLess : Key → Key → Bool := bytesLt

/-- `numeric`: numbers (magnitude `mag k = some x`) by magnitude, before everything else; ties and
non-numbers by text.  Rank `(mag k, k)`. -/
def numericLess (mag : Key → Option Int) : Key → Key → Bool :=
  byRank (fun k => (mag k, k)) (lexLt optLt bytesLt)

/-- `contextual` over one name table (`pos k` = calendar position): rank `(pos k, k)`. -/
def calendarLess (pos : Key → Nat) : Key → Key → Bool :=
  byRank (fun k => (pos k, k)) (lexLt natLt bytesLt)

/-- `date` for one layout (`inst k` = the instant): rank `(inst k, k)`. -/
def chronoLess (inst : Key → Int) : Key → Key → Bool :=
  byRank (fun k => (inst k, k)) (lexLt intLt bytesLt)

/-- `value` ascending: rank `(value, name)`; the CLI default for `value` is the reverse of this. -/
def valueLess : NV → NV → Bool :=
  byRank (fun r => (r.value, r.name)) (lexLt intLt bytesLt)

/-- Reversal as rare defines it: negate the comparison. -/
def revLess {α : Type} (less : α → α → Bool) (a b : α) : Bool := !less a b

/-! ## A reference sort (insertion sort), used to *compute* the unique sorted sequence -/

def ins {α : Type} (less : α → α → Bool) (x : α) : List α → List α
  | [] => [x]
  | y :: ys => if less x y then x :: y :: ys else y :: ins less x ys

def isort {α : Type} (less : α → α → Bool) : List α → List α
  | [] => []
  | x :: xs => ins less x (isort less xs)

/-! ## Comparison-based algorithms

`sort.Sort` is not modelled.  It is *any* algorithm that learns about the data only by asking
`less a b` for elements of its input (a decision tree); the comparator may be a stateful
closure.  The contract assumed of it is `SortContract`. -/

inductive Algo (α ρ : Type) where
  | done : ρ → Algo α ρ
  | ask : α → α → (Bool → Algo α ρ) → Algo α ρ

namespace Algo
variable {α ρ σ : Type}

/-- Run against a pure comparator. -/
def runPure (less : α → α → Bool) : Algo α ρ → ρ
  | done r => r
  | ask a b k => runPure less (k (less a b))

/-- Run against a stateful comparator (a Go closure): the state is threaded through the
comparison sequence. -/
def run (cmp : σ → α → α → Bool × σ) : σ → Algo α ρ → ρ × σ
  | s, done r => (r, s)
  | s, ask a b k => run cmp (cmp s a b).2 (k (cmp s a b).1)

/-- The algorithm only ever compares elements satisfying `P`. -/
inductive Within (P : α → Prop) : Algo α ρ → Prop
  | done (r : ρ) : Within P (done r)
  | ask (a b : α) (k : Bool → Algo α ρ) : P a → P b → (∀ r, Within P (k r)) → Within P (ask a b k)

end Algo

/-- The `sort.Sort` contract (assumption, DESIGN.md section 1): on distinct elements and a
comparator that is a strict (weak = total here) order on them it only compares elements of its input
and returns a sorted permutation. -/
structure SortContract {α : Type} (alg : List α → Algo α (List α)) : Prop where
  within : ∀ l, Algo.Within (· ∈ l) (alg l)
  sorted : ∀ (less : α → α → Bool) (l : List α), l.Nodup → OrderOn (· ∈ l) less →
    IsSorted less ((alg l).runPure less) l

end Rare.C13

namespace Rare.C13

/-! ## Set-level meaning of the inferring modes

`contextual` and `date` look at the data to decide what it is.  The intent pinned by the repo's
own tests (`TestFallbackSort`, `TestDateFallback`) is set-level: if *every* key belongs to one
name table (has one and the same date layout and parses with it) use calendar (chronological) order, otherwise sort the
whole set with the fallback. -/

def contextualSpecLess (tables : List (Key → Option Nat)) (fallback : Key → Key → Bool)
    (keys : List Key) : Key → Key → Bool :=
  match tables.find? (fun t => keys.all (fun k => (t k).isSome)) with
  | some t => calendarLess (fun k => (t k).getD 0)
  | none => fallback

def dateSpecLess (layoutOf : Key → Option Nat) (inst : Nat → Key → Option Int)
    (fallback : Key → Key → Bool) (keys : List Key) : Key → Key → Bool :=
  match keys with
  | [] => fallback
  | k0 :: _ =>
    match layoutOf k0 with
    | some f =>
      if keys.all (fun k => layoutOf k == some f && (inst f k).isSome) then chronoLess (fun k => (inst f k).getD 0)
      else fallback
    | none => fallback

end Rare.C13
