import Rare.Base.GoInt
/-!
Specification for property C19 (math formulas `{! …}`, `pkg/expressions/stdmath`).

* `Token`: what the tokenizer hands to the parser (literal, group = text between a pair of
  top-level parentheses, binary operator, unary operator/function).
* `Tree`: parse trees.  Parenthesised groups, unary applications and literals are *atoms*; a
  binary node carries its operator and whether the operator was written (`2*(3)`) or implied
  (`2(3)`).
* `WellPrec table t`: `t` is a parse under "common order of operations" for the operator table
  `table` (tightest set first): every binary node of level ℓ has a left operand of level ≤ ℓ
  (equal levels associate to the left) and a right operand of level < ℓ.
* `flatten t`: the token sequence that `t` is a parse of.  `Deep tok t`: every group node's text
  tokenizes (with `tok`) to the flattening of the group's own parse tree.
* `Tree.eval`: the value of a parse tree under a variable binding.
-/
namespace Rare.C19

inductive TokT | lit | group | op | mod
  deriving DecidableEq, Repr

structure Token where
  val : Bytes
  t : TokT
  deriving DecidableEq, Repr

inductive Tree where
  | lit (v : Bytes)
  | grp (s : Bytes) (e : Tree)
  | un (m : Bytes) (e : Tree)
  | bin (implied : Bool) (op : Bytes) (l r : Tree)
  deriving DecidableEq, Repr

/-- `*` -/
def starOp : Bytes := [42]

/-- Level of an operator = index of the set of the table that lists it (0 = binds tightest). -/
def level : List (List Bytes) → Bytes → Option Nat
  | [], _ => none
  | set :: rest, op => if set.contains op then some 0 else (level rest op).map (· + 1)

namespace Tree

def isAtom : Tree → Bool
  | .bin .. => false
  | _ => true

/-- Level of the root operator; atoms have none (they bind tighter than everything). -/
def rootLvl (table : List (List Bytes)) : Tree → Option Nat
  | .bin _ op _ _ => level table op
  | _ => none

def flatten : Tree → List Token
  | .lit v => [⟨v, .lit⟩]
  | .grp s _ => [⟨s, .group⟩]
  | .un m e => ⟨m, .mod⟩ :: flatten e
  | .bin implied op l r => flatten l ++ (if implied then [] else [⟨op, .op⟩]) ++ flatten r

/-- The first token of the flattening is a group. -/
def startsWithGroup : Tree → Bool
  | .lit _ => false
  | .grp _ _ => true
  | .un _ _ => false
  | .bin _ _ l _ => startsWithGroup l

/-- Every literal leaf (also inside groups) satisfies `p`. -/
def allLits (p : Bytes → Bool) : Tree → Bool
  | .lit v => p v
  | .grp _ e => allLits p e
  | .un _ e => allLits p e
  | .bin _ _ l r => allLits p l && allLits p r

def size : Tree → Nat
  | .lit _ => 1
  | .grp _ e => size e + 1
  | .un _ e => size e + 1
  | .bin _ _ l r => size l + size r + 1

end Tree

inductive WellPrec (table : List (List Bytes)) : Tree → Prop
  | lit (v) : WellPrec table (.lit v)
  | grp (s e) : WellPrec table e → WellPrec table (.grp s e)
  | un (m e) : e.isAtom = true → WellPrec table e → WellPrec table (.un m e)
  | bin (implied op l r) (lv : Nat) :
      WellPrec table l → WellPrec table r →
      level table op = some lv →
      (∀ x, l.rootLvl table = some x → x ≤ lv) →
      (∀ x, r.rootLvl table = some x → x < lv) →
      (implied = true → op = starOp ∧ r.startsWithGroup = true) →
      WellPrec table (.bin implied op l r)

/-- Every group's text tokenizes to the flattening of the group's parse. -/
inductive Deep (tok : Bytes → Option (List Token)) : Tree → Prop
  | lit (v) : Deep tok (.lit v)
  | grp (s e) : tok s = some e.flatten → Deep tok e → Deep tok (.grp s e)
  | un (m e) : Deep tok e → Deep tok (.un m e)
  | bin (i op l r) : Deep tok l → Deep tok r → Deep tok (.bin i op l r)

/-! ### Values -/

/-- Result of reading a literal token as a number. -/
inductive NumRes (α : Type) where
  | val (v : α)
  | notNum
  /-- a spelling the instance declines to model (the driver then answers `unmodelled`) -/
  | unmodelled (why : String)

/-- The arithmetic a formula is evaluated in (float64 in the real code).  Kept abstract for the
    parsing and simplification theorems. -/
structure Arith (α : Type) where
  zero : α
  /-- `float64(v)` of a literal accepted by `strconv.ParseInt(s, 0, 64)` -/
  ofInt : Int → α
  /-- `strconv.ParseFloat(s, 64)` of a literal token that `ParseInt` rejected; `notNum` = error
      (syntax, or range: the value rounds to ±Inf) -/
  parseFloat : Bytes → NumRes α
  inf : α
  nan : α
  /-- `ops[code]` -/
  bin : Bytes → α → α → α
  /-- `uniOps[code]` -/
  un : Bytes → α → α

/-- A variable binding (`stdmath.Context`). -/
structure Binding (α : Type) where
  getMatch : Int → α
  getKey : Bytes → α

/-- What a literal token denotes. -/
inductive Atom (α : Type) where
  | num (v : α)
  | named (n : Bytes)
  | idx (i : Int)
  deriving DecidableEq

def Atom.eval {α : Type} (b : Binding α) : Atom α → α
  | .num v => v
  | .named n => b.getKey n
  | .idx i => b.getMatch i

/-- Value of a parse tree; `cls` says what a literal token denotes (`none` = not a literal the
    language accepts; such trees are never produced by a successful compilation). -/
def Tree.eval {α : Type} (A : Arith α) (cls : Bytes → Option (Atom α)) (b : Binding α) : Tree → α
  | .lit v => match cls v with
    | some a => a.eval b
    | none => A.zero
  | .grp _ e => e.eval A cls b
  | .un m e => A.un m (e.eval A cls b)
  | .bin _ op l r => A.bin op (l.eval A cls b) (r.eval A cls b)

end Rare.C19
