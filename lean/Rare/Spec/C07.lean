import Rare.Base.GoInt
/-!
Specification for C07: aggregators hold the exact fold of their sample history.

A history is the list of raw sample strings handed to `Sample`.  Everything here is a plain
fold / sum over that list; nothing mentions maps, index vectors or running totals.
All integer results are int64 values: the exact (unbounded) sum reduced by `wrap64`, which is
the identity whenever the exact sum is representable (`wrap64_of_inRange` in `Proofs/C07`).
-/
namespace Rare.C07

/-! ### splitting a sample into fields (`strings.Split` semantics) -/

def consHead (b : UInt8) : List Bytes → List Bytes
  | [] => [[b]]
  | h :: t => (b :: h) :: t

/-- `strings.Split(s, d)` for a non-empty delimiter `d`: leftmost, non-overlapping occurrences. -/
def splitOn (d : Bytes) : Bytes → List Bytes
  | [] => [[]]
  | b :: r =>
    if d.isPrefixOf (b :: r) then [] :: splitOn d (r.drop (d.length - 1))
    else consHead b (splitOn d r)
termination_by s => s.length
decreasing_by all_goals simp_wf; all_goals omega

/-- The NUL byte separates key / sub-key / increment in counter samples. -/
def nul : Bytes := [0]

/-- A parsed sample: its keys and `some inc` or `none` for an increment that is not an int64. -/
structure Parsed where
  k1 : Bytes
  k2 : Bytes
  inc : Option Int
  deriving Repr, DecidableEq

/-- histogram counter: `key` or `key NUL inc [NUL ignored…]`. -/
def parseCounter (e : Bytes) : Parsed :=
  match splitOn nul e with
  | k :: v :: _ => ⟨k, [], atoi v⟩
  | [k] => ⟨k, [], some 1⟩
  | [] => ⟨[], [], some 1⟩

/-- sub-key counter: `key`, `key NUL sub`, or `key NUL sub NUL inc […]`. -/
def parseSubKey (e : Bytes) : Parsed :=
  match splitOn nul e with
  | k :: s :: v :: _ => ⟨k, s, atoi v⟩
  | [k, s] => ⟨k, s, some 1⟩
  | [k] => ⟨k, [], some 1⟩
  | [] => ⟨[], [], some 1⟩

/-- table: `col`, `col d row`, or `col d row d inc […]` (`k1` = column, `k2` = row). -/
def parseTable (d : Bytes) (e : Bytes) : Parsed :=
  match splitOn d e with
  | c :: r :: v :: _ => ⟨c, r, atoi v⟩
  | [c, r] => ⟨c, r, some 1⟩
  | [c] => ⟨c, [], some 1⟩
  | [] => ⟨[], [], some 1⟩

/-! ### folds over parsed histories -/

/-- Exact sum of `f` over a list. -/
def sumBy {α : Type} (f : α → Int) : List α → Int
  | [] => 0
  | x :: r => f x + sumBy f r

/-- The increment of a sample if it is valid and selected by `sel`, else 0. -/
def incIf (sel : Parsed → Bool) (p : Parsed) : Int :=
  match p.inc with
  | some v => if sel p then v else 0
  | none => 0

/-- int64 sum of the increments of the valid samples selected by `sel`. -/
def total (sel : Parsed → Bool) (h : List Parsed) : Int := wrap64 (sumBy (incIf sel) h)

/-- Some valid sample is selected by `sel` (the key / row / column / cell exists). -/
def present (sel : Parsed → Bool) (h : List Parsed) : Bool :=
  h.any fun p => p.inc.isSome && sel p

/-- Number of samples whose increment did not parse. -/
def errorCount (h : List Parsed) : Nat := h.countP fun p => p.inc.isNone

/-- Strict byte-wise lexicographic order (Go's `<` on strings). -/
def bLt : Bytes → Bytes → Bool
  | [], [] => false
  | [], _ :: _ => true
  | _ :: _, [] => false
  | a :: x, b :: y => a.toNat < b.toNat || (a == b && bLt x y)

/-- `l` is *the* sorted duplicate-free list of the elements satisfying `mem`. -/
def IsSortedSetOf (l : List Bytes) (mem : Bytes → Prop) : Prop :=
  l.Pairwise (fun a b => bLt a b = true) ∧ ∀ x, x ∈ l ↔ mem x

/-! ### table grid statistics -/

def selCell (c r : Bytes) (p : Parsed) : Bool := p.k1 == c && p.k2 == r
def selCol (c : Bytes) (p : Parsed) : Bool := p.k1 == c
def selRow (r : Bytes) (p : Parsed) : Bool := p.k2 == r
def selAll (_ : Parsed) : Bool := true
/-- counters: samples of key `k` / of key `k` and sub-key `s` / of sub-key `s`. -/
def selKey (k : Bytes) (p : Parsed) : Bool := p.k1 == k
def selKeySub (k s : Bytes) (p : Parsed) : Bool := p.k1 == k && p.k2 == s
def selSub (s : Bytes) (p : Parsed) : Bool := p.k2 == s

/-- `m` is the minimum of the cell values over the full rows × columns grid
(absent cells are sums over nothing, i.e. 0); `0` for an empty grid. -/
def IsGridMin (h : List Parsed) (m : Int) : Prop :=
  if present selAll h then
    (∃ c r, present (selCol c) h ∧ present (selRow r) h ∧ total (selCell c r) h = m) ∧
    (∀ c r, present (selCol c) h → present (selRow r) h → m ≤ total (selCell c r) h)
  else m = 0

def IsGridMax (h : List Parsed) (m : Int) : Prop :=
  if present selAll h then
    (∃ c r, present (selCol c) h ∧ present (selRow r) h ∧ total (selCell c r) h = m) ∧
    (∀ c r, present (selCol c) h → present (selRow r) h → total (selCell c r) h ≤ m)
  else m = 0

/-! ### numerical aggregator (exact, over ℚ) -/

def ratSum : List Rat → Rat
  | [] => 0
  | x :: r => x + ratSum r

def mean (l : List Rat) : Rat := ratSum l / l.length

/-- Sum of squared deviations from the mean. -/
def m2 (l : List Rat) : Rat := ratSum (l.map fun x => (x - mean l) * (x - mean l))

/-- Sample variance (n − 1 denominator), 0 for fewer than two samples. -/
def sampleVariance (l : List Rat) : Rat := if l.length > 1 then m2 l / ((l.length : Rat) - 1) else 0

/-- `x` is a least / greatest element of `l`. -/
def IsMin (l : List Rat) (x : Rat) : Prop := x ∈ l ∧ ∀ y ∈ l, x ≤ y
def IsMax (l : List Rat) (x : Rat) : Prop := x ∈ l ∧ ∀ y ∈ l, y ≤ x

/-- `s` is the ascending (or, reversed, descending) arrangement of the multiset `l`. -/
def IsSortedOf (rev : Bool) (s l : List Rat) : Prop :=
  s.Perm l ∧ s.Pairwise (fun a b => if rev then b ≤ a else a ≤ b)

/-- Nearest-rank order statistic: the element of 0-based rank `k` of the sorted samples. -/
def IsRank (rev : Bool) (l : List Rat) (k : Nat) (x : Rat) : Prop :=
  ∃ s, IsSortedOf rev s l ∧ s[k]? = some x

end Rare.C07
