import Rare.Spec.C07
/-!
Specification of the accumulating-group aggregator (`rare reduce`): the straightforward fold.

Nothing here mentions splitters, index maps, in-place row mutation or the three-way branch of
`buildGroupKey`.  An expression is any function of what it may ask its context
(`Lookups`: the parts of the sampled element, and named values); `.error` = evaluation panics.

* the state is a map from group key to row;
* the group key of a sample is the NUL-join of the values of the group expressions;
* a sample replaces its group's row (the `initial` values on first sight) by the left fold of the
  columns over it: column `i` is re-evaluated with `.` = its own current value and every column name
  = that column's value in the row as updated so far (earlier columns new, later columns old).
-/
namespace Rare.C07

/-- What an expression can ask of its context. -/
structure Lookups where
  part : Int → Bytes
  key : Bytes → Bytes

abbrev SExpr := Lookups → Except String Bytes

/-- `{0}` is the whole element, `{n}` (n ≥ 1) its n-th NUL-separated part, anything else empty. -/
def partOf (e : Bytes) (i : Int) : Bytes :=
  if i = 0 then e else if i < 0 then [] else (splitOn nul e).getD (i.toNat - 1) []

/-- Join with NUL (`[]` for no parts). -/
def nulJoin : List Bytes → Bytes
  | [] => []
  | [a] => a
  | a :: b :: r => a ++ nul ++ nulJoin (b :: r)

/-- A data column: name, initial value, expression. -/
structure SCol where
  name : Bytes
  initial : Bytes
  eval : SExpr

/-- Group expressions see the element only: every key (also `.`) is empty. -/
def groupLookups (e : Bytes) : Lookups := { part := partOf e, key := fun _ => [] }

def groupKeyOf (gs : List SExpr) (e : Bytes) : Except String Bytes :=
  (gs.mapM (m := Except String) fun (g : SExpr) => g (groupLookups e)).map nulJoin

/-- The value of the column named `k` in `row` ("" when there is no such column). -/
def named (names : List Bytes) (row : List Bytes) (k : Bytes) : Bytes :=
  ((names.zip row).lookup k).getD []

/-- What column `i` sees while it is re-evaluated against `row`. -/
def colLookups (names : List Bytes) (e : Bytes) (row : List Bytes) (i : Nat) : Lookups :=
  { part := partOf e, key := fun k => if k = [46] then row.getD i [] else named names row k }

/-- Re-evaluate column `i` of `row`. -/
def updCol (cols : List SCol) (e : Bytes) (row : List Bytes) (i : Nat) : Except String (List Bytes) :=
  match cols[i]? with
  | none => .ok row
  | some c => (c.eval (colLookups (cols.map (·.name)) e row i)).map fun v => row.set i v

/-- One sample applied to a row: left fold over the columns. -/
def updRow (cols : List SCol) (row : List Bytes) (e : Bytes) : Except String (List Bytes) :=
  (List.range cols.length).foldlM (updCol cols e) row

def initialRow (cols : List SCol) : List Bytes := cols.map (·.initial)

abbrev SState := Bytes → Option (List Bytes)

def specSample (gs : List SExpr) (cols : List SCol) (st : SState) (e : Bytes) : Except String SState :=
  match groupKeyOf gs e with
  | .error m => .error m
  | .ok k =>
    match updRow cols ((st k).getD (initialRow cols)) e with
    | .error m => .error m
    | .ok row => .ok fun k' => if k' = k then some row else st k'

/-- The state after a history: a left fold of `specSample` from the empty map. -/
def specRun (gs : List SExpr) (cols : List SCol) (h : List Bytes) : Except String SState :=
  h.foldlM (specSample gs cols) (fun _ => none)

/-- The samples of `h` that belong to group `k`, in order. -/
def subHistory (gs : List SExpr) (h : List Bytes) (k : Bytes) : List Bytes :=
  h.filter fun e => match groupKeyOf gs e with
    | .ok k' => k' == k
    | .error _ => false

/-- The definitions accepted out of a sequence of `Add…` calls `(name, compiled?)`: those that
compiled, first of each name. -/
def acceptedBy {α : Type} (name : α → Bytes) (ok : α → Bool) : List α → List α
  | [] => []
  | d :: r => if ok d then d :: (acceptedBy name ok r).filter (fun x => name x != name d)
              else acceptedBy name ok r

end Rare.C07
