import Rare.Base.Bytes
/-!
Specification side of property C20 ("the live terminal shows the latest text of every line,
within its width").

* `decodeUtf8` / `encodeRune` – Go's UTF-8 reading (`[]rune(s)`: every invalid byte becomes U+FFFD)
  and writing (`string(runes)`).
* `Term` – a VT100-subset terminal: a state machine over runes (printable rune, `\n`, `\r`,
  `ESC [ n A`, `ESC [ K` / `ESC [ 0 K`, `ESC [ ? 25 l/h`, SGR `ESC [ … m` of zero width, every
  other control / CSI ignored).  Screen = rows of cells, a row is the list of its cells up to the
  last written one (cells to the right are blank).  Wrap is deferred ("pending wrap"): after the
  last column is written the cursor column equals the width; the next printable rune first moves to
  column 0 of the next row.  `ESC[K` in that state erases nothing (the behaviour of tmux, against
  which this machine was compared cell by cell).
* `latest` – "last text written to line i" as a fold over the update history.
* `visibleRunes` – a text without its colour sequences; `shown` – what the row must show.
-/
namespace Rare.C20

/-- a rune is a code point (plain `Nat`, so that `omega` sees through it) -/
scoped notation "Rune" => Nat

def runeError : Rune := 0xFFFD

/-! ### UTF-8 (Go semantics) -/

/-- lower bound accepted for the second byte after lead byte `b0` (Go `acceptRanges`) -/
def accLo (b0 : Nat) : Nat := if b0 = 0xE0 then 0xA0 else if b0 = 0xF0 then 0x90 else 0x80
def accHi (b0 : Nat) : Nat := if b0 = 0xED then 0x9F else if b0 = 0xF4 then 0x8F else 0xBF

def isCont (b : Nat) : Bool := 0x80 ≤ b && b ≤ 0xBF

/-- `utf8.DecodeRune`: the first rune of a non-empty byte string and its width; every byte that
does not start a well-formed sequence is U+FFFD of width 1. -/
def decode1 : Bytes → Rune × Nat
  | [] => (runeError, 1)
  | b0 :: tl =>
    let x := b0.toNat
    if x < 0x80 then (x, 1)
    else match tl with
      | [] => (runeError, 1)
      | b1 :: tl1 =>
        let y := b1.toNat
        if 0xC2 ≤ x ∧ x ≤ 0xDF ∧ isCont y then ((x - 0xC0) * 64 + (y - 0x80), 2)
        else match tl1 with
          | [] => (runeError, 1)
          | b2 :: tl2 =>
            let z := b2.toNat
            if 0xE0 ≤ x ∧ x ≤ 0xEF ∧ accLo x ≤ y ∧ y ≤ accHi x ∧ isCont z then
              ((x - 0xE0) * 4096 + (y - 0x80) * 64 + (z - 0x80), 3)
            else match tl2 with
              | [] => (runeError, 1)
              | b3 :: _ =>
                let w := b3.toNat
                if 0xF0 ≤ x ∧ x ≤ 0xF4 ∧ accLo x ≤ y ∧ y ≤ accHi x ∧ isCont z ∧ isCont w then
                  ((x - 0xF0) * 262144 + (y - 0x80) * 4096 + (z - 0x80) * 64 + (w - 0x80), 4)
                else (runeError, 1)

def decodeFuel : Nat → Bytes → List Rune
  | 0, _ => []
  | _ + 1, [] => []
  | f + 1, b :: tl =>
    let d := decode1 (b :: tl)
    d.1 :: decodeFuel f (tl.drop (d.2 - 1))

/-- `[]rune(s)`: well-formed sequences decode to their code point, every other byte to U+FFFD. -/
def decodeUtf8 (b : Bytes) : List Rune := decodeFuel b.length b

/-- a Unicode scalar value -/
def validScalar (r : Nat) : Prop := r < 0xD800 ∨ (0xE000 ≤ r ∧ r < 0x110000)

instance (r : Nat) : Decidable (validScalar r) := by unfold validScalar; exact inferInstance

/-- `string(rune)` / `utf8.AppendRune`: surrogates and out-of-range values are written as U+FFFD. -/
def encodeRune (r : Nat) : Bytes :=
  if r < 0x80 then [UInt8.ofNat r]
  else if r < 0x800 then [UInt8.ofNat (0xC0 + r / 64), UInt8.ofNat (0x80 + r % 64)]
  else if (0xD800 ≤ r ∧ r < 0xE000) ∨ 0x110000 ≤ r then [0xEF, 0xBF, 0xBD]
  else if r < 0x10000 then
    [UInt8.ofNat (0xE0 + r / 4096), UInt8.ofNat (0x80 + r / 64 % 64), UInt8.ofNat (0x80 + r % 64)]
  else
    [UInt8.ofNat (0xF0 + r / 262144), UInt8.ofNat (0x80 + r / 4096 % 64),
     UInt8.ofNat (0x80 + r / 64 % 64), UInt8.ofNat (0x80 + r % 64)]

def encodeUtf8 (rs : List Rune) : Bytes := rs.flatMap encodeRune

/-- the byte string is well-formed UTF-8 (decoding and re-encoding gives it back) -/
def ValidUtf8 (b : Bytes) : Prop := encodeUtf8 (decodeUtf8 b) = b

/-! ### The terminal -/

def ESC : Rune := 27
def LF : Rune := 10
def CR : Rune := 13
def blank : Rune := 32

inductive PState where
  | ground
  | esc
  | csi (params : List Rune)
  deriving DecidableEq, Repr

structure Term where
  width : Nat
  height : Nat
  /-- the tty maps `\n` to `\r\n` (ONLCR); theorems hold for both settings -/
  onlcr : Bool
  rows : Nat → List Rune
  row : Nat
  col : Nat
  cursorVisible : Bool
  ps : PState

def setRow (rows : Nat → List Rune) (i : Nat) (v : List Rune) : Nat → List Rune :=
  fun j => if j = i then v else rows j

/-- put rune `r` into cell `c` of a row (cells between the old end and `c` become blanks) -/
def writeAt (cells : List Rune) (c : Nat) (r : Rune) : List Rune :=
  cells.take c ++ List.replicate (c - cells.length) blank ++ [r] ++ cells.drop (c + 1)

/-- move down one row, scrolling the screen up when already on the last row -/
def Term.down (t : Term) : Term :=
  if t.row + 1 < t.height then { t with row := t.row + 1 }
  else { t with rows := fun j => if j + 1 < t.height then t.rows (j + 1) else [] }

def Term.lineFeed (t : Term) : Term :=
  let t' := t.down
  if t.onlcr then { t' with col := 0 } else t'

def Term.putChar (t : Term) (r : Rune) : Term :=
  let t' := if t.col ≥ t.width then { t.down with col := 0 } else t
  { t' with rows := setRow t'.rows t'.row (writeAt (t'.rows t'.row) t'.col r), col := t'.col + 1 }

def Term.eraseToEol (t : Term) : Term :=
  { t with rows := setRow t.rows t.row ((t.rows t.row).take t.col) }

def digitVal (r : Rune) : Option Nat := if 48 ≤ r ∧ r ≤ 57 then some (r - 48) else none

/-- decimal parameter; `none` when it is not a plain number -/
def parseNum : List Rune → Option Nat
  | [] => none
  | ds => ds.foldl (fun acc d => match acc, digitVal d with
                      | some a, some v => some (a * 10 + v)
                      | _, _ => none) (some 0)

def Term.dispatch (t : Term) (params : List Rune) (final : Rune) : Term :=
  if final = 65 then                       -- 'A' cursor up, default / 0 = 1
    match (if params = [] then some 1 else parseNum params) with
    | some n => let k := if n = 0 then 1 else n
                { t with row := t.row - min k t.row }
    | none => t
  else if final = 75 then                  -- 'K' erase in line; only "to end of line" is in the subset
    if params = [] ∨ params = [48] then t.eraseToEol else t
  else if final = 108 then                 -- 'l'
    if params = [63, 50, 53] then { t with cursorVisible := false } else t
  else if final = 104 then                 -- 'h'
    if params = [63, 50, 53] then { t with cursorVisible := true } else t
  else t                                   -- 'm' (SGR: zero width, colours are not tracked) and everything else

def Term.step (t : Term) (r : Rune) : Term :=
  match t.ps with
  | .ground =>
    if r = ESC then { t with ps := .esc }
    else if r = LF then t.lineFeed
    else if r = CR then { t with col := 0 }
    else if r < 32 ∨ r = 127 then t
    else t.putChar r
  | .esc => if r = 91 then { t with ps := .csi [] } else { t with ps := .ground }
  | .csi ps =>
    if 0x20 ≤ r ∧ r ≤ 0x3F then { t with ps := .csi (ps ++ [r]) }
    else if 0x40 ≤ r ∧ r ≤ 0x7E then ({ t with ps := .ground }).dispatch ps r
    else { t with ps := .ground }

def Term.feed (t : Term) (rs : List Rune) : Term := rs.foldl Term.step t

/-- what the terminal does with a byte stream -/
def Term.feedBytes (t : Term) (b : Bytes) : Term := t.feed (decodeUtf8 b)

def Term.blank (width height : Nat) (onlcr : Bool) : Term :=
  { width, height, onlcr, rows := fun _ => [], row := 0, col := 0, cursorVisible := true, ps := .ground }

/-! ### Update histories -/

/-- the text most recently written to line `i` -/
def latest {κ α : Type} [DecidableEq κ] (h : List (κ × α)) (i : κ) : Option α :=
  h.foldl (fun acc u => if u.1 = i then some u.2 else acc) none

/-- largest line index of a history (0 for the empty one) – `TermWriter.maxLine` -/
def maxLineOf {α : Type} (h : List (Int × α)) : Int :=
  h.foldl (fun m u => if u.1 > m then u.1 else m) 0

/-- drop colour sequences: everything from an ESC up to and including the next `m` -/
def visibleRunes : List Rune → List Rune
  | [] => []
  | r :: rest => if r = ESC then skipSgr rest else r :: visibleRunes rest
where
  skipSgr : List Rune → List Rune
    | [] => []
    | r :: rest => if r = 109 then visibleRunes rest else skipSgr rest

/-- what a row must show for `text`: its visible runes, cut to the width when trimming is on -/
def shown (width : Nat) (trim : Bool) (text : Bytes) : List Rune :=
  let v := visibleRunes (decodeUtf8 text)
  if trim then v.take width else v

/-! ### Well-formed texts (tokens) -/

inductive Tok where
  | ch (r : Rune)
  | sgr (body : List Rune)      -- ESC body 'm'
  deriving DecidableEq, Repr

def Tok.render : Tok → List Rune
  | .ch r => [r]
  | .sgr b => ESC :: b ++ [109]

def renderToks (ts : List Tok) : List Rune := ts.flatMap Tok.render

def Tok.vis : Tok → List Rune
  | .ch r => [r]
  | .sgr _ => []

def visToks (ts : List Tok) : List Rune := ts.flatMap Tok.vis

/-- well-formed for the trimming scanner: escapes are terminated (`m` only as the terminator) -/
def Tok.Scannable : Tok → Prop
  | .ch r => r ≠ ESC
  | .sgr b => 109 ∉ b

/-- well-formed for the terminal: printable runes (no `\n`, `\r`, other controls) and SGR colour
sequences `ESC [ digits/; m` only (no cursor movement) -/
def Tok.Printable : Tok → Prop
  | .ch r => 32 ≤ r ∧ r ≠ 127
  | .sgr b => ∃ p, b = 91 :: p ∧ ∀ c ∈ p, 48 ≤ c ∧ c ≤ 59

end Rare.C20
