import Rare.Base.GoInt
/-!
Specification of the template syntax (property C09).

* `Expr` – what a template *means*: literal text, a group reference, a key reference or a call.
* `evalTree` – its value against an environment (groups, keys, function semantics).
* `escapeLit` – how arbitrary text is written outside braces.
* `printTop style e` – every admissible way of writing `e` down: white space after `{`, before `}`
  and between arguments is any run of Unicode `White_Space` runes the style chooses (at least one
  between arguments), and a literal argument is quoted or – where that is legal – bare, as the style
  chooses.

Nothing here mentions how rare parses.
-/
namespace Rare.C09

/-- UTF-8 of a rune list (what Go's `string([]rune)` is). -/
def utf8 (cs : List Char) : Bytes := cs.flatMap String.utf8EncodeChar

inductive Expr where
  | lit (s : List Char)
  | group (n : Nat)
  | key (k : List Char)
  | call (f : List Char) (args : List Expr)

structure Env where
  getMatch : Nat → Bytes
  getKey : Bytes → Bytes
  fn : List Char → List Bytes → Bytes

mutual
def evalTree (env : Env) : Expr → Bytes
  | .lit s => utf8 s
  | .group n => env.getMatch n
  | .key k => env.getKey (utf8 k)
  | .call f args => env.fn f (evalArgs env args)
def evalArgs (env : Env) : List Expr → List Bytes
  | [] => []
  | a :: rest => evalTree env a :: evalArgs env rest
end

/-! ### Literal text outside braces -/

def escapeChar (c : Char) : List Char :=
  if c = '\\' ∨ c = '{' ∨ c = '}' then ['\\', c]
  else if c = '\n' then ['\\', 'n']
  else if c = '\t' then ['\\', 't']
  else if c = '\r' then ['\\', 'r']
  else [c]

def escapeLit (s : List Char) : List Char := s.flatMap escapeChar

/-! ### Printing -/

/-- Unicode `White_Space` (Go's `unicode.IsSpace`). -/
def isSpace (c : Char) : Bool :=
  let n := c.toNat
  (9 ≤ n && n ≤ 13) || n == 0x20 || n == 0x85 || n == 0xA0 || n == 0x1680 ||
  (0x2000 ≤ n && n ≤ 0x200a) || n == 0x2028 || n == 0x2029 || n == 0x202f || n == 0x205f || n == 0x3000

/-- The four characters with a meaning inside braces. -/
def special (c : Char) : Bool := c == '"' || c == '\\' || c == '{' || c == '}'

/-- May stand between quotes. -/
def plain (s : List Char) : Bool := s.all (fun c => !special c)

/-- May stand bare (without quotes). -/
def bare (s : List Char) : Bool := !s.isEmpty && s.all (fun c => !special c && !isSpace c)

def digitChar (d : Nat) : Char := Char.ofNat (48 + d)

def decimal (n : Nat) : List Char :=
  if _h : n < 10 then [digitChar n] else decimal (n / 10) ++ [digitChar (n % 10)]
decreasing_by omega

/-- The 25 runes with the Unicode `White_Space` property – exactly the runes `isSpace` accepts
    (`wsChar_complete`): space, tab, LF, VT, FF, CR, NEL, NBSP, OGHAM SPACE MARK, EN QUAD … HAIR SPACE,
    LINE / PARAGRAPH SEPARATOR, NARROW NBSP, MEDIUM MATHEMATICAL SPACE, IDEOGRAPHIC SPACE. -/
def spaceRunes : List Char :=
  [' ', '\t', '\n', '\x0b', '\x0c', '\r', '\u0085', '\u00a0', '\u1680',
   '\u2000', '\u2001', '\u2002', '\u2003', '\u2004', '\u2005', '\u2006', '\u2007', '\u2008', '\u2009', '\u200a',
   '\u2028', '\u2029', '\u202f', '\u205f', '\u3000']

/-- A run of white space: each rune named by its index in `spaceRunes` (taken modulo 25, so every list
    of numbers is a run and every run of `White_Space` runes is such a list). -/
abbrev WsRun := List Nat

/-- Choices at one node of the tree. -/
structure NodeStyle where
  quote : Bool                      -- quote a literal argument although it could stand bare
  lead : WsRun                      -- after `{`
  trail : WsRun                     -- before `}`
  sep : Nat → Nat × WsRun           -- before argument `i` (non-empty by construction)

/-- A style gives the choices for every node, addressed by its path from the root. -/
abbrev Style := List Nat → NodeStyle

def Style.child (σ : Style) (i : Nat) : Style := fun p => σ (i :: p)

def wsChar (n : Nat) : Char := spaceRunes.getD (n % 25) ' '
def ws (l : WsRun) : List Char := l.map wsChar
def sepWs (p : Nat × WsRun) : List Char := ws (p.1 :: p.2)

mutual
/-- An expression in argument position (and any non-literal at top level). -/
def printArg (σ : Style) : Expr → List Char
  | .lit s => if (σ []).quote || !bare s then ['"'] ++ s ++ ['"'] else s
  | .group n => ['{'] ++ ws (σ []).lead ++ decimal n ++ ws (σ []).trail ++ ['}']
  | .key k => ['{'] ++ ws (σ []).lead ++ k ++ ws (σ []).trail ++ ['}']
  | .call f args => ['{'] ++ ws (σ []).lead ++ f ++ printArgs σ 0 args ++ ws (σ []).trail ++ ['}']
def printArgs (σ : Style) (i : Nat) : List Expr → List Char
  | [] => []
  | a :: rest => sepWs ((σ []).sep i) ++ printArg (σ.child i) a ++ printArgs σ (i + 1) rest
end

/-- A whole template: literal text is escaped, everything else is a braced statement. -/
def printTop (σ : Style) : Expr → List Char
  | .lit s => escapeLit s
  | e => printArg σ e

/-! ### Admissible atoms (the documented grammar) -/

/-- A key or function name: non-empty, no white space, none of `" \ { }`. -/
abbrev token (s : List Char) : Bool := bare s

mutual
def Admissible : Expr → Prop
  | .lit s => plain s = true
  | .group n => (n : Int) ≤ maxInt64
  | .key k => token k = true ∧ atoi (utf8 k) = none          -- an integer would be a group reference
  | .call f args => token f = true ∧ args ≠ [] ∧ AdmissibleArgs args
def AdmissibleArgs : List Expr → Prop
  | [] => True
  | a :: rest => Admissible a ∧ AdmissibleArgs rest
end

/-- At top level any literal text is admissible (it is escaped). -/
def AdmissibleTop : Expr → Prop
  | .lit _ => True
  | e => Admissible e

/-! ### Argument lists: what "split at unquoted, unbraced white space" means

An argument list is a sequence of pieces separated by white space.  A piece is a bare word, a quoted
string, or a braced group; the text inside braces is any text in which braces and quotes are balanced
(`Inner`).  The value of a piece is the word, the string without its quotes, the group verbatim. -/

/-- Text that may stand inside braces: no backslash, quotes paired, braces nested. -/
inductive Inner : List Char → Prop
  | nil : Inner []
  | char (c : Char) (t : List Char) : special c = false → Inner t → Inner (c :: t)
  | quoted (s t : List Char) : plain s = true → Inner t → Inner (['"'] ++ s ++ ['"'] ++ t)
  | braces (b t : List Char) : Inner b → Inner t → Inner (['{'] ++ b ++ ['}'] ++ t)

inductive Piece where
  | bare (s : List Char)
  | quoted (s : List Char)
  | braced (body : List Char)

def Piece.text : Piece → List Char
  | .bare s => s
  | .quoted s => ['"'] ++ s ++ ['"']
  | .braced b => ['{'] ++ b ++ ['}']

def Piece.value : Piece → List Char
  | .bare s => s
  | .quoted s => s
  | .braced b => ['{'] ++ b ++ ['}']

def Piece.ok : Piece → Prop
  | .bare s => Rare.C09.bare s = true
  | .quoted s => plain s = true
  | .braced b => Inner b

def allSpace (w : List Char) : Bool := w.all isSpace

/-- Pieces, each preceded by its white space. -/
def layout : List (List Char × Piece) → List Char
  | [] => []
  | (w, p) :: rest => w ++ p.text ++ layout rest

/-- Every piece is well formed, is preceded by white space only, and all but the first are preceded by
    at least one white-space character. -/
def LayoutOk : Bool → List (List Char × Piece) → Prop
  | _, [] => True
  | first, (w, p) :: rest => allSpace w = true ∧ (first = true ∨ w ≠ []) ∧ p.ok ∧ LayoutOk false rest

/-! ### Unterminated statements -/

/-- Brace depth at the end of a template: a backslash hides the next character (`esc`), a `}` outside
    any statement is ordinary text. -/
def braceDepth : Bool → Nat → List Char → Nat
  | _, d, [] => d
  | true, d, _ :: rest => braceDepth false d rest
  | false, d, c :: rest =>
    if c = '\\' then braceDepth true d rest
    else if c = '{' then braceDepth false (d + 1) rest
    else if c = '}' then braceDepth false (d - 1) rest
    else braceDepth false d rest

/-- Some `{` is never closed. -/
def Unterminated (t : List Char) : Prop := braceDepth false 0 t ≠ 0

end Rare.C09
