import Rare.Model.C06Gzip
/-!
Specification side of the gzip header: the member header of RFC 1952 section 2.3 as a *writer* lays it out,
without reference to how `compress/gzip` reads it.

    +---+---+---+---+---+---+---+---+---+---+
    |ID1|ID2|CM |FLG|     MTIME     |XFL|OS |          ID1 = 1f, ID2 = 8b, CM = 8
    +---+---+---+---+---+---+---+---+---+---+
    (if FLG.FEXTRA)   | XLEN (2, little endian) | XLEN bytes |
    (if FLG.FNAME)    | file name, zero-terminated |
    (if FLG.FCOMMENT) | comment, zero-terminated |
    (if FLG.FHCRC)    | CRC16 = low 16 bits of the CRC-32 of all bytes of the header before it |

`Hdr` carries the FLG byte as it is (FTEXT and the reserved bits 5‥7 are whatever they are: Go does not look at
them) and the optional fields; a field whose flag bit is clear is not written.
-/
namespace Rare.C06.Gz

structure Hdr where
  flg : UInt8
  /-- MTIME (4 bytes), XFL, OS -/
  mid : Bytes
  extra : Bytes
  name : Bytes
  comment : Bytes
  deriving Repr

/-- what a header field can hold: 6 fixed bytes; XLEN is 16 bits; the strings are zero-terminated (no NUL inside) and
    `compress/gzip` reads them into a 512-byte buffer together with the terminator -/
def Hdr.WF (h : Hdr) : Prop :=
  h.mid.length = 6 ∧ h.extra.length < 65536 ∧
  ((0 : UInt8) ∉ h.name ∧ h.name.length ≤ 511) ∧ ((0 : UInt8) ∉ h.comment ∧ h.comment.length ≤ 511)

/-- 16 bits, little endian -/
def enc16 (n : Nat) : Bytes := [UInt8.ofNat (n % 256), UInt8.ofNat (n / 256)]

/-- everything before the header CRC -/
def Hdr.body (h : Hdr) : Bytes :=
  [0x1f, 0x8b, 8, h.flg] ++ h.mid ++
  (if h.flg &&& flagExtra ≠ 0 then enc16 h.extra.length ++ h.extra else []) ++
  (if h.flg &&& flagName ≠ 0 then h.name ++ [0] else []) ++
  (if h.flg &&& flagComment ≠ 0 then h.comment ++ [0] else [])

def Hdr.encode (h : Hdr) : Bytes :=
  h.body ++ (if h.flg &&& flagHdrCrc ≠ 0 then enc16 ((crcUpdate 0 h.body).toNat % 65536) else [])

end Rare.C06.Gz
