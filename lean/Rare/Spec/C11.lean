import Rare.Base.GoInt
/-!
# C11 — what the scalar helpers are documented to compute

One definition per helper, over unbounded `Int` / plain byte lists.  Nothing here mentions how
rare computes anything.
-/
namespace Rare.C11.Spec
open Rare

/-- `{sumi a b c …}` etc.: a left fold of a binary operation. -/
def foldInts (op : Int → Int → Int) : List Int → Option Int
  | [] => none
  | a :: rest => some (rest.foldl op a)

/-- `b` is the bucket of `v` for size `s`: the multiple of `s` with `b ≤ v < b + s`. -/
def IsBucket (v s b : Int) : Prop := s ∣ b ∧ b ≤ v ∧ v < b + s

/-- The bucket as a function (floor division; `Int./` rounds down for positive `s`). -/
def floorBucket (v s : Int) : Int := v / s * s

/-- `{bucketrange v s}`: "`lo - hi`" with `hi` the last value of the bucket. -/
def bucketRange (v s : Int) : Bytes := itoa (floorBucket v s) ++ ascii " - " ++ itoa (floorBucket v s + s - 1)

/-- `r` is the largest power of ten that is `≤ v`. -/
def IsExpBucket (v r : Int) : Prop := ∃ k : Nat, r = 10 ^ k ∧ r ≤ v ∧ v < 10 * r

/-- `{substr s left len}`: a negative `left` counts from the end, both ends are clamped. -/
def substr (s : Bytes) (left len : Int) : Bytes :=
  let n : Int := s.length
  let start : Int := if left < 0 then max (left + n) 0 else min left n
  (s.drop start.toNat).take (max len 0).toNat

/-- Words separated by single spaces. -/
def joinWords : List Bytes → Bytes
  | [] => []
  | [w] => w
  | w :: rest => w ++ [32] ++ joinWords rest

/-- A word `{select}` treats as one field: non-empty, no white space / NUL, no quote. -/
def IsWord (w : Bytes) : Prop := w ≠ [] ∧ ∀ c ∈ w, c ≠ 32 ∧ c ≠ 9 ∧ c ≠ 10 ∧ c ≠ 0 ∧ c ≠ 34

/-! RFC 4180 record parser (one record, no line break outside quotes): fields separated by `,`;
a field is either free of `"` `,` CR LF, or enclosed in `"` with `""` standing for `"`. -/

inductive CsvSt | start | unq | inq | qq
  deriving DecidableEq

def parseCsvGo : Bytes → CsvSt → Bytes → List Bytes → Option (List Bytes)
  | [], .inq, _, _ => none                         -- unterminated quoted field
  | [], _, cur, acc => some (acc ++ [cur])
  | c :: r, .start, cur, acc =>
    if c = 34 then parseCsvGo r .inq cur acc
    else if c = 44 then parseCsvGo r .start [] (acc ++ [cur])
    else if c = 13 ∨ c = 10 then none
    else parseCsvGo r .unq (cur ++ [c]) acc
  | c :: r, .unq, cur, acc =>
    if c = 34 ∨ c = 13 ∨ c = 10 then none
    else if c = 44 then parseCsvGo r .start [] (acc ++ [cur])
    else parseCsvGo r .unq (cur ++ [c]) acc
  | c :: r, .inq, cur, acc =>
    if c = 34 then parseCsvGo r .qq cur acc else parseCsvGo r .inq (cur ++ [c]) acc
  | c :: r, .qq, cur, acc =>
    if c = 34 then parseCsvGo r .inq (cur ++ [34]) acc
    else if c = 44 then parseCsvGo r .start [] (acc ++ [cur])
    else none

def parseCsvRecord (s : Bytes) : Option (List Bytes) := parseCsvGo s .start [] []

/-- Remove the thousands separators. -/
def stripCommas (s : Bytes) : Bytes := s.filter (· ≠ 44)

/-- Lengths of the `,`-separated groups of a digit string. -/
def groupLengths : Bytes → Nat → List Nat
  | [], n => [n]
  | c :: r, n => if c = 44 then n :: groupLengths r 0 else groupLengths r (n + 1)

/-- Grouping in threes from the right: the first group has 1–3 digits, all others exactly 3. -/
def groupedInThrees (s : Bytes) : Bool :=
  match groupLengths s 0 with
  | [] => false
  | g :: rest => decide (1 ≤ g) && decide (g ≤ 3) && rest.all (· == 3)

/-- The number without its sign. -/
def dropSign : Bytes → Bytes
  | 45 :: r => r
  | r => r

end Rare.C11.Spec
