import Rare.Spec.C12
/-!
A second, DECLARATIVE specification of dissect matching (property C12), independent of the
"first occurrence" wording of `Spec/C12.lean`.

The source says of `FindSubmatchIndex`: "replicates logic from regex".  A dissect pattern
`lit₀ %{k₁}lit₁ … %{kₙ}litₙ` read as a regular expression is

    lit₀ (.*?) lit₁ (.*?) lit₂ … (.*?) litₙ          (a token without trailing literal: `(.*)$`)

with the leftmost match and LAZY groups: among all ways to split the line according to the pattern
(`IsMatch`: a start `s` of the leading literal and one length per token) the answer is the
lexicographically least `(s, n₁, n₂, …)` – leftmost start, then the shortest first token, then the
shortest second token, … – and "no match" means that NO split exists at all.

`lazyDissect` is that semantics as a program: a backtracking matcher that tries the starts and the
token lengths in increasing order and backtracks when the rest of the pattern fails.  The theorems
(`Proofs/C12Lazy.lean`, `Props/C12.lean`) say that the one-pass scan of the specification – which
never backtracks – computes exactly this: the first occurrence is always the right choice.
-/
namespace Rare.C12

/-- first answer of `f start, f (start+1), …` (at most `fuel` tries) -/
def firstFrom {α : Type} (f : Nat → Option α) : Nat → Nat → Option α
  | 0, _ => none
  | k + 1, i =>
    match f i with
    | some x => some x
    | none => firstFrom f k (i + 1)

/-- Backtracking over the tokens from position `pos`: the text of a token is tried with length
`0, 1, 2, …`; a length is accepted when the trailing literal follows AND the rest of the pattern
matches after it.  A token without trailing literal takes the rest of the line. -/
def lazyToks (line : Bytes) : List Tok → Nat → Option (List Nat × Nat)
  | [], pos => some ([], pos)
  | t :: ts, pos =>
    if t.lit = [] then
      (lazyToks line ts (pos + (line.length - pos) + t.lit.length)).map fun ce =>
        ((if t.skip then [] else [pos, pos + (line.length - pos)]) ++ ce.1, ce.2)
    else
      firstFrom (fun n =>
        if t.lit.isPrefixOf (line.drop (pos + n)) then
          (lazyToks line ts (pos + n + t.lit.length)).map fun ce =>
            ((if t.skip then [] else [pos, pos + n]) ++ ce.1, ce.2)
        else none) (line.length - pos + 1) 0

/-- The backtracking matcher: starts `0, 1, 2, …` of the leading literal, each followed by
`lazyToks`; the first start for which the WHOLE pattern matches wins. -/
def lazyDissect (p : Pat) (line : Bytes) : Option (List Nat) :=
  firstFrom (fun s =>
    if p.pre.isPrefixOf (line.drop s) then
      (lazyToks line p.toks (s + p.pre.length)).map fun ce => s :: ce.2 :: ce.1
    else none) (line.length + 1) 0

def lazyDissectIC (p : Pat) (line : Bytes) : Option (List Nat) :=
  lazyDissect p.lowerLits (lower line)

/-- `ns` are the lengths of the token texts of one way to split `line` from `pos` on: token text,
trailing literal, token text, trailing literal, … (a token without trailing literal ends the line). -/
def IsSplit (line : Bytes) : List Tok → Nat → List Nat → Prop
  | [], _, ns => ns = []
  | _ :: _, _, [] => False
  | t :: ts, pos, n :: ns =>
    pos + n + t.lit.length ≤ line.length ∧
    (if t.lit = [] then pos + n = line.length else t.lit <+: line.drop (pos + n)) ∧
    IsSplit line ts (pos + n + t.lit.length) ns

/-- One way to read `line` as an instance of the pattern: the leading literal at `s`, then a split. -/
def IsMatch (p : Pat) (line : Bytes) (s : Nat) (ns : List Nat) : Prop :=
  s + p.pre.length ≤ line.length ∧ p.pre <+: line.drop s ∧ IsSplit line p.toks (s + p.pre.length) ns

/-- lexicographic order on choice vectors (`a` is tried no later than `b`) -/
def lexLE : List Nat → List Nat → Prop
  | [], _ => True
  | _ :: _, [] => False
  | a :: as, b :: bs => a < b ∨ (a = b ∧ lexLE as bs)

/-- capture offsets and end position of a split -/
def capsOf : List Tok → Nat → List Nat → List Nat × Nat
  | t :: ts, pos, n :: ns =>
    let ce := capsOf ts (pos + n + t.lit.length) ns
    ((if t.skip then [] else [pos, pos + n]) ++ ce.1, ce.2)
  | _, pos, _ => ([], pos)

/-- the index slice `[s, e, c₁s, c₁e, …]` that a split stands for -/
def offsetsOf (p : Pat) (s : Nat) (ns : List Nat) : List Nat :=
  let ce := capsOf p.toks (s + p.pre.length) ns
  s :: ce.2 :: ce.1

/-- the text a split assigns to the tokens and delimiters: `v₁ lit₁ v₂ lit₂ …` cut out of the line -/
def splitText (line : Bytes) : List Tok → Nat → List Nat → Bytes
  | t :: ts, pos, n :: ns =>
    (line.drop pos).take n ++ (line.drop (pos + n)).take t.lit.length ++
      splitText line ts (pos + n + t.lit.length) ns
  | _, _, _ => []


instance decIsSplit (line : Bytes) : (ts : List Tok) → (pos : Nat) → (ns : List Nat) → Decidable (IsSplit line ts pos ns)
  | [], _, ns => by unfold IsSplit; exact inferInstance
  | _ :: _, _, [] => by unfold IsSplit; exact inferInstance
  | t :: ts, pos, n :: ns => by
    have := decIsSplit line ts (pos + n + t.lit.length) ns
    unfold IsSplit; exact inferInstance

instance (p : Pat) (line : Bytes) (s : Nat) (ns : List Nat) : Decidable (IsMatch p line s ns) := by
  unfold IsMatch; exact inferInstance

instance decLexLE : (a b : List Nat) → Decidable (lexLE a b)
  | [], _ => by unfold lexLE; exact inferInstance
  | _ :: _, [] => by unfold lexLE; exact inferInstance
  | a :: as, b :: bs => by
    have := decLexLE as bs
    unfold lexLE; exact inferInstance


/-- the pattern text with the token texts `vs` substituted for the tokens: `lit₀ v₁ lit₁ v₂ lit₂ …` -/
def instantiate (p : Pat) (vs : List Bytes) : Bytes :=
  p.pre ++ ((vs.zip p.toks).map fun vt => vt.1 ++ vt.2.lit).flatten

/-- does the pattern end in a token without trailing literal (which then runs to the end of the line)? -/
def endsOpen (ts : List Tok) : Bool :=
  match ts.getLast? with
  | some t => t.lit == []
  | none => false

/-- **The line is an instance of the pattern** – the specification without positions: somewhere in
the line stands the pattern text with SOME texts in place of its tokens,
`line = before ++ lit₀ v₁ lit₁ … vₙ litₙ ++ after`, where nothing may follow (`after` empty) when the
last token has no trailing literal. -/
def IsInstance (p : Pat) (line : Bytes) : Prop :=
  ∃ (before : Bytes) (vs : List Bytes) (after : Bytes), vs.length = p.toks.length ∧
    line = before ++ instantiate p vs ++ after ∧ (endsOpen p.toks = true → after = [])

end Rare.C12
