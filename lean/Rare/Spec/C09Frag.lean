import Rare.Model.C09
import Rare.Model.Expr.Std
import Rare.Spec.C11
import Rare.Spec.C17
/-!
C09: the fragment of the STANDARD function table over which the print/compile round trip is proved
(`print_compile_std_fragment`, `Rare/Props/C09.lean`; proofs in `Rare/Proofs/C09Frag.lean`).

For every name of the fragment (`fragTable`): the builder the standard registry has under that name, the
admissible arities, the side condition on the argument *trees* where the Go builder inspects an argument at
compile time (an integer- or float-typed position holds a dynamic expression or something that evaluates to a
number: `typedPre`; a constant position holds a literal of the right type: `litInt`, `optLit`), and the
meaning of the function on argument VALUES (`…Sem`).  `stdSem` is the function environment of the tree
semantics (`evalTree`), `fragOk` the decidable predicate "every call in the tree is a call site of the
fragment".  Core Lean only: the correspondence driver evaluates `stdSem`/`fragOk` (op `stree`).
-/
namespace Rare.C09
open Rare Rare.Expr

/-- One name of the fragment: the registered builder, the admissible arities, the side condition on the
    argument trees (given the evaluation of a tree in the empty context and the dynamic certificate), the
    meaning on argument values, and whether the stage starts by running its first argument. -/
structure Entry where
  builder : Builder
  arity : Nat → Bool
  pre : (C09.Expr → Bytes) → (C09.Expr → Bool) → List C09.Expr → Bool
  sem : List Bytes → Bytes
  first : Bool

def noPre : (C09.Expr → Bytes) → (C09.Expr → Bool) → List C09.Expr → Bool := fun _ _ _ => true

namespace FL
open Funcs.Logic

def coalesceSem : List Bytes → Bytes
  | [] => []
  | v :: r => if v ≠ [] then v else coalesceSem r

def coalesceE : Entry := ⟨kfCoalesce, fun n => 1 ≤ n, noPre, coalesceSem, true⟩

def cmpGoSem (eq : Bytes → Bytes → Bytes) : Bytes → List Bytes → Bytes
  | val, [] => val
  | val, v :: r => cmpGoSem eq (eq val v) r

def cmpSem (eq : Bytes → Bytes → Bytes) : List Bytes → Bytes
  | a0 :: a1 :: rest => cmpGoSem eq a0 (a1 :: rest)
  | _ => []

def cmpE (eq : Bytes → Bytes → Bytes) : Entry := ⟨stringComparator eq, fun n => 2 ≤ n, noPre, cmpSem eq, true⟩

def notSem' : List Bytes → Bytes
  | [a] => if truthy a then FalsyVal else TruthyVal
  | _ => []

def notE : Entry := ⟨kfNot, fun n => n == 1, noPre, notSem', true⟩

def andSem : List Bytes → Bytes
  | [] => TruthyVal
  | v :: r => if v = FalsyVal then FalsyVal else andSem r

def andE : Entry := ⟨kfAnd, fun n => 1 ≤ n, noPre, andSem, true⟩

def orSem : List Bytes → Bytes
  | [] => FalsyVal
  | v :: r => if v ≠ FalsyVal then TruthyVal else orSem r

def orE : Entry := ⟨kfOr, fun n => 1 ≤ n, noPre, orSem, true⟩

def ifSem' : List Bytes → Bytes
  | [c, t] => if truthy c then t else FalsyVal
  | [c, t, e] => if truthy c then t else e
  | _ => []

def ifE : Entry := ⟨kfIf, fun n => n == 2 || n == 3, noPre, ifSem', true⟩

def unlessSem : List Bytes → Bytes
  | [c, t] => if !truthy c then t else []
  | _ => []

def unlessE : Entry := ⟨kfUnless, fun n => n == 2, noPre, unlessSem, true⟩

def switchSem : List Bytes → Bytes
  | [] => []
  | [d] => d
  | c :: v :: rest => if truthy c then v else switchSem rest

def switchE : Entry := ⟨kfSwitch, fun n => 2 ≤ n, noPre, switchSem, true⟩

end FL

/-- The side condition of a typed position: dynamic, or evaluating (in the empty context – a constant has
    the same value everywhere) to something the parser accepts. -/
def typedArg {α : Type} (parser : Bytes → Option α) (ev : C09.Expr → Bytes) (dyn : C09.Expr → Bool) (a : C09.Expr) : Bool :=
  dyn a || (parser (ev a)).isSome

def typedPre {α : Type} (parser : Bytes → Option α) : (C09.Expr → Bytes) → (C09.Expr → Bool) → List C09.Expr → Bool :=
  fun ev dyn args => args.all (typedArg parser ev dyn)

namespace FA
open Funcs.Arith

def intFoldSem (op : IntOp) : Int → List Bytes → Bytes
  | acc, [] => itoa acc
  | acc, v :: rest =>
    match atoi v with
    | none => ErrorNum
    | some x =>
      match op acc x with
      | none => ErrorValue
      | some r => intFoldSem op r rest

/-- `{sumi a b …}` and friends on argument VALUES: parse left to right, the first unparsable argument gives
    `<BAD-TYPE>`, an operation that rejects its operands (division by zero) `<VALUE>`. -/
def intSem (op : IntOp) : List Bytes → Bytes
  | [] => ErrorNum
  | v :: rest =>
    match atoi v with
    | none => ErrorNum
    | some x => intFoldSem op x rest

def intE (op : IntOp) : Entry := ⟨intHelper op, fun n => 2 ≤ n, typedPre atoi, intSem op, true⟩

def isintSem : List Bytes → Bytes
  | [a] => if (atoi a).isSome then TruthyVal else FalsyVal
  | _ => []

def isintE : Entry := ⟨kfIsInt, fun n => n == 1, noPre, isintSem, true⟩

def expbucketSem : List Bytes → Bytes
  | [a] => match atoi a with
    | none => ErrorNum
    | some val => itoa (expBucketVal val)
  | _ => []

def expbucketE : Entry := ⟨kfExpBucket, fun n => n == 1, noPre, expbucketSem, true⟩

/-- A constant position: a literal whose text parses as an integer satisfying `p`. -/
def litInt (p : Int → Bool) : C09.Expr → Bool
  | .lit s => match atoi (utf8 s) with
    | some n => p n
    | none => false
  | _ => false

def bucketSem (render : Int → Int → Bytes) : List Bytes → Bytes
  | [v, s] => match atoi s with
    | none => ErrorNum
    | some size => match atoi v with
      | none => ErrorNum
      | some val => render val size
  | _ => []

def bucketPre : (C09.Expr → Bytes) → (C09.Expr → Bool) → List C09.Expr → Bool := fun _ _ args =>
  match args with
  | [_, a1] => litInt (fun n => decide (0 < n)) a1
  | _ => false

def bucketE (render : Int → Int → Bytes) : Entry := ⟨bucketBuilder render, fun n => n == 2, bucketPre, bucketSem render, true⟩

def clampSem : List Bytes → Bytes
  | [v, lo, hi] => match atoi lo, atoi hi with
    | some mn, some mx => (match atoi v with
      | none => ErrorNum
      | some val => clampVal v val mn mx)
    | _, _ => ErrorNum
  | _ => []

def clampPre : (C09.Expr → Bytes) → (C09.Expr → Bool) → List C09.Expr → Bool := fun _ _ args =>
  match args with
  | [_, a1, a2] => litInt (fun _ => true) a1 && litInt (fun _ => true) a2
  | _ => false

def clampE : Entry := ⟨kfClamp, fun n => n == 3, clampPre, clampSem, true⟩

end FA

namespace FF
open Funcs.Float

def isnumSem : List Bytes → Bytes
  | [a] => if (parseF a).isSome then TruthyVal else FalsyVal
  | _ => []

def isnumE : Entry := ⟨kfIsNum, fun n => n == 1, noPre, isnumSem, true⟩

def unarySem (f : F64 → Bytes) : List Bytes → Bytes
  | [a] => match parseF a with
    | none => ErrorNum
    | some x => f x
  | _ => []

def unaryE (f : F64 → Bytes) : Entry := ⟨unaryF f, fun n => n == 1, noPre, unarySem f, true⟩

def cmpFSem (test : F64 → F64 → Bool) : List Bytes → Bytes
  | [a, b] => match parseF a with
    | none => ErrorNum
    | some x => match parseF b with
      | none => ErrorNum
      | some y => truthyStr (test x y)
  | _ => []

def cmpFE (test : F64 → F64 → Bool) : Entry := ⟨cmpHelper test, fun n => n == 2, typedPre parseF, cmpFSem test, true⟩

def floatFoldSem (op : F64 → F64 → F64) : F64 → List Bytes → Bytes
  | acc, [] => fmtF acc
  | acc, v :: rest =>
    match parseF v with
    | none => ErrorNum
    | some x => floatFoldSem op (op acc x) rest

def floatSem (op : F64 → F64 → F64) : List Bytes → Bytes
  | [] => ErrorNum
  | v :: rest =>
    match parseF v with
    | none => ErrorNum
    | some x => floatFoldSem op x rest

def floatE (op : F64 → F64 → F64) : Entry := ⟨floatHelper op, fun n => 2 ≤ n, typedPre parseF, floatSem op, true⟩

end FF

namespace FS
open Funcs.Strings Funcs.Misc

/-- A unary helper that applies a function to its argument's value. -/
def mapSem (f : Bytes → Bytes) : List Bytes → Bytes
  | [a] => f a
  | _ => []

def lenE : Entry := ⟨kfLen, fun n => n == 1, noPre, mapSem fun v => itoa v.length, true⟩

def pathE (f : Bytes → Bytes) : Entry := ⟨pathHelper f, fun n => n == 1, noPre, mapSem f, true⟩

def hiSem : List Bytes → Bytes
  | [a] => match atoi a with
    | none => ErrorNum
    | some n => humanizeInt n
  | _ => []

def hiE : Entry := ⟨kfHumanizeInt, fun n => n == 1, noPre, hiSem, true⟩

def testSem (test : Bytes → Bytes → Bool) : List Bytes → Bytes
  | [v, c] => if test v c then v else FalsyVal
  | _ => []

def testE (test : Bytes → Bytes → Bool) : Entry := ⟨testHelper test, fun n => n == 2, noPre, testSem test, true⟩

def selectSem : List Bytes → Bytes
  | [s, i] => match atoi i with
    | none => ErrorNum
    | some idx => selectField s idx
  | _ => []

def selectE : Entry := ⟨kfSelect, fun n => n == 2, noPre, selectSem, true⟩

/-- `{substr s left len}` on values: the specification of C11 (`Spec.substr`: a negative `left` counts from
    the end, both ends clamped, a negative length is 0). -/
def substrSem : List Bytes → Bytes
  | [s, l, n] =>
    if s.isEmpty then [] else
    if (s.length : Int) > maxInt64 then [] else
    match atoi l, atoi n with
    | some left, some len => Rare.C11.Spec.substr s left len
    | _, _ => ErrorNum
  | _ => []

def substrE : Entry := ⟨kfSubstr, fun n => n == 3, noPre, substrSem, true⟩

def joinRunSem (d : Bytes) : List Bytes → Bytes
  | [] => []
  | v :: r => d ++ v ++ joinRunSem d r

/-- `{tab a b …}`, `{$ a b …}`, `{@ a b …}`: the values joined by the delimiter. -/
def joinSem (d : Bytes) : List Bytes → Bytes
  | [] => []
  | [v] => v
  | v :: r => v ++ joinRunSem d r

def joinE (d : Bytes) : Entry := ⟨kfJoin d, fun n => 1 ≤ n, noPre, joinSem d, true⟩

/-- `{csv a b …}`: the RFC 4180 record of the values (`csvRecord`; round trip in C11). -/
def csvE : Entry := ⟨kfCsv, fun n => 1 ≤ n, noPre, csvRecord, true⟩

end FS

namespace FR
open Funcs.Range Rare.C17

def alenE : Entry := ⟨kfArrayLen, fun n => n == 1, noPre,
  FS.mapSem fun arr => if arr = [] then ascii "0" else itoa (wrap64 ((elems arr).length : Nat)), true⟩

/-- An optional literal argument at position 1 (absent: the default), with a condition on its text. -/
def optLit (p : Bytes → Bool) : (C09.Expr → Bytes) → (C09.Expr → Bool) → List C09.Expr → Bool := fun _ _ args =>
  match args with
  | [_] => true
  | [_, .lit s] => p (utf8 s)
  | _ => false

def splitSem : List Bytes → Bytes
  | [s] => pack (splitOn (ascii " ") s)
  | [s, d] => pack (splitOn d s)
  | _ => []

def splitE : Entry := ⟨kfArraySplit, fun n => n == 1 || n == 2, optLit fun d => !d.isEmpty, splitSem, true⟩

def ajoinSem : List Bytes → Bytes
  | [a] => join (ascii " ") (elems a)
  | [a, d] => join d (elems a)
  | _ => []

def ajoinE : Entry := ⟨kfArrayJoin, fun n => n == 1 || n == 2, optLit fun _ => true, ajoinSem, true⟩

def inSem : List Bytes → Bytes
  | [v, set] => if v ∈ elems set then TruthyVal else FalsyVal
  | _ => []

def inPre : (C09.Expr → Bytes) → (C09.Expr → Bool) → List C09.Expr → Bool := fun _ _ args =>
  match args with
  | [_, .lit _] => true
  | _ => false

def inE : Entry := ⟨kfArrayIn, fun n => n == 2, inPre, inSem, true⟩

end FR

open Funcs in
/-- **The fragment of the standard function table**: name ↦ (registered builder, arities, side condition,
    meaning, dynamic-first flag).  Every builder is literally the one `stdTable` registers under that name
    (`fragTable_ok`). -/
def fragTable : List (String × Entry) := [
  ("coalesce", FL.coalesceE),
  ("eq", FL.cmpE fun a b => if a = b then TruthyVal else FalsyVal),
  ("neq", FL.cmpE fun a b => if a ≠ b then TruthyVal else FalsyVal),
  ("not", FL.notE), ("and", FL.andE), ("or", FL.orE), ("if", FL.ifE), ("unless", FL.unlessE), ("switch", FL.switchE),
  ("sumi", FA.intE Arith.opSum), ("subi", FA.intE Arith.opSub), ("multi", FA.intE Arith.opMul),
  ("divi", FA.intE Arith.opDiv), ("modi", FA.intE Arith.opMod), ("maxi", FA.intE Arith.opMax), ("mini", FA.intE Arith.opMin),
  ("isint", FA.isintE),
  ("bucket", FA.bucketE fun v s => itoa (Arith.bucketVal v s)), ("bucketrange", FA.bucketE Arith.bucketRangeStr),
  ("clamp", FA.clampE), ("expbucket", FA.expbucketE),
  ("isnum", FF.isnumE),
  ("lt", FF.cmpFE fun a b => F64.lt a b), ("gt", FF.cmpFE fun a b => F64.lt b a),
  ("lte", FF.cmpFE fun a b => F64.le a b), ("gte", FF.cmpFE fun a b => F64.le b a),
  ("sumf", FF.floatE F64.add), ("subf", FF.floatE F64.sub), ("multf", FF.floatE F64.mul), ("divf", FF.floatE F64.div),
  ("ceil", FF.unaryE Float.ceilStr), ("floor", FF.unaryE Float.floorStr), ("sqrt", FF.unaryE Float.sqrtStr),
  ("hf", FF.unaryE Float.hfStr),
  ("len", FS.lenE),
  ("like", FS.testE fun v c => Strings.containsB v c),
  ("prefix", FS.testE fun v c => c.isPrefixOf v),
  ("suffix", FS.testE fun v c => c.isSuffixOf v),
  ("substr", FS.substrE), ("select", FS.selectE),
  ("tab", FS.joinE [9]), ("$", FS.joinE [0]), ("@", FS.joinE [0]),
  ("csv", FS.csvE), ("hi", FS.hiE),
  ("basename", FS.pathE Misc.pathBase), ("dirname", FS.pathE Misc.pathDir), ("extname", FS.pathE Misc.pathExt),
  ("@len", FR.alenE), ("@split", FR.splitE), ("@join", FR.ajoinE), ("@in", FR.inE)]

def fragLookup (n : String) : Option Entry := (fragTable.find? (·.1 == n)).map (·.2)

/-- The names of the fragment. -/
def fragNames : List String := fragTable.map (·.1)

/-- The meaning of the fragment's names on argument values (anything else: the empty string). -/
def stdSem (f : List Char) : List Bytes → Bytes :=
  match fragLookup (String.ofList f) with
  | some e => e.sem
  | none => fun _ => []

mutual
/-- Certainly dynamic: a group or key reference, or a call of a fragment function whose stage starts with
    its first argument, that argument being dynamic. -/
def dynE : C09.Expr → Bool
  | .group _ => true
  | .key _ => true
  | .lit _ => false
  | .call f args => (match fragLookup (String.ofList f) with
    | some e => e.first
    | none => false) && dynHead args
def dynHead : List C09.Expr → Bool
  | [] => false
  | a :: _ => dynE a
end

/-- The value of a tree in the all-empty context (what the optimiser's probe sees). -/
def emptyEval (e : C09.Expr) : Bytes := evalTree (envC (fun _ => stdSem) emptyCtx) e

/-- A call site of the fragment: known name, admissible arity, side condition on the argument trees. -/
def callOk (f : List Char) (args : List C09.Expr) : Bool :=
  match fragLookup (String.ofList f) with
  | some e => e.arity args.length && e.pre emptyEval dynE args
  | none => false

mutual
/-- Every call in the tree is a call site of the fragment. -/
def fragOk : C09.Expr → Bool
  | .call f args => callOk f args && fragOkArgs args
  | .lit _ => true
  | .group _ => true
  | .key _ => true
def fragOkArgs : List C09.Expr → Bool
  | [] => true
  | a :: rest => fragOk a && fragOkArgs rest
end

end Rare.C09
