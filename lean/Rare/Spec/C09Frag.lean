import Rare.Model.C09
import Rare.Model.Expr.Std
import Rare.Spec.C11
import Rare.Spec.C17
import Rare.Spec.C17Wrap
/-!
C09: the fragment of the STANDARD function table over which the print/compile round trip is proved
(`print_compile_std_fragment`, `Rare/Props/C09.lean`; proofs in `Rare/Proofs/C09Frag.lean`).

For every name of the fragment (`fragTable`): the builder the standard registry has under that name, the
admissible arities, the side condition on the argument *trees* where the Go builder inspects an argument at
compile time (an integer- or float-typed position holds a dynamic expression or something that evaluates to a
number: `typedPre`; a constant position holds a literal of the right type: `litInt`, `optLit`), and the
meaning of the function on argument VALUES (`…Sem`).  `stdSem` is the function environment of the tree
semantics (`evalTree`), `fragOk` the decidable predicate "every call in the tree is a call site of the
fragment".  Core Lean only: the correspondence driver evaluates `stdSem`/`fragOk` (op `stree`).
-/
namespace Rare.C09
open Rare Rare.Expr

/-- One name of the fragment: the registered builder, the admissible arities, the side condition on the
    argument trees (given the evaluation of a tree in the empty context and the dynamic certificate), the
    meaning on argument values, and whether the stage starts by running its first argument. -/
structure Entry where
  builder : Builder
  arity : Nat → Bool
  pre : (C09.Expr → Bytes) → (C09.Expr → Bool) → List C09.Expr → Bool
  sem : List Bytes → Bytes
  first : Bool

def noPre : (C09.Expr → Bytes) → (C09.Expr → Bool) → List C09.Expr → Bool := fun _ _ _ => true

namespace FL
open Funcs.Logic

def coalesceSem : List Bytes → Bytes
  | [] => []
  | v :: r => if v ≠ [] then v else coalesceSem r

def coalesceE : Entry := ⟨kfCoalesce, fun n => 1 ≤ n, noPre, coalesceSem, true⟩

def cmpGoSem (eq : Bytes → Bytes → Bytes) : Bytes → List Bytes → Bytes
  | val, [] => val
  | val, v :: r => cmpGoSem eq (eq val v) r

def cmpSem (eq : Bytes → Bytes → Bytes) : List Bytes → Bytes
  | a0 :: a1 :: rest => cmpGoSem eq a0 (a1 :: rest)
  | _ => []

def cmpE (eq : Bytes → Bytes → Bytes) : Entry := ⟨stringComparator eq, fun n => 2 ≤ n, noPre, cmpSem eq, true⟩

def notSem' : List Bytes → Bytes
  | [a] => if truthy a then FalsyVal else TruthyVal
  | _ => []

def notE : Entry := ⟨kfNot, fun n => n == 1, noPre, notSem', true⟩

def andSem : List Bytes → Bytes
  | [] => TruthyVal
  | v :: r => if v = FalsyVal then FalsyVal else andSem r

def andE : Entry := ⟨kfAnd, fun n => 1 ≤ n, noPre, andSem, true⟩

def orSem : List Bytes → Bytes
  | [] => FalsyVal
  | v :: r => if v ≠ FalsyVal then TruthyVal else orSem r

def orE : Entry := ⟨kfOr, fun n => 1 ≤ n, noPre, orSem, true⟩

def ifSem' : List Bytes → Bytes
  | [c, t] => if truthy c then t else FalsyVal
  | [c, t, e] => if truthy c then t else e
  | _ => []

def ifE : Entry := ⟨kfIf, fun n => n == 2 || n == 3, noPre, ifSem', true⟩

def unlessSem : List Bytes → Bytes
  | [c, t] => if !truthy c then t else []
  | _ => []

def unlessE : Entry := ⟨kfUnless, fun n => n == 2, noPre, unlessSem, true⟩

def switchSem : List Bytes → Bytes
  | [] => []
  | [d] => d
  | c :: v :: rest => if truthy c then v else switchSem rest

def switchE : Entry := ⟨kfSwitch, fun n => 2 ≤ n, noPre, switchSem, true⟩

end FL

/-- The side condition of a typed position: dynamic, or evaluating (in the empty context – a constant has
    the same value everywhere) to something the parser accepts. -/
def typedArg {α : Type} (parser : Bytes → Option α) (ev : C09.Expr → Bytes) (dyn : C09.Expr → Bool) (a : C09.Expr) : Bool :=
  dyn a || (parser (ev a)).isSome

def typedPre {α : Type} (parser : Bytes → Option α) : (C09.Expr → Bytes) → (C09.Expr → Bool) → List C09.Expr → Bool :=
  fun ev dyn args => args.all (typedArg parser ev dyn)

namespace FA
open Funcs.Arith

def intFoldSem (op : IntOp) : Int → List Bytes → Bytes
  | acc, [] => itoa acc
  | acc, v :: rest =>
    match atoi v with
    | none => ErrorNum
    | some x =>
      match op acc x with
      | none => ErrorValue
      | some r => intFoldSem op r rest

/-- `{sumi a b …}` and friends on argument VALUES: parse left to right, the first unparsable argument gives
    `<BAD-TYPE>`, an operation that rejects its operands (division by zero) `<VALUE>`. -/
def intSem (op : IntOp) : List Bytes → Bytes
  | [] => ErrorNum
  | v :: rest =>
    match atoi v with
    | none => ErrorNum
    | some x => intFoldSem op x rest

def intE (op : IntOp) : Entry := ⟨intHelper op, fun n => 2 ≤ n, typedPre atoi, intSem op, true⟩

def isintSem : List Bytes → Bytes
  | [a] => if (atoi a).isSome then TruthyVal else FalsyVal
  | _ => []

def isintE : Entry := ⟨kfIsInt, fun n => n == 1, noPre, isintSem, true⟩

def expbucketSem : List Bytes → Bytes
  | [a] => match atoi a with
    | none => ErrorNum
    | some val => itoa (expBucketVal val)
  | _ => []

def expbucketE : Entry := ⟨kfExpBucket, fun n => n == 1, noPre, expbucketSem, true⟩

/-- A constant position: a literal whose text parses as an integer satisfying `p`. -/
def litInt (p : Int → Bool) : C09.Expr → Bool
  | .lit s => match atoi (utf8 s) with
    | some n => p n
    | none => false
  | _ => false

def bucketSem (render : Int → Int → Bytes) : List Bytes → Bytes
  | [v, s] => match atoi s with
    | none => ErrorNum
    | some size => match atoi v with
      | none => ErrorNum
      | some val => render val size
  | _ => []

def bucketPre : (C09.Expr → Bytes) → (C09.Expr → Bool) → List C09.Expr → Bool := fun _ _ args =>
  match args with
  | [_, a1] => litInt (fun n => decide (0 < n)) a1
  | _ => false

def bucketE (render : Int → Int → Bytes) : Entry := ⟨bucketBuilder render, fun n => n == 2, bucketPre, bucketSem render, true⟩

def clampSem : List Bytes → Bytes
  | [v, lo, hi] => match atoi lo, atoi hi with
    | some mn, some mx => (match atoi v with
      | none => ErrorNum
      | some val => clampVal v val mn mx)
    | _, _ => ErrorNum
  | _ => []

def clampPre : (C09.Expr → Bytes) → (C09.Expr → Bool) → List C09.Expr → Bool := fun _ _ args =>
  match args with
  | [_, a1, a2] => litInt (fun _ => true) a1 && litInt (fun _ => true) a2
  | _ => false

def clampE : Entry := ⟨kfClamp, fun n => n == 3, clampPre, clampSem, true⟩

end FA

namespace FF
open Funcs.Float

def isnumSem : List Bytes → Bytes
  | [a] => if (parseF a).isSome then TruthyVal else FalsyVal
  | _ => []

def isnumE : Entry := ⟨kfIsNum, fun n => n == 1, noPre, isnumSem, true⟩

def unarySem (f : F64 → Bytes) : List Bytes → Bytes
  | [a] => match parseF a with
    | none => ErrorNum
    | some x => f x
  | _ => []

def unaryE (f : F64 → Bytes) : Entry := ⟨unaryF f, fun n => n == 1, noPre, unarySem f, true⟩

def cmpFSem (test : F64 → F64 → Bool) : List Bytes → Bytes
  | [a, b] => match parseF a with
    | none => ErrorNum
    | some x => match parseF b with
      | none => ErrorNum
      | some y => truthyStr (test x y)
  | _ => []

def cmpFE (test : F64 → F64 → Bool) : Entry := ⟨cmpHelper test, fun n => n == 2, typedPre parseF, cmpFSem test, true⟩

def floatFoldSem (op : F64 → F64 → F64) : F64 → List Bytes → Bytes
  | acc, [] => fmtF acc
  | acc, v :: rest =>
    match parseF v with
    | none => ErrorNum
    | some x => floatFoldSem op (op acc x) rest

def floatSem (op : F64 → F64 → F64) : List Bytes → Bytes
  | [] => ErrorNum
  | v :: rest =>
    match parseF v with
    | none => ErrorNum
    | some x => floatFoldSem op x rest

def floatE (op : F64 → F64 → F64) : Entry := ⟨floatHelper op, fun n => 2 ≤ n, typedPre parseF, floatSem op, true⟩

/-- An optional constant precision at position 1: absent, or a literal integer not above `maxPrecision`. -/
def precPre : (C09.Expr → Bytes) → (C09.Expr → Bool) → List C09.Expr → Bool := fun _ _ args =>
  match args with
  | [_] => true
  | [_, a1] => FA.litInt (fun n => decide (n ≤ maxPrecision)) a1
  | _ => false

def roundVal (v : Bytes) (precision : Int) : Bytes :=
  match parseF v with
  | none => ErrorNum
  | some x => F64.format x precision

/-- `{round v [precision=0]}` -/
def roundSem : List Bytes → Bytes
  | [v] => roundVal v 0
  | [v, p] => match atoi p with
    | some precision => roundVal v precision
    | none => []
  | _ => []

def roundE : Entry := ⟨kfRound, fun n => n == 1 || n == 2, precPre, roundSem, true⟩

def unitVal (unsigned : Bool) (step : Int) (delim : Bytes) (units : List String) (v : Bytes) (precision : Int) : Bytes :=
  match (if unsigned then (atou v).map (fun n => wrap64 (Int.ofNat n)) else atoi v : Option Int) with
  | none => ErrorNum
  | some n => unitize n step precision delim units

/-- `{bytesize v [precision=0]}`, `{bytesizesi …}`, `{downscale …}` -/
def unitSem (unsigned : Bool) (step : Int) (delim : Bytes) (units : List String) : List Bytes → Bytes
  | [v] => unitVal unsigned step delim units v 0
  | [v, p] => match atoi p with
    | some precision => unitVal unsigned step delim units v precision
    | none => []
  | _ => []

def unitE (unsigned : Bool) (step : Int) (delim : Bytes) (units : List String) : Entry :=
  ⟨unitHelper unsigned step delim units, fun n => n == 1 || n == 2, precPre, unitSem unsigned step delim units, true⟩

def percentVal (v : Bytes) (mn mx : Option F64) (decimals : Int) : Bytes :=
  match mn with
  | none => ErrorNum
  | some min => match mx with
    | none => ErrorNum
    | some max => match parseF v with
      | none => ErrorNum
      | some val => percentStr val min max decimals

/-- `{percent val [decimals=1] [[min=0] max=1]}` -/
def percentSem : List Bytes → Bytes
  | [v] => percentVal v (some (F64.zero false)) (some F64.one) 1
  | [v, d] => match atoi d with
    | some dec => percentVal v (some (F64.zero false)) (some F64.one) dec
    | none => []
  | [v, d, mx] => match atoi d with
    | some dec => percentVal v (some (F64.zero false)) (parseF mx) dec
    | none => []
  | [v, d, mn, mx] => match atoi d with
    | some dec => percentVal v (parseF mn) (parseF mx) dec
    | none => []
  | _ => []

def precLit (a : C09.Expr) : Bool := FA.litInt (fun n => decide (n ≤ maxPrecision)) a

def percentPre : (C09.Expr → Bytes) → (C09.Expr → Bool) → List C09.Expr → Bool := fun ev dyn args =>
  match args with
  | [_] => true
  | [_, d] => precLit d
  | [_, d, mx] => precLit d && typedArg parseF ev dyn mx
  | [_, d, mn, mx] => precLit d && typedArg parseF ev dyn mn && typedArg parseF ev dyn mx
  | _ => false

/-- (the stage evaluates `min`, `max` and only then the value: not "first argument first") -/
def percentE : Entry := ⟨kfPercent, fun n => 1 ≤ n && n ≤ 4, percentPre, percentSem, false⟩

end FF

namespace FS
open Funcs.Strings Funcs.Misc

/-- A unary helper that applies a function to its argument's value. -/
def mapSem (f : Bytes → Bytes) : List Bytes → Bytes
  | [a] => f a
  | _ => []

def lenE : Entry := ⟨kfLen, fun n => n == 1, noPre, mapSem fun v => itoa v.length, true⟩

def pathE (f : Bytes → Bytes) : Entry := ⟨pathHelper f, fun n => n == 1, noPre, mapSem f, true⟩

def hiSem : List Bytes → Bytes
  | [a] => match atoi a with
    | none => ErrorNum
    | some n => humanizeInt n
  | _ => []

def hiE : Entry := ⟨kfHumanizeInt, fun n => n == 1, noPre, hiSem, true⟩

def testSem (test : Bytes → Bytes → Bool) : List Bytes → Bytes
  | [v, c] => if test v c then v else FalsyVal
  | _ => []

def testE (test : Bytes → Bytes → Bool) : Entry := ⟨testHelper test, fun n => n == 2, noPre, testSem test, true⟩

def selectSem : List Bytes → Bytes
  | [s, i] => match atoi i with
    | none => ErrorNum
    | some idx => selectField s idx
  | _ => []

def selectE : Entry := ⟨kfSelect, fun n => n == 2, noPre, selectSem, true⟩

/-- `{substr s left len}` on values: the specification of C11 (`Spec.substr`: a negative `left` counts from
    the end, both ends clamped, a negative length is 0). -/
def substrSem : List Bytes → Bytes
  | [s, l, n] =>
    if s.isEmpty then [] else
    if (s.length : Int) > maxInt64 then [] else
    match atoi l, atoi n with
    | some left, some len => Rare.C11.Spec.substr s left len
    | _, _ => ErrorNum
  | _ => []

def substrE : Entry := ⟨kfSubstr, fun n => n == 3, noPre, substrSem, true⟩

def joinRunSem (d : Bytes) : List Bytes → Bytes
  | [] => []
  | v :: r => d ++ v ++ joinRunSem d r

/-- `{tab a b …}`, `{$ a b …}`, `{@ a b …}`: the values joined by the delimiter. -/
def joinSem (d : Bytes) : List Bytes → Bytes
  | [] => []
  | [v] => v
  | v :: r => v ++ joinRunSem d r

def joinE (d : Bytes) : Entry := ⟨kfJoin d, fun n => 1 ≤ n, noPre, joinSem d, true⟩

/-- `{csv a b …}`: the RFC 4180 record of the values (`csvRecord`; round trip in C11). -/
def csvE : Entry := ⟨kfCsv, fun n => 1 ≤ n, noPre, csvRecord, true⟩

/-- `{upper s}` / `{lower s}`: the model covers ASCII (anything else is Go's Unicode tables); the side
    condition is that the argument is a literal of ASCII text. -/
def casePre : (C09.Expr → Bytes) → (C09.Expr → Bool) → List C09.Expr → Bool := fun _ _ args =>
  match args with
  | [.lit s] => (utf8 s).all (· < 128)
  | _ => false

def caseE (f : UInt8 → UInt8) : Entry := ⟨caseHelper f, fun n => n == 1, casePre, mapSem fun v => v.map f, true⟩

/-- `{repeat "text" n}` (the text is a constant) -/
def repeatSem : List Bytes → Bytes
  | [char, c] => match atoi c with
    | none => ErrorNum
    | some count =>
      if count < 0 || (char.length > 0 && count > Int.tdiv maxRepeatBytes char.length) then ErrorValue
      else if char.isEmpty then []
      else repeatB char count.toNat
  | _ => []

def repeatPre : (C09.Expr → Bytes) → (C09.Expr → Bool) → List C09.Expr → Bool := fun _ _ args =>
  match args with
  | [.lit _, _] => true
  | _ => false

/-- (the stage runs its SECOND argument: not "first argument first") -/
def repeatE : Entry := ⟨kfRepeat, fun n => n == 2, repeatPre, repeatSem, false⟩

/-- `{lookup key "table text" ["comment prefix"]}` / `{haskey …}` with the table given as a constant. -/
def lookupSem (render : Option Bytes → Bytes) : List Bytes → Bytes
  | [k, content] => render (tableGet (buildLookupTable content []) k)
  | [k, content, pfx] => render (tableGet (buildLookupTable content pfx) k)
  | _ => []

def lookupPre : (C09.Expr → Bytes) → (C09.Expr → Bool) → List C09.Expr → Bool := fun _ _ args =>
  match args with
  | [_, .lit _] => true
  | [_, .lit _, .lit _] => true
  | _ => false

def lookupE (render : Option Bytes → Bytes) : Entry :=
  ⟨lookupBuilder render, fun n => n == 2 || n == 3, lookupPre, lookupSem render, true⟩

end FS

namespace FR
open Funcs.Range Rare.C17

def alenE : Entry := ⟨kfArrayLen, fun n => n == 1, noPre,
  FS.mapSem fun arr => if arr = [] then ascii "0" else itoa (wrap64 ((elems arr).length : Nat)), true⟩

/-- An optional literal argument at position 1 (absent: the default), with a condition on its text. -/
def optLit (p : Bytes → Bool) : (C09.Expr → Bytes) → (C09.Expr → Bool) → List C09.Expr → Bool := fun _ _ args =>
  match args with
  | [_] => true
  | [_, .lit s] => p (utf8 s)
  | _ => false

def splitSem : List Bytes → Bytes
  | [s] => pack (splitOn (ascii " ") s)
  | [s, d] => pack (splitOn d s)
  | _ => []

def splitE : Entry := ⟨kfArraySplit, fun n => n == 1 || n == 2, optLit fun d => !d.isEmpty, splitSem, true⟩

def ajoinSem : List Bytes → Bytes
  | [a] => join (ascii " ") (elems a)
  | [a, d] => join d (elems a)
  | _ => []

def ajoinE : Entry := ⟨kfArrayJoin, fun n => n == 1 || n == 2, optLit fun _ => true, ajoinSem, true⟩

def inSem : List Bytes → Bytes
  | [v, set] => if v ∈ elems set then TruthyVal else FalsyVal
  | _ => []

def inPre : (C09.Expr → Bytes) → (C09.Expr → Bool) → List C09.Expr → Bool := fun _ _ args =>
  match args with
  | [_, .lit _] => true
  | _ => false

def inE : Entry := ⟨kfArrayIn, fun n => n == 2, inPre, inSem, true⟩

/-- `{@select arr i}` with a constant index, on any list (`selectW`: the documented `select` below 2^63
    elements, `C17.wrapped_is_documented`). -/
def aselectSem : List Bytes → Bytes
  | [arr, i] => match atoi i with
    | some idx => selectW (elems arr) idx
    | none => []
  | _ => []

def aselectPre : (C09.Expr → Bytes) → (C09.Expr → Bool) → List C09.Expr → Bool := fun _ _ args =>
  match args with
  | [_, a1] => FA.litInt (fun _ => true) a1
  | _ => false

def aselectE : Entry := ⟨kfArraySelect, fun n => n == 2, aselectPre, aselectSem, true⟩

/-- `{@slice arr start [len]}` with constant indices, on any list (`sliceW`: `pack ∘ slice` below 2^63 elements). -/
def asliceSem : List Bytes → Bytes
  | [arr, s] => match atoi s with
    | some start => sliceW (elems arr) start (-1)
    | none => []
  | [arr, s, l] => match atoi s, atoi l with
    | some start, some len => sliceW (elems arr) start len
    | _, _ => []
  | _ => []

def aslicePre : (C09.Expr → Bytes) → (C09.Expr → Bool) → List C09.Expr → Bool := fun _ _ args =>
  match args with
  | [_, a1] => FA.litInt (fun _ => true) a1
  | [_, a1, a2] => FA.litInt (fun _ => true) a1 && FA.litInt (fun _ => true) a2
  | _ => false

def asliceE : Entry := ⟨kfArraySlice, fun n => n == 2 || n == 3, aslicePre, asliceSem, true⟩

/-- `{@range [start=0] stop [incr=1]}` on the values of its arguments (closed form of C17's `range_spec_closed`). -/
def rangeVal (a b c : Bytes) : Bytes :=
  match atoi a with
  | none => ErrorNum
  | some start => match atoi b with
    | none => ErrorNum
    | some stop => match atoi c with
      | none => ErrorNum
      | some incr =>
        if incr = 0 ∨ (incr > 0 ∧ start > stop) ∨ (incr < 0 ∧ start < stop) then ErrorValue
        else if rangeCount start stop incr ≤ Gen.maxIterations then pack ((range start stop incr).map itoa)
        else InfMarker

def rangeSem : List Bytes → Bytes
  | [b] => rangeVal (ascii "0") b (ascii "1")
  | [a, b] => rangeVal a b (ascii "1")
  | [a, b, c] => rangeVal a b c
  | _ => []

def arangeE : Entry := ⟨kfArrayRange, fun n => 1 ≤ n && n ≤ 3, noPre, rangeSem, false⟩

end FR

open Funcs in
/-- **The fragment of the standard function table**: name ↦ (registered builder, arities, side condition,
    meaning, dynamic-first flag).  Every builder is literally the one `stdTable` registers under that name
    (`fragTable_ok`). -/
def fragTable : List (String × Entry) := [
  ("coalesce", FL.coalesceE),
  ("eq", FL.cmpE fun a b => if a = b then TruthyVal else FalsyVal),
  ("neq", FL.cmpE fun a b => if a ≠ b then TruthyVal else FalsyVal),
  ("not", FL.notE), ("and", FL.andE), ("or", FL.orE), ("if", FL.ifE), ("unless", FL.unlessE), ("switch", FL.switchE),
  ("sumi", FA.intE Arith.opSum), ("subi", FA.intE Arith.opSub), ("multi", FA.intE Arith.opMul),
  ("divi", FA.intE Arith.opDiv), ("modi", FA.intE Arith.opMod), ("maxi", FA.intE Arith.opMax), ("mini", FA.intE Arith.opMin),
  ("isint", FA.isintE),
  ("bucket", FA.bucketE fun v s => itoa (Arith.bucketVal v s)), ("bucketrange", FA.bucketE Arith.bucketRangeStr),
  ("clamp", FA.clampE), ("expbucket", FA.expbucketE),
  ("isnum", FF.isnumE),
  ("lt", FF.cmpFE fun a b => F64.lt a b), ("gt", FF.cmpFE fun a b => F64.lt b a),
  ("lte", FF.cmpFE fun a b => F64.le a b), ("gte", FF.cmpFE fun a b => F64.le b a),
  ("sumf", FF.floatE F64.add), ("subf", FF.floatE F64.sub), ("multf", FF.floatE F64.mul), ("divf", FF.floatE F64.div),
  ("ceil", FF.unaryE Float.ceilStr), ("floor", FF.unaryE Float.floorStr), ("sqrt", FF.unaryE Float.sqrtStr),
  ("hf", FF.unaryE Float.hfStr),
  ("len", FS.lenE),
  ("like", FS.testE fun v c => Strings.containsB v c),
  ("prefix", FS.testE fun v c => c.isPrefixOf v),
  ("suffix", FS.testE fun v c => c.isSuffixOf v),
  ("substr", FS.substrE), ("select", FS.selectE),
  ("tab", FS.joinE [9]), ("$", FS.joinE [0]), ("@", FS.joinE [0]),
  ("csv", FS.csvE), ("hi", FS.hiE),
  ("basename", FS.pathE Misc.pathBase), ("dirname", FS.pathE Misc.pathDir), ("extname", FS.pathE Misc.pathExt),
  ("@len", FR.alenE), ("@split", FR.splitE), ("@join", FR.ajoinE), ("@in", FR.inE),
  ("@select", FR.aselectE), ("@slice", FR.asliceE), ("@range", FR.arangeE),
  ("upper", FS.caseE Strings.upperB), ("lower", FS.caseE Strings.lowerB), ("repeat", FS.repeatE),
  ("lookup", FS.lookupE fun r => r.getD []), ("haskey", FS.lookupE fun r => truthyStr r.isSome),
  ("round", FF.roundE), ("percent", FF.percentE),
  ("bytesize", FF.unitE true 1024 [32] Strings.iecSizes), ("bytesizesi", FF.unitE true 1000 [32] Strings.siSizes),
  ("downscale", FF.unitE false 1000 [] Strings.unitSize)]

def fragLookup (n : String) : Option Entry := (fragTable.find? (·.1 == n)).map (·.2)

/-- The names of the fragment. -/
def fragNames : List String := fragTable.map (·.1)

/-- The meaning of the fragment's names on argument values (anything else: the empty string). -/
def stdSem (f : List Char) : List Bytes → Bytes :=
  match fragLookup (String.ofList f) with
  | some e => e.sem
  | none => fun _ => []

mutual
/-- Certainly dynamic: a group or key reference, or a call of a fragment function whose stage starts with
    its first argument, that argument being dynamic. -/
def dynE : C09.Expr → Bool
  | .group _ => true
  | .key _ => true
  | .lit _ => false
  | .call f args => (match fragLookup (String.ofList f) with
    | some e => e.first
    | none => false) && dynHead args
def dynHead : List C09.Expr → Bool
  | [] => false
  | a :: _ => dynE a
end

/-- The value of a tree in the all-empty context (what the optimiser's probe sees). -/
def emptyEval (e : C09.Expr) : Bytes := evalTree (envC (fun _ => stdSem) emptyCtx) e

/-- A call site of the fragment: known name, admissible arity, side condition on the argument trees. -/
def callOk (f : List Char) (args : List C09.Expr) : Bool :=
  match fragLookup (String.ofList f) with
  | some e => e.arity args.length && e.pre emptyEval dynE args
  | none => false

mutual
/-- Every call in the tree is a call site of the fragment. -/
def fragOk : C09.Expr → Bool
  | .call f args => callOk f args && fragOkArgs args
  | .lit _ => true
  | .group _ => true
  | .key _ => true
def fragOkArgs : List C09.Expr → Bool
  | [] => true
  | a :: rest => fragOk a && fragOkArgs rest
end

end Rare.C09
