import Rare.Base.Bytes
import Rare.Spec.C20
/-!
Specification side of the glob part of property C06: what a shell file-name pattern *means*,
written without reference to how Go's `path/filepath` computes anything.

* `Item` / `Pat` – the abstract syntax of a pattern (`*`, `?`, `[class]`, literal byte).
* `Parses pat ast` – the grammar of the `filepath.Match` documentation as an inductive relation
  between the pattern text and its syntax tree.  A pattern is *well formed* iff it has a parse,
  *bad* (Go: `ErrBadPattern`) iff it has none.
* `Matches ast name` – the textbook semantics, by structural recursion on the pattern:
  `*` stands for any (possibly empty) run of bytes without `/`, `?` for one character other than
  `/`, a class for one character of the class, a literal for itself.  A *character* of a name is what
  `utf8.DecodeRune` reads at that place (`Rare.C20.decode1`: a well-formed UTF-8 sequence, or one
  byte standing for U+FFFD).
* `GlobSpec` – the paths of a file system that match a multi-component pattern component-wise.
-/
namespace Rare.C06.Spec
open Rare.C20 (decode1)

/-! ## Pattern syntax -/

inductive Item
  /-- one literal byte -/
  | lit (b : UInt8)
  /-- `?` -/
  | any
  /-- `[lo-hi…]` / `[^lo-hi…]`: the ranges are pairs of code points -/
  | cls (neg : Bool) (ranges : List (Nat × Nat))
  /-- `*` -/
  | star
  deriving DecidableEq, Repr

abbrev Pat := List Item

def slash : UInt8 := 47

/-- `r` lies in one of the ranges -/
def inRanges (r : Nat) (rs : List (Nat × Nat)) : Bool := rs.any fun p => p.1 ≤ r && r ≤ p.2

/-! ## Semantics -/

/-- `Matches ast name`: the whole of `name` is matched by the pattern. -/
def Matches : Pat → Bytes → Prop
  | [], s => s = []
  | .lit b :: ps, s => ∃ rest, s = b :: rest ∧ Matches ps rest
  | .any :: ps, s => s ≠ [] ∧ s.head? ≠ some slash ∧ Matches ps (s.drop (decode1 s).2)
  | .cls neg rs :: ps, s => s ≠ [] ∧ inRanges (decode1 s).1 rs ≠ neg ∧ Matches ps (s.drop (decode1 s).2)
  | .star :: ps, s => ∃ pre suf, s = pre ++ suf ∧ slash ∉ pre ∧ Matches ps suf

/-! ## Grammar -/

/-- the bytes at the head of `s` are a well-formed UTF-8 sequence (anything but a stray byte) -/
def ValidRune (s : Bytes) : Prop := ¬ ((decode1 s).1 = 0xFFFD ∧ (decode1 s).2 = 1)

instance (s : Bytes) : Decidable (ValidRune s) := by unfold ValidRune; infer_instance

/-- One character of a class: `c` (not `\`, `-`, `]`) or `\c`; `ClassChar s r rest`: `s` starts with
    such a character, its code point is `r`, `rest` is what follows. -/
inductive ClassChar : Bytes → Nat → Bytes → Prop
  | plain (c : UInt8) (s : Bytes) : c ≠ 92 → c ≠ 45 → c ≠ 93 → ValidRune (c :: s) →
      ClassChar (c :: s) (decode1 (c :: s)).1 ((c :: s).drop (decode1 (c :: s)).2)
  | esc (c : UInt8) (s : Bytes) : ValidRune (c :: s) →
      ClassChar (92 :: c :: s) (decode1 (c :: s)).1 ((c :: s).drop (decode1 (c :: s)).2)

/-- The ranges of a class up to and including the closing `]`. -/
inductive ClassBody : Bytes → List (Nat × Nat) → Bytes → Prop
  | close (rest : Bytes) : ClassBody (93 :: rest) [] rest
  | single {s s1 rest : Bytes} {lo : Nat} {rs : List (Nat × Nat)} :
      ClassChar s lo s1 → s1.head? ≠ some 45 → ClassBody s1 rs rest → ClassBody s ((lo, lo) :: rs) rest
  | range {s s1 s2 rest : Bytes} {lo hi : Nat} {rs : List (Nat × Nat)} :
      ClassChar s lo (45 :: s1) → ClassChar s1 hi s2 → ClassBody s2 rs rest → ClassBody s ((lo, hi) :: rs) rest

/-- `Parses pat ast`: the grammar of the `filepath.Match` documentation.

        pattern: { term }
        term:    '*' | '?' | '[' [ '^' ] { character-range } ']'   (non-empty)
                 | c  (c != '*', '?', '\\', '[')  | '\\' c
        character-range: c (c != '\\', '-', ']') | '\\' c | lo '-' hi          -/
inductive Parses : Bytes → Pat → Prop
  | nil : Parses [] []
  | star {p : Bytes} {ast : Pat} : Parses p ast → Parses (42 :: p) (.star :: ast)
  | any {p : Bytes} {ast : Pat} : Parses p ast → Parses (63 :: p) (.any :: ast)
  | lit (c : UInt8) {p : Bytes} {ast : Pat} : c ≠ 42 → c ≠ 63 → c ≠ 92 → c ≠ 91 →
      Parses p ast → Parses (c :: p) (.lit c :: ast)
  | esc (c : UInt8) {p : Bytes} {ast : Pat} : Parses p ast → Parses (92 :: c :: p) (.lit c :: ast)
  | cls {s rest : Bytes} {rs : List (Nat × Nat)} {ast : Pat} :
      s.head? ≠ some 94 → ClassBody s rs rest → rs ≠ [] → Parses rest ast →
      Parses (91 :: s) (.cls false rs :: ast)
  | ncls {s rest : Bytes} {rs : List (Nat × Nat)} {ast : Pat} :
      ClassBody s rs rest → rs ≠ [] → Parses rest ast →
      Parses (91 :: 94 :: s) (.cls true rs :: ast)

/-- A pattern is well formed iff the grammar derives it. -/
def WellFormed (pat : Bytes) : Prop := ∃ ast, Parses pat ast

/-! ## Side conditions under which Go's greedy matcher is complete

Go's `Match` looks for the *leftmost* place where the piece after a `*` fits and never comes back.
That is complete when a later start never ends earlier, which holds when no character of the name is
wider than two bytes (a character read in the middle of a 3- or 4-byte sequence is a 1-byte U+FFFD, so
starting one byte later can end *earlier*), and when the bytes a `*` has to absorb instead contain no
`/`.  The counterexamples in `Props/C06.lean` show both conditions are needed. -/

/-- no character of `s`, read at any byte offset, is wider than two bytes
    (ASCII, Latin, Greek, Cyrillic, Hebrew, Arabic …: everything below U+0800, and any invalid bytes) -/
def NoWide (s : Bytes) : Prop := ∀ k, (decode1 (s.drop k)).2 ≤ 2

/-- the pattern has only literal bytes and `*` (`*.log`, `access*2024*`): every piece has a fixed width -/
def FixedWidth (ast : Pat) : Prop := ∀ it ∈ ast, it = Item.star ∨ ∃ b, it = Item.lit b

/-- an item that can match the byte `/` -/
def Item.admitsSlash : Item → Bool
  | .lit b => b == slash
  | .any => false
  | .star => false
  | .cls neg rs => inRanges 47 rs != neg

/-! ## Patterns with several components

`GlobRel fs start rcs p`: the path `p` is `start/n₁/…/n_k` where `n_i` is an entry of the directory
`start/n₁/…/n_{i-1}` that matches the `i`-th pattern component (`rcs` lists the components last first;
`start` is `.` or the literal directory the pattern begins with). -/

/-- what a pattern expansion sees of the file system: the names in a directory (`none`: no such directory) -/
structure FsView where
  list : Bytes → Option (List Bytes)

def dotPath : Bytes := [46]

/-- `d/n`, with `./n` written `n` -/
def pjoin (d n : Bytes) : Bytes := if d = dotPath then n else d ++ slash :: n

def GlobRel (fs : FsView) (start : Bytes) : List Bytes → Bytes → Prop
  | [], p => p = start
  | c :: rcs, p => ∃ d names n ast, GlobRel fs start rcs d ∧ fs.list d = some names ∧ n ∈ names ∧
      Parses c ast ∧ Matches ast n ∧ p = pjoin d n

/-- the pieces of a path between its `/`s -/
def components : Bytes → List Bytes
  | [] => [[]]
  | c :: cs =>
    if c = slash then [] :: components cs
    else match components cs with
      | [] => [[c]]
      | h :: t => (c :: h) :: t

/-- strict bytewise lexicographic order (Go's string order) -/
def bytesLt : Bytes → Bytes → Prop
  | _, [] => False
  | [], _ :: _ => True
  | a :: as, b :: bs => a < b ∨ (a = b ∧ bytesLt as bs)

/-- strict lexicographic order of paths, component by component: the order of a sorted tree listing -/
def compsLt : List Bytes → List Bytes → Prop
  | _, [] => False
  | [], _ :: _ => True
  | a :: as, b :: bs => bytesLt a b ∨ (a = b ∧ compsLt as bs)

def pathLt (p q : Bytes) : Prop := compsLt (components p) (components q)

end Rare.C06.Spec
