import Rare.Base.GoInt
/-!
C17, `{@for start cond next}` when the condition counts rounds: the first `n` values of the iteration
`v₀ = start`, `vₖ₊₁ = next vₖ k`, whatever they are.
-/
namespace Rare.C17

/-- `n` values of the iteration, the first one being `v` in round `k`. -/
def iterN (next : Bytes → Nat → Bytes) : (n : Nat) → (k : Nat) → Bytes → List Bytes
  | 0, _, _ => []
  | n + 1, k, v => v :: iterN next n (k + 1) (next v k)

end Rare.C17
