import Rare.Spec.C06Gzip
/-!
Specification side of "a gzip file decodes to its content": the simplest WRITER of RFC 1951 / RFC 1952 – every block
a stored block (BTYPE = 00) – without reference to how `compress/flate` reads it.

    block   = | BFINAL + BTYPE=00 + 5 padding bits (one byte: 00 or 01) | LEN (2, LE) | NLEN = ¬LEN (2, LE) | LEN bytes |
    member  = header (Spec/C06Gzip) | block … block (the last one with BFINAL) | CRC-32 of the data (4, LE) | ISIZE = length mod 2³² (4, LE) |
    file    = member … member

(`gzip -1 … -9` and Go's writer use Huffman blocks as well; those are compared with the model on generated files, see
`gunzip` in harness/corr/c06inflate.go.  Go's writer at level 0 produces exactly the files described here.)
-/
namespace Rare.C06.Gz

/-- 32 bits, little endian -/
def enc32 (n : Nat) : Bytes :=
  [UInt8.ofNat (n % 256), UInt8.ofNat (n / 256 % 256), UInt8.ofNat (n / 65536 % 256), UInt8.ofNat (n / 16777216 % 256)]

/-- one stored block -/
def storedEnc (final : Bool) (c : Bytes) : Bytes :=
  [if final then 1 else 0] ++ enc16 c.length ++ enc16 (65535 - c.length) ++ c

/-- a DEFLATE stream of stored blocks, one per chunk, the last one final -/
def deflateStored : List Bytes → Bytes
  | [] => []
  | [c] => storedEnc true c
  | c :: cs => storedEnc false c ++ deflateStored cs

/-- CRC-32 and ISIZE -/
def trailer (data : Bytes) : Bytes := enc32 (crcUpdate 0 data).toNat ++ enc32 (data.length % 4294967296)

/-- a gzip member holding `chunks.flatten` -/
def memberStored (h : Hdr) (chunks : List Bytes) : Bytes :=
  h.encode ++ deflateStored chunks ++ trailer chunks.flatten

/-- what can be written that way: at least one block, every block at most 65535 bytes -/
def ChunksOk (chunks : List Bytes) : Prop := chunks ≠ [] ∧ ∀ c ∈ chunks, c.length ≤ 65535

/-- a file of several members (`cat a.gz b.gz`, log rotation appending members) -/
def fileStored : List (Hdr × List Bytes) → Bytes
  | [] => []
  | m :: ms => memberStored m.1 m.2 ++ fileStored ms

/-- its content -/
def fileData (ms : List (Hdr × List Bytes)) : Bytes := (ms.map fun m => m.2.flatten).flatten

def MembersOk (ms : List (Hdr × List Bytes)) : Prop := ∀ m ∈ ms, m.1.WF ∧ ChunksOk m.2

end Rare.C06.Gz
