import Rare.Spec.C19Grammar
import Rare.Model.C19
import Rare.Base.F64Str
/-!
Specification-level *integer* semantics of `{! …}` formulas, the yardstick of
`integer_formulas_exact` (`Props/C19.lean`): what a formula over `+ - *` (binary), unary `-`,
comparisons and parentheses denotes in exact integer arithmetic, under an integer binding — as long
as every leaf and every intermediate result stays within `±2^53` (the range in which binary64
represents every integer).  No floating-point operation occurs here: literals are read by the
integer parser `parseIntLit` (`strconv.ParseInt(s, 0, 64)`: decimal, `0x`, `0b`, `0o`, leading-zero
octal), variables come from the integer binding.
-/
namespace Rare.C19.IEEE
open Rare

/-- `some n` iff `|n| ≤ 2^53`. -/
def inRange (n : Int) : Option Int := if n.natAbs ≤ 9007199254740992 then some n else none

/-- The integer a literal token denotes: `[n]` / `[name]` / a bare name (a word that
    `strconv.ParseFloat` does not read, i.e. not `inf`, `nan`, `infinity`) through the binding, an
    integer literal through `ParseInt`.  Anything else (decimals, exponents …) is not an integer leaf. -/
def intLeaf (ib : Binding Int) (v : Bytes) : Option Int :=
  if isBoxed v then
    match atoi ((v.drop 1).dropLast) with
    | some i => inRange (ib.getMatch i)
    | none => inRange (ib.getKey ((v.drop 1).dropLast))
  else match parseIntLit v with
    | some k => if v.all isAlnumB then inRange k else none
    | none => if validVariableName v && (F64.parseFloat v).isNone then inRange (ib.getKey v) else none

def b2i (b : Bool) : Int := if b then 1 else 0

/-- Exact integer value of a parse tree; `none` as soon as a leaf is not an integer leaf, an operator
    is not one of `+ - *`, a comparison or unary `-`, or a value leaves `±2^53`. -/
def Tree.intEval (ib : Binding Int) : Tree → Option Int
  | .lit v => intLeaf ib v
  | .grp _ e => Tree.intEval ib e
  | .un m e =>
    match Tree.intEval ib e with
    | some x => if m = [45] then inRange (-x) else none
    | none => none
  | .bin _ op l r =>
    match Tree.intEval ib l, Tree.intEval ib r with
    | some a, some b =>
      if op = [43] then inRange (a + b)
      else if op = [45] then inRange (a - b)
      else if op = [42] then inRange (a * b)
      else if op = [60] then some (b2i (decide (a < b)))
      else if op = [60, 61] then some (b2i (decide (a ≤ b)))
      else if op = [62] then some (b2i (decide (b < a)))
      else if op = [62, 61] then some (b2i (decide (b ≤ a)))
      else if op = [61, 61] then some (b2i (decide (a = b)))
      else none
    | _, _ => none

end Rare.C19.IEEE
