import Rare.Spec.C09
/-!
C09 – "a lone word or integer is a key/group lookup": what an *integer* is.

`IntLit b v`: the byte string `b` is a decimal integer literal with value `v` – an optional sign `+`/`-`, one or
more ASCII digits (leading zeros allowed), value within int64.  Nothing else is an integer: no `0x`/`0b`/`0o`
prefixes, no `_`, no exponent, no fraction, no surrounding space, no Unicode digits.  Nothing here mentions
how rare (or `strconv.Atoi`) parses.
-/
namespace Rare.C09

/-- One or more ASCII digits. -/
def Digits (ds : Bytes) : Prop := ds ≠ [] ∧ ∀ d ∈ ds, 48 ≤ d.toNat ∧ d.toNat ≤ 57

/-- Positional value, most significant digit first. -/
def decValue (ds : Bytes) : Nat := ds.foldl (fun acc d => acc * 10 + (d.toNat - 48)) 0

inductive IntLit : Bytes → Int → Prop
  | plain (ds : Bytes) : Digits ds → (decValue ds : Int) ≤ 9223372036854775807 → IntLit ds (decValue ds)
  | plus (ds : Bytes) : Digits ds → (decValue ds : Int) ≤ 9223372036854775807 → IntLit (43 :: ds) (decValue ds)
  | minus (ds : Bytes) : Digits ds → (decValue ds : Int) ≤ 9223372036854775808 → IntLit (45 :: ds) (-(decValue ds : Int))

/-- The meaning of a lone word `a` in braces: group `v` when `a` is the integer literal `v`, else key `a`. -/
def LoneWord (env : Env) (getMatchInt : Int → Bytes) (a : List Char) (out : Bytes) : Prop :=
  (∃ v, IntLit (utf8 a) v ∧ out = getMatchInt v) ∨ ((∀ v, ¬ IntLit (utf8 a) v) ∧ out = env.getKey (utf8 a))

end Rare.C09
