import Rare.Base.F64
/-!
C11, `{hf}` (humanize float): what the sign of the output must be.

"`hf` only inserts thousands separators" – in particular it keeps the sign: the rendering of a value
starts with `-` exactly when the value's sign bit is set (NaN, which has no sign to speak of, is the marker
`NaN`).  The specification of the two infinities is therefore `Inf` and `-Inf` – the spellings
`strconv.ParseFloat` reads back as the same value.
-/
namespace Rare.Spec

/-- The output starts with a minus sign. -/
def startsMinus (out : Bytes) : Bool := out.head? == some 45

/-- Sign faithfulness of a rendering of `x`. -/
def SignFaithful (x : F64) (out : Bytes) : Prop := x.isNaN = false → (startsMinus out = x.sign)

/-- What `hf` must print for an infinity. -/
def hfInfSpec (neg : Bool) : Bytes := if neg then [45, 73, 110, 102] else [73, 110, 102]

end Rare.Spec
