import Rare.Base.Bytes
/-!
Go integer conventions.  `int`/`int64` values are `Int`s kept inside the int64 range by
`wrap64` after every `+ - *`; `/` and `%` are truncated (`Int.tdiv`, `Int.tmod`).
`atoi` mirrors `strconv.Atoi` / `strconv.ParseInt(s, 10, 64)`; `itoa` mirrors `strconv.Itoa`.
-/
namespace Rare

def minInt64 : Int := -9223372036854775808
def maxInt64 : Int := 9223372036854775807

def wrap64 (x : Int) : Int := (x + 9223372036854775808) % 18446744073709551616 - 9223372036854775808

def inInt64 (x : Int) : Bool := decide (minInt64 ≤ x) && decide (x ≤ maxInt64)

def goDiv (a b : Int) : Int := wrap64 (Int.tdiv a b)
def goMod (a b : Int) : Int := Int.tmod a b

def isDigitB (b : UInt8) : Bool := 48 ≤ b && b ≤ 57

def digitsVal : Bytes → Nat → Nat
  | [], acc => acc
  | b :: r, acc => digitsVal r (acc * 10 + (b.toNat - 48))

/-- `strconv.ParseInt(s, 10, 64)`: optional sign, one or more ASCII digits, value in range. -/
def atoi (s : Bytes) : Option Int :=
  let (neg, ds) := match s with
    | 43 :: r => (false, r)
    | 45 :: r => (true, r)
    | r => (false, r)
  if ds.isEmpty || !ds.all isDigitB then none
  else
    let n : Int := digitsVal ds 0
    let v := if neg then -n else n
    if inInt64 v then some v else none

/-- `strconv.ParseUint(s, 10, 64)`: digits only (no sign), value < 2^64. -/
def atou (s : Bytes) : Option Nat :=
  if s.isEmpty || !s.all isDigitB then none
  else
    let n := digitsVal s 0
    if n < 18446744073709551616 then some n else none

def natDigits (n : Nat) : Bytes := (Nat.toDigits 10 n).map (fun c => UInt8.ofNat c.toNat)

/-- `strconv.Itoa` / `FormatInt(v, 10)`. -/
def itoa (v : Int) : Bytes :=
  if v < 0 then 45 :: natDigits v.natAbs else natDigits v.natAbs

end Rare
