/-
Byte strings.  A Go `string` / `[]byte` is a `List UInt8`; rare processes arbitrary
bytes, so Lean's `String` (valid UTF-8 only) is used only for identifiers and
protocol framing.  Protocol fields carry byte strings hex-encoded.
-/
namespace Rare

abbrev Bytes := List UInt8

def nl : UInt8 := 10
def cr : UInt8 := 13

namespace Hex

def digit (n : Nat) : Char :=
  if n < 10 then Char.ofNat (48 + n) else Char.ofNat (87 + n)

def encByte (b : UInt8) : List Char := [digit (b.toNat / 16), digit (b.toNat % 16)]

/-- Hex encoding; the empty string is written `-` so that fields never vanish. -/
def enc (b : Bytes) : String :=
  if b.isEmpty then "-" else String.ofList (b.flatMap encByte)

def val (c : Char) : Option Nat :=
  if '0' ≤ c ∧ c ≤ '9' then some (c.toNat - 48)
  else if 'a' ≤ c ∧ c ≤ 'f' then some (c.toNat - 87)
  else if 'A' ≤ c ∧ c ≤ 'F' then some (c.toNat - 55)
  else none

def decChars : List Char → Option Bytes
  | [] => some []
  | [_] => none
  | a :: b :: rest => do
    let x ← val a
    let y ← val b
    let r ← decChars rest
    pure (UInt8.ofNat (x * 16 + y) :: r)

def dec (s : String) : Option Bytes :=
  if s = "-" then some [] else decChars s.toList

end Hex

/-- ASCII view of a Lean string literal (identifiers, fixed markers). -/
def ascii (s : String) : Bytes := s.toUTF8.toList

def Bytes.toStr (b : Bytes) : String := String.fromUTF8! (ByteArray.mk b.toArray)

end Rare
