import Rare.Base.Bytes
/-! Helpers for the line protocol between the Go harness and the Lean driver. -/
namespace Rare.Proto

def words (s : String) : List String := (s.splitOn " ").filter (· ≠ "")

def hexList (l : List Bytes) : String :=
  if l.isEmpty then "." else ";".intercalate (l.map Hex.enc)

def decHexList (s : String) : Option (List Bytes) :=
  if s = "." then some [] else (s.splitOn ";").mapM Hex.dec

def int? (s : String) : Option Int := s.toInt?
def nat? (s : String) : Option Nat := s.toNat?

end Rare.Proto
