import Rare.Base.GoInt
/-!
# A software model of IEEE-754 binary64 that the kernel can compute with

Lean's `Float` is opaque to the kernel, so no theorem can mention it.  `F64` is a binary64 value
given as its 64-bit pattern (a `Nat` below `2^64`).  Every operation is defined through exact
rational arithmetic (`Rat`, core Lean) and one rounding function:

* `toRat x`  – the exact value of a finite pattern;
* `roundMag q` – the magnitude pattern of the float nearest to `q ≥ 0`, ties to even, subnormals,
  overflow to `+Inf`;
* `add/sub/mul/div/sqrt/floor/ceil/trunc/roundHalfAway/ofInt64/toInt64/lt/le/eq` – IEEE-754 /
  Go semantics (`math.Round` = half away from zero, `int64(x)` as compiled for amd64).

NaN results are the canonical quiet NaN `0x7FF8000000000001` (Go's `math.NaN()`); NaN payloads are
not modelled.  Nothing here uses `Float`; the drivers compare this model bit for bit with Go's
float64 and with Lean's native `Float` (`Rare/Drv/C11.lean`).

The encoding trick used throughout: for a finite non-negative float, with `E = max (e-1) 0` and
`m = magnitude − E·2^52` (so `m < 2^52` exactly for subnormals and `2^52 ≤ m < 2^53` otherwise)
the value is `m · 2^E / 2^1074`, and conversely the pattern of the float with significand `m` at
scale `E` is `E·2^52 + m` — also when rounding carried `m` up to `2^53` (the carry moves into the
exponent field by itself) and when a subnormal rounded up to the smallest normal.
-/
namespace Rare

/-- binary64 as its bit pattern. -/
structure F64 where
  bits : Nat
  hlt : bits < 18446744073709551616
  deriving DecidableEq

namespace F64

/-- `2^52`, `2^53`, `2^63`, the magnitude of `Inf` (`0x7FF0000000000000`). Notations (not
    definitions) so that `omega` sees the literals. -/
scoped notation "P52" => 4503599627370496
scoped notation "P53" => 9007199254740992
scoped notation "P63" => 9223372036854775808
scoped notation "P64" => 18446744073709551616
scoped notation "InfMag" => 9218868437227405312

instance : Repr F64 := ⟨fun x _ => repr x.bits⟩

/-- Sign and magnitude (the low 63 bits) to a pattern; the magnitude is taken modulo `2^63`. -/
def ofSM (s : Bool) (m : Nat) : F64 :=
  ⟨(if s then P63 else 0) + m % P63, by split <;> omega⟩

def ofBits (b : UInt64) : F64 := ⟨b.toNat, b.toNat_lt⟩
def toBits (x : F64) : UInt64 := UInt64.ofNat x.bits

def sign (x : F64) : Bool := decide (P63 ≤ x.bits)
/-- The low 63 bits: biased exponent and fraction. -/
def mag (x : F64) : Nat := x.bits % P63
/-- Biased exponent field. -/
def expField (x : F64) : Nat := x.mag / P52
/-- Fraction field. -/
def frac (x : F64) : Nat := x.mag % P52

def isNaN (x : F64) : Bool := decide (InfMag < x.mag)
def isInf (x : F64) : Bool := decide (x.mag = InfMag)
def isFinite (x : F64) : Bool := decide (x.mag < InfMag)
def isZero (x : F64) : Bool := decide (x.mag = 0)

inductive Class where
  | zero | subnormal | normal | inf | nan
  deriving DecidableEq, Repr

def classify (x : F64) : Class :=
  if x.mag = 0 then .zero
  else if x.mag < P52 then .subnormal
  else if x.mag < InfMag then .normal
  else if x.mag = InfMag then .inf
  else .nan

/-- Go's `math.NaN()`. -/
def nan : F64 := ofSM false 9221120237041090561
def inf (neg : Bool) : F64 := ofSM neg InfMag
def zero (neg : Bool) : F64 := ofSM neg 0
def one : F64 := ofSM false 4607182418800017408

/-! ### exact value -/

/-- Scale of a magnitude pattern: `max (e-1) 0`. -/
def magScale (m : Nat) : Nat := m / P52 - 1
/-- Integer significand at that scale. -/
def magSig (m : Nat) : Nat := m - magScale m * P52

/-- `2^1074` as a rational: the reciprocal of the smallest subnormal. -/
def two1074 : Rat := 2 ^ 1074

/-- Exact value of a finite magnitude pattern: `sig · 2^scale / 2^1074`. -/
def magVal (m : Nat) : Rat := ((magSig m * 2 ^ magScale m : Nat) : Rat) / two1074

/-- Exact value of a finite pattern (meaningless for Inf/NaN; use `toRat?`). -/
def toRat (x : F64) : Rat := if x.sign then -(magVal x.mag) else magVal x.mag

def toRat? (x : F64) : Option Rat := if x.isFinite then some x.toRat else none

/-! ### rounding -/

/-- Nearest integer, ties to even. -/
def roundNE (x : Rat) : Int :=
  let f := x.floor
  let r := x - f
  if r < 1/2 then f else if 1/2 < r then f + 1 else if f % 2 = 0 then f else f + 1

/-- Scale at which `t = ⌊q·2^1074⌋` has a 53-bit integer part (0 in the subnormal range). -/
def scaleOf (t : Nat) : Nat := if t < P53 then 0 else t.log2 - 52

/-- Magnitude pattern of the float nearest to `q ≥ 0` (ties to even); `InfMag` on overflow. -/
def roundMag (q : Rat) : Nat :=
  let y := q * two1074
  let E := scaleOf y.floor.toNat
  let m := (roundNE (y / ((2 ^ E : Nat) : Rat))).toNat
  min (E * P52 + m) InfMag

def absRat (q : Rat) : Rat := if q < 0 then -q else q

/-- Correctly rounded `q`; an exact zero takes the sign `zsign` (the IEEE rule depends on the
    operation), a non-zero value that underflows to zero keeps its own sign. -/
def ofRatS (zsign : Bool) (q : Rat) : F64 :=
  if q = 0 then zero zsign else ofSM (decide (q < 0)) (roundMag (absRat q))

/-- Correctly rounded `q` (round to nearest, ties to even; `+0` for `0`). -/
def ofRat (q : Rat) : F64 := ofRatS false q

/-! ### sign operations, comparisons -/

def neg (x : F64) : F64 := ofSM (!x.sign) x.mag
def abs (x : F64) : F64 := ofSM false x.mag

/-- Order-preserving key of a non-NaN value (`±0 ↦ 0`). -/
def key (x : F64) : Int := if x.sign then -(x.mag : Int) else x.mag

def lt (x y : F64) : Bool := !x.isNaN && !y.isNaN && decide (x.key < y.key)
def le (x y : F64) : Bool := !x.isNaN && !y.isNaN && decide (x.key ≤ y.key)
/-- IEEE `==`: `+0 == -0`, NaN is unequal to everything. -/
def eq (x y : F64) : Bool := !x.isNaN && !y.isNaN && decide (x.key = y.key)

/-! ### arithmetic -/

def add (x y : F64) : F64 :=
  if x.isNaN || y.isNaN then nan
  else if x.isInf then (if y.isInf && x.sign != y.sign then nan else x)
  else if y.isInf then y
  else ofRatS (x.sign && y.sign) (x.toRat + y.toRat)

def sub (x y : F64) : F64 := add x (neg y)

def mul (x y : F64) : F64 :=
  let s := x.sign != y.sign
  if x.isNaN || y.isNaN then nan
  else if x.isInf || y.isInf then (if x.isZero || y.isZero then nan else inf s)
  else ofRatS s (x.toRat * y.toRat)

def div (x y : F64) : F64 :=
  let s := x.sign != y.sign
  if x.isNaN || y.isNaN then nan
  else if x.isInf then (if y.isInf then nan else inf s)
  else if y.isInf then zero s
  else if y.isZero then (if x.isZero then nan else inf s)
  else ofRatS s (x.toRat / y.toRat)

/-- Integer square root by Newton's iteration from a power of two above the root. -/
def isqrtLoop : Nat → Nat → Nat → Nat
  | 0, _, x => x
  | fuel + 1, n, x =>
    let y := (x + n / x) / 2
    if y < x then isqrtLoop fuel n y else x

def isqrt (n : Nat) : Nat :=
  if n = 0 then 0 else isqrtLoop (n.log2 + 2) n (2 ^ (n.log2 / 2 + 1))

/-- Correctly rounded square root.  For a positive finite `x` let `N = x·2^1074·2^130` (an
    integer) and `s = ⌊√N⌋ ≥ 2^65`.  If `s² = N` the root `s/2^602` is rounded; otherwise the root
    lies strictly between `s` and `s+1` (in units of `2^-602`), an interval that contains neither a
    float nor a midpoint of two floats, so rounding `(2s+1)/2^603` gives the same answer. -/
def sqrt (x : F64) : F64 :=
  if x.isNaN then nan
  else if x.isZero then x
  else if x.sign then nan
  else if x.isInf then x
  else
    let n := magSig x.mag * 2 ^ magScale x.mag * 2 ^ 130
    let s := isqrt n
    if s * s = n then ofRat ((s : Rat) / ((2 ^ 602 : Nat) : Rat))
    else ofRat (((2 * s + 1 : Nat) : Rat) / ((2 ^ 603 : Nat) : Rat))

/-! ### rounding to integral values (`math.Floor/Ceil/Trunc/Round`) -/

/-- Apply an integer-valued rounding of the exact value; NaN and ±Inf map to themselves
    (NaN canonicalised), a zero result keeps the argument's sign. -/
def integral (f : Rat → Int) (x : F64) : F64 :=
  if x.isNaN then nan
  else if x.isInf then x
  else ofRatS x.sign ((f x.toRat : Int) : Rat)

def truncRat (q : Rat) : Int := if q < 0 then -((-q).floor) else q.floor
/-- Round half away from zero. -/
def roundAwayRat (q : Rat) : Int := if q < 0 then -((-q + 1/2).floor) else (q + 1/2).floor

def floor (x : F64) : F64 := integral Rat.floor x
def ceil (x : F64) : F64 := integral Rat.ceil x
def trunc (x : F64) : F64 := integral truncRat x
/-- Go's `math.Round`. -/
def roundHalfAway (x : F64) : F64 := integral roundAwayRat x

/-! ### conversions -/

/-- `float64(n)` for an `int64` (any integer, in fact): correctly rounded, `+0` for `0`. -/
def ofInt (n : Int) : F64 := ofRat (n : Rat)

/-- `int64(x)` as compiled for amd64 (CVTTSD2SQ): truncation toward zero; NaN, ±Inf and values
    outside `[-2^63, 2^63)` give `MinInt64` (the "integer indefinite" value). -/
def toInt64 (x : F64) : Int :=
  if !x.isFinite then minInt64
  else
    let t := truncRat x.toRat
    if t < minInt64 || maxInt64 < t then minInt64 else t

end F64
end Rare
