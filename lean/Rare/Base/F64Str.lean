import Rare.Base.F64
/-!
`strconv.ParseFloat(s, 64)` and `strconv.FormatFloat(x, 'f', prec, 64)` over the software
binary64 model `F64` (no `Float`).

* `parseFloat` mirrors `strconv.special` + `readFloat` + `underscoreOK` branch by branch (decimal
  and hexadecimal mantissas, underscores, the saturating exponent accumulator) and then rounds the
  *exact* rational value once (`F64.ofRatS`): Go's conversion (exact fast path, Eisel–Lemire,
  `decimal` fallback, `atofHex`) is correctly rounded.  A result that rounds to ±Inf is Go's
  range error: `none`, like a syntax error.
* `formatShortest` (`prec < 0`): the shortest decimal that reads back as the same float, the closest
  one among equally short candidates (ties to the even digit) — ported from `C19Float.shortest`.
* `formatFixed` (`prec ≥ 0`): the exact binary value rounded half-to-even at `prec` decimals
  (`bigFtoa`'s `d.Round(d.dp + prec)`).
-/
namespace Rare.F64
open Rare

def lowerAZ (b : UInt8) : UInt8 := if 65 ≤ b && b ≤ 90 then b + 32 else b
/-- `lower(c)` of strconv: `c | 0x20`. -/
def lower20 (b : UInt8) : UInt8 := b ||| 32
def isHexLetter (b : UInt8) : Bool := 97 ≤ lower20 b && lower20 b ≤ 102

/-- `commonPrefixLenIgnoreCase(s, prefix)` (the prefix is lower case). -/
def commonPrefixLen : Bytes → Bytes → Nat
  | c :: s, p :: ps => if lowerAZ c = p then commonPrefixLen s ps + 1 else 0
  | _, _ => 0

/-- `special(s)`: `(value, consumed)`. -/
def special (s : Bytes) : Option (F64 × Nat) :=
  let infCase (neg : Bool) (nsign : Nat) (r : Bytes) : Option (F64 × Nat) :=
    let n := commonPrefixLen r (ascii "infinity")
    let n := if 3 < n && n < 8 then 3 else n
    if n = 3 || n = 8 then some (inf neg, nsign + n) else none
  match s with
  | [] => none
  | 43 :: r => infCase false 1 r
  | 45 :: r => infCase true 1 r
  | c :: _ =>
    if c = 105 || c = 73 then infCase false 0 s
    else if c = 110 || c = 78 then (if commonPrefixLen s (ascii "nan") = 3 then some (nan, 3) else none)
    else none

/-- `underscoreOK(s)` -/
def underscoreOK (s : Bytes) : Bool :=
  let s := match s with
    | 45 :: r => r
    | 43 :: r => r
    | r => r
  -- saw: 0 = '^', 1 = '0', 2 = '_', 3 = '!'
  let (s, saw0, hex) : Bytes × Nat × Bool := match s with
    | 48 :: c :: r =>
      if lower20 c = 98 || lower20 c = 111 || lower20 c = 120 then (r, 1, lower20 c = 120) else (s, 0, false)
    | _ => (s, 0, false)
  let rec go : Bytes → Nat → Bool
    | [], saw => saw != 2
    | c :: r, saw =>
      if isDigitB c || (hex && isHexLetter c) then go r 1
      else if c = 95 then (if saw != 1 then false else go r 2)
      else if saw = 2 then false
      else go r 3
  go s saw0

/-- State of `readFloat`'s mantissa loop. `mant` holds *all* significant digits (Go keeps 19 /
    16 of them plus a sticky flag, which determines the same correctly rounded result). -/
structure Mant where
  mant : Nat := 0
  nd : Nat := 0
  dp : Int := 0
  sawdot : Bool := false
  sawdigits : Bool := false
  underscores : Bool := false

/-- The `loop:` of `readFloat`; returns the state and the unread rest. -/
def readMant (hex : Bool) : Bytes → Mant → Mant × Bytes
  | [], st => (st, [])
  | c :: r, st =>
    if c = 95 then readMant hex r { st with underscores := true }
    else if c = 46 then
      if st.sawdot then (st, c :: r) else readMant hex r { st with sawdot := true, dp := st.nd }
    else if isDigitB c then
      if c = 48 && st.nd = 0 then readMant hex r { st with sawdigits := true, dp := st.dp - 1 }
      else readMant hex r { st with sawdigits := true, nd := st.nd + 1,
                                    mant := st.mant * (if hex then 16 else 10) + (c.toNat - 48) }
    else if hex && isHexLetter c then
      readMant hex r { st with sawdigits := true, nd := st.nd + 1,
                               mant := st.mant * 16 + ((lower20 c).toNat - 97 + 10) }
    else (st, c :: r)

/-- The exponent digit loop: `(e, underscores seen, rest)`; `e` saturates like Go's (`if e < 10000`). -/
def readExpDigits : Bytes → Nat → Bool → Nat × Bool × Bytes
  | [], e, u => (e, u, [])
  | c :: r, e, u =>
    if c = 95 then readExpDigits r e true
    else if isDigitB c then readExpDigits r (if e < 10000 then e * 10 + (c.toNat - 48) else e) u
    else (e, u, c :: r)

def pow10 (n : Nat) : Rat := ((10 ^ n : Nat) : Rat)
def pow2 (n : Nat) : Rat := ((2 ^ n : Nat) : Rat)

/-- `mant · base^…` with the point after `dp` digits (`dp` already holds the exponent): the exact
    value, except far outside the binary64 range where only "overflows" / "rounds to zero" matters. -/
def scaledValue (hex : Bool) (mant nd : Nat) (dp : Int) : Option Rat :=
  if mant = 0 then some 0
  else if hex then
    -- value = mant · 2^(dp − 4·nd), 2^(log2 mant + x) ≤ value
    let x : Int := dp - 4 * nd
    let top : Int := (mant.log2 : Int) + x
    if top > 1030 then none
    else if top < -1085 then some 0
    else if x ≥ 0 then some ((mant : Rat) * pow2 x.toNat) else some ((mant : Rat) / pow2 (-x).toNat)
  else
    -- value = mant · 10^(dp − nd) ∈ [10^(dp−1), 10^dp)
    if dp > 310 then none
    else if dp < -330 then some 0
    else
      let x : Int := dp - nd
      if x ≥ 0 then some ((mant : Rat) * pow10 x.toNat) else some ((mant : Rat) / pow10 (-x).toNat)

/-- Optional sign of `readFloat`. -/
def splitSign (s : Bytes) : Bool × Bytes :=
  match s with
  | 43 :: r => (false, r)
  | 45 :: r => (true, r)
  | r => (false, r)

/-- `i+2 < len(s) && s[i] == '0' && lower(s[i+1]) == 'x'`: `(hex, digits)`. -/
def hexPrefix (body : Bytes) : Bool × Bytes :=
  match body with
  | 48 :: c :: r => if lower20 c = 120 && !r.isEmpty then (true, r) else (false, body)
  | _ => (false, body)

/-- The optional exponent: `(decimal point, underscores seen, unread rest)`; `none` = syntax error. -/
def readExp (hex : Bool) (dp1 : Int) (rest : Bytes) : Option (Int × Bool × Bytes) :=
  match rest with
  | c :: r =>
    if lower20 c = (if hex then 112 else 101) then
      match r with
      | [] => none
      | _ =>
        let (esign, r2) : Int × Bytes := match r with
          | 43 :: r' => (1, r')
          | 45 :: r' => (-1, r')
          | _ => (1, r)
        match r2 with
        | d :: _ =>
          if isDigitB d then
            let (e, u, r3) := readExpDigits r2 0 false
            some (dp1 + (e : Int) * esign, u, r3)
          else none
        | [] => none
    else if hex then none else some (dp1, false, rest)
  | [] => if hex then none else some (dp1, false, rest)

/-- Everything after the mantissa loop of `readFloat`, and the conversion. -/
def finishParse (s : Bytes) (neg hex : Bool) (st : Mant) (rest : Bytes) : Option F64 :=
  if !st.sawdigits then none else
  let dp0 : Int := if st.sawdot then st.dp else st.nd
  let dp1 : Int := if hex then dp0 * 4 else dp0
  match readExp hex dp1 rest with
  | none => none
  | some (dp, u, rest2) =>
    if !rest2.isEmpty then none
    else if (st.underscores || u) && !underscoreOK s then none
    else
      match scaledValue hex st.mant st.nd dp with
      | none => none
      | some q =>
        let x := ofRatS neg (if neg then -q else q)
        if x.isInf then none else some x

/-- `strconv.ParseFloat(s, 64)`; `none` = error (syntax, or range: the value rounds to ±Inf). -/
def parseFloat (s : Bytes) : Option F64 :=
  match special s with
  | some (v, n) => if n = s.length then some v else none
  | none =>
    if s.isEmpty then none else
    let sb := splitSign s
    let hp := hexPrefix sb.2
    let mr := readMant hp.1 hp.2 {}
    finishParse s sb.1 hp.1 mr.1 mr.2

/-! ### formatting -/

def zerosB (n : Nat) : Bytes := List.replicate n 48

/-- Digits `ds` of an integer `c`, shown as `c / 10^fr`. -/
def placePoint (ds : Bytes) (fr : Nat) : Bytes :=
  if fr = 0 then ds
  else if ds.length > fr then ds.take (ds.length - fr) ++ [46] ++ ds.drop (ds.length - fr)
  else [48, 46] ++ zerosB (fr - ds.length) ++ ds

/-- `10^e` for an integer `e`. -/
def p10 (e : Int) : Rat := if e ≥ 0 then pow10 e.toNat else 1 / pow10 (-e).toNat

/-- The decimal exponent `e` with `10^(e-1) ≤ v < 10^e`, found from the binary logarithm `lg`
    (`⌊log₂ v⌋`) and at most three comparisons. -/
def decExp (v : Rat) (lg : Int) : Int :=
  let e0 := lg * 30103 / 100000 - 1
  if p10 (e0 + 2) ≤ v then e0 + 3 else if p10 (e0 + 1) ≤ v then e0 + 2 else if p10 e0 ≤ v then e0 + 1 else e0

/-- The `n`-digit candidates `⌊v/10^x⌋` and its successor (`x = e − n`): the one(s) that read back as
    `mag`; if both do, the closer one, ties to the even digit. -/
def tryDigits (mag : Nat) (v : Rat) (e : Int) (n : Nat) : Option (Nat × Int) :=
  let x : Int := e - n
  let sc := v / p10 x
  let lo := sc.floor.toNat
  let r := sc - (lo : Rat)
  let okLo := roundMag ((lo : Rat) * p10 x) == mag
  let okHi := roundMag (((lo + 1 : Nat) : Rat) * p10 x) == mag
  if okLo && okHi then
    (if r < 1/2 || (r = 1/2 && lo % 2 == 0) then some (lo, x) else some (lo + 1, x))
  else if okLo then some (lo, x)
  else if okHi then some (lo + 1, x)
  else none

/-- Try `n, n+1, …` digits with the candidate function `t`. -/
def searchBy (t : Nat → Option (Nat × Int)) : Nat → Nat → Nat × Int
  | 0, _ => (0, 0)
  | fuel + 1, n =>
    match t n with
    | some r => r
    | none => searchBy t fuel (n + 1)

/-- Shortest decimal `c·10^x` that rounds to the finite positive magnitude `mag`; among equally
    short ones the closest to the exact value, ties to the even digit. -/
def shortest (mag : Nat) : Nat × Int :=
  let v := magVal mag
  let lg : Int := ((magSig mag).log2 : Int) + magScale mag - 1074
  searchBy (tryDigits mag v (decExp v lg)) 18 1

def stripZeros : Nat → Int → Nat → Nat × Int
  | 0, x, c => (c, x)
  | f + 1, x, c => if c ≠ 0 && c % 10 == 0 then stripZeros f (x + 1) (c / 10) else (c, x)

/-- Body (no sign) of the shortest `'f'` rendering of a finite magnitude. -/
def shortestBody (mag : Nat) : Bytes :=
  if mag = 0 then [48]
  else
    let (c0, x0) := shortest mag
    let (c, x) := stripZeros 400 x0 c0
    let ds := natDigits c
    if x ≥ 0 then ds ++ zerosB x.toNat else placePoint ds (-x).toNat

/-- Body of `'f'` with `prec` decimals: the exact value rounded half-to-even. -/
def fixedBody (mag : Nat) (prec : Nat) : Bytes :=
  let n := (roundNE (magVal mag * pow10 prec)).toNat
  placePoint (natDigits n) prec

/-- `strconv.FormatFloat(x, 'f', prec, 64)`; a negative `prec` means "shortest". -/
def format (x : F64) (prec : Int) : Bytes :=
  if x.isNaN then ascii "NaN"
  else if x.isInf then (if x.sign then ascii "-Inf" else ascii "+Inf")
  else
    let body := if prec < 0 then shortestBody x.mag else fixedBody x.mag prec.toNat
    if x.sign then 45 :: body else body

def formatShortest (x : F64) : Bytes := format x (-1)

end Rare.F64
