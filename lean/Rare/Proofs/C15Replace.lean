import Rare.Model.C15Replace
import Rare.Model.C15Trunc
/-!
C15 – from a quiet state (reader in its `select`, no signal, no queued event) nothing moves without the writer.
-/
namespace Rare.Follow

variable {β : Type}

theorem quiet_no_step {cfg : NCfg} {w : Who} {s s' : NSt β} (hq : s.quiet) (hw : w ≠ .writer) :
    ¬ NStep cfg w s s' := by
  obtain ⟨h1, h2, h3, h4⟩ := hq
  intro hs
  cases hs with
  | append _ i bs hp hne => exact hw rfl
  | remove _ i hp => exact hw rfl
  | create _ hp => exact hw rfl
  | noise _ => exact hw rfl
  | dispatch _ e rest he => rw [h4] at he; cases he
  | readSome _ x n hrd hx hn1 hn => rw [h1] at hrd; cases hrd
  | readEmpty _ x hrd hx hu => rw [h1] at hrd; cases hrd
  | readNil _ hrd hx => rw [h1] at hrd; cases hrd
  | recvW _ hrd hpw => omega
  | recvD _ hrd hpd hre => omega
  | recvDPlain _ hrd hpd hre => omega

theorem quiet_stays {cfg : NCfg} {s s' : NSt β} (hq : s.quiet) (hr : NSysReach cfg s s') : s' = s := by
  cases hr with
  | refl => rfl
  | step hw hs _ => exact absurd hs (quiet_no_step hq hw)

end Rare.Follow
