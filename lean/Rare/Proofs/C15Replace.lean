import Rare.Model.C15Replace
import Rare.Model.C15Trunc
import Rare.Proofs.C15NotifyLive
import Rare.Proofs.C15Rename
/-!
C15 – a file renamed onto the followed path.
* From a quiet state (reader in its `select`, no signal, no queued event) nothing moves without the writer.
* With re-open the invariant `NInv` of the notify system is preserved by the writer step `replace` as well
  (the `Create` event is a pending delete signal: `dP`), hence by every step of the full system `NStepO`.
-/
namespace Rare.Follow
open Rare.C15.Spec

variable {β : Type}

theorem quiet_no_step {cfg : NCfg} {w : Who} {s s' : NSt β} (hq : s.quiet) (hw : w ≠ .writer) :
    ¬ NStep cfg w s s' := by
  obtain ⟨h1, h2, h3, h4⟩ := hq
  intro hs
  cases hs with
  | append _ i bs hp hne => exact hw rfl
  | remove _ i hp => exact hw rfl
  | create _ hp => exact hw rfl
  | noise _ => exact hw rfl
  | dispatch _ e rest he => rw [h4] at he; cases he
  | readSome _ x n hrd hx hn1 hn => rw [h1] at hrd; cases hrd
  | readEmpty _ x hrd hx hu => rw [h1] at hrd; cases hrd
  | readNil _ hrd hx => rw [h1] at hrd; cases hrd
  | recvW _ hrd hpw => omega
  | recvD _ hrd hpd hre => omega
  | recvDPlain _ hrd hpd hre => omega

theorem quiet_stays {cfg : NCfg} {s s' : NSt β} (hq : s.quiet) (hr : NSysReach cfg s s') : s' = s := by
  cases hr with
  | refl => rfl
  | step hw hs _ => exact absurd hs (quiet_no_step hq hw)

/-- a replace is, for the file system, a creation followed by an append to the new inode -/
theorem FS.replace_eq (fs : FS β) (bs : List β) : fs.replace bs = (fs.create).append fs.next bs := by
  simp only [FS.replace, FS.create, FS.append]
  congr 1
  funext j
  by_cases hj : j = fs.next <;> simp [hj]

variable {cfg : NCfg} {ex : Bool} {st0 : Nat}

/-- The invariant of the notify system survives an atomic replace in re-open mode. -/
theorem ninv_replace {s : NSt β} (h : NInv cfg ex st0 s) (hre : cfg.reopen = true) (bs : List β) :
    NInv cfg ex st0 { s with fs := s.fs.replace bs, evq := s.evq ++ [.create], removes := s.removes + 1 } := by
  have hne : ∀ x ∈ s.hist ++ s.f.toList, x.ino ≠ s.fs.next := by
    intro x hx; have := (h.core.bounds x hx).2.2; omega
  have hcont : ∀ x ∈ s.hist ++ s.f.toList, (s.fs.replace bs).content x.ino = s.fs.content x.ino := by
    intro x hx; simp [FS.replace, hne x hx]
  refine ⟨?_, ?_, h.starts, ?_, ?_, h.incr, ?_, ?_, ?_, ?_, ?_, ?_, ?_⟩
  · show Core (s.fs.replace bs) s.f s.hist s.delivered
    rw [FS.replace_eq]; exact h.core.create.append _ _
  · intro x hx
    show x.pos ≤ ((s.fs.replace bs).content x.ino).length
    rw [hcont x hx]; exact h.strong x hx
  · intro _ x hx j hj
    simp only [FS.replace, Option.some.injEq] at hj; subst hj
    exact (h.core.bounds x (by simp [hx])).2.2
  · intro x hx j hj
    simp only [FS.replace, Option.some.injEq] at hj; subst hj
    have hx' : s.f = some x := hx
    exact Nat.le_of_lt (h.core.bounds x (by simp [hx'])).2.2
  · intro x hx hu
    have hx' : s.f = some x := hx
    have hu' : unread s.fs x ≠ [] := by
      have := hcont x (by simp [hx'])
      simpa [unread, this] using hu
    rcases h.wake x hx' hu' with h1 | h1 | h1
    · exact Or.inl h1
    · exact Or.inr (Or.inl (by simp [h1]))
    · exact Or.inr (Or.inr h1)
  · intro _; exact Or.inl (Nat.succ_pos _)
  · intro hr; have := (h.ended hr).1; rw [hre] at this; cases this
  · intro hr; rw [hre] at hr; cases hr
  · intro x _ _; exact Or.inr (Or.inr ⟨hre, by simp⟩)
  · intro _ _ j _; exact Or.inr (Or.inl (by simp))
  · intro _ hr; simp at hr

theorem ninvO_step (hW : 1 ≤ cfg.capW) (hD : 1 ≤ cfg.capD) (hre : cfg.reopen = true) {w : Who} {s s' : NSt β}
    (h : NInv cfg ex st0 s) (hs : NStepO cfg w s s') : NInv cfg ex st0 s' := by
  cases hs with
  | base hb => exact ninv_step hW hD h (nstepR_is_nstep hre hb)
  | replace _ i bs hp => exact ninv_replace h hre bs

theorem ninvO_reach (hW : 1 ≤ cfg.capW) (hD : 1 ≤ cfg.capD) (hre : cfg.reopen = true) (c0 : Option (List β))
    (tail : Bool) {s : NSt β} (hr : NReachO cfg (ninit c0 tail) s) : NInv cfg c0.isSome (start0 c0 tail) s := by
  induction hr with
  | refl => exact ninv_init cfg c0 tail
  | step _ hs ih => exact ninvO_step hW hD hre ih hs

theorem nreachR_is_nreachO {cfg : NCfg} {s0 s : NSt β} (hr : NReachR cfg s0 s) : NReachO cfg s0 s := by
  induction hr with
  | refl => exact .refl
  | step _ hs ih => exact .step ih (.base hs)

end Rare.Follow
