import Rare.Proofs.C09Loop
import Rare.Gen.C09
/-!
C09: the hand model of the tokenizer state machines (`Rare/Model/Expr/Core.lean`) equals what the translator
regenerates from /repo (`Rare/Gen/C09.lean`: `splitTokenizedArguments` statement by statement, the branch
conditions of `Compile`'s rune loop, `unescape`).
-/
namespace Rare.C09
open Rare Rare.Expr

/-- the model's splitter state as the record of the Go function's local variables -/
def toGen (s : SplitSt) : Gen.C09.S := ⟨s.args, s.sb, s.depth, s.quoted, s.escaped⟩

theorem c92 : Char.ofNat 92 = '\\' := rfl
theorem c34 : Char.ofNat 34 = '"' := rfl
theorem c123 : Char.ofNat 123 = '{' := rfl
theorem c125 : Char.ofNat 125 = '}' := rfl

theorem splitStep_gen (s : SplitSt) (r : Char) : toGen (splitStep s r) = Gen.C09.step isSpaceRune (toGen s) r := by
  obtain ⟨args, sb, depth, quoted, escaped⟩ := s
  simp only [splitStep, Gen.C09.step, toGen, c92, c34, c123, c125]
  cases escaped <;> cases quoted <;> by_cases h1 : r = '\\' <;> by_cases h2 : r = '"' <;> by_cases h3 : r = '{' <;>
    by_cases h4 : r = '}' <;> by_cases h5 : depth > 0 <;> by_cases h6 : depth = 0 <;>
    by_cases h7 : isSpaceRune r = true <;> by_cases h8 : sb = [] <;> simp_all <;> (try split) <;> (try simp_all) <;> (try omega)

theorem foldl_gen (t : List Char) : ∀ s, toGen (t.foldl splitStep s) = t.foldl (Gen.C09.step isSpaceRune) (toGen s) := by
  induction t with
  | nil => intro _; rfl
  | cons c t ih => intro s; simp only [List.foldl_cons]; rw [ih, splitStep_gen]

theorem splitArgs_gen (t : List Char) : splitArgs t = Gen.C09.split isSpaceRune t := by
  have h := foldl_gen t SplitSt.init
  have hi : toGen SplitSt.init = Gen.C09.init := rfl
  rw [hi] at h
  unfold splitArgs Gen.C09.split Gen.C09.finish
  rw [← h]
  generalize List.foldl splitStep SplitSt.init t = s
  obtain ⟨a, sb, d, q, e⟩ := s
  cases sb <;> simp [toGen]

theorem unescape_gen (c : Char) : unescape c = Gen.C09.unescape c := by
  simp only [unescape, Gen.C09.unescape, Gen.C09.unescapeTable]
  by_cases h1 : c = 'n'
  · subst h1; rfl
  by_cases h2 : c = 'r'
  · subst h2; rfl
  by_cases h3 : c = 't'
  · subst h3; rfl
  have e1 : (Char.ofNat 110 == c) = false := by simpa [show Char.ofNat 110 = 'n' from rfl] using fun h => h1 h.symm
  have e2 : (Char.ofNat 114 == c) = false := by simpa [show Char.ofNat 114 = 'r' from rfl] using fun h => h2 h.symm
  have e3 : (Char.ofNat 116 == c) = false := by simpa [show Char.ofNat 116 = 't' from rfl] using fun h => h3 h.symm
  simp [List.find?, e1, e2, e3, h1, h2, h3]

/-- index of the first condition of an if / else-if chain that holds (= length: the final `else`) -/
def firstTrue : List Bool → Nat
  | [] => 0
  | true :: _ => 0
  | false :: r => firstTrue r + 1

section
variable (fuel : Nat) (reg : Registry) (opt : Bool) (all : List Char)

theorem scanner_gen (r : Char) (rest : List Char) (i : Nat) (st : CompSt) :
    compileLoop fuel reg opt all (r :: rest) i st =
      match firstTrue (Gen.C09.scanConds r i (i + 1 + rest.length) st.inStatement), rest with
      | 0, e :: rest' => compileLoop fuel reg opt all rest' (i + 2) { st with sb := st.sb ++ [Gen.C09.unescape e] }
      | 0, [] => .ok st
      | 1, _ =>
        if st.inStatement = 0 then
          compileLoop fuel reg opt all rest (i + 1)
            { st with stages := if st.sb.isEmpty then st.stages else st.stages ++ [Stage.lit (charsToBytes st.sb)],
                      sb := [], startStatement := i, inStatement := 1 }
        else compileLoop fuel reg opt all rest (i + 1) { st with sb := st.sb ++ ['{'], inStatement := st.inStatement + 1 }
      | 2, _ =>
        if st.inStatement = 1 then
          match closeStatement fuel reg opt all i st with
          | .error m => .error m
          | .ok st' => compileLoop fuel reg opt all rest (i + 1) { st' with sb := [], inStatement := 0 }
        else compileLoop fuel reg opt all rest (i + 1) { st with sb := st.sb ++ ['}'], inStatement := st.inStatement - 1 }
      | _, _ => compileLoop fuel reg opt all rest (i + 1) { st with sb := st.sb ++ [r] } := by
  simp only [Gen.C09.scanConds, c92, c123, c125]
  by_cases h1 : r = '\\'
  · subst h1
    cases rest with
    | nil =>
      have : ¬ ((i : Int) + 1 < ((i + 1 + ([] : List Char).length : Nat) : Int)) := by simp
      simp [firstTrue, loop_esc_last, loop_nil]
    | cons e rest' =>
      have : ((i : Int) + 1 < (i : Int) + 1 + ((rest'.length : Int) + 1)) := by omega
      simp [firstTrue, this, loop_esc, unescape_gen]
  by_cases h2 : r = '{'
  · subst h2
    by_cases h0 : st.inStatement = 0
    · simp [firstTrue, h0, loop_open0 fuel reg opt all rest i st h0]
    · simp [firstTrue, h0, loop_openN fuel reg opt all rest i st h0]
  by_cases h3 : r = '}'
  · subst h3
    by_cases h0 : st.inStatement = 0
    · have := loop_plain fuel reg opt all '}' rest i st (by decide) (by decide) (Or.inr h0)
      simp [firstTrue, h0, this]
    · have hp : 0 < st.inStatement := by omega
      by_cases h1' : st.inStatement = 1
      · rw [loop_close1 fuel reg opt all rest i st h1']
        simp [firstTrue, h1']
        try rfl
      · rw [loop_closeN fuel reg opt all rest i st (by omega)]
        simp [firstTrue, hp, h1']
  · rw [loop_plain fuel reg opt all r rest i st h1 h2 (Or.inl h3)]
    have b1 : (r == '\\') = false := by simpa using h1
    have b2 : (r == '{') = false := by simpa using h2
    have b3 : (r == '}') = false := by simpa using h3
    simp only [b1, b2, b3, Bool.false_and, firstTrue]

end

theorem argConds_gen (args : List (List Char)) :
    Gen.C09.argConds args.length = [args.isEmpty, decide (args.length = 1)] := by
  cases args with
  | nil => simp [Gen.C09.argConds]
  | cons a r =>
    simp [Gen.C09.argConds]
    refine ⟨by omega, ?_⟩
    rw [← List.length_eq_zero_iff]; omega

end Rare.C09
