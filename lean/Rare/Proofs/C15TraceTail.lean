import Rare.Proofs.C15Trace
import Rare.Proofs.C15TailSpec
/-!
The batch state of the composed loop `Rare.C15.Tail.iterN` IS the heap-explicit batching loop
`Rare.C15.Batch` folded over the tokens scanned so far, each paired with the timer's answer at its index;
hence the starts and sizes of the batches of `tailToChan` are those of the flush log `flushLog` under the
oracle `timer 0, timer 1, …` (one answer per line of the delivered stream).
-/
namespace Rare.C15.Tail
open Rare.C04 Rare.C15.Batch Rare.C15.Trace

/-- the scanned tokens paired with the timer's answer at their index -/
def flagged {α : Type} (timer : Nat → Bool) (vs : List α) : List (α × Bool) := vs.zipIdx.map fun p => (p.1, timer p.2)

theorem flagged_snoc {α : Type} (timer : Nat → Bool) (vs : List α) (v : α) :
    flagged timer (vs ++ [v]) = flagged timer vs ++ [(v, timer vs.length)] := by
  simp [flagged, List.zipIdx_append]

theorem flagged_snd {α : Type} (timer : Nat → Bool) (vs : List α) :
    (flagged timer vs).map (·.2) = (List.range vs.length).map timer := by
  simp only [flagged, List.map_map, Function.comp_def]
  rw [List.range_eq_range', ← List.zipIdx_map_snd 0 vs, List.map_map]
  rfl

structure K (source : String) (batchSize : Nat) (timer : Nat → Bool) (s : TSt) : Prop where
  lines : s.lines = s.toks.length
  run : s.status ≠ .closed →
    s.b = (flagged timer (s.toks.map (·.1))).foldl (step source batchSize) (St.init batchSize)
  fin : s.status = .closed → s.b = Batch.run source batchSize (flagged timer (s.toks.map (·.1)))

theorem k_iter {source : String} (batchSize fuel : Nat) (timer : Nat → Bool) {s : TSt}
    (h : K source batchSize timer s) : K source batchSize timer (iter source batchSize fuel timer s) := by
  unfold iter
  split
  · rename_i hrun
    have hb := h.run (by rw [hrun]; decide)
    generalize s.imm.scan fuel = r
    obtain ⟨res, imm'⟩ := r
    cases res with
    | tok v bytes =>
      refine ⟨by simp [h.lines], fun _ => ?_, fun hc => by simp at hc⟩
      simp only [advance_b, advance_toks, List.map_append, List.map_cons, List.map_nil]
      rw [flagged_snoc, List.foldl_append, ← hb, h.lines]
      simp
    | done =>
      refine ⟨by simpa using h.lines, fun hc => by simp at hc, fun _ => ?_⟩
      simp only [advance_b, advance_toks, Batch.run]
      rw [hb]
    | fuel =>
      refine ⟨by simpa using h.lines, fun _ => by simpa using hb, fun hc => by simp at hc⟩
  · exact h

theorem k_iterN {source : String} (batchSize fuel : Nat) (timer : Nat → Bool) (k : Nat) :
    ∀ {s : TSt}, K source batchSize timer s → K source batchSize timer (iterN source batchSize fuel timer k s) := by
  induction k with
  | zero => intro s h; exact h
  | succ k ih => intro s h; exact ih (k_iter batchSize fuel timer h)

theorem k_init (source : String) (bufSize batchSize : Nat) (timer : Nat → Bool) (rd : Reader) :
    K source batchSize timer (TSt.init bufSize batchSize rd) :=
  ⟨rfl, fun _ => rfl, fun h => by simp [TSt.init] at h⟩

/-- **The loop of `tailToChan` is `Batch.run`** over the scanned tokens with the timer's answers. -/
theorem tail_b_eq_run (source : String) (bufSize batchSize : Nat) (timer : Nat → Bool) (data : Bytes)
    (script : List Step) (hb : 1 ≤ bufSize) :
    (tailToChan source bufSize batchSize timer data script).b =
      Batch.run source batchSize (flagged timer ((tailToChan source bufSize batchSize timer data script).toks.map (·.1))) :=
  (k_iterN batchSize _ timer _ (k_init source bufSize batchSize timer ⟨data, script⟩)).fin
    (tail_closed source bufSize batchSize timer data script hb)

theorem numbered_shape (s : TSt) : s.numbered.map shape = (s.b.out.map s.b.read).map shape := by
  simp [TSt.numbered, TSt.readBatch, St.read, shape, List.map_map, Function.comp_def]

/-- The starts and sizes of the batches of `tailToChan` are those of the flush log under the oracle
    `timer 0 … timer (L-1)`, `L` = number of lines of the delivered stream. -/
theorem tail_shapes_eq_flushLog (source : String) (bufSize batchSize : Nat) (timer : Nat → Bool) (data : Bytes)
    (script : List Step) (hb : 1 ≤ bufSize) :
    let t := tailToChan source bufSize batchSize timer data script
    t.numbered.map shape =
      (flushLog batchSize ((List.range (splitLines t.imm.delivered).length).map timer) true).map fshape := by
  intro t
  have hj : J source t := j_after source bufSize batchSize timer data script hb _
  have hc := tail_closed source bufSize batchSize timer data script hb
  obtain ⟨_, _, h3, _⟩ := hj.fin hc
  have hlen : (splitLines t.imm.delivered).length = (t.toks.map (·.1)).length := by rw [h3]; simp
  rw [numbered_shape, tail_b_eq_run source bufSize batchSize timer data script hb, run_refines, hlen,
    ← flagged_snd timer, flushLog_run]

end Rare.C15.Tail
