import Rare.Model.Expr.Core
/-! Laws of the `Comp` monad and of the compile-time optimiser (used by C08, C09, C10). -/
namespace Rare.Expr

theorem Comp.bind_ret {α : Type} (c : Comp α) : c.bind .ret = c := by
  induction c with
  | ret a => rfl
  | getMatch i k ih => simp only [Comp.bind]; congr 1; funext b; exact ih b
  | getKey s k ih => simp only [Comp.bind]; congr 1; funext b; exact ih b
  | panic m => rfl

theorem Comp.bind_assoc {α β γ : Type} (c : Comp α) (f : α → Comp β) (g : β → Comp γ) :
    (c.bind f).bind g = c.bind (fun a => (f a).bind g) := by
  induction c with
  | ret a => rfl
  | getMatch i k ih => simp only [Comp.bind]; congr 1; funext b; exact ih b
  | getKey s k ih => simp only [Comp.bind]; congr 1; funext b; exact ih b
  | panic m => rfl

@[simp] theorem Comp.ret_bind {α β : Type} (a : α) (f : α → Comp β) : (Comp.ret a).bind f = f a := rfl

@[simp] theorem Comp.bind_eq {α β : Type} (c : Comp α) (f : α → Comp β) : c >>= f = c.bind f := rfl
@[simp] theorem Comp.pure_eq {α : Type} (a : α) : (pure a : Comp α) = .ret a := rfl

/-- The probe counter only grows. -/
theorem Comp.probeN_ge {α : Type} (c : Comp α) : ∀ (n : Nat) (a : α) (m : Nat), c.probeN n = .ok (a, m) → n ≤ m := by
  induction c with
  | ret a => intro n a' m h; simp [Comp.probeN] at h; omega
  | getMatch i k ih => intro n a m h; simp only [Comp.probeN] at h; have := ih [] _ _ _ h; omega
  | getKey s k ih => intro n a m h; simp only [Comp.probeN] at h; have := ih [] _ _ _ h; omega
  | panic msg => intro n a m h; simp [Comp.probeN] at h

/-- `EvalStaticStage` says "constant" exactly when the stage makes no look-up at all: it is then a
    literal, and its value is the same in every context. -/
theorem Comp.probe_constant {α : Type} (c : Comp α) (v : α) (h : c.probe = .ok (v, true)) : c = .ret v := by
  unfold Comp.probe at h
  cases c with
  | ret a => simp [Comp.probeN] at h; rw [h]
  | getMatch i k =>
    simp only [Comp.probeN] at h
    split at h
    · rename_i a n heq
      have := Comp.probeN_ge _ _ _ _ heq
      simp at h; omega
    · simp at h
  | getKey s k =>
    simp only [Comp.probeN] at h
    split at h
    · rename_i a n heq
      have := Comp.probeN_ge _ _ _ _ heq
      simp at h; omega
    · simp at h
  | panic m => simp [Comp.probeN] at h

theorem Comp.run_ret {α : Type} (ctx : Ctx) (v : α) : (Comp.ret v).run ctx = .ok v := rfl

/-! ### concatenation of stages -/

theorem concatStages_append (a b : List Stage) :
    concatStages (a ++ b) = (concatStages a).bind fun x => (concatStages b).bind fun y => .ret (x ++ y) := by
  induction a with
  | nil =>
    simp only [List.nil_append, concatStages, Comp.ret_bind]
    exact (Comp.bind_ret _).symm
  | cons s rest ih =>
    simp only [List.cons_append, concatStages, Comp.bind_eq, Comp.pure_eq, ih, Comp.bind_assoc, Comp.ret_bind]
    congr 1; funext x
    congr 1; funext y
    congr 1; funext z
    simp

theorem concatStages_lit (b : Bytes) : concatStages [Stage.lit b] = .ret b := by
  simp [concatStages, Stage.lit]

theorem joinStages_eq (l : List Stage) : joinStages l = concatStages l := by
  match l with
  | [] => rfl
  | [s] =>
    simp only [joinStages, concatStages, Comp.bind_eq, Comp.pure_eq, Comp.ret_bind]
    have : (fun a : Bytes => (Comp.ret (a ++ []) : Comp Bytes)) = Comp.ret := by funext a; simp
    rw [this, Comp.bind_ret]
  | _ :: _ :: _ => rfl

/-- Loop invariant of `optimize`: the pending constant text `sb` followed by the remaining stages,
    appended to what was emitted, concatenates to the same stage. -/
theorem optimizeGo_sound : ∀ (stages : List Stage) (sb : Bytes) (acc out : List Stage),
    optimizeGo stages sb acc = .ok out →
    concatStages out = concatStages (acc ++ [Stage.lit sb] ++ stages) := by
  intro stages
  induction stages with
  | nil =>
    intro sb acc out h
    simp only [optimizeGo] at h
    split at h
    · rename_i he
      simp at h; subst h
      have : sb = [] := by simpa using he
      subst this
      rw [List.append_nil, concatStages_append, concatStages_lit]
      simp only [Comp.ret_bind, List.append_nil]
      exact (Comp.bind_ret _).symm
    · simp at h; subst h; simp
  | cons st rest ih =>
    intro sb acc out h
    simp only [optimizeGo] at h
    split at h
    · simp at h
    · rename_i v hp
      have hst := Comp.probe_constant st v hp
      have := ih _ _ _ h
      rw [this, hst]
      simp only [List.append_assoc, concatStages_append, concatStages_lit, List.singleton_append,
        concatStages, Comp.bind_eq, Comp.pure_eq, Comp.ret_bind, Comp.bind_assoc, Stage.lit]
    · rename_i v hp
      have := ih _ _ _ h
      rw [this]
      split
      · rename_i he
        have : sb = [] := by simpa using he
        subst this
        simp only [List.append_assoc, concatStages_append, concatStages_lit, List.singleton_append,
          concatStages, Comp.bind_eq, Comp.pure_eq, Comp.ret_bind, Comp.bind_assoc, Stage.lit, List.nil_append]
      · simp only [List.append_assoc, concatStages_append, concatStages_lit, List.singleton_append,
          concatStages, Comp.bind_eq, Comp.pure_eq, Comp.ret_bind, Comp.bind_assoc, Stage.lit, List.nil_append,
          List.cons_append]

theorem optimize_sound (stages out : List Stage) (h : optimize stages = .ok out) :
    concatStages out = concatStages stages := by
  have := optimizeGo_sound stages [] [] out h
  rw [this]
  simp only [List.nil_append, List.cons_append, concatStages, Stage.lit, Comp.bind_eq, Comp.ret_bind, Comp.pure_eq]
  exact Comp.bind_ret _

end Rare.Expr
