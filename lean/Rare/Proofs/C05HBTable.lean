import Rare.Proofs.C05HB
import Rare.Proofs.Lockset
/-!
# From the race check on a table to data-race freedom of an execution (C05)

`lockset_ok` (Props/C05) is a statement about TABLES of access sites; `Proofs/C05HB.lean` is a statement about
EXECUTIONS.  What connects the two is what the extractor's syntactic analysis is trusted for.  `Abstracts` writes that
trust down as a hypothesis – every access of the execution is made at a site of the table; two accesses to the same
location are sites the table calls conflicting; a site marked atomic is an atomic access; a site marked "W"/"R" is
executed while the thread holds that mutex exclusively / as a reader; a site the table orders with another role is
ordered with it by happens-before – and `table_no_race` proves: a table that passes the check + an execution it
abstracts ⇒ the execution has no data race.
-/
namespace Rare.Lockset.HB2
open Rare.Gen.Access (Acc)

structure Abstracts (tr : List Ev) (hs : Nat → Locks) (rows : List Acc) (site : Nat → Option Acc)
    (mid : String → Nat) : Prop where
  covered : ∀ (k : Nat) (e : Ev) (x : Nat) (w a : Bool), tr[k]? = some e → e.op = Op.acc x w a →
    ∃ r, site k = some r ∧ r ∈ rows
  conflicts : ∀ (i j : Nat) (a b : Ev) (ra rb : Acc) (x : Nat) (w1 a1 w2 a2 : Bool),
    tr[i]? = some a → tr[j]? = some b → site i = some ra → site j = some rb →
    a.op = Op.acc x w1 a1 → b.op = Op.acc x w2 a2 → (w1 = true ∨ w2 = true) → Lockset.conflict ra rb = true
  atomic : ∀ (k : Nat) (e : Ev) (x : Nat) (w a : Bool) (r : Acc), tr[k]? = some e → e.op = Op.acc x w a →
    site k = some r → r.atomic = true → a = true
  excl : ∀ (k : Nat) (e : Ev) (r : Acc), tr[k]? = some e → site k = some r → r.lock = "W" →
    Holds (hs k) (mid r.mutex) e.tid true
  shared : ∀ (k : Nat) (e : Ev) (r : Acc), tr[k]? = some e → site k = some r → r.lock ≠ "" → r.lock ≠ "W" →
    Holds (hs k) (mid r.mutex) e.tid false
  ordered : ∀ (i j : Nat) (a b : Ev) (ra rb : Acc), i < j → tr[i]? = some a → tr[j]? = some b →
    site i = some ra → site j = some rb → a.tid ≠ b.tid → (rb.fn ∈ ra.ord ∨ ra.fn ∈ rb.ord) → HB tr i j

/-- **A table that passes the pairwise check + an execution it abstracts ⇒ no data race.** -/
theorem table_no_race {tr : List Ev} {hs : Nat → Locks} {rows : List Acc} {site : Nat → Option Acc}
    {mid : String → Nat} (hex : Exec tr hs) (habs : Abstracts tr hs rows site mid)
    (hsafe : ∀ a ∈ rows, ∀ b ∈ rows, Lockset.conflict a b = true → Lockset.safePair a b = true) : ¬ Race tr := by
  rintro ⟨i, j, a, b, hij, ha, hb, ⟨x, w1, a1, w2, a2, hoa, hob, hw, hat⟩, hne, hnhb⟩
  obtain ⟨ra, hsa, hra⟩ := habs.covered i a x w1 a1 ha hoa
  obtain ⟨rb, hsb, hrb⟩ := habs.covered j b x w2 a2 hb hob
  have hc := habs.conflicts i j a b ra rb x w1 a1 w2 a2 ha hb hsa hsb hoa hob hw
  rcases Lockset.safePair_cases (hsafe ra hra rb hrb hc) with ⟨h1, h2⟩ | ⟨hla, hlb, hm, hx⟩ | hord
  · exact hat ⟨habs.atomic i a x w1 a1 ra ha hoa hsa h1, habs.atomic j b x w2 a2 rb hb hob hsb h2⟩
  · have hA : Holds (hs i) (mid ra.mutex) a.tid (decide (ra.lock = "W")) := by
      by_cases h : ra.lock = "W"
      · simpa [h] using habs.excl i a ra ha hsa h
      · simpa [h] using habs.shared i a ra ha hsa hla h
    have hB : Holds (hs j) (mid ra.mutex) b.tid (decide (rb.lock = "W")) := by
      rw [hm]
      by_cases h : rb.lock = "W"
      · simpa [h] using habs.excl j b rb hb hsb h
      · simpa [h] using habs.shared j b rb hb hsb hlb h
    exact hnhb (rw_mutex_orders hex hij ha hb hA hB (by rcases hx with h | h <;> simp [h]))
  · exact hnhb (habs.ordered i j a b ra rb hij ha hb hsa hsb hne hord)

/-! ### The hypothesis is satisfiable: a logger-shaped execution and the two table rows it abstracts to -/

def tblDemo : List Ev :=
  [⟨1, .lock 0⟩, ⟨1, .acc 7 true false⟩, ⟨1, .unlock 0⟩, ⟨2, .rlock 0⟩, ⟨2, .acc 7 false false⟩, ⟨2, .runlock 0⟩]

def rowW : Acc := ⟨"DeferLogs", "buf", "buf", "var", true, false, "W", "mux", "", 0, "direct", [], 1⟩
def rowR : Acc := ⟨"Print", "buf", "buf", "var", false, false, "R", "mux", "", 0, "direct", [], 2⟩

def tblSite (k : Nat) : Option Acc := if k = 1 then some rowW else if k = 4 then some rowR else none

theorem tblSite_cases {k : Nat} {r : Acc} (h : tblSite k = some r) : (k = 1 ∧ r = rowW) ∨ (k = 4 ∧ r = rowR) := by
  unfold tblSite at h
  split at h
  · left; exact ⟨by assumption, (Option.some.inj h).symm⟩
  · split at h
    · right; exact ⟨by assumption, (Option.some.inj h).symm⟩
    · cases h

theorem tblDemo_at {k : Nat} {e : Ev} (h : tblDemo[k]? = some e) :
    (k = 0 ∧ e = ⟨1, .lock 0⟩) ∨ (k = 1 ∧ e = ⟨1, .acc 7 true false⟩) ∨ (k = 2 ∧ e = ⟨1, .unlock 0⟩) ∨
    (k = 3 ∧ e = ⟨2, .rlock 0⟩) ∨ (k = 4 ∧ e = ⟨2, .acc 7 false false⟩) ∨ (k = 5 ∧ e = ⟨2, .runlock 0⟩) := by
  have hlen : k < 6 := by
    have := (List.getElem?_eq_some_iff.mp h).1; simpa [tblDemo] using this
  have : k = 0 ∨ k = 1 ∨ k = 2 ∨ k = 3 ∨ k = 4 ∨ k = 5 := by omega
  rcases this with rfl | rfl | rfl | rfl | rfl | rfl <;> simp [tblDemo] at h <;> simp [h]

theorem tblDemo_abstracts : Abstracts tblDemo (statesOf tblDemo) [rowW, rowR] tblSite (fun _ => 0) where
  covered := by
    intro k e x w a hk hop
    rcases tblDemo_at hk with ⟨rfl, rfl⟩ | ⟨rfl, rfl⟩ | ⟨rfl, rfl⟩ | ⟨rfl, rfl⟩ | ⟨rfl, rfl⟩ | ⟨rfl, rfl⟩
    · cases hop
    · exact ⟨rowW, rfl, by simp⟩
    · cases hop
    · cases hop
    · exact ⟨rowR, rfl, by simp⟩
    · cases hop
  conflicts := by
    intro i j a b ra rb x w1 a1 w2 a2 ha hb hsa hsb hoa hob hw
    rcases tblSite_cases hsa with ⟨rfl, rfl⟩ | ⟨rfl, rfl⟩ <;> rcases tblSite_cases hsb with ⟨rfl, rfl⟩ | ⟨rfl, rfl⟩
    · decide
    · decide
    · decide
    · rcases tblDemo_at ha with ⟨h, _⟩ | ⟨h, _⟩ | ⟨h, _⟩ | ⟨h, _⟩ | ⟨_, rfl⟩ | ⟨h, _⟩ <;> try (exact absurd h (by decide))
      rcases tblDemo_at hb with ⟨h, _⟩ | ⟨h, _⟩ | ⟨h, _⟩ | ⟨h, _⟩ | ⟨_, rfl⟩ | ⟨h, _⟩ <;> try (exact absurd h (by decide))
      cases hoa; cases hob
      rcases hw with h | h <;> cases h
  atomic := by
    intro k e x w a r hk hop hs hat
    rcases tblSite_cases hs with ⟨rfl, rfl⟩ | ⟨rfl, rfl⟩ <;> cases hat
  excl := by
    intro k e r hk hs hl
    rcases tblSite_cases hs with ⟨rfl, rfl⟩ | ⟨rfl, rfl⟩
    · rcases tblDemo_at hk with ⟨h, _⟩ | ⟨_, rfl⟩ | ⟨h, _⟩ | ⟨h, _⟩ | ⟨h, _⟩ | ⟨h, _⟩ <;> try (exact absurd h (by decide))
      decide
    · exact absurd hl (by decide)
  shared := by
    intro k e r hk hs hl hnw
    rcases tblSite_cases hs with ⟨rfl, rfl⟩ | ⟨rfl, rfl⟩
    · exact absurd rfl hnw
    · rcases tblDemo_at hk with ⟨h, _⟩ | ⟨h, _⟩ | ⟨h, _⟩ | ⟨h, _⟩ | ⟨_, rfl⟩ | ⟨h, _⟩ <;> try (exact absurd h (by decide))
      decide
  ordered := by
    intro i j a b ra rb hij ha hb hsa hsb hne hord
    rcases tblSite_cases hsa with ⟨rfl, rfl⟩ | ⟨rfl, rfl⟩ <;> rcases tblSite_cases hsb with ⟨rfl, rfl⟩ | ⟨rfl, rfl⟩ <;>
      simp [rowW, rowR] at hord

/-- … and the two rows pass the pairwise check, so the execution is race free by `table_no_race`. -/
theorem tblDemo_no_race : ¬ Race tblDemo :=
  table_no_race (exec_of_checks _ (by decide) (by decide)) tblDemo_abstracts (by decide)

end Rare.Lockset.HB2
