import Rare.Proofs.C11Float
import Rare.Proofs.C11Str
/-! C11 round 4c: `{percent v p min max}` at the boundary `min = max` (division by zero as the code has it). -/
namespace Rare.C11
open Rare Rare.Expr Rare.Expr.Funcs

theorem F64.sub_self_zero {m : F64} (hm : m.isFinite = true) : F64.sub m m = F64.zero false := by
  rw [F64.sub_finite hm hm]
  have : m.toRat - m.toRat = 0 := by rw [Rat.sub_eq_add_neg, Rat.add_neg_cancel]
  rw [this]
  simp [F64.ofRatS]

theorem F64.mul_not_nan {x y : F64} (hx : x.isNaN = false) (hy : y.isFinite = true) (hy0 : y.mag ≠ 0) :
    (F64.mul x y).isNaN = false := by
  unfold F64.mul
  have hyn := F64.not_nan_of_finite hy
  have hyi := F64.not_inf_of_finite hy
  have hyz : y.isZero = false := by simp [F64.isZero, hy0]
  simp only [hx, hyn, Bool.or_self, Bool.false_eq_true, if_false, hyi, Bool.or_false, hyz]
  split
  · split
    · rename_i h1 h2
      -- x infinite and zero: impossible
      exfalso
      simp only [F64.isInf, decide_eq_true_eq] at h1
      simp only [F64.isZero, decide_eq_true_eq] at h2
      rw [h2] at h1; revert h1; decide
    · unfold F64.inf; exact F64.isNaN_ofSM _ (Nat.le_refl _)
  · exact F64.isNaN_ofRatS _ _

theorem F64.sub_not_nan_of_finite {x y : F64} (hx : x.isFinite = true) (hy : y.isFinite = true) :
    (F64.sub x y).isNaN = false := by
  rw [F64.sub_finite hx hy]; exact F64.isNaN_ofRatS _ _

/-- division of a non-NaN value by `+0`. -/
theorem F64.div_pos_zero {x : F64} (hx : x.isNaN = false) :
    F64.div x (F64.zero false) = if x.mag = 0 then F64.nan else F64.inf x.sign := by
  by_cases hf : x.isFinite = true
  · rw [F64.div_by_zero hf (by decide)]
    have : (F64.zero false).sign = false := by decide
    rw [this]; simp
  · -- x is ±Inf
    have hi : x.isInf = true := by
      simp only [F64.isNaN, F64.isFinite, F64.isInf, decide_eq_true_eq, decide_eq_false_iff_not] at *
      omega
    have hm : x.mag ≠ 0 := by
      simp only [F64.isInf, decide_eq_true_eq] at hi
      rw [hi]; decide
    unfold F64.div
    have h0 : (F64.zero false).isNaN = false := by decide
    have h1 : (F64.zero false).isInf = false := by decide
    have h2 : (F64.zero false).sign = false := by decide
    simp [hx, h0, hi, h1, h2, hm]


/-- **`{percent v p m m}`** (`min = max`, both finite, `v` finite): the code divides by `max - min = +0`; the answer is
    `NaN%` when `(v - m)·100` is zero and `+Inf%` / `-Inf%` by the sign of `(v - m)·100` otherwise – never digits. -/
theorem percentStr_min_eq_max (val m : F64) (d : Int) (hv : val.isFinite = true) (hm : m.isFinite = true) :
    Float.percentStr val m m d =
      (if (F64.mul (F64.sub val m) (F64.ofInt 100)).mag = 0 then ascii "NaN"
       else if (F64.mul (F64.sub val m) (F64.ofInt 100)).sign then ascii "-Inf" else ascii "+Inf") ++ [37] := by
  unfold Float.percentStr
  rw [F64.sub_self_zero hm]
  have hn : (F64.mul (F64.sub val m) (F64.ofInt 100)).isNaN = false :=
    F64.mul_not_nan (F64.sub_not_nan_of_finite hv hm) (by decide +kernel) (by decide +kernel)
  rw [F64.div_pos_zero hn]
  split
  · rw [F64.format_nan]
  · rw [F64.format_inf]


/-- `{percent a p min max}` with a constant precision `p ≤ 1024`; value, min and max constants, groups or keys that
    parse as floats. -/
theorem percent_call4 (c : Ctx) (a mn mx : Arg) (pb : Bytes) (p : Int) (hp : atoi pb = some p) (hmax : p ≤ 1024)
    (x lo hi : F64) (ha : Float.parseF (a.val c) = some x) (hlo : Float.parseF (mn.val c) = some lo)
    (hhi : Float.parseF (mx.val c) = some hi) :
    callHelper Float.kfPercent [a, .const pb, mn, mx] c = .ok (Float.percentStr x lo hi p) := by
  unfold callHelper Float.kfPercent
  have hpm : ¬ (p > Float.maxPrecision) := by unfold Float.maxPrecision; omega
  simp only [List.map_cons, List.map_nil, List.length_cons, List.length_nil, evalArgInt]
  rcases evalTyped_arg_run Float.parseF c mn with ⟨_, hn⟩ | ⟨t1, e1, ht1⟩
  · rw [hlo] at hn; cases hn
  rcases evalTyped_arg_run Float.parseF c mx with ⟨_, hn⟩ | ⟨t2, e2, ht2⟩
  · rw [hhi] at hn; cases hn
  simp [evalStageInt_const, hp, hpm, e1, e2, ok, run_bind, Arg.run_stage, ht1, ht2, hlo, hhi, ha]
  rfl

theorem F64.sub_pos_zero {v : F64} (hv : v.isFinite = true) : F64.sub v (F64.zero false) = v := by
  rw [F64.sub_finite hv (by decide)]
  have h0 : (F64.zero false).toRat = 0 := by decide +kernel
  have hs : (F64.zero false).sign = false := by decide
  rw [h0, hs, Rat.sub_eq_add_neg, Rat.neg_zero, Rat.add_zero]
  simpa using F64.ofRatS_toRat v hv

theorem F64.div_one {y : F64} (hn : y.isNaN = false) : F64.div y F64.one = y := by
  have h1 : F64.one.toRat = 1 := by decide +kernel
  have hs : F64.one.sign = false := by decide
  by_cases hf : y.isFinite = true
  · rw [F64.div_finite hf (by decide) (by decide), h1, hs, Rat.div_def, show (1 : Rat)⁻¹ = 1 from by decide +kernel, Rat.mul_one]
    simpa using F64.ofRatS_toRat y hf
  · have hi : y.isInf = true := by
      simp only [F64.isNaN, F64.isFinite, F64.isInf, decide_eq_true_eq, decide_eq_false_iff_not] at *
      omega
    unfold F64.div
    have o1 : F64.one.isNaN = false := by decide
    have o2 : F64.one.isInf = false := by decide
    simp only [hn, o1, hi, o2, hs, Bool.or_self, Bool.false_eq_true, if_false, if_true, Bool.bne_false]
    simp only [F64.isInf, decide_eq_true_eq] at hi
    have := F64.ofSM_sign_mag y
    rw [hi] at this; exact this

/-- **`{percent v}` / `{percent v p}`** (default range 0 … 1): the rendering of the float product `v·100` with `p`
    decimals (`FormatFloat(·, 'f', p, 64)`, round-half-even on the exact binary value – `round_half_even`), then `%`. -/
theorem percentStr_default_range (v : F64) (d : Int) (hv : v.isFinite = true) :
    Float.percentStr v (F64.zero false) F64.one d = F64.format (F64.mul v (F64.ofInt 100)) d ++ [37] := by
  unfold Float.percentStr
  have h10 : F64.sub F64.one (F64.zero false) = F64.one := by decide +kernel
  rw [F64.sub_pos_zero hv, h10,
    F64.div_one (F64.mul_not_nan (F64.not_nan_of_finite hv) (by decide +kernel) (by decide +kernel))]

end Rare.C11
