import Rare.Proofs.C07NumF64Acc
/-!
C07 – the ACCUMULATED rounding error of `M2` (the `variance` field of `MatchNumerical`) and of `Variance()` in binary64.

Per step (`K` = the new count) the float update is `V' = fl(V + fl(fl(x − m)·fl(x − m')))`, the exact one
`W' = W + (x − μ)(x − μ')` (`μ`, `μ'` the exact means).  With samples of magnitude at most `M = 2^e`, `a = M·u`:
* `|m − μ|, |m' − μ'| ≤ (3K+17)/2 · a` (`mean_acc_error`; `η ≤ a`),
* `|fl(x − m) − (x − μ)| ≤ 3a + |m − μ|`, `|fl(x − m)| ≤ 9/4·M`,
* the product error is `≤ 9/4·M·c·a + 2M·c·a` with `c = (3K+23)/2`, its rounding `≤ 81/16·M·a + η`,
* `|V'| ≤ 8K·M²` by monotone rounding (`8K·M²` is a float), so the rounding of the sum is `≤ 8K·M·a + η`.
Together: `|V' − W'| ≤ |V − W| + (15K + 55)·M·a + 2η`, hence `|V_n − W_n| ≤ (15n(n+1)/2 + 55n)·u·M² + 2n·η`.
-/
namespace Rare.C07
open Rare Rare.F64

theorem mul_abs_le {p q P Q : Rat} (hp1 : -P ≤ p) (hp2 : p ≤ P) (hq1 : -Q ≤ q) (hq2 : q ≤ Q) :
    -(P * Q) ≤ p * q ∧ p * q ≤ P * Q := by
  have a1 := Rat.mul_nonneg (a := P - p) (b := Q - q) (by grind) (by grind)
  have a2 := Rat.mul_nonneg (a := P + p) (b := Q + q) (by grind) (by grind)
  have a3 := Rat.mul_nonneg (a := P - p) (b := Q + q) (by grind) (by grind)
  have a4 := Rat.mul_nonneg (a := P + p) (b := Q - q) (by grind) (by grind)
  constructor <;> grind

theorem prod_err {d d2 A B D Bb al be : Rat} (hd : -D ≤ d ∧ d ≤ D) (hB : -Bb ≤ B ∧ B ≤ Bb)
    (h2 : -be ≤ d2 - B ∧ d2 - B ≤ be) (h1 : -al ≤ d - A ∧ d - A ≤ al) :
    -(D * be + Bb * al) ≤ d * d2 - A * B ∧ d * d2 - A * B ≤ D * be + Bb * al := by
  have e : d * d2 - A * B = d * (d2 - B) + B * (d - A) := by grind
  obtain ⟨x1, x2⟩ := mul_abs_le hd.1 hd.2 h2.1 h2.2
  obtain ⟨y1, y2⟩ := mul_abs_le hB.1 hB.2 h1.1 h1.2
  rw [e]; constructor <;> grind

theorem absRat_ge (q : Rat) : -(absRat q) ≤ q ∧ q ≤ absRat q := by
  unfold absRat; split <;> constructor <;> grind

/-- A rounding `r` of `q` with `|q| ≤ 2M`: the error is at most `3a` (`a = M·u ≥ η`). -/
theorem round_err_2M {q r M a u η : Rat} (ha : a = M * u) (hu : 0 < u) (hη : η ≤ a)
    (hq : -(2 * M) ≤ q ∧ q ≤ 2 * M) (e : r - q ≤ absRat q * u + η ∧ q - r ≤ absRat q * u + η) :
    -(3 * a) ≤ r - q ∧ r - q ≤ 3 * a := by
  have h1 : absRat q ≤ 2 * M := absRat_le hq.1 hq.2
  have h2 : absRat q * u ≤ 2 * M * u := Rat.mul_le_mul_of_nonneg_right h1 (Rat.le_of_lt hu)
  have h3 : 2 * M * u = 2 * a := by rw [ha]; grind
  constructor <;> grind

/-- The arithmetic of one `M2` update. -/
theorem m2_step_arith {M a η u K x m m' μ μ' d d2 p V V' W G : Rat}
    (hM : 0 ≤ M) (ha : a = M * u) (hu : 0 < u) (hu2 : u ≤ 1 / 12) (hη0 : 0 < η) (hη : η ≤ a) (hK : 2 ≤ K)
    (bx : -M ≤ x ∧ x ≤ M) (bm : -M ≤ m ∧ m ≤ M) (bm' : -M ≤ m' ∧ m' ≤ M) (bμ' : -M ≤ μ' ∧ μ' ≤ M)
    (em : -((3 * K + 14) / 2 * a) ≤ m - μ ∧ m - μ ≤ (3 * K + 14) / 2 * a)
    (em' : -((3 * K + 17) / 2 * a) ≤ m' - μ' ∧ m' - μ' ≤ (3 * K + 17) / 2 * a)
    (ed : -(3 * a) ≤ d - (x - m) ∧ d - (x - m) ≤ 3 * a)
    (ed2 : -(3 * a) ≤ d2 - (x - m') ∧ d2 - (x - m') ≤ 3 * a)
    (ep : p - d * d2 ≤ absRat (d * d2) * u + η ∧ d * d2 - p ≤ absRat (d * d2) * u + η)
    (eV : V' - (V + p) ≤ absRat V' * u + η ∧ (V + p) - V' ≤ absRat V' * u + η)
    (bV' : -(K * (8 * M * M)) ≤ V' ∧ V' ≤ K * (8 * M * M))
    (inv : -G ≤ V - W ∧ V - W ≤ G) :
    -(G + (15 * K + 55) * (M * a) + 2 * η) ≤ V' - (W + (x - μ) * (x - μ')) ∧
    V' - (W + (x - μ) * (x - μ')) ≤ G + (15 * K + 55) * (M * a) + 2 * η := by
  have ha0 : 0 ≤ a := by rw [ha]; exact Rat.mul_nonneg hM (Rat.le_of_lt hu)
  have ha4 : 3 * a ≤ M / 4 := by
    have := Rat.mul_le_mul_of_nonneg_left hu2 hM
    rw [ha]; grind
  have hMa : 0 ≤ M * a := Rat.mul_nonneg hM ha0
  have hKMa : 0 ≤ K * (M * a) := Rat.mul_nonneg (by grind) hMa
  -- the differences
  have bd : -(9 / 4 * M) ≤ d ∧ d ≤ 9 / 4 * M := by constructor <;> grind
  have bd2 : -(9 / 4 * M) ≤ d2 ∧ d2 ≤ 9 / 4 * M := by constructor <;> grind
  have bB : -(2 * M) ≤ x - μ' ∧ x - μ' ≤ 2 * M := by constructor <;> grind
  have hKa : 0 ≤ K * a := Rat.mul_nonneg (by grind) ha0
  have h1 : -((3 * K + 23) / 2 * a) ≤ d - (x - μ) ∧ d - (x - μ) ≤ (3 * K + 23) / 2 * a := by
    constructor <;> grind
  have h2 : -((3 * K + 23) / 2 * a) ≤ d2 - (x - μ') ∧ d2 - (x - μ') ≤ (3 * K + 23) / 2 * a := by
    constructor <;> grind
  obtain ⟨pe1, pe2⟩ := prod_err bd bB h2 h1
  -- |d·d2| ≤ 81/16·M²
  obtain ⟨q1, q2⟩ := mul_abs_le bd.1 bd.2 bd2.1 bd2.2
  have q3 : absRat (d * d2) ≤ 9 / 4 * M * (9 / 4 * M) := absRat_le q1 q2
  have q4 : absRat (d * d2) * u ≤ 9 / 4 * M * (9 / 4 * M) * u := Rat.mul_le_mul_of_nonneg_right q3 (Rat.le_of_lt hu)
  have q5 : 9 / 4 * M * (9 / 4 * M) * u = 81 / 16 * (M * a) := by rw [ha]; grind
  -- |V'|·u ≤ 8K·M·a
  have v3 : absRat V' ≤ K * (8 * M * M) := absRat_le bV'.1 bV'.2
  have v4 : absRat V' * u ≤ K * (8 * M * M) * u := Rat.mul_le_mul_of_nonneg_right v3 (Rat.le_of_lt hu)
  have v5 : K * (8 * M * M) * u = 8 * (K * (M * a)) := by rw [ha]; grind
  have r1 : 9 / 4 * M * ((3 * K + 23) / 2 * a) + 2 * M * ((3 * K + 23) / 2 * a) =
      51 / 8 * (K * (M * a)) + 391 / 8 * (M * a) := by grind
  have r2 : (15 * K + 55) * (M * a) = 15 * (K * (M * a)) + 55 * (M * a) := by grind
  rw [r1] at pe1 pe2
  rw [q5] at q4
  rw [v5] at v4
  rw [r2]
  constructor <;> grind

/-! ### representable bounds -/

theorem rep_count_pow (K j : Nat) (hK : K ≤ P53) (hj : j + 53 < 2098) :
    Rep (((K * 2 ^ j : Nat) : Rat) / two1074) := by
  have hp : 0 < 2 ^ j := Nat.pow_pos (by decide)
  have h2 : (P53 : Nat) * 2 ^ j = 2 ^ (j + 53) := by rw [Nat.pow_add]; omega
  have h3 : 2 ^ (j + 53) < 2 ^ 2098 := Nat.pow_lt_pow_right (by decide) hj
  by_cases h : K < P53
  · exact rep_of_dyadic K j h (by
      have := Nat.mul_lt_mul_of_pos_right h hp
      omega)
  · have hK' : K = P53 := by omega
    have : K * 2 ^ j = 1 * 2 ^ (j + 53) := by rw [hK']; omega
    rw [this]
    exact rep_of_dyadic 1 (j + 53) (by decide) (by omega)

/-- `K · 8 · M²` is a float for `M = 2^e`, `e ≤ 480`, `K ≤ 2^53`. -/
theorem rep_count_8MM (K e : Nat) (hK : K ≤ P53) (he : e ≤ 480) :
    Rep ((K : Rat) * (8 * ((2 ^ e : Nat) : Rat) * ((2 ^ e : Nat) : Rat))) := by
  have h := rep_count_pow K (e + e + 3 + 1074) hK (by omega)
  have e1 : (2 : Nat) ^ (e + e + 3 + 1074) = 2 ^ e * 2 ^ e * 8 * 2 ^ 1074 := by
    rw [Nat.pow_add, Nat.pow_add, Nat.pow_add]
  have e2 : ((K * 2 ^ (e + e + 3 + 1074) : Nat) : Rat) / two1074 =
      (K : Rat) * (8 * ((2 ^ e : Nat) : Rat) * ((2 ^ e : Nat) : Rat)) := by
    rw [e1, two1074_eq]
    simp only [Rat.natCast_mul]
    have h1 : ((2 ^ 1074 : Nat) : Rat) ≠ 0 := Rat.ne_of_gt (pow2_cast_pos _)
    have h8 : ((8 : Nat) : Rat) = 8 := rfl
    rw [h8, Rat.div_def]
    have : ((2 ^ 1074 : Nat) : Rat) * ((2 ^ 1074 : Nat) : Rat)⁻¹ = 1 := Rat.mul_inv_cancel _ h1
    grind
  rwa [e2] at h

theorem sub_bounded_finite {x y : F64} (hx : x.isFinite = true) (hy : y.isFinite = true)
    (h1 : -(2 * bigB) ≤ x.toRat - y.toRat) (h2 : x.toRat - y.toRat ≤ 2 * bigB) : (F64.sub x y).isFinite = true := by
  rw [sub_finite hx hy]
  exact (round_between_rep _ (rep_neg rep_two_bigB) rep_two_bigB h1 h2).1

theorem etaF_le_uF : etaF ≤ uF := by decide +kernel
theorem uF_le_12 : uF ≤ 1 / 12 := by decide +kernel

/-- The magnitude classes for which the `M2` analysis goes through: `0 ≤ M ≤ 2^1021`, `η ≤ M·u` (`M ≥ 2^-1022`), and
`K·8·M²` is a float for every count `K ≤ 2^53` (a power of two `M` with `2^-538 ≤ M ≤ 2^480`). -/
structure MagClass (M : Rat) : Prop where
  nonneg : 0 ≤ M
  le : M ≤ bigB
  eta : etaF ≤ M * uF
  rep : ∀ K : Nat, K ≤ P53 → Rep ((K : Rat) * (8 * M * M))

theorem magClass_pow2 (e : Nat) (he : e ≤ 480) : MagClass ((2 ^ e : Nat) : Rat) := by
  have hM1 : (1 : Rat) ≤ ((2 ^ e : Nat) : Rat) := by
    have : 1 ≤ 2 ^ e := Nat.pow_pos (by decide)
    have := Rat.natCast_le_natCast.mpr this
    exact this
  refine ⟨by grind, ?_, ?_, fun K hK => rep_count_8MM K e hK he⟩
  · rw [bigB_eq]
    exact Rat.natCast_le_natCast.mpr (Nat.pow_le_pow_right (by decide) (by omega))
  · have := Rat.mul_le_mul_of_nonneg_right hM1 (Rat.le_of_lt uF_pos)
    have := etaF_le_uF
    grind

theorem etaF_eq_scaled : etaF = ((2 ^ 52 : Nat) : Rat) / two1074 * uF := by decide +kernel

/-- Scaled powers of two `M = 2^j / 2^1074 = 2^(j−1074)`, `536 ≤ j ≤ 1554`: `2^-538 ≤ M ≤ 2^480`. -/
theorem magClass_scaled (j : Nat) (h1 : 536 ≤ j) (h2 : j ≤ 1554) : MagClass (((2 ^ j : Nat) : Rat) / two1074) := by
  have ht := two1074_pos
  have hp : (0 : Rat) < ((2 ^ j : Nat) : Rat) := pow2_cast_pos _
  refine ⟨Rat.le_of_lt (rat_div_pos hp ht), ?_, ?_, ?_⟩
  · unfold bigB
    exact rat_div_le_div_right ht (Rat.natCast_le_natCast.mpr (Nat.pow_le_pow_right (by decide) (by omega)))
  · rw [etaF_eq_scaled]
    apply Rat.mul_le_mul_of_nonneg_right _ (Rat.le_of_lt uF_pos)
    exact rat_div_le_div_right ht (Rat.natCast_le_natCast.mpr (Nat.pow_le_pow_right (by decide) (by omega)))
  · intro K hK
    have h := rep_count_pow K (j + j + 3 - 1074) hK (by omega)
    have e1 : (2 : Nat) ^ (j + j + 3 - 1074) * 2 ^ 1074 = 2 ^ j * 2 ^ j * 8 := by
      rw [← Nat.pow_add, show j + j + 3 - 1074 + 1074 = j + j + 3 by omega, Nat.pow_add, Nat.pow_add]
    have e2 : ((K * 2 ^ (j + j + 3 - 1074) : Nat) : Rat) / two1074 =
        (K : Rat) * (8 * (((2 ^ j : Nat) : Rat) / two1074) * (((2 ^ j : Nat) : Rat) / two1074)) := by
      have c : ((2 ^ (j + j + 3 - 1074) : Nat) : Rat) * two1074 = ((2 ^ j : Nat) : Rat) * ((2 ^ j : Nat) : Rat) * 8 := by
        rw [two1074_eq, ← Rat.natCast_mul, e1, Rat.natCast_mul, Rat.natCast_mul]; rfl
      have hinv : two1074 * two1074⁻¹ = 1 := Rat.mul_inv_cancel _ (Rat.ne_of_gt ht)
      rw [Rat.natCast_mul, Rat.div_def, Rat.div_def]
      have c2 : ((2 ^ (j + j + 3 - 1074) : Nat) : Rat) =
          ((2 ^ j : Nat) : Rat) * ((2 ^ j : Nat) : Rat) * 8 * two1074⁻¹ := by
        have h3 : ((2 ^ (j + j + 3 - 1074) : Nat) : Rat) * two1074 * two1074⁻¹ =
            ((2 ^ j : Nat) : Rat) * ((2 ^ j : Nat) : Rat) * 8 * two1074⁻¹ := by rw [c]
        grind
      rw [c2]; grind
    rwa [e2] at h

/-! ### the run invariant -/

/-- The error bound of the mean in the form used here: `(3k+17)/2 · a` with `a = M·u ≥ η`. -/
theorem meanAcc_err {M : Rat} {s : NumF} {S μ : Rat} (h : MeanAcc M s S) (hk : 1 ≤ s.samples)
    (hμ : (s.samples : Rat) * μ = S) (hη : etaF ≤ M * uF) :
    -((3 * (s.samples : Rat) + 17) / 2 * (M * uF)) ≤ s.mean.toRat - μ ∧
    s.mean.toRat - μ ≤ (3 * (s.samples : Rat) + 17) / 2 * (M * uF) := by
  have hk1 : (1 : Rat) ≤ (s.samples : Rat) := by
    have := Rat.natCast_le_natCast.mpr hk
    exact this
  have hk0 : (0 : Rat) < (s.samples : Rat) := by grind
  have up := h.up
  have dn := h.dn
  rw [← hμ] at up dn
  have he : ((s.samples : Rat) + 3) * etaF ≤ ((s.samples : Rat) + 3) * (M * uF) :=
    Rat.mul_le_mul_of_nonneg_left hη (by grind)
  have he' : (s.samples : Rat) * (((s.samples : Rat) + 3) * etaF) ≤ (s.samples : Rat) * (((s.samples : Rat) + 3) * (M * uF)) :=
    Rat.mul_le_mul_of_nonneg_left he (by grind)
  have hkk : 0 ≤ (s.samples : Rat) * ((s.samples : Rat) * (M * uF)) := by
    have : 0 ≤ M * uF := by have := etaF_pos; grind
    exact Rat.mul_nonneg (by grind) (Rat.mul_nonneg (by grind) this)
  constructor
  · have : (s.samples : Rat) * (-((3 * (s.samples : Rat) + 17) / 2 * (M * uF))) ≤
        (s.samples : Rat) * (s.mean.toRat - μ) := by grind
    exact Rat.le_of_mul_le_mul_left this hk0
  · have : (s.samples : Rat) * (s.mean.toRat - μ) ≤
        (s.samples : Rat) * ((3 * (s.samples : Rat) + 17) / 2 * (M * uF)) := by grind
    exact Rat.le_of_mul_le_mul_left this hk0

/-- Invariant of the run: the float state `sf` against the exact (rational) Welford state `sq` of the same samples. -/
structure VarAcc (M : Rat) (sf : NumF) (sq : Numerical Rat) : Prop where
  cnt : sq.samples = sf.samples
  acc : MeanAcc M sf ((sf.samples : Rat) * sq.mean)
  qlo : -M ≤ sq.mean
  qhi : sq.mean ≤ M
  varF : sf.variance.isFinite = true
  vlo : -((sf.samples : Rat) * (8 * M * M)) ≤ sf.variance.toRat
  vhi : sf.variance.toRat ≤ (sf.samples : Rat) * (8 * M * M)
  up : sf.variance.toRat - sq.variance ≤
    (15 * ((sf.samples : Rat) * ((sf.samples : Rat) + 1)) / 2 + 55 * (sf.samples : Rat)) * (M * (M * uF)) +
    2 * (sf.samples : Rat) * etaF
  dn : sq.variance - sf.variance.toRat ≤
    (15 * ((sf.samples : Rat) * ((sf.samples : Rat) + 1)) / 2 + 55 * (sf.samples : Rat)) * (M * (M * uF)) +
    2 * (sf.samples : Rat) * etaF

theorem varAcc_step (keep : Bool) (M : Rat) (hcls : MagClass M) (sf : NumF) (sq : Numerical Rat) (x : F64)
    (hk : 1 ≤ sf.samples) (hn : sf.samples + 1 ≤ P53) (h : VarAcc M sf sq)
    (xf : x.isFinite = true) (xl : -M ≤ x.toRat) (xh : x.toRat ≤ M) :
    VarAcc M (NumF.samplef keep sf x) (Numerical.samplef ratOps false sq x.toRat) := by
  have hM0 := hcls.nonneg
  have hMB := hcls.le
  have hηa := hcls.eta
  have hu := uF_pos
  have he0 := etaF_pos
  have hk1 : (1 : Rat) ≤ (sf.samples : Rat) := by
    have := Rat.natCast_le_natCast.mpr hk
    exact this
  have hKc : ((sf.samples + 1 : Nat) : Rat) = (sf.samples : Rat) + 1 := by simp [Rat.natCast_add]
  have hK0 : (0 : Rat) < (sf.samples : Rat) + 1 := by grind
  have hsK : ((NumF.samplef keep sf x).samples : Rat) = (sf.samples : Rat) + 1 := by
    rw [samplef_samples]; exact hKc
  -- the exact state
  have hμ' : (Numerical.samplef ratOps false sq x.toRat).mean =
      sq.mean + (x.toRat - sq.mean) / ((sf.samples : Rat) + 1) := by
    rw [samplefQ_mean, h.cnt, hKc]
  have hW' : (Numerical.samplef ratOps false sq x.toRat).variance =
      sq.variance + (x.toRat - sq.mean) * (x.toRat - (Numerical.samplef ratOps false sq x.toRat).mean) := by
    rw [samplefQ_var, samplefQ_mean]
  generalize hμdef : (Numerical.samplef ratOps false sq x.toRat).mean = μ' at hμ' hW'
  have hKμ' : ((sf.samples : Rat) + 1) * μ' = (sf.samples : Rat) * sq.mean + x.toRat := by
    rw [hμ']
    have : ((sf.samples : Rat) + 1) * ((x.toRat - sq.mean) / ((sf.samples : Rat) + 1)) = x.toRat - sq.mean := by
      rw [Rat.div_def]
      have : ((sf.samples : Rat) + 1) * ((sf.samples : Rat) + 1)⁻¹ = 1 := Rat.mul_inv_cancel _ (by grind)
      grind
    grind
  have hqlo := h.qlo
  have hqhi := h.qhi
  have bμ' : -M ≤ μ' ∧ μ' ≤ M := by
    have k1 : (sf.samples : Rat) * sq.mean ≤ (sf.samples : Rat) * M := Rat.mul_le_mul_of_nonneg_left hqhi (by grind)
    have k2 : (sf.samples : Rat) * (-M) ≤ (sf.samples : Rat) * sq.mean := Rat.mul_le_mul_of_nonneg_left hqlo (by grind)
    constructor
    · have : ((sf.samples : Rat) + 1) * (-M) ≤ ((sf.samples : Rat) + 1) * μ' := by rw [hKμ']; grind
      exact Rat.le_of_mul_le_mul_left this hK0
    · have : ((sf.samples : Rat) + 1) * μ' ≤ ((sf.samples : Rat) + 1) * M := by rw [hKμ']; grind
      exact Rat.le_of_mul_le_mul_left this hK0
  -- the mean
  have acc' := meanAcc_step keep M hMB sf _ x hk hn h.acc xf xl xh
  have hS' : (((NumF.samplef keep sf x).samples : Nat) : Rat) * μ' = (sf.samples : Rat) * sq.mean + x.toRat := by
    rw [hsK]; exact hKμ'
  rw [← hS'] at acc'
  have em := meanAcc_err h.acc hk rfl hηa
  have em' := meanAcc_err acc' (by rw [samplef_samples]; omega) rfl hηa
  rw [hsK] at em'
  have mf := h.acc.meanF
  have mlo := h.acc.lo
  have mhi := h.acc.hi
  have mf' := acc'.meanF
  have mlo' := acc'.lo
  have mhi' := acc'.hi
  -- d and d2
  have df : (F64.sub x sf.mean).isFinite = true := sub_bounded_finite xf mf (by grind) (by grind)
  have d2f : (F64.sub x (NumF.samplef keep sf x).mean).isFinite = true := sub_bounded_finite xf mf' (by grind) (by grind)
  have hdd := sub_finite xf mf
  have hdd2 := sub_finite xf mf'
  have E1 := (ofRatS_err _ (x.toRat - sf.mean.toRat) (by rw [← hdd]; exact df)).1
  rw [← hdd, div_P53] at E1
  have E2 := (ofRatS_err _ (x.toRat - (NumF.samplef keep sf x).mean.toRat) (by rw [← hdd2]; exact d2f)).1
  rw [← hdd2, div_P53] at E2
  have ed := round_err_2M (M := M) rfl hu hηa (q := x.toRat - sf.mean.toRat) ⟨by grind, by grind⟩ E1
  have ed2 := round_err_2M (M := M) rfl hu hηa (q := x.toRat - (NumF.samplef keep sf x).mean.toRat) ⟨by grind, by grind⟩ E2
  have ha4 : 3 * (M * uF) ≤ M / 4 := by
    have := Rat.mul_le_mul_of_nonneg_left uF_le_12 hM0
    grind
  generalize hd : (F64.sub x sf.mean) = d at *
  generalize hd2 : (F64.sub x (NumF.samplef keep sf x).mean) = d2 at *
  have bd : -(9 / 4 * M) ≤ d.toRat ∧ d.toRat ≤ 9 / 4 * M := by constructor <;> grind
  have bd2 : -(9 / 4 * M) ≤ d2.toRat ∧ d2.toRat ≤ 9 / 4 * M := by constructor <;> grind
  -- the product
  obtain ⟨q1, q2⟩ := mul_abs_le bd.1 bd.2 bd2.1 bd2.2
  have hMM : 0 ≤ M * M := Rat.mul_nonneg hM0 hM0
  have r8 := hcls.rep 1 (by decide)
  have r8' : Rep (8 * M * M) := by
    have : ((1 : Nat) : Rat) * (8 * M * M) = 8 * M * M := by
      have : ((1 : Nat) : Rat) = 1 := rfl
      rw [this]; grind
    rwa [this] at r8
  have hpp := mul_finite df d2f
  have pb := round_between_rep (d.sign != d2.sign) (rep_neg r8') r8' (q := d.toRat * d2.toRat) (by grind) (by grind)
  rw [← hpp] at pb
  have E3 := (ofRatS_err (d.sign != d2.sign) (d.toRat * d2.toRat) (by rw [← hpp]; exact pb.1)).1
  rw [← hpp, div_P53] at E3
  generalize hp : F64.mul d d2 = p at *
  -- the sum
  have hvlo := h.vlo
  have hvhi := h.vhi
  have rK := hcls.rep (sf.samples + 1) hn
  rw [hKc] at rK
  have hvv := add_finite h.varF pb.1
  have vb := round_between_rep (sf.variance.sign && p.sign) (rep_neg rK) rK
    (q := sf.variance.toRat + p.toRat) (by grind) (by grind)
  rw [← hvv] at vb
  have E4 := (ofRatS_err (sf.variance.sign && p.sign) (sf.variance.toRat + p.toRat) (by rw [← hvv]; exact vb.1)).2
  rw [← hvv, div_P53] at E4
  have hV' : (NumF.samplef keep sf x).variance = F64.add sf.variance p := by
    rw [samplefF_var, hd, hd2, hp]
  rw [← hV'] at vb E4
  have hK2 : (2 : Rat) ≤ (sf.samples : Rat) + 1 := by grind
  have em2 : -((3 * ((sf.samples : Rat) + 1) + 14) / 2 * (M * uF)) ≤ sf.mean.toRat - sq.mean ∧
      sf.mean.toRat - sq.mean ≤ (3 * ((sf.samples : Rat) + 1) + 14) / 2 * (M * uF) := by
    constructor <;> grind
  have st := m2_step_arith (M := M) (a := M * uF) (η := etaF) (u := uF) (K := (sf.samples : Rat) + 1)
    (x := x.toRat) (m := sf.mean.toRat) (m' := (NumF.samplef keep sf x).mean.toRat) (μ := sq.mean) (μ' := μ')
    (d := d.toRat) (d2 := d2.toRat) (p := p.toRat) (V := sf.variance.toRat) (V' := (NumF.samplef keep sf x).variance.toRat)
    (W := sq.variance)
    (G := (15 * ((sf.samples : Rat) * ((sf.samples : Rat) + 1)) / 2 + 55 * (sf.samples : Rat)) * (M * (M * uF)) +
      2 * (sf.samples : Rat) * etaF)
    hM0 rfl hu uF_le_12 he0 hηa hK2 ⟨xl, xh⟩ ⟨mlo, mhi⟩ ⟨mlo', mhi'⟩ bμ' em2 em' ed ed2 E3 E4 ⟨vb.2.1, vb.2.2⟩
    ⟨by have := h.dn; grind, h.up⟩
  rw [← hW'] at st
  subst hμdef
  refine ⟨by rw [samplefQ_samples, samplef_samples, h.cnt], acc', bμ'.1, bμ'.2, vb.1, ?_, ?_, ?_, ?_⟩
  · rw [hsK]; exact vb.2.1
  · rw [hsK]; exact vb.2.2
  · rw [hsK]; grind
  · rw [hsK]; grind

theorem varAcc_fold (keep : Bool) (M : Rat) (hcls : MagClass M) (l : List F64) :
    ∀ (sf : NumF) (sq : Numerical Rat), 1 ≤ sf.samples → sf.samples + l.length ≤ P53 →
      VarAcc M sf sq →
      (∀ x ∈ l, x.isFinite = true ∧ -M ≤ x.toRat ∧ x.toRat ≤ M) →
      VarAcc M (l.foldl (NumF.samplef keep) sf)
        ((l.map F64.toRat).foldl (Numerical.samplef ratOps false) sq) := by
  induction l with
  | nil => intro sf sq _ _ h _; exact h
  | cons x l ih =>
    intro sf sq hk hn h hl
    obtain ⟨xf, xa, xb⟩ := hl x (by simp)
    simp only [List.length_cons] at hn
    rw [List.foldl_cons, List.map_cons, List.foldl_cons]
    exact ih _ _ (by rw [samplef_samples]; omega) (by rw [samplef_samples]; omega)
      (varAcc_step keep M hcls sf sq x hk (by omega) h xf xa xb) (fun y hy => hl y (by simp [hy]))

/-- The state after the first sample. -/
theorem varAcc_first (keep : Bool) (M : Rat) (x : F64) (xf : x.isFinite = true) (xa : -M ≤ x.toRat) (xb : x.toRat ≤ M) :
    VarAcc M (NumF.samplef keep NumF.new x) (Numerical.samplef ratOps false (Numerical.new ratOps) x.toRat) := by
  obtain ⟨s1, s2, s3, s4, s5⟩ := first_step keep x xf
  have hM0 : 0 ≤ M := by grind
  have hu := uF_pos
  have he := etaF_pos
  have q0 : 0 ≤ M * uF := Rat.mul_nonneg hM0 (Rat.le_of_lt hu)
  have q1 : 0 ≤ M * (M * uF) := Rat.mul_nonneg hM0 q0
  have q2 : 0 ≤ M * M := Rat.mul_nonneg hM0 hM0
  have one : ((1 : Nat) : Rat) = 1 := rfl
  have hqm : (Numerical.samplef ratOps false (Numerical.new ratOps) x.toRat).mean = x.toRat := by
    rw [samplefQ_mean]
    show (0 : Rat) + (x.toRat - 0) / ((0 + 1 : Nat) : Rat) = x.toRat
    have : ((0 + 1 : Nat) : Rat) = 1 := rfl
    rw [this, Rat.div_def]; grind
  have hqv : (Numerical.samplef ratOps false (Numerical.new ratOps) x.toRat).variance = 0 := by
    rw [samplefQ_var]
    show (0 : Rat) + (x.toRat - 0) * (x.toRat - (0 + (x.toRat - 0) / ((0 + 1 : Nat) : Rat))) = 0
    have : ((0 + 1 : Nat) : Rat) = 1 := rfl
    rw [this, Rat.div_def]; grind
  refine ⟨by rw [samplefQ_samples, s1]; rfl, ⟨s2, by rw [s3]; exact xa, by rw [s3]; exact xb, ?_, ?_⟩,
    by rw [hqm]; exact xa, by rw [hqm]; exact xb, s4, ?_, ?_, ?_, ?_⟩
  · rw [s1, s3, hqm, one]; grind
  · rw [s1, s3, hqm, one]; grind
  · rw [s1, s5, one]; grind
  · rw [s1, s5, one]; grind
  · rw [s1, s5, hqv, one]; grind
  · rw [s1, s5, hqv, one]; grind

/-- **Accumulated error of `M2`**, for any magnitude class. -/
theorem var_acc_error_gen (keep : Bool) (M : Rat) (hcls : MagClass M) (l : List F64) (hne : l ≠ []) (hn : l.length ≤ P53)
    (hl : ∀ x ∈ l, x.isFinite = true ∧ -M ≤ x.toRat ∧ x.toRat ≤ M) :
    let r := runFv keep l
    let n : Rat := (l.length : Rat)
    let G := (15 * (n * (n + 1)) / 2 + 55 * n) * (M * (M * uF)) + 2 * n * etaF
    r.variance.isFinite = true ∧ -(n * (8 * M * M)) ≤ r.variance.toRat ∧ r.variance.toRat ≤ n * (8 * M * M) ∧
    r.variance.toRat - m2 (l.map F64.toRat) ≤ G ∧ m2 (l.map F64.toRat) - r.variance.toRat ≤ G := by
  intro r n G
  obtain ⟨x, l', rfl⟩ := List.exists_cons_of_ne_nil hne
  obtain ⟨xf, xa, xb⟩ := hl x (by simp)
  obtain ⟨s1, _⟩ := first_step keep x xf
  simp only [List.length_cons] at hn
  have hf := varAcc_fold keep M hcls l' _ _ (by rw [s1]; omega) (by rw [s1]; omega)
    (varAcc_first keep _ x xf xa xb) (fun y hy => hl y (by simp [hy]))
  have hr : r = l'.foldl (NumF.samplef keep) (NumF.samplef keep NumF.new x) := by
    show runFv keep (x :: l') = _
    unfold runFv; rw [List.foldl_cons]
  have hq : runQ false ((x :: l').map F64.toRat) =
      (l'.map F64.toRat).foldl (Numerical.samplef ratOps false) (Numerical.samplef ratOps false (Numerical.new ratOps) x.toRat) := by
    unfold runQ; rw [List.map_cons, List.foldl_cons]
  rw [← hr, ← hq] at hf
  have hsn : (r.samples : Rat) = n := by
    show ((runFv keep (x :: l')).samples : Rat) = _
    rw [runFv_samples]
  have up := hf.up
  have dn := hf.dn
  have vlo := hf.vlo
  have vhi := hf.vhi
  rw [welford_m2, hsn] at up dn
  rw [hsn] at vlo vhi
  exact ⟨hf.varF, vlo, vhi, up, dn⟩

/-- **Accumulated error of `M2`.**  For a non-empty list of at most `2^53` finite samples of magnitude at most
`M = 2^e` (`e ≤ 480`): the float `M2` is finite, at most `8n·M²` in magnitude, and differs from the exact
`Σ (x − mean)²` of the sample values by at most `(15n(n+1)/2 + 55n)·u·M² + 2n·η`. -/
theorem var_acc_error (keep : Bool) (e : Nat) (he : e ≤ 480) (l : List F64) (hne : l ≠ []) (hn : l.length ≤ P53)
    (hl : ∀ x ∈ l, x.isFinite = true ∧ -((2 ^ e : Nat) : Rat) ≤ x.toRat ∧ x.toRat ≤ ((2 ^ e : Nat) : Rat)) :
    let r := runFv keep l
    let n : Rat := (l.length : Rat)
    let M : Rat := ((2 ^ e : Nat) : Rat)
    let G := (15 * (n * (n + 1)) / 2 + 55 * n) * (M * (M * uF)) + 2 * n * etaF
    r.variance.isFinite = true ∧ -(n * (8 * M * M)) ≤ r.variance.toRat ∧ r.variance.toRat ≤ n * (8 * M * M) ∧
    r.variance.toRat - m2 (l.map F64.toRat) ≤ G ∧ m2 (l.map F64.toRat) - r.variance.toRat ≤ G :=
  var_acc_error_gen keep _ (magClass_pow2 e he) l hne hn hl

/-- The arithmetic of `Variance() = fl(M2 / (n−1))` (`N = n − 1`). -/
theorem variance_div_arith {N V W t w g G vf M u η : Rat} (hN : 1 ≤ N) (ht : N * t = V) (hw : N * w = W)
    (hg : N * g = G) (hMM : 0 ≤ M * M) (hu : 0 < u)
    (bV : -((N + 1) * (8 * M * M)) ≤ V ∧ V ≤ (N + 1) * (8 * M * M))
    (err : V - W ≤ G ∧ W - V ≤ G)
    (E : vf - t ≤ absRat t * u + η ∧ t - vf ≤ absRat t * u + η) :
    vf - w ≤ g + 16 * (M * M * u) + η ∧ w - vf ≤ g + 16 * (M * M * u) + η := by
  have hN0 : 0 < N := by grind
  have h8 : 1 * (8 * (M * M)) ≤ N * (8 * (M * M)) := Rat.mul_le_mul_of_nonneg_right hN (by grind)
  have t1 : t ≤ 16 * (M * M) := by
    have : N * t ≤ N * (16 * (M * M)) := by rw [ht]; grind
    exact Rat.le_of_mul_le_mul_left this hN0
  have t2 : -(16 * (M * M)) ≤ t := by
    have : N * (-(16 * (M * M))) ≤ N * t := by rw [ht]; grind
    exact Rat.le_of_mul_le_mul_left this hN0
  have t3 : absRat t ≤ 16 * (M * M) := absRat_le t2 t1
  have t4 : absRat t * u ≤ 16 * (M * M) * u := Rat.mul_le_mul_of_nonneg_right t3 (Rat.le_of_lt hu)
  have d1 : t - w ≤ g := by
    have : N * (t - w) ≤ N * g := by rw [hg]; grind
    exact Rat.le_of_mul_le_mul_left this hN0
  have d2 : w - t ≤ g := by
    have : N * (w - t) ≤ N * g := by rw [hg]; grind
    exact Rat.le_of_mul_le_mul_left this hN0
  constructor <;> grind

/-- **Accumulated error of `Variance()`.**  Under the hypotheses of `var_acc_error` and with at least two samples:
`Variance()` is finite and differs from the exact sample variance of the sample values by at most
`G/(n−1) + 16·u·M² + η` (`G` the bound of `var_acc_error`). -/
theorem variance_acc_error_gen (keep : Bool) (M : Rat) (hcls : MagClass M) (l : List F64) (h2 : 2 ≤ l.length) (hn : l.length ≤ P53)
    (hl : ∀ x ∈ l, x.isFinite = true ∧ -M ≤ x.toRat ∧ x.toRat ≤ M) :
    let r := runFv keep l
    let n : Rat := (l.length : Rat)
    let G := (15 * (n * (n + 1)) / 2 + 55 * n) * (M * (M * uF)) + 2 * n * etaF
    let T := G / (n - 1) + 16 * (M * M * uF) + etaF
    r.varianceF.isFinite = true ∧
    r.varianceF.toRat - sampleVariance (l.map F64.toRat) ≤ T ∧ sampleVariance (l.map F64.toRat) - r.varianceF.toRat ≤ T := by
  intro r n G T
  have hne : l ≠ [] := by intro h; rw [h] at h2; simp at h2
  obtain ⟨vf, vlo, vhi, up, dn⟩ := var_acc_error_gen keep M hcls l hne hn hl
  have hv : r.varianceF = F64.div r.variance (F64.ofInt ((l.length - 1 : Nat) : Int)) := by
    show Numerical.varianceOf f64Ops r = _
    unfold Numerical.varianceOf
    have : r.samples = l.length := runFv_samples keep l
    rw [this, if_pos (by omega)]; rfl
  obtain ⟨kf, kv, kz⟩ := ofInt_count (l.length - 1) (by omega) (by omega)
  have hfin := div_count_finite r.variance (l.length - 1) (by omega) (by omega) vf
  have hdiv := div_finite vf kf kz
  rw [kv] at hdiv
  have hc : ((l.length - 1 : Nat) : Rat) = n - 1 := by
    obtain ⟨k, hk⟩ : ∃ k, l.length = k + 1 := ⟨l.length - 1, by omega⟩
    show ((l.length - 1 : Nat) : Rat) = (l.length : Rat) - 1
    rw [hk]; simp [Rat.natCast_add]; grind
  rw [hc] at hdiv
  have hN : (1 : Rat) ≤ n - 1 := by
    rw [← hc]
    have : 1 ≤ l.length - 1 := by omega
    have := Rat.natCast_le_natCast.mpr this
    exact this
  have hN0 : n - 1 ≠ 0 := by grind
  have E := (ofRatS_err _ (r.variance.toRat / (n - 1)) (by rw [← hdiv]; exact hfin)).1
  rw [← hdiv, div_P53] at E
  have hsv : sampleVariance (l.map F64.toRat) = m2 (l.map F64.toRat) / (n - 1) := by
    unfold sampleVariance
    rw [List.length_map, if_pos (by omega)]
  have mulinv : (n - 1) * (n - 1)⁻¹ = 1 := Rat.mul_inv_cancel _ hN0
  have hM0 : (0 : Rat) ≤ M := hcls.nonneg
  have res := variance_div_arith (N := n - 1) (V := r.variance.toRat) (W := m2 (l.map F64.toRat))
    (t := r.variance.toRat / (n - 1)) (w := m2 (l.map F64.toRat) / (n - 1)) (g := G / (n - 1)) (G := G)
    (vf := (F64.div r.variance (F64.ofInt ((l.length - 1 : Nat) : Int))).toRat) (M := M) (u := uF) (η := etaF)
    hN (by rw [Rat.div_def]; grind) (by rw [Rat.div_def]; grind) (by rw [Rat.div_def]; grind)
    (Rat.mul_nonneg hM0 hM0) uF_pos
    ⟨by have : n - 1 + 1 = n := by grind
        rw [this]; exact vlo,
     by have : n - 1 + 1 = n := by grind
        rw [this]; exact vhi⟩ ⟨up, dn⟩ E
  rw [hv, hsv]
  exact ⟨hfin, res.1, res.2⟩


theorem variance_acc_error (keep : Bool) (e : Nat) (he : e ≤ 480) (l : List F64) (h2 : 2 ≤ l.length) (hn : l.length ≤ P53)
    (hl : ∀ x ∈ l, x.isFinite = true ∧ -((2 ^ e : Nat) : Rat) ≤ x.toRat ∧ x.toRat ≤ ((2 ^ e : Nat) : Rat)) :
    let r := runFv keep l
    let n : Rat := (l.length : Rat)
    let M : Rat := ((2 ^ e : Nat) : Rat)
    let G := (15 * (n * (n + 1)) / 2 + 55 * n) * (M * (M * uF)) + 2 * n * etaF
    let T := G / (n - 1) + 16 * (M * M * uF) + etaF
    r.varianceF.isFinite = true ∧
    r.varianceF.toRat - sampleVariance (l.map F64.toRat) ≤ T ∧ sampleVariance (l.map F64.toRat) - r.varianceF.toRat ≤ T :=
  variance_acc_error_gen keep _ (magClass_pow2 e he) l h2 hn hl

end Rare.C07
