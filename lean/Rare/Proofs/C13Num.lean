import Rare.Model.C13Num
import Rare.Proofs.C13Model
import Rare.Proofs.F64Arith
/-! C13 numeric mode over the modelled `strconv.ParseFloat`: the Go-shaped comparator `byNameSmartF`
is the parametric `byNameSmart` at `realNum`, and the integer order image `F64.key` orders keys
exactly as their exact values (`numVal`) do. -/
namespace Rare.C13
open Rare

/-! ### `byNameSmartF` is `byNameSmart realNum` -/

theorem isNumF_eq (k : Key) : isNumF (F64.parseFloat k) = (realNum k).isNum := by
  unfold isNumF realNum
  cases F64.parseFloat k with
  | none => rfl
  | some v =>
    cases h : v.isNaN <;> simp [F64.eq, h, PF.isNum]

theorem byNameSmartF_eq (a b : Key) : byNameSmartF a b = byNameSmart realNum a b := by
  unfold byNameSmartF byNameSmart
  simp only [isNumF_eq]
  cases ha : F64.parseFloat a with
  | none => simp [realNum, ha, PF.isNum]
  | some x =>
    cases hb : F64.parseFloat b with
    | none => simp [realNum, ha, hb, PF.isNum]
    | some y =>
      cases hx : x.isNaN <;> cases hy : y.isNaN <;>
        simp [realNum, ha, hb, hx, hy, PF.isNum, PF.ord, F64.eq, F64.lt]

/-! ### the order image is the order of the exact values -/

theorem finite_of_not_nan_inf {x : F64} (hn : x.isNaN = false) (hi : x.isInf = false) : x.isFinite = true := by
  simp only [F64.isNaN, F64.isInf, F64.isFinite, decide_eq_false_iff_not, decide_eq_true_eq] at *
  omega

theorem key_of_inf {x : F64} (hi : x.isInf = true) : x.key = if x.sign then -(9218868437227405312 : Int) else 9218868437227405312 := by
  simp only [F64.isInf, decide_eq_true_eq] at hi
  unfold F64.key
  rw [hi]
  rfl

theorem key_bounds_finite {x : F64} (hf : x.isFinite = true) :
    -(9218868437227405312 : Int) < x.key ∧ x.key < 9218868437227405312 := by
  simp only [F64.isFinite, decide_eq_true_eq] at hf
  unfold F64.key
  split <;> omega

theorem key_lt_iff_finite {x y : F64} (hx : x.isFinite = true) (hy : y.isFinite = true) :
    x.key < y.key ↔ x.toRat < y.toRat := by
  have nx := F64.not_nan_of_finite hx
  have ny := F64.not_nan_of_finite hy
  rw [← F64.lt_iff_toRat_lt hx hy]
  simp [F64.lt, nx, ny]

theorem key_le_iff_finite {x y : F64} (hx : x.isFinite = true) (hy : y.isFinite = true) :
    x.key ≤ y.key ↔ x.toRat ≤ y.toRat := by
  have nx := F64.not_nan_of_finite hx
  have ny := F64.not_nan_of_finite hy
  rw [← F64.le_iff_toRat_le hx hy]
  simp [F64.le, nx, ny]

theorem key_eq_iff_finite {x y : F64} (hx : x.isFinite = true) (hy : y.isFinite = true) :
    x.key = y.key ↔ x.toRat = y.toRat := by
  have h1 := key_le_iff_finite hx hy
  have h2 := key_le_iff_finite hy hx
  constructor
  · intro h
    exact Rat.le_antisymm (h1.mp (by omega)) (h2.mp (by omega))
  · intro h
    have a := h1.mpr (by rw [h]; exact Rat.le_refl)
    have b := h2.mpr (by rw [h]; exact Rat.le_refl)
    omega

/-- Non-NaN floats: `key` is strictly monotone w.r.t. the extended-value order. -/
theorem key_lt_iff_numVal {x y : F64} (hx : x.isNaN = false) (hy : y.isNaN = false) :
    x.key < y.key ↔ NumVal.lt (numValOf x) (numValOf y) := by
  unfold numValOf
  rw [hx, hy]
  simp only [Bool.false_eq_true, if_false]
  cases hix : x.isInf <;> cases hiy : y.isInf
  · have fx := finite_of_not_nan_inf hx hix
    have fy := finite_of_not_nan_inf hy hiy
    simp only [Bool.false_eq_true, if_false, NumVal.lt]
    exact key_lt_iff_finite fx fy
  · have fx := key_bounds_finite (finite_of_not_nan_inf hx hix)
    have ky := key_of_inf hiy
    cases hs : y.sign <;> simp [hs, NumVal.lt] at ky ⊢ <;> omega
  · have fy := key_bounds_finite (finite_of_not_nan_inf hy hiy)
    have kx := key_of_inf hix
    cases hs : x.sign <;> simp [hs, NumVal.lt] at kx ⊢ <;> omega
  · have kx := key_of_inf hix
    have ky := key_of_inf hiy
    cases hs : x.sign <;> cases ht : y.sign <;> simp [hs, ht, NumVal.lt] at kx ky ⊢ <;> omega

theorem key_eq_iff_numVal {x y : F64} (hx : x.isNaN = false) (hy : y.isNaN = false) :
    x.key = y.key ↔ numValOf x = numValOf y := by
  unfold numValOf
  rw [hx, hy]
  simp only [Bool.false_eq_true, if_false]
  cases hix : x.isInf <;> cases hiy : y.isInf
  · have fx := finite_of_not_nan_inf hx hix
    have fy := finite_of_not_nan_inf hy hiy
    simp only [Bool.false_eq_true, if_false, NumVal.fin.injEq]
    exact key_eq_iff_finite fx fy
  · have fx := key_bounds_finite (finite_of_not_nan_inf hx hix)
    have ky := key_of_inf hiy
    cases hs : y.sign <;> simp [hs] at ky ⊢ <;> omega
  · have fy := key_bounds_finite (finite_of_not_nan_inf hy hiy)
    have kx := key_of_inf hix
    cases hs : x.sign <;> simp [hs] at kx ⊢ <;> omega
  · have kx := key_of_inf hix
    have ky := key_of_inf hiy
    cases hs : x.sign <;> cases ht : y.sign <;> simp [hs, ht] at kx ky ⊢ <;> omega

theorem numValOf_isNum {x : F64} (hx : x.isNaN = false) : numValOf x ≠ .notNum := by
  unfold numValOf
  rw [hx]
  simp only [Bool.false_eq_true, if_false]
  split
  · split <;> simp
  · simp

/-- What `realNum` says, in terms of the exact value. -/
theorem realNum_cases (k : Key) :
    (numVal k = .notNum ∧ (realNum k).mag = none) ∨
    (∃ x : F64, F64.parseFloat k = some x ∧ x.isNaN = false ∧ numVal k = numValOf x ∧
      (realNum k).mag = some x.key) := by
  unfold numVal realNum
  cases h : F64.parseFloat k with
  | none => exact Or.inl ⟨rfl, rfl⟩
  | some x =>
    cases hn : x.isNaN with
    | true => exact Or.inl ⟨by simp [numValOf, hn], by simp [PF.mag, hn]⟩
    | false => exact Or.inr ⟨x, rfl, hn, rfl, by simp [PF.mag, hn]⟩

theorem numVal_notNum_iff (k : Key) : numVal k = .notNum ↔ (realNum k).mag = none := by
  rcases realNum_cases k with ⟨h1, h2⟩ | ⟨x, _, hn, hv, hm⟩
  · exact ⟨fun _ => h2, fun _ => h1⟩
  · constructor
    · intro h; rw [hv] at h; exact absurd h (numValOf_isNum hn)
    · intro h; rw [hm] at h; exact absurd h (by simp)

/-- Equal exact values (or two non-numbers) ⇔ equal ranks of the parametric model. -/
theorem numVal_eq_iff (a b : Key) : numVal a = numVal b ↔ (realNum a).mag = (realNum b).mag := by
  rcases realNum_cases a with ⟨ha1, ha2⟩ | ⟨x, _, hxn, hxv, hxm⟩ <;>
    rcases realNum_cases b with ⟨hb1, hb2⟩ | ⟨y, _, hyn, hyv, hym⟩
  · rw [ha1, hb1, ha2, hb2]; simp
  · rw [ha1, ha2, hyv, hym]
    constructor
    · intro h; exact absurd h.symm (numValOf_isNum hyn)
    · intro h; exact absurd h (by simp)
  · rw [hb1, hb2, hxv, hxm]
    constructor
    · intro h; exact absurd h (numValOf_isNum hxn)
    · intro h; exact absurd h (by simp)
  · rw [hxv, hyv, hxm, hym, ← key_eq_iff_numVal hxn hyn]
    simp

/-- A strictly smaller exact value ⇔ a strictly smaller rank. -/
theorem numVal_lt_iff (a b : Key) :
    NumVal.lt (numVal a) (numVal b) ↔ ∃ p q, (realNum a).mag = some p ∧ (realNum b).mag = some q ∧ p < q := by
  rcases realNum_cases a with ⟨ha1, ha2⟩ | ⟨x, _, hxn, hxv, hxm⟩ <;>
    rcases realNum_cases b with ⟨hb1, hb2⟩ | ⟨y, _, hyn, hyv, hym⟩
  · rw [ha1, ha2]; simp [NumVal.lt]
  · rw [ha1, ha2]; simp [NumVal.lt]
  · rw [hb1, hb2]
    constructor
    · intro h; cases hv : numVal a <;> rw [hv] at h <;> simp [NumVal.lt] at h
    · intro ⟨p, q, _, h, _⟩; exact absurd h (by simp)
  · rw [hxv, hyv, hxm, hym, ← key_lt_iff_numVal hxn hyn]
    simp

end Rare.C13
