import Rare.Proofs.C14Scale
/-!
Palette indices, bar lengths, stacked bars.
-/
namespace Rare.C14
open Rare

/-! ### `int(u * n)` for `u ∈ [0,1]` -/

theorem ratTrunc_nonneg {q : Rat} (h : 0 ≤ q) : ratTrunc q = q.floor := by simp [ratTrunc, h]

theorem mul_unit_bounds {u : Rat} (h0 : 0 ≤ u) (h1 : u ≤ 1) {n : Int} (hn : 0 ≤ n) :
    0 ≤ u * (n : Rat) ∧ u * (n : Rat) ≤ (n : Rat) := by
  have hn' : (0 : Rat) ≤ (n : Rat) := by
    have := Rat.intCast_le_intCast.mpr hn
    simpa using this
  constructor
  · exact Rat.mul_nonneg h0 hn'
  · have := Rat.mul_le_mul_of_nonneg_right h1 hn'
    simpa [Rat.one_mul] using this

/-- `int(u * n)` lies in `[0, n]` for a unit value -/
theorem trunc_mul_bounds {u : Rat} (h0 : 0 ≤ u) (h1 : u ≤ 1) {n : Int} (hn : 0 ≤ n) :
    0 ≤ ratTrunc (u * (n : Rat)) ∧ ratTrunc (u * (n : Rat)) ≤ n := by
  obtain ⟨a, b⟩ := mul_unit_bounds h0 h1 hn
  rw [ratTrunc_nonneg a]
  constructor
  · exact Rat.le_floor_iff.mpr (by simpa using a)
  · have := Rat.floor_monotone b
    rwa [Rat.floor_intCast] at this

/-- `int(u * n)` is monotone in `u ≥ 0` -/
theorem trunc_mul_mono {u v : Rat} (h0 : 0 ≤ u) (huv : u ≤ v) {n : Int} (hn : 0 ≤ n) :
    ratTrunc (u * (n : Rat)) ≤ ratTrunc (v * (n : Rat)) := by
  have hn' : (0 : Rat) ≤ (n : Rat) := by
    have := Rat.intCast_le_intCast.mpr hn
    simpa using this
  have a : 0 ≤ u * (n : Rat) := Rat.mul_nonneg h0 hn'
  have b : 0 ≤ v * (n : Rat) := Rat.mul_nonneg (Rat.le_trans h0 huv) hn'
  rw [ratTrunc_nonneg a, ratTrunc_nonneg b]
  exact Rat.floor_monotone (Rat.mul_le_mul_of_nonneg_right huv hn')

section
variable {L2 L10 : Rat → Rat}

theorem bucket_bounds {u : Rat} (h0 : 0 ≤ u) (h1 : u ≤ 1) {n : Int} (hn : 1 ≤ n) :
    0 ≤ bucket (ratArith L2 L10) n u ∧ bucket (ratArith L2 L10) n u < n := by
  have := trunc_mul_bounds h0 h1 (n := n - 1) (by omega)
  simp only [bucket, ratArith]
  omega

theorem lengthVal_bounds {u : Rat} (h0 : 0 ≤ u) (h1 : u ≤ 1) {n : Int} (hn : 0 ≤ n) :
    0 ≤ lengthVal (ratArith L2 L10) n u ∧ lengthVal (ratArith L2 L10) n u ≤ n := by
  simpa [lengthVal, ratArith] using trunc_mul_bounds h0 h1 hn

theorem lengthVal_mono {u v : Rat} (h0 : 0 ≤ u) (huv : u ≤ v) {n : Int} (hn : 0 ≤ n) :
    lengthVal (ratArith L2 L10) n u ≤ lengthVal (ratArith L2 L10) n v := by
  simpa [lengthVal, ratArith] using trunc_mul_mono h0 huv hn

/-! ### palette lookups never fail on a unit value -/

theorem getIdx_ok {α : Type} (l : List α) {i : Int} (h0 : 0 ≤ i) (h1 : i < l.length) : ∃ x, getIdx l i = .ok x := by
  have hlt : i.toNat < l.length := by omega
  refine ⟨l[i.toNat], ?_⟩
  simp [getIdx, show ¬ i < 0 by omega, List.getElem?_eq_getElem hlt]

theorem heatWrite_ok (env : Env) {u : Rat} (h0 : 0 ≤ u) (h1 : u ≤ 1) :
    ∃ b, heatWrite (ratArith L2 L10) env u = .ok b := by
  unfold heatWrite
  by_cases hc : env.color
  · obtain ⟨a, b⟩ := bucket_bounds (L2 := L2) (L10 := L10) h0 h1 (n := (heatmapColors.length : Int)) (by decide)
    obtain ⟨x, hx⟩ := getIdx_ok heatmapColors a b
    simp [hc, hx, bind, Except.bind, pure, Except.pure]
  · obtain ⟨a, b⟩ := bucket_bounds (L2 := L2) (L10 := L10) h0 h1 (n := (heatmapAscii.length : Int)) (by decide)
    obtain ⟨x, hx⟩ := getIdx_ok heatmapAscii a b
    simp [hc, hx]

theorem sparkWrite_ok (env : Env) {u : Rat} (h0 : 0 ≤ u) (h1 : u ≤ 1) :
    ∃ b, sparkWrite (ratArith L2 L10) env u = .ok b := by
  unfold sparkWrite
  by_cases hc : env.unicode
  · obtain ⟨a, b⟩ := bucket_bounds (L2 := L2) (L10 := L10) h0 h1 (n := (sparkBlocks.length : Int)) (by decide)
    obtain ⟨x, hx⟩ := getIdx_ok sparkBlocks a b
    simp [hc, hx, bind, Except.bind, pure, Except.pure]
  · obtain ⟨a, b⟩ := bucket_bounds (L2 := L2) (L10 := L10) h0 h1 (n := (sparkAscii.length : Int)) (by decide)
    obtain ⟨x, hx⟩ := getIdx_ok sparkAscii a b
    simp [hc, hx, bind, Except.bind, pure, Except.pure]

/-! ### BarWrite -/

/-- number of glyphs of `BarWrite` as a function of the scaled block count -/
def barGlyphCount (env : Env) (maxLen : Int) (u : Rat) : Int :=
  if env.unicode then
    let rem := lengthVal (ratArith L2 L10) (wrap64 (maxLen * barUnicodePartCount)) u
    (barParts rem).1 + (if (barParts rem).2 > 0 then 1 else 0)
  else lengthVal (ratArith L2 L10) maxLen u

theorem wrap64_small {x : Int} (h0 : -9223372036854775808 ≤ x) (h1 : x < 9223372036854775808) : wrap64 x = x := by
  unfold wrap64; omega

/-- `BarWrite` succeeds on a unit value and writes `barGlyphCount` glyphs -/
theorem barWriteR_ok (env : Env) {u : Rat} (h0 : 0 ≤ u) (h1 : u ≤ 1) {maxLen : Int} (hm : 0 ≤ maxLen) (hs : maxLen < 1000000000000000000) :
    ∃ rs, barWriteR (ratArith L2 L10) env u maxLen = .ok rs ∧ (rs.length : Int) = barGlyphCount (L2 := L2) (L10 := L10) env maxLen u := by
  unfold barWriteR barGlyphCount
  by_cases hc : env.unicode
  · have hw : wrap64 (maxLen * barUnicodePartCount) = maxLen * 9 := by
      have : barUnicodePartCount = 9 := by decide
      rw [this]; exact wrap64_small (by omega) (by omega)
    obtain ⟨a, b⟩ := lengthVal_bounds (L2 := L2) (L10 := L10) h0 h1 (n := maxLen * 9) (by omega)
    simp only [hc, if_true, hw]
    generalize lengthVal (ratArith L2 L10) (maxLen * 9) u = rem at a b
    have hp : barParts rem = (rem / 9, rem % 9) := by
      have : barUnicodePartCount = 9 := by decide
      simp [barParts, this, show ¬ rem < 0 by omega]
    rw [hp]
    simp only
    by_cases hpart : rem % 9 > 0
    · have h9 : (barUnicode.length : Int) = 9 := by decide
      obtain ⟨x, hx⟩ := getIdx_ok barUnicode (i := rem % 9) (by omega) (by omega)
      refine ⟨List.replicate (rem / 9).toNat fullBlock ++ [x], ?_, ?_⟩
      · simp [hpart, hx, bind, Except.bind, pure, Except.pure]
      · simp [hpart]; omega
    · refine ⟨List.replicate (rem / 9).toNat fullBlock, ?_, ?_⟩
      · simp [hpart, pure, Except.pure]
      · simp [hpart]; omega
  · obtain ⟨a, b⟩ := lengthVal_bounds (L2 := L2) (L10 := L10) h0 h1 hm
    refine ⟨List.replicate (lengthVal (ratArith L2 L10) maxLen u).toNat nonUnicodeBlock, by simp [hc, pure, Except.pure], ?_⟩
    simp [hc]; omega

/-- a bar never has more glyphs than its maximum width -/
theorem barGlyphCount_le (env : Env) {u : Rat} (h0 : 0 ≤ u) (h1 : u ≤ 1) {maxLen : Int} (hm : 0 ≤ maxLen) (hs : maxLen < 1000000000000000000) :
    0 ≤ barGlyphCount (L2 := L2) (L10 := L10) env maxLen u ∧ barGlyphCount (L2 := L2) (L10 := L10) env maxLen u ≤ maxLen := by
  unfold barGlyphCount
  by_cases hc : env.unicode
  · have hw : wrap64 (maxLen * barUnicodePartCount) = maxLen * 9 := by
      have : barUnicodePartCount = 9 := by decide
      rw [this]; exact wrap64_small (by omega) (by omega)
    obtain ⟨a, b⟩ := lengthVal_bounds (L2 := L2) (L10 := L10) h0 h1 (n := maxLen * 9) (by omega)
    simp only [hc, if_true, hw]
    generalize lengthVal (ratArith L2 L10) (maxLen * 9) u = rem at a b
    have hp : barParts rem = (rem / 9, rem % 9) := by
      have : barUnicodePartCount = 9 := by decide
      simp [barParts, this, show ¬ rem < 0 by omega]
    rw [hp]; simp only
    split <;> omega
  · simpa [hc] using lengthVal_bounds (L2 := L2) (L10 := L10) h0 h1 hm

/-- a bar grows with the scaled value -/
theorem barGlyphCount_mono (env : Env) {u v : Rat} (h0 : 0 ≤ u) (huv : u ≤ v) (h1 : v ≤ 1) {maxLen : Int} (hm : 0 ≤ maxLen) (hs : maxLen < 1000000000000000000) :
    barGlyphCount (L2 := L2) (L10 := L10) env maxLen u ≤ barGlyphCount (L2 := L2) (L10 := L10) env maxLen v := by
  unfold barGlyphCount
  by_cases hc : env.unicode
  · have hw : wrap64 (maxLen * barUnicodePartCount) = maxLen * 9 := by
      have : barUnicodePartCount = 9 := by decide
      rw [this]; exact wrap64_small (by omega) (by omega)
    have hmono := lengthVal_mono (L2 := L2) (L10 := L10) h0 huv (n := maxLen * 9) (by omega)
    obtain ⟨a, _⟩ := lengthVal_bounds (L2 := L2) (L10 := L10) h0 (Rat.le_trans huv h1) (n := maxLen * 9) (by omega)
    simp only [hc, if_true, hw]
    generalize lengthVal (ratArith L2 L10) (maxLen * 9) u = r1 at a hmono
    generalize lengthVal (ratArith L2 L10) (maxLen * 9) v = r2 at hmono
    have hp1 : barParts r1 = (r1 / 9, r1 % 9) := by
      have : barUnicodePartCount = 9 := by decide
      simp [barParts, this, show ¬ r1 < 0 by omega]
    have hp2 : barParts r2 = (r2 / 9, r2 % 9) := by
      have : barUnicodePartCount = 9 := by decide
      simp [barParts, this, show ¬ r2 < 0 by omega]
    rw [hp1, hp2]; simp only
    split <;> split <;> omega
  · simpa [hc] using lengthVal_mono (L2 := L2) (L10 := L10) h0 huv hm

end

/-! ### stacked bars (integer arithmetic) -/

/-- normal form of `barBlocks` -/
theorem barBlocks_nf (val maxVal maxLen : Int) :
    barBlocks val maxVal maxLen =
      if maxVal ≤ 0 ∨ min val maxVal ≤ 0 ∨ maxLen ≤ 0 then 0 else min val maxVal * maxLen / maxVal := by
  have hmin : (if val > maxVal then maxVal else val) = min val maxVal := by
    by_cases h : val > maxVal <;> simp [h] <;> omega
  simp only [barBlocks, hmin]
  by_cases h1 : maxVal ≤ 0 <;> simp [h1]

theorem barBlocks_eq_spec (val maxVal maxLen : Int) :
    barBlocks val maxVal maxLen = Spec.propBar val maxVal maxLen := by
  rw [barBlocks_nf]
  unfold Spec.propBar
  by_cases h1 : maxVal ≤ 0
  · simp [h1]
  · have : (min val maxVal ≤ 0) ↔ (val ≤ 0) := by omega
    simp [h1, this]

theorem barBlocks_nonneg (val maxVal maxLen : Int) : 0 ≤ barBlocks val maxVal maxLen := by
  rw [barBlocks_nf]
  split
  · omega
  · rename_i h
    apply Int.ediv_nonneg
    · apply Int.mul_nonneg <;> omega
    · omega

theorem barBlocks_le (val maxVal maxLen : Int) (hm : 0 ≤ maxLen) : barBlocks val maxVal maxLen ≤ maxLen := by
  rw [barBlocks_nf]
  split
  · omega
  · rename_i h
    have hpos : 0 < maxVal := by omega
    have hv' : min val maxVal ≤ maxVal := by omega
    have : min val maxVal * maxLen ≤ maxLen * maxVal := by
      rw [Int.mul_comm maxLen maxVal]
      exact Int.mul_le_mul_of_nonneg_right hv' hm
    exact Int.ediv_le_of_le_mul hpos this

theorem barBlocks_mono {val val' : Int} (maxVal maxLen : Int) (h : val ≤ val') :
    barBlocks val maxVal maxLen ≤ barBlocks val' maxVal maxLen := by
  rw [barBlocks_nf, barBlocks_nf]
  have hvv : min val maxVal ≤ min val' maxVal := by omega
  generalize min val maxVal = v at hvv
  generalize min val' maxVal = v' at hvv
  by_cases h1 : maxVal ≤ 0
  · simp [h1]
  by_cases hl : maxLen ≤ 0
  · simp [hl]
  by_cases h0 : v ≤ 0
  · simp only [h0, true_or, or_true, if_true]
    split
    · omega
    · apply Int.ediv_nonneg
      · apply Int.mul_nonneg <;> omega
      · omega
  · have h0' : ¬ v' ≤ 0 := by omega
    simp only [h1, h0, h0', hl, or_self, if_false]
    apply Int.ediv_le_ediv (by omega)
    exact Int.mul_le_mul_of_nonneg_right hvv (by omega)

/-- sum of the positive values, without wrap-around -/
def posSum (vals : List Int) : Int := (vals.map (fun v => if v > 0 then v else 0)).sum

/-- total length of a stacked bar -/
def stackedBlocks (maxVal maxLen : Int) (vals : List Int) : Int := (vals.map (fun v => barBlocks v maxVal maxLen)).sum

theorem barBlocks_mul_le (v maxVal maxLen : Int) (hpos : 0 < maxVal) (hm : 0 ≤ maxLen) :
    barBlocks v maxVal maxLen * maxVal ≤ (if v > 0 then v else 0) * maxLen := by
  rw [barBlocks_nf]
  have hw : min v maxVal ≤ (if v > 0 then v else 0) ∨ min v maxVal ≤ 0 := by split <;> omega
  have hp : 0 ≤ (if v > 0 then v else 0) := by split <;> omega
  generalize (if v > 0 then v else 0) = p at hw hp
  generalize min v maxVal = w at hw
  by_cases h0 : maxVal ≤ 0 ∨ w ≤ 0 ∨ maxLen ≤ 0
  · simp only [h0, if_true, Int.zero_mul]
    exact Int.mul_nonneg hp hm
  · simp only [h0, if_false]
    have hw' : w ≤ p := by omega
    calc w * maxLen / maxVal * maxVal ≤ w * maxLen := Int.ediv_mul_le _ (by omega)
      _ ≤ p * maxLen := Int.mul_le_mul_of_nonneg_right hw' hm

theorem stackedBlocks_mul_le (maxVal maxLen : Int) (hpos : 0 < maxVal) (hm : 0 ≤ maxLen) (vals : List Int) :
    stackedBlocks maxVal maxLen vals * maxVal ≤ posSum vals * maxLen := by
  induction vals with
  | nil => simp [stackedBlocks, posSum]
  | cons v rest ih =>
    have h := barBlocks_mul_le v maxVal maxLen hpos hm
    simp only [stackedBlocks, posSum, List.map_cons, List.sum_cons] at ih ⊢
    rw [Int.add_mul, Int.add_mul]
    omega

/-- a stacked bar is never longer than `maxLen` when the running maximum covers the drawn values -/
theorem stackedBlocks_le (maxVal maxLen : Int) (hm : 0 ≤ maxLen) (vals : List Int) (hcover : posSum vals ≤ maxVal) :
    stackedBlocks maxVal maxLen vals ≤ maxLen := by
  by_cases hpos : 0 < maxVal
  · have h1 := stackedBlocks_mul_le maxVal maxLen hpos hm vals
    have h2 : posSum vals * maxLen ≤ maxVal * maxLen := Int.mul_le_mul_of_nonneg_right hcover hm
    have h3 : stackedBlocks maxVal maxLen vals * maxVal ≤ maxLen * maxVal := by rw [Int.mul_comm maxLen]; omega
    exact Int.le_of_mul_le_mul_right h3 hpos
  · have : ∀ vs : List Int, stackedBlocks maxVal maxLen vs = 0 := by
      intro vs
      induction vs with
      | nil => rfl
      | cons v r ih =>
        simp only [stackedBlocks, List.map_cons, List.sum_cons] at ih ⊢
        rw [ih]; simp [barBlocks, show maxVal ≤ 0 by omega]
    rw [this]; exact hm

theorem mapM_ok {α β : Type} (f : α → Res β) (l : List α) (h : ∀ x ∈ l, ∃ y, f x = .ok y) :
    ∃ ys, l.mapM f = .ok ys ∧ ys.length = l.length := by
  induction l with
  | nil => exact ⟨[], rfl, rfl⟩
  | cons x r ih =>
    obtain ⟨y, hy⟩ := h x (by simp)
    obtain ⟨ys, hys, hl⟩ := ih (fun z hz => h z (by simp [hz]))
    exact ⟨y :: ys, by simp [List.mapM_cons, hy, hys, bind, Except.bind, pure, Except.pure], by simp [hl]⟩

theorem stackedSegment_ok (env : Env) (maxVal maxLen v : Int) (i : Nat) : ∃ b, stackedSegment env maxVal maxLen v i = .ok b := by
  unfold stackedSegment
  by_cases hc : env.color
  · obtain ⟨c, hcx⟩ := getIdx_ok groupColors (i := (i : Int) % groupColors.length)
      (Int.emod_nonneg _ (by decide)) (Int.emod_lt_of_pos _ (by decide))
    exact ⟨colorWrite env c (barWriteRunes (if env.unicode = true then fullBlock else nonUnicodeBlock) v maxVal maxLen),
      by simp [hc, hcx, bind, Except.bind, pure, Except.pure]⟩
  · obtain ⟨g, hgx⟩ := getIdx_ok barAscii (i := (i : Int) % barAscii.length)
      (Int.emod_nonneg _ (by decide)) (Int.emod_lt_of_pos _ (by decide))
    exact ⟨barWriteRunes g v maxVal maxLen, by simp [hc, hgx, bind, Except.bind, pure, Except.pure]⟩

/-- `BarWriteStacked` never panics (after b2c2a9f: also for a running maximum of 0) -/
theorem barWriteStacked_ok (env : Env) (maxVal maxLen : Int) (vals : List Int) :
    ∃ b, barWriteStacked env maxVal maxLen vals = .ok b := by
  unfold barWriteStacked
  obtain ⟨ps, hps, _⟩ := mapM_ok (fun (p : Int × Nat) => stackedSegment env maxVal maxLen p.1 p.2) vals.zipIdx
    (fun p _ => stackedSegment_ok env maxVal maxLen p.1 p.2)
  exact ⟨ps.flatten, by simp [hps, bind, Except.bind, pure, Except.pure]⟩

end Rare.C14
