import Rare.Proofs.C16Views
import Rare.Proofs.C16Special
import Rare.Model.C16Cmd
/-!
C16, the view as an aggregation key:

* the text has no control byte (no NUL – rare's array separator –, no line feed, no tab): it is ONE line and
  ONE array element, `smartFormatResult` of `rare expression` prints it unchanged;
* the text is a complete invariant of the members it shows: two texts are equal iff the member names are
  equal and the captures are equal up to the letter case of the words `true` / `false`.
-/
namespace Rare.C16

/-! ### no control bytes -/

/-- no byte below 0x20 -/
def printable (b : Bytes) : Bool := b.all fun c => decide (0x20 ≤ c)

theorem printable_append (a b : Bytes) : printable (a ++ b) = (printable a && printable b) := by
  simp [printable]

theorem printable_cons (c : UInt8) (b : Bytes) : printable (c :: b) = (decide (0x20 ≤ c) && printable b) := by
  simp [printable]

theorem printable_flatMap {α : Type} (l : List α) (f : α → Bytes) (h : ∀ a ∈ l, printable (f a) = true) :
    printable (l.flatMap f) = true := by
  induction l with
  | nil => rfl
  | cons a l ih =>
    rw [List.flatMap_cons, printable_append, h a (by simp), ih (fun b hb => h b (by simp [hb]))]
    rfl

set_option maxRecDepth 100000 in
theorem esc1_table_printable : ∀ n, n < 256 → printable (esc1 (UInt8.ofNat n)) = true := by
  decide

theorem esc1_printable (c : UInt8) : printable (esc1 c) = true := by
  have := esc1_table_printable c.toNat c.toNat_lt
  simpa using this

/-- whatever bytes go in, `escape` emits no control byte -/
theorem escape_printable (s : Bytes) : printable (escape s) = true := by
  rw [escape_eq_flatMap]
  exact printable_flatMap s esc1 (fun c _ => esc1_printable c)

theorem isDig_printable (b : Bytes) (h : b.all isDig = true) : printable b = true := by
  simp only [printable, List.all_eq_true] at h ⊢
  intro c hc
  have := h c hc
  simp only [isDig, Bool.and_eq_true, decide_eq_true_eq] at this ⊢
  exact UInt8.le_trans (by decide) this.1

theorem valueText_printable (v : Bytes) : printable (valueText v) = true := by
  unfold valueText
  by_cases hn : isNumeric v = true
  · simp only [hn, if_true]
    obtain ⟨ip, fp, _, hip, hfp, _, h | h⟩ := isNumeric_shape v hn
    · rw [h.1]; exact isDig_printable ip hip
    · rw [h.1, printable_append, printable_cons, isDig_printable ip hip, isDig_printable fp hfp]; rfl
  · simp only [hn, Bool.false_eq_true, if_false]
    split
    · decide
    · split
      · decide
      · rw [printable_append, printable_append, escape_printable]; rfl

theorem stringText_printable (v : Bytes) : printable (stringR.text v) = true := by
  show printable (0x22 :: (escape v ++ [0x22])) = true
  rw [printable_cons, printable_append, escape_printable]; rfl

theorem renderMember_printable (R : ValR) (hR : ∀ v, printable (R.text v) = true) (m : Bytes × Bytes) :
    printable (renderMember R m) = true := by
  unfold renderMember
  rw [printable_cons, printable_append, escape_printable, printable_cons, printable_cons, printable_cons, hR]
  rfl

theorem objText_printable (R : ValR) (hR : ∀ v, printable (R.text v) = true) (ms : List (Bytes × Bytes)) :
    printable (objText R ms) = true := by
  have ht : printable (renderTail R ms) = true := by
    unfold renderTail
    refine printable_flatMap ms _ (fun m _ => ?_)
    rw [printable_cons, printable_cons, renderMember_printable R hR]; rfl
  unfold objText
  rw [printable_cons, printable_append]
  cases ms with
  | nil => rfl
  | cons m r =>
    have ht' : printable (renderTail R r) = true := by
      unfold renderTail
      refine printable_flatMap r _ (fun m _ => ?_)
      rw [printable_cons, printable_cons, renderMember_printable R hR]; rfl
    simp only [renderList]
    rw [printable_append, renderMember_printable R hR, ht']
    rfl

theorem printable_not_contains (s : Bytes) (sep : UInt8) (hs : sep < 0x20) (h : printable s = true) :
    s.contains sep = false := by
  simp only [printable, List.all_eq_true, decide_eq_true_eq] at h
  cases hc : s.contains sep with
  | false => rfl
  | true =>
    have hm : sep ∈ s := by simpa using hc
    have := h sep hm
    exact absurd (UInt8.lt_of_lt_of_le hs this) (UInt8.lt_irrefl _)

/-! ### `smartFormatResult`, arrays -/

theorem arraySeparator_lt : arraySeparator < 0x20 := by decide

/-- a result without control bytes is printed as it is -/
theorem smartFormat_of_printable (s : Bytes) (h : printable s = true) : smartFormatResult s = s := by
  unfold smartFormatResult
  rw [printable_not_contains s arraySeparator arraySeparator_lt h]
  rfl

theorem splitSep_not_mem (sep : UInt8) : ∀ s : Bytes, sep ∉ s → splitSep sep s = [s] := by
  intro s
  induction s with
  | nil => intro _; rfl
  | cons c r ih =>
    intro h
    have hc : c ≠ sep := fun e => h (e ▸ List.mem_cons_self)
    have hr : sep ∉ r := fun m => h (List.mem_cons_of_mem _ m)
    simp [splitSep, hc, ih hr]

theorem splitSep_append (sep : UInt8) : ∀ (a r : Bytes), sep ∉ a →
    splitSep sep (a ++ sep :: r) = a :: splitSep sep r := by
  intro a
  induction a with
  | nil => intro r _; simp [splitSep]
  | cons c a ih =>
    intro r h
    have hc : c ≠ sep := fun e => h (e ▸ List.mem_cons_self)
    have ha : sep ∉ a := fun m => h (List.mem_cons_of_mem _ m)
    simp [splitSep, hc, ih r ha]

theorem not_mem_of_printable (s : Bytes) (h : printable s = true) : arraySeparator ∉ s := by
  intro hm
  have := printable_not_contains s arraySeparator arraySeparator_lt h
  simp [hm] at this

/-- array elements without control bytes come back from the split exactly -/
theorem split_makeArrayGo : ∀ (args : List Bytes) (a : Bytes) (i : Nat),
    (∀ x ∈ a :: args, printable x = true) →
    splitSep arraySeparator (a ++ makeArrayGo (i + 1) args) = a :: args := by
  intro args
  induction args with
  | nil =>
    intro a i h
    simp only [makeArrayGo, List.append_nil]
    exact splitSep_not_mem _ a (not_mem_of_printable a (h a (by simp)))
  | cons b r ih =>
    intro a i h
    simp only [makeArrayGo, Nat.zero_lt_succ, if_true, List.cons_append, List.nil_append]
    rw [splitSep_append _ a _ (not_mem_of_printable a (h a (by simp)))]
    rw [ih b (i + 1) (fun x hx => h x (List.mem_cons_of_mem _ hx))]

theorem split_makeArray (a : Bytes) (args : List Bytes) (h : ∀ x ∈ a :: args, printable x = true) :
    splitSep arraySeparator (makeArray (a :: args)) = a :: args := by
  have := split_makeArrayGo args a 0 h
  simpa [makeArray, makeArrayGo] using this

/-! ### the map of `rare expression` -/

theorem find_map_set {β : Type} (k : Bytes) (v : β) (k' : Bytes) : ∀ (m : List (Bytes × β)),
    (m.map (fun p => if p.1 == k then (k, v) else p)).find? (fun p => p.1 == k') =
      if k' = k then (if m.any (fun p => p.1 == k) then some (k, v) else none)
      else m.find? (fun p => p.1 == k') := by
  intro m
  induction m with
  | nil => simp
  | cons p r ih =>
    simp only [List.map_cons, List.find?_cons, List.any_cons]
    by_cases hp : p.1 = k
    · have hb : (p.1 == k) = true := by simpa using hp
      simp only [hb, if_true, Bool.true_or]
      by_cases hk : k' = k
      · subst hk; simp
      · have : (k == k') = false := by simpa using fun e => hk e.symm
        have h2 : (p.1 == k') = false := by rw [hp]; exact this
        simp only [this, h2, hk, if_false]
        rw [ih]; simp [hk]
    · have hb : (p.1 == k) = false := by simpa using hp
      simp only [hb, Bool.false_or, Bool.false_eq_true, if_false]
      by_cases hk : k' = k
      · subst hk
        simp only [hb, if_true]
        rw [ih]; simp
      · simp only [hk, if_false]
        cases hq : (p.1 == k') with
        | true => rfl
        | false => simp only []; rw [ih]; simp [hk]

theorem mapGet_mapSet {β : Type} (d : β) (k : Bytes) (v : β) (k' : Bytes) (m : List (Bytes × β)) :
    mapGet d (mapSet m k v) k' = if k' = k then v else mapGet d m k' := by
  unfold mapSet mapGet
  by_cases hany : m.any (fun p => p.1 == k) = true
  · rw [if_pos hany, find_map_set]
    by_cases hk : k' = k
    · simp [hk, hany]
    · simp [hk]
  · rw [if_neg hany, List.find?_append]
    by_cases hk : k' = k
    · subst hk
      have : m.find? (fun p => p.1 == k') = none := by
        rw [List.find?_eq_none]
        intro p hp hb
        exact hany (List.any_eq_true.mpr ⟨p, hp, hb⟩)
      simp [this]
    · have hb : (k == k') = false := by simpa using fun e => hk e.symm
      cases hf : m.find? (fun p => p.1 == k') with
      | some q => simp [hk]
      | none => simp [hk, hb]

/-- the emulated keys are assigned last: whatever `-k` says, `Keys[key]` of a view key is the view -/
theorem expressionKeys_view (data kvs : List Bytes) (σ : List (Bytes × Bytes)) (key : Bytes) (f : Bool × Bool)
    (h : viewFlags key = some f) :
    mapGet [] (expressionKeys data kvs σ) key =
      buildSpecialKeyJson (if f.2 then data else []) (if f.1 then σ else []) := by
  unfold viewFlags at h
  unfold expressionKeys
  simp only [mapGet_mapSet]
  split at h
  · rename_i hk; subst hk; cases h; simp
  · split at h
    · rename_i hk; subst hk; cases h; simp
    · split at h
      · rename_i hk
        cases h
        rcases hk with hk | hk <;> subst hk <;> simp
      · cases h


/-! ### the text determines the members -/

theorem valueText_canon (v : Bytes) : valueText (canonVal v) = valueText v := by
  unfold canonVal
  by_cases ht : equalFoldLen v litTrue = true
  · have hn : isNumeric v = false := by
      cases h : isNumeric v with
      | false => rfl
      | true =>
        exact absurd h (by
          have := spelling_not_numeric v litTrue litTrue_lower (by decide) ((equalFoldLen_iff v litTrue litTrue_lower).mp ht)
          simpa using this)
    simp only [ht, if_true]
    unfold valueText
    simp only [hn, ht, Bool.false_eq_true, if_false, if_true]
    decide
  · simp only [ht, Bool.false_eq_true, if_false]
    by_cases hf : equalFoldLen v litFalse = true
    · have hn : isNumeric v = false := by
        cases h : isNumeric v with
        | false => rfl
        | true =>
          exact absurd h (by
            have := spelling_not_numeric v litFalse litFalse_lower (by decide) ((equalFoldLen_iff v litFalse litFalse_lower).mp hf)
            simpa using this)
      simp only [hf, if_true]
      unfold valueText
      simp only [hn, ht, hf, Bool.false_eq_true, if_false, if_true]
      decide
    · simp only [hf, Bool.false_eq_true, if_false]

theorem canonVal_idem (v : Bytes) : canonVal (canonVal v) = canonVal v := by
  unfold canonVal
  by_cases ht : equalFoldLen v litTrue = true
  · simp only [ht, if_true]; decide
  · by_cases hf : equalFoldLen v litFalse = true
    · simp only [ht, hf, if_true, Bool.false_eq_true, if_false]; decide
    · simp only [ht, hf, Bool.false_eq_true, if_false]

theorem canonVal_eq_nil (v : Bytes) : canonVal v = [] ↔ v = [] := by
  unfold canonVal
  constructor
  · intro h
    split at h
    · cases h
    · split at h
      · cases h
      · exact h
  · intro h; subst h; decide

/-- what `canonVal` identifies: nothing but the spellings of one boolean word -/
theorem canonVal_eq_iff (a b : Bytes) :
    canonVal a = canonVal b ↔
      a = b ∨ (a ∈ spellings litTrue ∧ b ∈ spellings litTrue) ∨ (a ∈ spellings litFalse ∧ b ∈ spellings litFalse) := by
  rw [← equalFoldLen_iff a litTrue litTrue_lower, ← equalFoldLen_iff b litTrue litTrue_lower,
    ← equalFoldLen_iff a litFalse litFalse_lower, ← equalFoldLen_iff b litFalse litFalse_lower]
  have hTT : equalFoldLen litTrue litTrue = true := by decide
  have hFF : equalFoldLen litFalse litFalse = true := by decide
  have hTF : litTrue ≠ litFalse := by decide
  constructor
  · intro h
    unfold canonVal at h
    by_cases ta : equalFoldLen a litTrue = true
    · by_cases tb : equalFoldLen b litTrue = true
      · exact Or.inr (Or.inl ⟨ta, tb⟩)
      · by_cases fb : equalFoldLen b litFalse = true
        · simp only [ta, tb, fb, if_true, Bool.false_eq_true, if_false] at h
          exact absurd h hTF
        · simp only [ta, tb, fb, if_true, Bool.false_eq_true, if_false] at h
          rw [← h] at tb; exact absurd hTT tb
    · by_cases fa : equalFoldLen a litFalse = true
      · by_cases tb : equalFoldLen b litTrue = true
        · simp only [ta, fa, tb, if_true, Bool.false_eq_true, if_false] at h
          exact absurd h.symm hTF
        · by_cases fb : equalFoldLen b litFalse = true
          · exact Or.inr (Or.inr ⟨fa, fb⟩)
          · simp only [ta, fa, tb, fb, if_true, Bool.false_eq_true, if_false] at h
            rw [← h] at fb; exact absurd hFF fb
      · by_cases tb : equalFoldLen b litTrue = true
        · simp only [ta, fa, tb, if_true, Bool.false_eq_true, if_false] at h
          rw [h] at ta; exact absurd hTT ta
        · by_cases fb : equalFoldLen b litFalse = true
          · simp only [ta, fa, tb, fb, if_true, Bool.false_eq_true, if_false] at h
            rw [h] at fa; exact absurd hFF fa
          · simp only [ta, fa, tb, fb, Bool.false_eq_true, if_false] at h
            exact Or.inl h
  · rintro (h | ⟨ta, tb⟩ | ⟨fa, fb⟩)
    · rw [h]
    · simp [canonVal, ta, tb]
    · unfold canonVal
      by_cases ta : equalFoldLen a litTrue = true
      · exfalso
        have h1 := (mem_spellings litTrue litTrue_lower a).mp ((equalFoldLen_iff a litTrue litTrue_lower).mp ta)
        have h2 := (mem_spellings litFalse litFalse_lower a).mp ((equalFoldLen_iff a litFalse litFalse_lower).mp fa)
        exact hTF (h1.symm.trans h2)
      · by_cases tb : equalFoldLen b litTrue = true
        · exfalso
          have h1 := (mem_spellings litTrue litTrue_lower b).mp ((equalFoldLen_iff b litTrue litTrue_lower).mp tb)
          have h2 := (mem_spellings litFalse litFalse_lower b).mp ((equalFoldLen_iff b litFalse litFalse_lower).mp fb)
          exact hTF (h1.symm.trans h2)
        · simp [ta, tb, fa, fb]

/-- the four kinds of value, with what each determines -/
theorem value_kind (v : Bytes) :
    ((∃ m e, inferredVal v = .num m e) ∧ valueText v = v ∧ canonVal v = v) ∨
    (inferredVal v = .bool true ∧ canonVal v = litTrue) ∨
    (inferredVal v = .bool false ∧ canonVal v = litFalse) ∨
    (inferredVal v = .str v ∧ canonVal v = v) := by
  by_cases hn : isNumeric v = true
  · left
    obtain ⟨m, e, _, hd⟩ := isNumeric_parse v [] hn endsNumber_nil
    have h1 : equalFoldLen v litTrue = false := by
      cases h : equalFoldLen v litTrue with
      | false => rfl
      | true =>
        have := spelling_not_numeric v litTrue litTrue_lower (by decide) ((equalFoldLen_iff v litTrue litTrue_lower).mp h)
        rw [hn] at this; cases this
    have h2 : equalFoldLen v litFalse = false := by
      cases h : equalFoldLen v litFalse with
      | false => rfl
      | true =>
        have := spelling_not_numeric v litFalse litFalse_lower (by decide) ((equalFoldLen_iff v litFalse litFalse_lower).mp h)
        rw [hn] at this; cases this
    refine ⟨⟨m, e, by simp [inferredVal, hn, hd]⟩, by simp [valueText, hn], by simp [canonVal, h1, h2]⟩
  · right
    by_cases ht : equalFoldLen v litTrue = true
    · left; exact ⟨by simp [inferredVal, hn, ht], by simp [canonVal, ht]⟩
    · right
      by_cases hf : equalFoldLen v litFalse = true
      · left; exact ⟨by simp [inferredVal, hn, ht, hf], by simp [canonVal, ht, hf]⟩
      · right; exact ⟨by simp [inferredVal, hn, ht, hf], by simp [canonVal, ht, hf]⟩

theorem inferredVal_of_valueText_eq (a b : Bytes) (h : valueText a = valueText b) : inferredVal a = inferredVal b := by
  have pa := parseValue_valueText a [0x7d] ⟨[], Or.inr rfl⟩
  have pb := parseValue_valueText b [0x7d] ⟨[], Or.inr rfl⟩
  rw [h, pb] at pa
  simp only [Option.some.injEq, Prod.mk.injEq, and_true] at pa
  exact pa.symm

/-- **The value text determines the capture** up to the letter case of `true` / `false`. -/
theorem valueText_eq_iff (a b : Bytes) : valueText a = valueText b ↔ canonVal a = canonVal b := by
  constructor
  · intro h
    have hv := inferredVal_of_valueText_eq a b h
    rcases value_kind a with ⟨⟨m, e, ha⟩, ta, ca⟩ | ⟨ha, ca⟩ | ⟨ha, ca⟩ | ⟨ha, ca⟩ <;>
    rcases value_kind b with ⟨⟨m', e', hb⟩, tb, cb⟩ | ⟨hb, cb⟩ | ⟨hb, cb⟩ | ⟨hb, cb⟩ <;>
    rw [ha, hb] at hv <;> first
      | (exfalso; exact JVal.noConfusion hv)
      | (exfalso; exact Bool.noConfusion (JVal.bool.inj hv))
      | (rw [ca, cb]; done)
      | (rw [ca, cb]; exact JVal.str.inj hv)
      | (rw [ca, cb]; exact ta.symm.trans (h.trans tb))
  · intro h
    rw [← valueText_canon a, ← valueText_canon b, h]

/-! ### the object text determines names and value texts -/

theorem delim_tail (R : ValR) (ms : List (Bytes × Bytes)) (t : Bytes) : Delim (renderTail R ms ++ 0x7d :: t) := by
  cases ms with
  | nil => exact ⟨t, Or.inr (by simp [renderTail])⟩
  | cons m r => exact ⟨_, Or.inl (by rw [renderTail_cons]; rfl)⟩

theorem renderMember_split (R : ValR) (m1 m2 : Bytes × Bytes) (t1 t2 : Bytes) (h1 : Delim t1) (h2 : Delim t2)
    (h : renderMember R m1 ++ t1 = renderMember R m2 ++ t2) :
    m1.1 = m2.1 ∧ R.text m1.2 = R.text m2.2 ∧ t1 = t2 := by
  have p1 := parseMember_render R m1 t1 h1
  have p2 := parseMember_render R m2 t2 h2
  rw [h, p2] at p1
  simp only [Option.some.injEq, Prod.mk.injEq, dec] at p1
  obtain ⟨⟨hk, _⟩, ht⟩ := p1
  subst ht
  have hr := List.append_cancel_right h
  unfold renderMember at hr
  rw [hk] at hr
  simp only [List.cons.injEq, true_and, List.append_cancel_left_eq] at hr
  exact ⟨hk.symm, hr, rfl⟩

/-- name and value text of a member -/
def textOf (R : ValR) (m : Bytes × Bytes) : Bytes × Bytes := (m.1, R.text m.2)

theorem renderTail_inj (R : ValR) : ∀ (ms1 ms2 : List (Bytes × Bytes)),
    renderTail R ms1 ++ [0x7d] = renderTail R ms2 ++ [0x7d] → ms1.map (textOf R) = ms2.map (textOf R) := by
  intro ms1
  induction ms1 with
  | nil =>
    intro ms2 h
    cases ms2 with
    | nil => rfl
    | cons m r => rw [renderTail_cons] at h; simp [renderTail] at h
  | cons m1 r1 ih =>
    intro ms2 h
    cases ms2 with
    | nil => rw [renderTail_cons] at h; simp [renderTail] at h
    | cons m2 r2 =>
      rw [renderTail_cons, renderTail_cons] at h
      simp only [List.cons_append, List.cons.injEq, true_and, List.append_assoc] at h
      obtain ⟨hk, hv, ht⟩ := renderMember_split R m1 m2 _ _ (delim_tail R r1 []) (delim_tail R r2 []) h
      simp only [List.map_cons, textOf, hk, hv, ih r2 ht]

theorem objText_inj (R : ValR) (ms1 ms2 : List (Bytes × Bytes)) (h : objText R ms1 = objText R ms2) :
    ms1.map (textOf R) = ms2.map (textOf R) := by
  unfold objText at h
  simp only [List.cons.injEq, true_and] at h
  cases ms1 with
  | nil =>
    cases ms2 with
    | nil => rfl
    | cons m r => simp [renderList, renderMember] at h
  | cons m1 r1 =>
    cases ms2 with
    | nil => simp [renderList, renderMember] at h
    | cons m2 r2 =>
      simp only [renderList, List.append_assoc] at h
      obtain ⟨hk, hv, ht⟩ := renderMember_split R m1 m2 _ _ (delim_tail R r1 []) (delim_tail R r2 []) h
      simp only [List.map_cons, textOf, hk, hv, renderTail_inj R r1 r2 ht]

/-- an object text from (name, value text) pairs -/
def objOf (ps : List (Bytes × Bytes)) : Bytes :=
  0x7b :: ((match ps with
    | [] => []
    | p :: r => (0x22 :: (escape p.1 ++ 0x22 :: 0x3a :: 0x20 :: p.2)) ++
        r.flatMap fun q => 0x2c :: 0x20 :: 0x22 :: (escape q.1 ++ 0x22 :: 0x3a :: 0x20 :: q.2)) ++ [0x7d])

theorem objText_eq_objOf (R : ValR) (ms : List (Bytes × Bytes)) : objText R ms = objOf (ms.map (textOf R)) := by
  cases ms with
  | nil => rfl
  | cons m r =>
    simp only [objText, objOf, List.map_cons, renderList, renderTail, List.flatMap_map, textOf, renderMember]

theorem map_eq_map_iff_pointwise {α β γ : Type} (f : α → β) (g : α → γ) (hfg : ∀ a b, f a = f b ↔ g a = g b) :
    ∀ (l1 l2 : List α), l1.map f = l2.map f ↔ l1.map g = l2.map g := by
  intro l1
  induction l1 with
  | nil => intro l2; cases l2 <;> simp
  | cons a r ih =>
    intro l2
    cases l2 with
    | nil => simp
    | cons b r2 => simp only [List.map_cons, List.cons.injEq, hfg a b, ih r2]

/-- name and canonical capture of a member -/
def canonM (m : Bytes × Bytes) : Bytes × Bytes := (m.1, canonVal m.2)

/-- **The text of an object is a complete invariant of its canonical members.** -/
theorem objText_eq_iff (ms1 ms2 : List (Bytes × Bytes)) :
    objText inferredR ms1 = objText inferredR ms2 ↔ ms1.map canonM = ms2.map canonM := by
  have hp : ∀ a b : Bytes × Bytes, textOf inferredR a = textOf inferredR b ↔ canonM a = canonM b := by
    intro a b
    simp only [textOf, canonM, Prod.mk.injEq]
    exact and_congr Iff.rfl (valueText_eq_iff a.2 b.2)
  rw [← map_eq_map_iff_pointwise (textOf inferredR) canonM hp]
  constructor
  · exact objText_inj inferredR ms1 ms2
  · intro h; rw [objText_eq_objOf, objText_eq_objOf, h]

/-- for strings written with `WriteString` the text determines the members exactly -/
theorem objText_string_inj (ms1 ms2 : List (Bytes × Bytes)) (h : objText stringR ms1 = objText stringR ms2) :
    ms1 = ms2 := by
  have := objText_inj stringR ms1 ms2 h
  have hp : ∀ a b : Bytes × Bytes, textOf stringR a = textOf stringR b ↔ id a = id b := by
    intro a b
    simp only [textOf, id, stringR]
    constructor
    · intro e
      have e1 : a.1 = b.1 := (Prod.mk.inj e).1
      have e2 : (0x22 : UInt8) :: (escape a.2 ++ [0x22]) = 0x22 :: (escape b.2 ++ [0x22]) := (Prod.mk.inj e).2
      have r1 := strBody_escape a.2 []
      have r2 := strBody_escape b.2 []
      simp only [List.cons.injEq, true_and] at e2
      rw [e2, r2] at r1
      simp only [Option.some.injEq, Prod.mk.injEq, and_true] at r1
      exact Prod.ext e1 r1.symm
    · intro e; rw [e]
  have := (map_eq_map_iff_pointwise (textOf stringR) id hp ms1 ms2).mp this
  simpa using this

/-! ### numbered members over any long enough range -/

theorem expectedNumbered_ext (indices : List Int) (line : Bytes) : ∀ (k : Nat),
    expectedNumbered indices line =
      (List.range (indices.length / 2 + k)).filterMap fun i =>
        let v := capture indices line (i : Nat)
        if v = [] then none else some (natAscii i, v) := by
  intro k
  induction k with
  | zero => rfl
  | succ k ih =>
    rw [← Nat.add_assoc, List.range_succ, List.filterMap_append, ← ih]
    have hc := capture_out_of_range indices line (indices.length / 2 + k) (by omega)
    simp only [List.filterMap_cons, List.filterMap_nil, hc, if_true, List.append_nil]

theorem filterMap_eq_tagged {α β : Type} (tag : β → α) (g1 g2 : α → Option β)
    (h1 : ∀ a y, g1 a = some y → tag y = a) (h2 : ∀ a y, g2 a = some y → tag y = a) :
    ∀ l : List α, l.Nodup → (l.filterMap g1 = l.filterMap g2 ↔ ∀ a ∈ l, g1 a = g2 a) := by
  intro l
  induction l with
  | nil => intro _; simp
  | cons a r ih =>
    intro hnd
    have hr := (List.nodup_cons.mp hnd)
    have ih' := ih hr.2
    have notin : ∀ (g : α → Option β), (∀ a y, g a = some y → tag y = a) → ∀ y, tag y = a → y ∉ r.filterMap g := by
      intro g hg y hy hm
      obtain ⟨x, hx, e⟩ := List.mem_filterMap.mp hm
      have := hg x y e
      rw [hy] at this
      exact hr.1 (this ▸ hx)
    constructor
    · intro h b hb
      cases e1 : g1 a with
      | none =>
        cases e2 : g2 a with
        | none =>
          simp only [List.filterMap_cons, e1, e2] at h
          rcases List.mem_cons.mp hb with rfl | hb
          · rw [e1, e2]
          · exact ih'.mp h b hb
        | some y =>
          simp only [List.filterMap_cons, e1, e2] at h
          exact absurd (h ▸ List.mem_cons_self) (notin g1 h1 y (h2 a y e2))
      | some x =>
        cases e2 : g2 a with
        | none =>
          simp only [List.filterMap_cons, e1, e2] at h
          exact absurd (h ▸ List.mem_cons_self) (notin g2 h2 x (h1 a x e1))
        | some y =>
          simp only [List.filterMap_cons, e1, e2, List.cons.injEq] at h
          rcases List.mem_cons.mp hb with rfl | hb
          · rw [e1, e2, h.1]
          · exact ih'.mp h.2 b hb
    · intro h
      simp only [List.filterMap_cons, h a List.mem_cons_self]
      have := ih'.mpr (fun b hb => h b (List.mem_cons_of_mem _ hb))
      rw [this]

/-- the numbered members of two matches agree canonically iff every group does -/
theorem numbered_canon_iff (i1 i2 : List Int) (l1 l2 : Bytes) :
    (expectedNumbered i1 l1).map canonM = (expectedNumbered i2 l2).map canonM ↔
      ∀ i : Nat, canonVal (capture i1 l1 (i : Nat)) = canonVal (capture i2 l2 (i : Nat)) := by
  let N := i1.length / 2 + i2.length / 2
  have e1 := expectedNumbered_ext i1 l1 (i2.length / 2)
  have e2 := expectedNumbered_ext i2 l2 (i1.length / 2)
  rw [Nat.add_comm (i2.length / 2)] at e2
  rw [e1, e2, List.map_filterMap, List.map_filterMap]
  let g := fun (ix : List Int) (ln : Bytes) (i : Nat) =>
    if capture ix ln (i : Nat) = [] then none else some (natAscii i, canonVal (capture ix ln (i : Nat)))
  have hg : ∀ (ix : List Int) (ln : Bytes),
      (fun i : Nat => Option.map canonM
        (let v := capture ix ln (i : Nat); if v = [] then none else some (natAscii i, v))) = g ix ln := by
    intro ix ln; funext i
    by_cases h : capture ix ln (i : Nat) = [] <;> simp [g, h, canonM]
  rw [hg, hg]
  have htag : ∀ (ix : List Int) (ln : Bytes) (a : Nat) (y : Bytes × Bytes), g ix ln a = some y → digVal y.1 = a := by
    intro ix ln a y h
    simp only [g] at h
    split at h
    · cases h
    · cases h; exact digVal_natAscii a
  rw [filterMap_eq_tagged (fun y : Bytes × Bytes => digVal y.1) (g i1 l1) (g i2 l2) (htag i1 l1) (htag i2 l2) _ List.nodup_range]
  constructor
  · intro h i
    by_cases hi : i < i1.length / 2 + i2.length / 2
    · have := h i (List.mem_range.mpr hi)
      simp only [g] at this
      by_cases c1 : capture i1 l1 (i : Nat) = []
      · by_cases c2 : capture i2 l2 (i : Nat) = []
        · rw [c1, c2]
        · simp [c1, c2] at this
      · by_cases c2 : capture i2 l2 (i : Nat) = []
        · simp [c1, c2] at this
        · simp only [c1, c2, if_false, Option.some.injEq, Prod.mk.injEq, true_and] at this
          exact this
    · rw [capture_out_of_range i1 l1 i (by omega), capture_out_of_range i2 l2 i (by omega)]
  · intro h i _
    have hi := h i
    simp only [g]
    by_cases c1 : capture i1 l1 (i : Nat) = []
    · have c2 : capture i2 l2 (i : Nat) = [] := by
        rw [c1] at hi
        exact (canonVal_eq_nil _).mp (hi.symm.trans ((canonVal_eq_nil _).mpr rfl))
      simp [c1, c2]
    · have c2 : capture i2 l2 (i : Nat) ≠ [] := by
        intro c2
        rw [c2] at hi
        exact c1 ((canonVal_eq_nil _).mp (hi.trans ((canonVal_eq_nil _).mpr rfl)))
      simp [c1, c2, hi]

/-- the named members of two matches (same name table) agree canonically iff every named group does -/
theorem named_canon_iff (order : List (Bytes × Int)) (i1 i2 : List Int) (l1 l2 : Bytes)
    (hnd : (order.map (·.1)).Nodup) :
    (namedMembers order i1 l1).map canonM = (namedMembers order i2 l2).map canonM ↔
      ∀ p ∈ order, canonVal (capture i1 l1 p.2) = canonVal (capture i2 l2 p.2) := by
  simp only [namedMembers, List.map_map]
  rw [List.map_inj_left]
  constructor
  · intro h p hp
    have := h p.1 ((sortNames_perm _).mem_iff.mpr (List.mem_map_of_mem hp))
    simp only [Function.comp, canonM, Prod.mk.injEq, true_and] at this
    rw [mapGet_mem 0 order p hnd hp] at this
    exact this
  · intro h n hn
    obtain ⟨p, hp, e⟩ := List.mem_map.mp ((sortNames_perm _).mem_iff.mp hn)
    subst e
    simp only [Function.comp, canonM, Prod.mk.injEq, true_and]
    rw [mapGet_mem 0 order p hnd hp]
    exact h p hp

theorem sameShown_iff (named numbered : Bool) (order : List (Bytes × Int)) (i1 i2 : List Int) (l1 l2 : Bytes) :
    sameShown named numbered order i1 l1 i2 l2 = true ↔
      ((named = true → ∀ p ∈ order, canonVal (capture i1 l1 p.2) = canonVal (capture i2 l2 p.2)) ∧
       (numbered = true → ∀ i : Nat, canonVal (capture i1 l1 (i : Nat)) = canonVal (capture i2 l2 (i : Nat)))) := by
  unfold sameShown
  simp only [Bool.and_eq_true, Bool.or_eq_true, Bool.not_eq_true', List.all_eq_true, beq_iff_eq, List.mem_range]
  constructor
  · rintro ⟨h1, h2⟩
    refine ⟨fun hn => ?_, fun hu i => ?_⟩
    · rcases h1 with h | h
      · rw [hn] at h; cases h
      · exact h
    · rcases h2 with h | h
      · rw [hu] at h; cases h
      · by_cases hi : i < i1.length / 2 + i2.length / 2
        · exact h i hi
        · rw [capture_out_of_range i1 l1 i (by omega), capture_out_of_range i2 l2 i (by omega)]
  · rintro ⟨h1, h2⟩
    refine ⟨?_, ?_⟩
    · cases named with
      | false => left; rfl
      | true => right; exact h1 rfl
    · cases numbered with
      | false => left; rfl
      | true => right; exact fun i _ => h2 rfl i

/-- two matches of one extractor get the same view text iff they show the same members -/
theorem viewMembers_canon_iff (named numbered : Bool) (order : List (Bytes × Int)) (i1 i2 : List Int) (l1 l2 : Bytes)
    (hnd : (order.map (·.1)).Nodup) :
    (viewMembers named numbered order i1 l1).map canonM = (viewMembers named numbered order i2 l2).map canonM ↔
      ((named = true → ∀ p ∈ order, canonVal (capture i1 l1 p.2) = canonVal (capture i2 l2 p.2)) ∧
       (numbered = true → ∀ i : Nat, canonVal (capture i1 l1 (i : Nat)) = canonVal (capture i2 l2 (i : Nat)))) := by
  unfold viewMembers
  rw [List.map_append, List.map_append]
  have hlen : ((if named then namedMembers order i1 l1 else []).map canonM).length =
      ((if named then namedMembers order i2 l2 else []).map canonM).length := by
    cases named <;> simp [namedMembers]
  constructor
  · intro h
    obtain ⟨ha, hb⟩ := List.append_inj h hlen
    refine ⟨fun hn => ?_, fun hu => ?_⟩
    · subst hn; exact (named_canon_iff order i1 i2 l1 l2 hnd).mp ha
    · subst hu; exact (numbered_canon_iff i1 i2 l1 l2).mp hb
  · rintro ⟨h1, h2⟩
    congr 1
    · cases named with
      | false => rfl
      | true => exact (named_canon_iff order i1 i2 l1 l2 hnd).mpr (h1 rfl)
    · cases numbered with
      | false => rfl
      | true => exact (numbered_canon_iff i1 i2 l1 l2).mpr (h2 rfl)

end Rare.C16
