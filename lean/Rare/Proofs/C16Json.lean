import Rare.Proofs.C16Obj
/-! C16: the object builder, the two loops of `json`, sorted iteration and map-order independence. -/
namespace Rare.C16

/-! ### the builder appends rendered members -/

/-- `w` writes one member whose value is rendered by `R` -/
def Writes (R : ValR) (w : JB → Bytes → Bytes → JB) : Prop :=
  ∀ (j : JB) (k v : Bytes), w j k v =
    ⟨j.sb ++ (if 0 < j.keyCount then [0x2c, 0x20] else []) ++ renderMember R (k, v), j.keyCount + 1⟩

theorem writeInferred_eq : Writes inferredR JB.writeInferred := by
  intro j k v
  unfold JB.writeInferred renderMember inferredR valueText
  by_cases hn : isNumeric v = true
  · by_cases hk : 0 < j.keyCount <;> simp [hn, hk, JB.writeLiteral, JB.writeKey]
  · by_cases ht : equalFoldLen v litTrue = true
    · by_cases hk : 0 < j.keyCount <;> simp [hn, ht, hk, JB.writeLiteral, JB.writeKey]
    · by_cases hf : equalFoldLen v litFalse = true
      · by_cases hk : 0 < j.keyCount <;> simp [hn, ht, hf, hk, JB.writeLiteral, JB.writeKey]
      · by_cases hk : 0 < j.keyCount <;> simp [hn, ht, hf, hk, JB.writeString, JB.writeKey]

theorem writeString_eq : Writes stringR JB.writeString := by
  intro j k v
  by_cases hk : 0 < j.keyCount <;> simp [hk, JB.writeString, JB.writeKey, renderMember, stringR]

def writeAllW (w : JB → Bytes → Bytes → JB) (j : JB) (ms : List (Bytes × Bytes)) : JB :=
  ms.foldl (fun j m => w j m.1 m.2) j

abbrev writeAll := writeAllW JB.writeInferred

theorem writeAllW_pos {R : ValR} {w : JB → Bytes → Bytes → JB} (hw : Writes R w) :
    ∀ (ms : List (Bytes × Bytes)) (j : JB), 0 < j.keyCount →
    writeAllW w j ms = ⟨j.sb ++ renderTail R ms, j.keyCount + ms.length⟩ := by
  intro ms
  induction ms with
  | nil => intro j _; simp [writeAllW, renderTail]
  | cons m ms ih =>
    intro j hk
    have := ih (w j m.1 m.2) (by rw [hw]; simp)
    simp only [writeAllW, List.foldl_cons] at this ⊢
    rw [this, hw, renderTail_cons]
    simp [hk]; omega

theorem writeAllW_opened {R : ValR} {w : JB → Bytes → Bytes → JB} (hw : Writes R w)
    (ms : List (Bytes × Bytes)) : (writeAllW w JB.opened ms).close.sb = objText R ms := by
  cases ms with
  | nil => simp [writeAllW, JB.opened, JB.close, objText, renderList]
  | cons m ms =>
    have := writeAllW_pos hw ms (w JB.opened m.1 m.2) (by rw [hw]; simp)
    simp only [writeAllW, List.foldl_cons] at this ⊢
    rw [this, hw]
    simp [JB.opened, JB.close, objText, renderList]

theorem writeAll_opened (ms : List (Bytes × Bytes)) :
    (writeAll JB.opened ms).close.sb = objText inferredR ms := writeAllW_opened writeInferred_eq ms

theorem writeAllW_append (w : JB → Bytes → Bytes → JB) (j : JB) (a b : List (Bytes × Bytes)) :
    writeAllW w (writeAllW w j a) b = writeAllW w j (a ++ b) := by
  simp [writeAllW, List.foldl_append]

theorem writeAll_append (j : JB) (a b : List (Bytes × Bytes)) :
    writeAll (writeAll j a) b = writeAll j (a ++ b) := writeAllW_append _ j a b

/-! ### buildSpecialKeyJson -/

def indexedMembers : Nat → List Bytes → List (Bytes × Bytes)
  | _, [] => []
  | i, v :: r => (natAscii i, v) :: indexedMembers (i + 1) r

theorem writeIndexed_eq : ∀ (texts : List Bytes) (i : Nat) (j : JB),
    writeIndexed j i texts = writeAllW JB.writeString j (indexedMembers i texts) := by
  intro texts
  induction texts with
  | nil => intro i j; simp [writeIndexed, indexedMembers, writeAllW]
  | cons v r ih => intro i j; simp [writeIndexed, indexedMembers, writeAllW, ih]

def specialMembers (texts : List Bytes) (order : List (Bytes × Bytes)) : List (Bytes × Bytes) :=
  indexedMembers 0 texts ++ (sortNames (order.map (·.1))).map fun k => (k, mapGet [] order k)

theorem special_text (texts : List Bytes) (order : List (Bytes × Bytes)) :
    buildSpecialKeyJson texts order = objText stringR (specialMembers texts order) := by
  have h : ∀ (ks : List Bytes) (j : JB),
      ks.foldl (fun (jb : JB) k => jb.writeString k (mapGet [] order k)) j
        = writeAllW JB.writeString j (ks.map fun k => (k, mapGet [] order k)) := by
    intro ks
    induction ks with
    | nil => intro j; simp [writeAllW]
    | cons k ks ih => intro j; simp [writeAllW, ih]
  unfold buildSpecialKeyJson specialMembers
  simp only [writeIndexed_eq, h, writeAllW_append]
  exact writeAllW_opened writeString_eq _

/-! ### GetMatch and the loops -/

theorem wrap64_small (i : Int) (h0 : 0 ≤ i) (h1 : i < 4611686018427387904) : wrap64 (i * 2) = 2 * i := by
  unfold wrap64; omega

theorem wrap64_big (i : Int) (h0 : 4611686018427387904 ≤ i) (h1 : i ≤ maxInt64) : wrap64 (i * 2) < 0 := by
  unfold wrap64 maxInt64 at *; omega

/-- The three guards of `GetMatch` (with Go's wrap-around `idx * 2`) are the spec's guard, for every
Go `int` index – huge indices included: from 2^62 on the doubled index wraps to a negative number. -/
theorem getMatch_guard (indices : List Int) (i : Int) (hi : minInt64 ≤ i ∧ i ≤ maxInt64)
    (hl : (indices.length : Int) ≤ maxInt64) :
    (i < 0 ∨ wrap64 (i * 2) < 0 ∨ wrap64 (i * 2) + 1 ≥ (indices.length : Int)) ↔
      (i < 0 ∨ (2 * i + 1).toNat ≥ indices.length) := by
  by_cases hn : i < 0
  · simp [hn]
  · by_cases hb : i < 4611686018427387904
    · rw [wrap64_small i (by omega) hb]; omega
    · have := wrap64_big i (by omega) hi.2
      unfold maxInt64 at *
      constructor
      · intro _; right; omega
      · intro _; right; left; exact this

theorem getMatch_ok (indices : List Int) (line : Bytes) (i : Int) (v : Bytes)
    (hi : minInt64 ≤ i ∧ i ≤ maxInt64) (hl : (indices.length : Int) ≤ maxInt64)
    (h : getMatch indices line i = .ok v) : v = capture indices line i := by
  unfold getMatch at h
  unfold capture
  simp only [] at h
  by_cases h1 : i < 0 ∨ (2 * i + 1).toNat ≥ indices.length
  · rw [if_pos ((getMatch_guard indices i hi hl).mpr h1)] at h
    rw [if_pos h1]
    cases h; rfl
  · rw [if_neg (fun hh => h1 ((getMatch_guard indices i hi hl).mp hh))] at h
    rw [if_neg h1]
    have hw : wrap64 (i * 2) = 2 * i := by
      apply wrap64_small <;> (unfold maxInt64 at *; omega)
    rw [hw] at h
    by_cases h2 : indices.getD (2 * i).toNat 0 < 0 ∨ indices.getD (2 * i + 1).toNat 0 < 0
    · simp only [if_pos h2] at h ⊢
      cases h; rfl
    · simp only [if_neg h2] at h ⊢
      split at h
      · cases h
      · cases h; rfl

theorem mapGet_range (order : List (Bytes × Int)) (hr : ∀ p ∈ order, minInt64 ≤ p.2 ∧ p.2 ≤ maxInt64)
    (n : Bytes) : minInt64 ≤ mapGet 0 order n ∧ mapGet 0 order n ≤ maxInt64 := by
  unfold mapGet
  cases hf : order.find? (fun p => p.1 == n) with
  | none => simp [minInt64, maxInt64]
  | some p => exact hr p (List.mem_of_find?_eq_some hf)

def namedMembers (order : List (Bytes × Int)) (indices : List Int) (line : Bytes) : List (Bytes × Bytes) :=
  (sortNames (order.map (·.1))).map fun n => (n, capture indices line (mapGet 0 order n))

theorem named_loop (order : List (Bytes × Int)) (indices : List Int) (line : Bytes)
    (ht : GoTyped order indices) :
    ∀ (names : List Bytes) (j j' : JB),
      names.foldlM (namedStep order indices line) j = .ok j' →
      j' = writeAll j (names.map fun n => (n, capture indices line (mapGet 0 order n))) := by
  intro names
  induction names with
  | nil => intro j j' h; simp [pure, Except.pure] at h; simp [writeAllW, h]
  | cons n names ih =>
    intro j j' h
    rw [List.foldlM_cons] at h
    cases hg : getMatch indices line (mapGet 0 order n) with
    | error e => simp [namedStep, hg, bind, Except.bind] at h
    | ok v =>
      have hv := getMatch_ok _ _ _ _ (mapGet_range order ht.idx n) ht.len hg
      simp only [namedStep, hg, bind, Except.bind, pure, Except.pure] at h
      have := ih _ _ h
      rw [this, hv]
      simp [writeAllW]

def numberedOf (indices : List Int) (line : Bytes) (is : List Nat) : List (Bytes × Bytes) :=
  is.filterMap fun i =>
    let v := capture indices line (i : Nat)
    if v = [] then none else some (natAscii i, v)

theorem numbered_loop (indices : List Int) (line : Bytes) (hl : (indices.length : Int) ≤ maxInt64) :
    ∀ (is : List Nat) (j j' : JB), (∀ i ∈ is, i < indices.length) →
      is.foldlM (numberedStep indices line) j = .ok j' →
      j' = writeAll j (numberedOf indices line is) := by
  intro is
  induction is with
  | nil => intro j j' _ h; simp [pure, Except.pure] at h; simp [writeAllW, numberedOf, h]
  | cons i is ih =>
    intro j j' hr h
    rw [List.foldlM_cons] at h
    have hi : i < indices.length := hr i (by simp)
    have ih := fun a b => ih a b (fun x hx => hr x (by simp [hx]))
    cases hg : getMatch indices line (i : Nat) with
    | error e =>
      have e1 : numberedStep indices line j i = .error e := by unfold numberedStep; rw [hg]; rfl
      rw [e1] at h; simp [bind, Except.bind] at h
    | ok v =>
      have hv := getMatch_ok _ _ _ _ (by unfold minInt64; omega) hl hg
      have e1 : numberedStep indices line j i = .ok (if v ≠ [] then j.writeInferred (natAscii i) v else j) := by
        unfold numberedStep; rw [hg]; rfl
      rw [e1] at h
      simp only [bind, Except.bind] at h
      have := ih _ _ h
      rw [this]
      by_cases he : v = []
      · have : capture indices line (i : Nat) = [] := by rw [← hv]; exact he
        simp [he, numberedOf, this]
      · have hc : capture indices line (i : Nat) ≠ [] := by rw [← hv]; exact he
        simp only [ne_eq, he, not_false_eq_true, if_true]
        simp [numberedOf, hc, writeAllW, hv]

/-- The text `json` returns, when it returns, is the object text of the sorted named captures
followed by the non-empty numbered captures. -/
theorem json_ok_text (named numbered : Bool) (order : List (Bytes × Int)) (indices : List Int)
    (line out : Bytes) (ht : GoTyped order indices) (h : json named numbered order indices line = .ok out) :
    out = objText inferredR ((if named then namedMembers order indices line else []) ++
                   (if numbered then expectedNumbered indices line else [])) := by
  have hrange : ∀ i ∈ List.range (indices.length / 2), i < indices.length := by
    intro i hi; have := List.mem_range.mp hi; omega
  unfold json at h
  simp only [bind, Except.bind, pure, Except.pure] at h
  cases named with
  | true =>
    simp only [if_true] at h ⊢
    cases h1 : (sortNames (order.map (·.1))).foldlM (namedStep order indices line) JB.opened with
    | error e => simp [h1] at h
    | ok j1 =>
      have e1 := named_loop order indices line ht _ _ _ h1
      simp only [h1] at h
      cases numbered with
      | true =>
        simp only [if_true] at h ⊢
        cases h2 : (List.range (indices.length / 2)).foldlM (numberedStep indices line) j1 with
        | error e => simp [h2] at h
        | ok j2 =>
          have e2 := numbered_loop indices line ht.len _ _ _ hrange h2
          simp only [h2] at h
          cases h
          rw [e2, e1, writeAll_append, writeAll_opened]
          rfl
      | false =>
        simp only [Bool.false_eq_true, if_false] at h ⊢
        cases h
        rw [e1, writeAll_opened]
        simp [namedMembers]
  | false =>
    simp only [Bool.false_eq_true, if_false] at h ⊢
    cases numbered with
    | true =>
      simp only [if_true] at h ⊢
      cases h2 : (List.range (indices.length / 2)).foldlM (numberedStep indices line) JB.opened with
      | error e => simp [h2] at h
      | ok j2 =>
        have e2 := numbered_loop indices line ht.len _ _ _ hrange h2
        simp only [h2] at h
        cases h
        rw [e2, writeAll_opened]
        rfl
    | false =>
      simp only [Bool.false_eq_true, if_false] at h ⊢
      cases h
      exact writeAll_opened []

/-! ### no panic on index slices that fit the line -/

theorem getMatch_total (indices : List Int) (line : Bytes) (hf : FitsLine indices line) (i : Int) :
    ∃ v, getMatch indices line i = .ok v := by
  unfold getMatch
  simp only []
  generalize hs : wrap64 (i * 2) = si
  have hev : si % 2 = 0 := by rw [← hs]; unfold wrap64; omega
  by_cases h1 : i < 0 ∨ si < 0 ∨ si + 1 ≥ (indices.length : Int)
  · rw [if_pos h1]; exact ⟨_, rfl⟩
  · rw [if_neg h1]
    have hk := hf (si.toNat / 2) (by omega)
    have ea : si.toNat = 2 * (si.toNat / 2) := by omega
    have eb : (si + 1).toNat = 2 * (si.toNat / 2) + 1 := by omega
    rw [eb]
    generalize si.toNat / 2 = k at hk ea
    rw [ea]
    by_cases h2 : indices.getD (2 * k) 0 < 0 ∨ indices.getD (2 * k + 1) 0 < 0
    · simp only [if_pos h2]; exact ⟨_, rfl⟩
    · simp only [if_neg h2]
      rcases hk with hk | hk
      · exact absurd hk h2
      · have : ¬ (indices.getD (2 * k + 1) 0 > (line.length : Int) ∨
            indices.getD (2 * k) 0 > indices.getD (2 * k + 1) 0) := by omega
        rw [if_neg this]; exact ⟨_, rfl⟩

theorem foldlM_total {α : Type} (f : JB → α → Except String JB) (hf : ∀ j a, ∃ j', f j a = .ok j') :
    ∀ (l : List α) (j : JB), ∃ j', l.foldlM f j = .ok j' := by
  intro l
  induction l with
  | nil => intro j; exact ⟨j, rfl⟩
  | cons a l ih =>
    intro j
    obtain ⟨j1, h1⟩ := hf j a
    obtain ⟨j2, h2⟩ := ih j1
    exact ⟨j2, by rw [List.foldlM_cons, h1]; exact h2⟩

theorem json_total (named numbered : Bool) (order : List (Bytes × Int)) (indices : List Int) (line : Bytes)
    (hf : FitsLine indices line) : ∃ out, json named numbered order indices line = .ok out := by
  have hn : ∀ j a, ∃ j', namedStep order indices line j a = .ok j' := by
    intro j a
    obtain ⟨v, hv⟩ := getMatch_total indices line hf (mapGet 0 order a)
    exact ⟨j.writeInferred a v, by simp [namedStep, hv, bind, Except.bind, pure, Except.pure]⟩
  have hu : ∀ j a, ∃ j', numberedStep indices line j a = .ok j' := by
    intro j a
    obtain ⟨v, hv⟩ := getMatch_total indices line hf (a : Nat)
    exact ⟨if v ≠ [] then j.writeInferred (natAscii a) v else j,
      by unfold numberedStep; rw [hv]; rfl⟩
  unfold json
  simp only [bind, Except.bind, pure, Except.pure]
  cases named with
  | true =>
    obtain ⟨j1, h1⟩ := foldlM_total _ hn (sortNames (order.map (·.1))) JB.opened
    simp only [if_true, h1]
    cases numbered with
    | true =>
      obtain ⟨j2, h2⟩ := foldlM_total _ hu (List.range (indices.length / 2)) j1
      simp only [if_true, h2]; exact ⟨_, rfl⟩
    | false => simp only [Bool.false_eq_true, if_false]; exact ⟨_, rfl⟩
  | false =>
    simp only [Bool.false_eq_true, if_false]
    cases numbered with
    | true =>
      obtain ⟨j2, h2⟩ := foldlM_total _ hu (List.range (indices.length / 2)) JB.opened
      simp only [if_true, h2]; exact ⟨_, rfl⟩
    | false => simp only [Bool.false_eq_true, if_false]; exact ⟨_, rfl⟩

end Rare.C16
