import Rare.Proofs.C16Obj
/-! C16: the object builder, the two loops of `json`, sorted iteration and map-order independence. -/
namespace Rare.C16

/-! ### the builder appends rendered members -/

/-- `w` writes one member whose value is rendered by `R` -/
def Writes (R : ValR) (w : JB → Bytes → Bytes → JB) : Prop :=
  ∀ (j : JB) (k v : Bytes), w j k v =
    ⟨j.sb ++ (if 0 < j.keyCount then [0x2c, 0x20] else []) ++ renderMember R (k, v), j.keyCount + 1⟩

theorem writeInferred_eq : Writes inferredR JB.writeInferred := by
  intro j k v
  unfold JB.writeInferred renderMember inferredR valueText
  by_cases hn : isNumeric v = true
  · by_cases hk : 0 < j.keyCount <;> simp [hn, hk, JB.writeLiteral, JB.writeKey]
  · by_cases ht : equalFoldLen v litTrue = true
    · by_cases hk : 0 < j.keyCount <;> simp [hn, ht, hk, JB.writeLiteral, JB.writeKey]
    · by_cases hf : equalFoldLen v litFalse = true
      · by_cases hk : 0 < j.keyCount <;> simp [hn, ht, hf, hk, JB.writeLiteral, JB.writeKey]
      · by_cases hk : 0 < j.keyCount <;> simp [hn, ht, hf, hk, JB.writeString, JB.writeKey]

theorem writeString_eq : Writes stringR JB.writeString := by
  intro j k v
  by_cases hk : 0 < j.keyCount <;> simp [hk, JB.writeString, JB.writeKey, renderMember, stringR]

def writeAllW (w : JB → Bytes → Bytes → JB) (j : JB) (ms : List (Bytes × Bytes)) : JB :=
  ms.foldl (fun j m => w j m.1 m.2) j

abbrev writeAll := writeAllW JB.writeInferred

theorem writeAllW_pos {R : ValR} {w : JB → Bytes → Bytes → JB} (hw : Writes R w) :
    ∀ (ms : List (Bytes × Bytes)) (j : JB), 0 < j.keyCount →
    writeAllW w j ms = ⟨j.sb ++ renderTail R ms, j.keyCount + ms.length⟩ := by
  intro ms
  induction ms with
  | nil => intro j _; simp [writeAllW, renderTail]
  | cons m ms ih =>
    intro j hk
    have := ih (w j m.1 m.2) (by rw [hw]; simp)
    simp only [writeAllW, List.foldl_cons] at this ⊢
    rw [this, hw, renderTail_cons]
    simp [hk]; omega

theorem writeAllW_opened {R : ValR} {w : JB → Bytes → Bytes → JB} (hw : Writes R w)
    (ms : List (Bytes × Bytes)) : (writeAllW w JB.opened ms).close.sb = objText R ms := by
  cases ms with
  | nil => simp [writeAllW, JB.opened, JB.close, objText, renderList]
  | cons m ms =>
    have := writeAllW_pos hw ms (w JB.opened m.1 m.2) (by rw [hw]; simp)
    simp only [writeAllW, List.foldl_cons] at this ⊢
    rw [this, hw]
    simp [JB.opened, JB.close, objText, renderList]

theorem writeAll_opened (ms : List (Bytes × Bytes)) :
    (writeAll JB.opened ms).close.sb = objText inferredR ms := writeAllW_opened writeInferred_eq ms

theorem writeAllW_append (w : JB → Bytes → Bytes → JB) (j : JB) (a b : List (Bytes × Bytes)) :
    writeAllW w (writeAllW w j a) b = writeAllW w j (a ++ b) := by
  simp [writeAllW, List.foldl_append]

theorem writeAll_append (j : JB) (a b : List (Bytes × Bytes)) :
    writeAll (writeAll j a) b = writeAll j (a ++ b) := writeAllW_append _ j a b

/-! ### buildSpecialKeyJson -/

def indexedMembers : Nat → List Bytes → List (Bytes × Bytes)
  | _, [] => []
  | i, v :: r => (natAscii i, v) :: indexedMembers (i + 1) r

theorem writeIndexed_eq : ∀ (texts : List Bytes) (i : Nat) (j : JB),
    writeIndexed j i texts = writeAllW JB.writeString j (indexedMembers i texts) := by
  intro texts
  induction texts with
  | nil => intro i j; simp [writeIndexed, indexedMembers, writeAllW]
  | cons v r ih => intro i j; simp [writeIndexed, indexedMembers, writeAllW, ih]

def specialMembers (texts : List Bytes) (order : List (Bytes × Bytes)) : List (Bytes × Bytes) :=
  indexedMembers 0 texts ++ (sortNames (order.map (·.1))).map fun k => (k, mapGet [] order k)

theorem special_text (texts : List Bytes) (order : List (Bytes × Bytes)) :
    buildSpecialKeyJson texts order = objText stringR (specialMembers texts order) := by
  have h : ∀ (ks : List Bytes) (j : JB),
      ks.foldl (fun (jb : JB) k => jb.writeString k (mapGet [] order k)) j
        = writeAllW JB.writeString j (ks.map fun k => (k, mapGet [] order k)) := by
    intro ks
    induction ks with
    | nil => intro j; simp [writeAllW]
    | cons k ks ih => intro j; simp [writeAllW, ih]
  unfold buildSpecialKeyJson specialMembers
  simp only [writeIndexed_eq, h, writeAllW_append]
  exact writeAllW_opened writeString_eq _

/-! ### GetMatch and the loops -/

theorem getMatch_ok (indices : List Int) (line : Bytes) (i : Int) (v : Bytes)
    (h : getMatch indices line i = .ok v) : v = capture indices line i := by
  unfold getMatch at h
  unfold capture
  have e2 : i * 2 = 2 * i := by omega
  simp only [e2] at h
  by_cases h1 : 2 * i < 0 ∨ 2 * i + 1 ≥ (indices.length : Int)
  · rw [if_pos h1] at h
    have : i < 0 ∨ (2 * i + 1).toNat ≥ indices.length := by omega
    rw [if_pos this]
    cases h; rfl
  · rw [if_neg h1] at h
    have : ¬ (i < 0 ∨ (2 * i + 1).toNat ≥ indices.length) := by omega
    rw [if_neg this]
    by_cases h2 : indices.getD (2 * i).toNat 0 < 0 ∨ indices.getD (2 * i + 1).toNat 0 < 0
    · simp only [if_pos h2] at h ⊢
      cases h; rfl
    · simp only [if_neg h2] at h ⊢
      split at h
      · cases h
      · cases h; rfl

def namedMembers (order : List (Bytes × Int)) (indices : List Int) (line : Bytes) : List (Bytes × Bytes) :=
  (sortNames (order.map (·.1))).map fun n => (n, capture indices line (mapGet 0 order n))

theorem named_loop (order : List (Bytes × Int)) (indices : List Int) (line : Bytes) :
    ∀ (names : List Bytes) (j j' : JB),
      names.foldlM (namedStep order indices line) j = .ok j' →
      j' = writeAll j (names.map fun n => (n, capture indices line (mapGet 0 order n))) := by
  intro names
  induction names with
  | nil => intro j j' h; simp [pure, Except.pure] at h; simp [writeAllW, h]
  | cons n names ih =>
    intro j j' h
    rw [List.foldlM_cons] at h
    cases hg : getMatch indices line (mapGet 0 order n) with
    | error e => simp [namedStep, hg, bind, Except.bind] at h
    | ok v =>
      have hv := getMatch_ok _ _ _ _ hg
      simp only [namedStep, hg, bind, Except.bind, pure, Except.pure] at h
      have := ih _ _ h
      rw [this, hv]
      simp [writeAllW]

def numberedOf (indices : List Int) (line : Bytes) (is : List Nat) : List (Bytes × Bytes) :=
  is.filterMap fun i =>
    let v := capture indices line (i : Nat)
    if v = [] then none else some (natAscii i, v)

theorem numbered_loop (indices : List Int) (line : Bytes) :
    ∀ (is : List Nat) (j j' : JB),
      is.foldlM (numberedStep indices line) j = .ok j' →
      j' = writeAll j (numberedOf indices line is) := by
  intro is
  induction is with
  | nil => intro j j' h; simp [pure, Except.pure] at h; simp [writeAllW, numberedOf, h]
  | cons i is ih =>
    intro j j' h
    rw [List.foldlM_cons] at h
    cases hg : getMatch indices line (i : Nat) with
    | error e => simp [numberedStep, hg, bind, Except.bind] at h
    | ok v =>
      have hv := getMatch_ok _ _ _ _ hg
      simp only [numberedStep, hg, bind, Except.bind, pure, Except.pure] at h
      have := ih _ _ h
      rw [this]
      by_cases he : v = []
      · have : capture indices line (i : Nat) = [] := by rw [← hv]; exact he
        simp [he, numberedOf, this]
      · have hc : capture indices line (i : Nat) ≠ [] := by rw [← hv]; exact he
        simp only [ne_eq, he, not_false_eq_true, if_true]
        simp [numberedOf, hc, writeAllW, hv]

/-- The text `json` returns, when it returns, is the object text of the sorted named captures
followed by the non-empty numbered captures. -/
theorem json_ok_text (named numbered : Bool) (order : List (Bytes × Int)) (indices : List Int)
    (line out : Bytes) (h : json named numbered order indices line = .ok out) :
    out = objText inferredR ((if named then namedMembers order indices line else []) ++
                   (if numbered then expectedNumbered indices line else [])) := by
  unfold json at h
  simp only [bind, Except.bind, pure, Except.pure] at h
  cases named with
  | true =>
    simp only [if_true] at h ⊢
    cases h1 : (sortNames (order.map (·.1))).foldlM (namedStep order indices line) JB.opened with
    | error e => simp [h1] at h
    | ok j1 =>
      have e1 := named_loop order indices line _ _ _ h1
      simp only [h1] at h
      cases numbered with
      | true =>
        simp only [if_true] at h ⊢
        cases h2 : (List.range (indices.length / 2)).foldlM (numberedStep indices line) j1 with
        | error e => simp [h2] at h
        | ok j2 =>
          have e2 := numbered_loop indices line _ _ _ h2
          simp only [h2] at h
          cases h
          rw [e2, e1, writeAll_append, writeAll_opened]
          rfl
      | false =>
        simp only [Bool.false_eq_true, if_false] at h ⊢
        cases h
        rw [e1, writeAll_opened]
        simp [namedMembers]
  | false =>
    simp only [Bool.false_eq_true, if_false] at h ⊢
    cases numbered with
    | true =>
      simp only [if_true] at h ⊢
      cases h2 : (List.range (indices.length / 2)).foldlM (numberedStep indices line) JB.opened with
      | error e => simp [h2] at h
      | ok j2 =>
        have e2 := numbered_loop indices line _ _ _ h2
        simp only [h2] at h
        cases h
        rw [e2, writeAll_opened]
        rfl
    | false =>
      simp only [Bool.false_eq_true, if_false] at h ⊢
      cases h
      exact writeAll_opened []

/-! ### no panic on index slices that fit the line -/

theorem getMatch_total (indices : List Int) (line : Bytes) (hf : FitsLine indices line) (i : Int) :
    ∃ v, getMatch indices line i = .ok v := by
  unfold getMatch
  have e2 : i * 2 = 2 * i := by omega
  simp only [e2]
  by_cases h1 : 2 * i < 0 ∨ 2 * i + 1 ≥ (indices.length : Int)
  · rw [if_pos h1]; exact ⟨_, rfl⟩
  · rw [if_neg h1]
    have hk := hf i.toNat (by omega)
    have ea : (2 * i).toNat = 2 * i.toNat := by omega
    have eb : (2 * i + 1).toNat = 2 * i.toNat + 1 := by omega
    rw [ea, eb]
    by_cases h2 : indices.getD (2 * i.toNat) 0 < 0 ∨ indices.getD (2 * i.toNat + 1) 0 < 0
    · simp only [if_pos h2]; exact ⟨_, rfl⟩
    · simp only [if_neg h2]
      rcases hk with hk | hk
      · exact absurd hk h2
      · have : ¬ (indices.getD (2 * i.toNat + 1) 0 > (line.length : Int) ∨
            indices.getD (2 * i.toNat) 0 > indices.getD (2 * i.toNat + 1) 0) := by omega
        rw [if_neg this]; exact ⟨_, rfl⟩

theorem foldlM_total {α : Type} (f : JB → α → Except String JB) (hf : ∀ j a, ∃ j', f j a = .ok j') :
    ∀ (l : List α) (j : JB), ∃ j', l.foldlM f j = .ok j' := by
  intro l
  induction l with
  | nil => intro j; exact ⟨j, rfl⟩
  | cons a l ih =>
    intro j
    obtain ⟨j1, h1⟩ := hf j a
    obtain ⟨j2, h2⟩ := ih j1
    exact ⟨j2, by rw [List.foldlM_cons, h1]; exact h2⟩

theorem json_total (named numbered : Bool) (order : List (Bytes × Int)) (indices : List Int) (line : Bytes)
    (hf : FitsLine indices line) : ∃ out, json named numbered order indices line = .ok out := by
  have hn : ∀ j a, ∃ j', namedStep order indices line j a = .ok j' := by
    intro j a
    obtain ⟨v, hv⟩ := getMatch_total indices line hf (mapGet 0 order a)
    exact ⟨j.writeInferred a v, by simp [namedStep, hv, bind, Except.bind, pure, Except.pure]⟩
  have hu : ∀ j a, ∃ j', numberedStep indices line j a = .ok j' := by
    intro j a
    obtain ⟨v, hv⟩ := getMatch_total indices line hf (a : Nat)
    exact ⟨if v ≠ [] then j.writeInferred (natAscii a) v else j,
      by simp only [numberedStep, hv, bind, Except.bind, pure, Except.pure]⟩
  unfold json
  simp only [bind, Except.bind, pure, Except.pure]
  cases named with
  | true =>
    obtain ⟨j1, h1⟩ := foldlM_total _ hn (sortNames (order.map (·.1))) JB.opened
    simp only [if_true, h1]
    cases numbered with
    | true =>
      obtain ⟨j2, h2⟩ := foldlM_total _ hu (List.range (indices.length / 2)) j1
      simp only [if_true, h2]; exact ⟨_, rfl⟩
    | false => simp only [Bool.false_eq_true, if_false]; exact ⟨_, rfl⟩
  | false =>
    simp only [Bool.false_eq_true, if_false]
    cases numbered with
    | true =>
      obtain ⟨j2, h2⟩ := foldlM_total _ hu (List.range (indices.length / 2)) JB.opened
      simp only [if_true, h2]; exact ⟨_, rfl⟩
    | false => simp only [Bool.false_eq_true, if_false]; exact ⟨_, rfl⟩

end Rare.C16
