import Rare.Proofs.C16Obj
/-! C16: the object builder, the two loops of `json`, sorted iteration and map-order independence. -/
namespace Rare.C16

/-! ### the builder appends rendered members -/

theorem writeInferred_eq (j : JB) (k v : Bytes) :
    j.writeInferred k v =
      ⟨j.sb ++ (if 0 < j.keyCount then [0x2c, 0x20] else []) ++ renderMember (k, v), j.keyCount + 1⟩ := by
  unfold JB.writeInferred renderMember valueText
  by_cases hn : isNumeric v = true
  · by_cases hk : 0 < j.keyCount <;> simp [hn, hk, JB.writeLiteral, JB.writeKey]
  · by_cases ht : equalFoldLen v litTrue = true
    · by_cases hk : 0 < j.keyCount <;> simp [hn, ht, hk, JB.writeLiteral, JB.writeKey]
    · by_cases hf : equalFoldLen v litFalse = true
      · by_cases hk : 0 < j.keyCount <;> simp [hn, ht, hf, hk, JB.writeLiteral, JB.writeKey]
      · by_cases hk : 0 < j.keyCount <;> simp [hn, ht, hf, hk, JB.writeString, JB.writeKey]

def writeAll (j : JB) (ms : List (Bytes × Bytes)) : JB :=
  ms.foldl (fun j m => j.writeInferred m.1 m.2) j

theorem writeAll_pos : ∀ (ms : List (Bytes × Bytes)) (j : JB), 0 < j.keyCount →
    writeAll j ms = ⟨j.sb ++ renderTail ms, j.keyCount + ms.length⟩ := by
  intro ms
  induction ms with
  | nil => intro j _; simp [writeAll, renderTail]
  | cons m ms ih =>
    intro j hk
    have := ih (j.writeInferred m.1 m.2) (by rw [writeInferred_eq]; simp)
    simp only [writeAll, List.foldl_cons] at this ⊢
    rw [this, writeInferred_eq, renderTail_cons]
    simp [hk]; omega

theorem writeAll_opened (ms : List (Bytes × Bytes)) :
    (writeAll JB.opened ms).close.sb = objText ms := by
  cases ms with
  | nil => simp [writeAll, JB.opened, JB.close, objText, renderList]
  | cons m ms =>
    have := writeAll_pos ms (JB.opened.writeInferred m.1 m.2) (by rw [writeInferred_eq]; simp)
    simp only [writeAll, List.foldl_cons] at this ⊢
    rw [this, writeInferred_eq]
    simp [JB.opened, JB.close, objText, renderList]

theorem writeAll_append (j : JB) (a b : List (Bytes × Bytes)) :
    writeAll (writeAll j a) b = writeAll j (a ++ b) := by
  simp [writeAll, List.foldl_append]

/-! ### GetMatch and the loops -/

theorem getMatch_ok (indices : List Int) (line : Bytes) (i : Int) (v : Bytes)
    (h : getMatch indices line i = .ok v) : v = capture indices line i := by
  unfold getMatch at h
  unfold capture
  have e2 : i * 2 = 2 * i := by omega
  simp only [e2] at h
  by_cases h1 : 2 * i < 0 ∨ 2 * i + 1 ≥ (indices.length : Int)
  · rw [if_pos h1] at h
    have : i < 0 ∨ (2 * i + 1).toNat ≥ indices.length := by omega
    rw [if_pos this]
    cases h; rfl
  · rw [if_neg h1] at h
    have : ¬ (i < 0 ∨ (2 * i + 1).toNat ≥ indices.length) := by omega
    rw [if_neg this]
    by_cases h2 : indices.getD (2 * i).toNat 0 < 0 ∨ indices.getD (2 * i + 1).toNat 0 < 0
    · simp only [if_pos h2] at h ⊢
      cases h; rfl
    · simp only [if_neg h2] at h ⊢
      split at h
      · cases h
      · cases h; rfl

def namedMembers (order : List (Bytes × Int)) (indices : List Int) (line : Bytes) : List (Bytes × Bytes) :=
  (sortNames (order.map (·.1))).map fun n => (n, capture indices line (mapGet 0 order n))

theorem named_loop (order : List (Bytes × Int)) (indices : List Int) (line : Bytes) :
    ∀ (names : List Bytes) (j j' : JB),
      names.foldlM (namedStep order indices line) j = .ok j' →
      j' = writeAll j (names.map fun n => (n, capture indices line (mapGet 0 order n))) := by
  intro names
  induction names with
  | nil => intro j j' h; simp [pure, Except.pure] at h; simp [writeAll, h]
  | cons n names ih =>
    intro j j' h
    rw [List.foldlM_cons] at h
    cases hg : getMatch indices line (mapGet 0 order n) with
    | error e => simp [namedStep, hg, bind, Except.bind] at h
    | ok v =>
      have hv := getMatch_ok _ _ _ _ hg
      simp only [namedStep, hg, bind, Except.bind, pure, Except.pure] at h
      have := ih _ _ h
      rw [this, hv]
      simp [writeAll]

def numberedOf (indices : List Int) (line : Bytes) (is : List Nat) : List (Bytes × Bytes) :=
  is.filterMap fun i =>
    let v := capture indices line (i : Nat)
    if v = [] then none else some (natAscii i, v)

theorem numbered_loop (indices : List Int) (line : Bytes) :
    ∀ (is : List Nat) (j j' : JB),
      is.foldlM (numberedStep indices line) j = .ok j' →
      j' = writeAll j (numberedOf indices line is) := by
  intro is
  induction is with
  | nil => intro j j' h; simp [pure, Except.pure] at h; simp [writeAll, numberedOf, h]
  | cons i is ih =>
    intro j j' h
    rw [List.foldlM_cons] at h
    cases hg : getMatch indices line (i : Nat) with
    | error e => simp [numberedStep, hg, bind, Except.bind] at h
    | ok v =>
      have hv := getMatch_ok _ _ _ _ hg
      simp only [numberedStep, hg, bind, Except.bind, pure, Except.pure] at h
      have := ih _ _ h
      rw [this]
      by_cases he : v = []
      · have : capture indices line (i : Nat) = [] := by rw [← hv]; exact he
        simp [he, numberedOf, this]
      · have hc : capture indices line (i : Nat) ≠ [] := by rw [← hv]; exact he
        simp only [ne_eq, he, not_false_eq_true, if_true]
        simp [numberedOf, hc, writeAll, hv]

/-- The text `json` returns, when it returns, is the object text of the sorted named captures
followed by the non-empty numbered captures. -/
theorem json_ok_text (named numbered : Bool) (order : List (Bytes × Int)) (indices : List Int)
    (line out : Bytes) (h : json named numbered order indices line = .ok out) :
    out = objText ((if named then namedMembers order indices line else []) ++
                   (if numbered then expectedNumbered indices line else [])) := by
  unfold json at h
  simp only [bind, Except.bind, pure, Except.pure] at h
  cases named with
  | true =>
    simp only [if_true] at h ⊢
    cases h1 : (sortNames (order.map (·.1))).foldlM (namedStep order indices line) JB.opened with
    | error e => simp [h1] at h
    | ok j1 =>
      have e1 := named_loop order indices line _ _ _ h1
      simp only [h1] at h
      cases numbered with
      | true =>
        simp only [if_true] at h ⊢
        cases h2 : (List.range (indices.length / 2)).foldlM (numberedStep indices line) j1 with
        | error e => simp [h2] at h
        | ok j2 =>
          have e2 := numbered_loop indices line _ _ _ h2
          simp only [h2] at h
          cases h
          rw [e2, e1, writeAll_append, writeAll_opened]
          rfl
      | false =>
        simp only [Bool.false_eq_true, if_false] at h ⊢
        cases h
        rw [e1, writeAll_opened]
        simp [namedMembers]
  | false =>
    simp only [Bool.false_eq_true, if_false] at h ⊢
    cases numbered with
    | true =>
      simp only [if_true] at h ⊢
      cases h2 : (List.range (indices.length / 2)).foldlM (numberedStep indices line) JB.opened with
      | error e => simp [h2] at h
      | ok j2 =>
        have e2 := numbered_loop indices line _ _ _ h2
        simp only [h2] at h
        cases h
        rw [e2, writeAll_opened]
        rfl
    | false =>
      simp only [Bool.false_eq_true, if_false] at h ⊢
      cases h
      exact writeAll_opened []

end Rare.C16
