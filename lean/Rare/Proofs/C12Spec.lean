import Rare.Spec.C12
/-! Facts about the specification functions of C12 (`firstIndex`, `specToks`, `specDissect`). -/
namespace Rare.C12

theorem firstIndex_nil (h : Bytes) : firstIndex [] h = some 0 := by
  cases h <;> simp [firstIndex]

/-- `firstIndex` finds an occurrence … -/
theorem firstIndex_some_prefix {n h : Bytes} {i : Nat} (hi : firstIndex n h = some i) :
    n <+: h.drop i ∧ i + n.length ≤ h.length := by
  induction h generalizing i with
  | nil =>
    simp only [firstIndex] at hi
    split at hi
    · subst_vars; cases hi; simp
    · cases hi
  | cons c cs ih =>
    simp only [firstIndex] at hi
    split at hi
    · rename_i hp
      cases hi
      have hp' := List.isPrefixOf_iff_prefix.mp hp
      exact ⟨by simpa using hp', by simpa using hp'.length_le⟩
    · cases hf : firstIndex n cs with
      | none => simp [hf] at hi
      | some k =>
        simp [hf] at hi
        subst hi
        have := ih hf
        exact ⟨by simpa using this.1, by simp; omega⟩

/-- … and it is the least one: any occurrence at `k` forces a result `≤ k`. -/
theorem firstIndex_le_of_prefix {n h : Bytes} {k : Nat} (hk : k ≤ h.length) (hp : n <+: h.drop k) :
    ∃ i, firstIndex n h = some i ∧ i ≤ k := by
  induction h generalizing k with
  | nil =>
    have : n = [] := by simpa using hp
    subst this; exact ⟨0, by simp [firstIndex], by omega⟩
  | cons c cs ih =>
    simp only [firstIndex]
    split
    · exact ⟨0, rfl, by omega⟩
    · rename_i hnp
      cases k with
      | zero =>
        exfalso; apply hnp
        exact List.isPrefixOf_iff_prefix.mpr (by simpa using hp)
      | succ k =>
        have hk' : k ≤ cs.length := by simpa using hk
        obtain ⟨i, hi, hle⟩ := ih hk' (by simpa using hp)
        exact ⟨i + 1, by simp [hi], by omega⟩

theorem firstIndex_min {n h : Bytes} {i j : Nat} (hi : firstIndex n h = some i) (hj : j < i) :
    ¬ n <+: h.drop j := by
  intro hp
  have hlen := (firstIndex_some_prefix hi).2
  obtain ⟨i', hi', hle⟩ := firstIndex_le_of_prefix (k := j) (by omega) hp
  rw [hi] at hi'; cases hi'; omega

/-- The defining property: least position where the needle is a prefix of the remainder. -/
theorem firstIndex_spec (n h : Bytes) (i : Nat) :
    firstIndex n h = some i ↔ (i ≤ h.length ∧ n <+: h.drop i ∧ ∀ j < i, ¬ n <+: h.drop j) := by
  constructor
  · intro hi
    have := firstIndex_some_prefix hi
    exact ⟨by omega, this.1, fun j hj => firstIndex_min hi hj⟩
  · rintro ⟨hle, hp, hmin⟩
    obtain ⟨i', hi', hle'⟩ := firstIndex_le_of_prefix hle hp
    rcases Nat.lt_or_ge i' i with h | h
    · exact absurd (firstIndex_some_prefix hi').1 (hmin i' h)
    · have : i' = i := by omega
      subst this; exact hi'

theorem firstIndex_none_iff (n h : Bytes) :
    firstIndex n h = none ↔ ∀ k ≤ h.length, ¬ n <+: h.drop k := by
  constructor
  · intro hn k hk hp
    obtain ⟨i, hi, _⟩ := firstIndex_le_of_prefix hk hp
    rw [hn] at hi; cases hi
  · intro hall
    cases hf : firstIndex n h with
    | none => rfl
    | some i =>
      have := firstIndex_some_prefix hf
      exact absurd this.1 (hall i (by omega))


theorem lower_length (b : Bytes) : (lower b).length = b.length := by simp [lower]
theorem lower_eq_nil {b : Bytes} : lower b = [] ↔ b = [] := by simp [lower]
theorem lower_drop (b : Bytes) (k : Nat) : lower (b.drop k) = (lower b).drop k := by simp [lower, List.map_drop]
theorem lower_prefix {a b : Bytes} (h : a <+: b) : lower a <+: lower b := by
  obtain ⟨t, rfl⟩ := h; exact ⟨lower t, by simp [lower]⟩

/-- Greedy-leftmost monotonicity: searching the lowered needle in the lowered line from an earlier
position finds an occurrence that ends no later. -/
theorem firstIndex_lower_le {u line : Bytes} {pos pos' n : Nat}
    (h : firstIndex u (line.drop pos) = some n) (hp : pos' ≤ pos) :
    ∃ n', firstIndex (lower u) ((lower line).drop pos') = some n' ∧ pos' + n' ≤ pos + n := by
  by_cases hu : u = []
  · subst hu; exact ⟨0, by simp [lower, firstIndex_nil], by omega⟩
  · have ⟨hpre, hlen⟩ := firstIndex_some_prefix h
    have hul : 0 < u.length := List.length_pos_iff.mpr hu
    simp only [List.length_drop] at hlen
    have hk : pos + n - pos' ≤ ((lower line).drop pos').length := by
      simp [lower_length]; omega
    have hpre' : lower u <+: ((lower line).drop pos').drop (pos + n - pos') := by
      rw [List.drop_drop, ← lower_drop]
      have : pos' + (pos + n - pos') = pos + n := by omega
      rw [this]
      have := lower_prefix hpre
      rwa [List.drop_drop] at this
    obtain ⟨i, hi, hle⟩ := firstIndex_le_of_prefix hk hpre'
    exact ⟨i, hi, by omega⟩

theorem Tok.lowerLit_skip (t : Tok) : t.lowerLit.skip = t.skip := rfl
theorem Tok.lowerLit_lit (t : Tok) : t.lowerLit.lit = lower t.lit := rfl

theorem specToks_ci_mono {line : Bytes} {ts : List Tok} {pos pos' : Nat} {caps : List Nat} {e : Nat}
    (h : specToks line ts pos = some (caps, e)) (hp : pos' ≤ pos) :
    ∃ caps' e', specToks (lower line) (ts.map Tok.lowerLit) pos' = some (caps', e') ∧ e' ≤ e := by
  induction ts generalizing pos pos' caps e with
  | nil =>
    simp only [specToks] at h; cases h
    exact ⟨[], pos', by simp [specToks], hp⟩
  | cons t ts ih =>
    simp only [specToks] at h
    split at h
    · cases h
    · rename_i n hn
      split at h
      · cases h
      · rename_i caps1 e1 hrec
        cases h
        simp only [List.map_cons, specToks, Tok.lowerLit_lit, lower_eq_nil, Tok.lowerLit_skip]
        by_cases hl : t.lit = []
        · simp only [hl, if_true] at hn ⊢
          cases hn
          obtain ⟨c', e', h', hle⟩ := ih (pos' := pos' + ((lower line).drop pos').length + (lower ([] : Bytes)).length) hrec
            (by simp [lower_length]; omega)
          exact ⟨_, e', by rw [h'], hle⟩
        · simp only [hl, if_false] at hn ⊢
          obtain ⟨n', hn', hle'⟩ := firstIndex_lower_le hn hp
          obtain ⟨c', e', h', hle⟩ := ih (pos' := pos' + n' + (lower t.lit).length) hrec (by simp [lower_length]; omega)
          exact ⟨_, e', by rw [hn']; simp only []; rw [h'], hle⟩



theorem specToks_ordered {line : Bytes} {ts : List Tok} {pos : Nat} {caps : List Nat} {e : Nat}
    (h : specToks line ts pos = some (caps, e)) (hp : pos ≤ line.length) :
    (pos :: (caps ++ [e])).Pairwise (· ≤ ·) ∧ e ≤ line.length := by
  induction ts generalizing pos caps e with
  | nil =>
    simp only [specToks] at h; cases h
    simp [hp]
  | cons t ts ih =>
    simp only [specToks] at h
    split at h
    · cases h
    · rename_i n hn
      split at h
      · cases h
      · rename_i caps1 e1 hrec
        cases h
        have hbound : pos + n + t.lit.length ≤ line.length := by
          by_cases hl : t.lit = []
          · simp only [hl, if_true] at hn; cases hn; simp [hl]; omega
          · simp only [hl, if_false] at hn
            have := (firstIndex_some_prefix hn).2
            simp only [List.length_drop] at this; omega
        obtain ⟨hpw, hle⟩ := ih hrec hbound
        refine ⟨?_, hle⟩
        rw [List.pairwise_cons] at hpw ⊢
        obtain ⟨hall, hpw'⟩ := hpw
        by_cases hs : t.skip
        · simp only [hs, if_true, List.nil_append]
          exact ⟨fun x hx => by have := hall x hx; omega, hpw'⟩
        · simp only [hs, Bool.false_eq_true, if_false]
          refine ⟨?_, ?_⟩
          · intro x hx
            simp only [List.cons_append, List.nil_append, List.mem_cons] at hx
            rcases hx with rfl | rfl | hx
            · omega
            · omega
            · have := hall x hx; omega
          · simp only [List.cons_append, List.nil_append, List.pairwise_cons]
            refine ⟨?_, ?_, hpw'⟩
            · intro x hx
              simp only [List.mem_cons] at hx
              rcases hx with rfl | hx
              · omega
              · have := hall x hx; omega
            · intro x hx
              have := hall x hx; omega


/-- offsets of a spec result: `[s, e, c₁s, c₁e, …]` with `s ≤ c₁s ≤ c₁e ≤ … ≤ e ≤ len(line)` -/
theorem specDissect_ordered {p : Pat} {line : Bytes} {r : List Nat} (h : specDissect p line = some r) :
    ∃ s e caps, r = s :: e :: caps ∧ (s :: (caps ++ [e])).Pairwise (· ≤ ·) ∧ e ≤ line.length
      ∧ ∀ x ∈ caps, s + p.pre.length ≤ x := by
  simp only [specDissect] at h
  split at h
  · cases h
  · rename_i s hs
    split at h
    · cases h
    · rename_i caps e hrec
      cases h
      have hb := (firstIndex_some_prefix hs).2
      obtain ⟨hpw, hle⟩ := specToks_ordered hrec hb
      refine ⟨s, e, caps, rfl, ?_, hle, ?_⟩
      · rw [List.pairwise_cons] at hpw ⊢
        exact ⟨fun x hx => by have := hpw.1 x hx; omega, hpw.2⟩
      · intro x hx
        exact (List.pairwise_cons.mp hpw).1 x (by simp [hx])

theorem specDissect_ci_mono {p : Pat} {line : Bytes} {r : List Nat} (h : specDissect p line = some r) :
    ∃ r', specDissectIC p line = some r' := by
  simp only [specDissect] at h
  split at h
  · cases h
  · rename_i s hs
    split at h
    · cases h
    · rename_i caps e hrec
      have hs0 : firstIndex p.pre (line.drop 0) = some s := by simpa using hs
      obtain ⟨s', hs', hle⟩ := firstIndex_lower_le (pos' := 0) hs0 (Nat.le_refl 0)
      obtain ⟨c', e', h', _⟩ := specToks_ci_mono (pos' := s' + (lower p.pre).length) hrec
        (by simp [lower_length]; omega)
      refine ⟨s' :: e' :: c', ?_⟩
      simp only [specDissectIC, specDissect, Pat.lowerLits]
      simp only [List.drop_zero] at hs'
      rw [hs']; simp only []; rw [h']

end Rare.C12
