import Rare.Model.C15PollFull
/-!
# C15 — the polling reader under the full writer: `PStepO` reaches exactly the states of `PStep`
-/
namespace Rare.Follow
variable {β : Type}

theorem FS.replace_eq_remove_create_append (fs : FS β) (bs : List β) :
    fs.replace bs = (fs.remove.create).append fs.next bs := by
  simp only [FS.replace, FS.append, FS.create, FS.remove]
  congr 1
  funext j
  by_cases h : j = fs.next <;> simp [h]

theorem FS.replace_nil_rc (fs : FS β) : fs.replace ([] : List β) = fs.remove.create := rfl

theorem preach_trans {cfg : PCfg} {s0 s1 s2 : PSt β} (h1 : PReach cfg s0 s1) (h2 : PReach cfg s1 s2) :
    PReach cfg s0 s2 := by
  induction h2 with
  | refl => exact h1
  | step _ hs ih => exact .step ih hs

/-- one step of the full writer = at most three steps of the basic one -/
theorem pstepO_is_psteps {cfg : PCfg} {w : Who} {s s' : PSt β} (hs : PStepO cfg w s s') : PReach cfg s s' := by
  cases hs with
  | base h => exact .step .refl h
  | rename _ i hp => exact .step .refl (.remove s i hp)
  | replace _ i bs hp =>
    have h1 : PReach cfg s { s with fs := s.fs.remove.create, removes := s.removes + 1 } :=
      .step (.step .refl (.remove s i hp)) (.create _ rfl)
    by_cases hb : bs = []
    · subst hb; exact h1
    · have h2 := PReach.step h1 (PStep.append _ s.fs.next bs rfl hb)
      rw [FS.replace_eq_remove_create_append]; exact h2

theorem preachO_iff {cfg : PCfg} {s0 s : PSt β} : PReachO cfg s0 s ↔ PReach cfg s0 s := by
  constructor
  · intro h
    induction h with
    | refl => exact .refl
    | step _ hs ih => exact preach_trans ih (pstepO_is_psteps hs)
  · intro h
    induction h with
    | refl => exact .refl
    | step _ hs ih => exact .step ih (.base hs)
end Rare.Follow
