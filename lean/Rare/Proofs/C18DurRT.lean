import Rare.Proofs.C18DurFrac
import Rare.Proofs.C18Offset
/-!
C18 (round 4d): `ParseDuration ∘ Duration.String = id` on EVERY int64 duration – sub-second magnitudes
(`ns`, `µs`, `ms` units), fractional seconds, the hour/minute groups, `MinInt64` included.
-/
namespace Rare.C18

/-! ## digits: trailing zeros, padding -/

theorem dropTrailingZeros_snoc (L : Bytes) (c : UInt8) :
    dropTrailingZeros (L ++ [c]) = if c = 48 then dropTrailingZeros L else L ++ [c] := by
  unfold dropTrailingZeros
  rw [List.reverse_append]
  by_cases h : c = 48
  · subst h; simp
  · simp [h]

theorem digitsVal_snoc (L : Bytes) (c : UInt8) (x : Nat) : digitsVal (L ++ [c]) x = digitsVal L x * 10 + (c.toNat - 48) := by
  rw [digitsVal_append]; rfl

/-- Cutting trailing zeros off a digit string divides its value by the matching power of ten; the
result is again a digit string, not longer. -/
theorem dropTrailingZeros_val_rev (M : Bytes) : M.reverse.all isDigitB = true →
    (dropTrailingZeros M.reverse).all isDigitB = true ∧ (dropTrailingZeros M.reverse).length ≤ M.reverse.length
    ∧ digitsVal (dropTrailingZeros M.reverse) 0 * 10 ^ (M.reverse.length - (dropTrailingZeros M.reverse).length) = digitsVal M.reverse 0 := by
  induction M with
  | nil => intro _; decide
  | cons c M ih =>
    intro hd
    rw [List.reverse_cons] at hd ⊢
    generalize M.reverse = L at hd ih ⊢
    rw [List.all_append] at hd
    simp only [Bool.and_eq_true] at hd
    obtain ⟨i1, i2, i3⟩ := ih hd.1
    rw [dropTrailingZeros_snoc]
    by_cases h : c = 48
    · subst h
      simp only [if_true, List.length_append, List.length_cons, List.length_nil, digitsVal_snoc]
      refine ⟨i1, by omega, ?_⟩
      have e : L.length + (0 + 1) - (dropTrailingZeros L).length = (L.length - (dropTrailingZeros L).length) + 1 := by omega
      rw [e, Nat.pow_succ, ← Nat.mul_assoc, i3]; rfl
    · simp only [h, if_false, List.length_append, Nat.sub_self, Nat.pow_zero, Nat.mul_one]
      refine ⟨?_, Nat.le_refl _, trivial⟩
      rw [List.all_append]; simp only [Bool.and_eq_true]; exact hd

theorem dropTrailingZeros_val (L : Bytes) (hd : L.all isDigitB = true) :
    (dropTrailingZeros L).all isDigitB = true ∧ (dropTrailingZeros L).length ≤ L.length
    ∧ digitsVal (dropTrailingZeros L) 0 * 10 ^ (L.length - (dropTrailingZeros L).length) = digitsVal L 0 := by
  have := dropTrailingZeros_val_rev L.reverse
  rw [List.reverse_reverse] at this
  exact this hd

theorem natDigits_length (p : Nat) : ∀ n : Nat, n < 10 ^ (p + 1) → (natDigits n).length ≤ p + 1 := by
  induction p with
  | zero => intro n h; rw [natDigits_lt n (by simpa using h)]; simp
  | succ p ih =>
    intro n h
    by_cases h10 : n < 10
    · rw [natDigits_lt n h10]; simp
    · rw [natDigits_ge n (by omega), List.length_append]
      have : n / 10 < 10 ^ (p + 1) := by
        rw [Nat.pow_succ] at h; omega
      have := ih (n / 10) this
      simp only [List.length_cons, List.length_nil]; omega

theorem natPad_facts (r p : Nat) (hr : r < 10 ^ (p + 1)) :
    (natPad r (p + 1)).all isDigitB = true ∧ (natPad r (p + 1)).length = p + 1 ∧ digitsVal (natPad r (p + 1)) 0 = r := by
  have hl := natDigits_length p r hr
  unfold natPad
  refine ⟨?_, ?_, ?_⟩
  · rw [List.all_append, zeros_all, natDigits_all]; rfl
  · simp only [List.length_append, List.length_replicate]; omega
  · rw [digitsVal_zeros, digitsVal_natDigits]

/-- The fraction `fmtFrac` prints for `r < 10^p` (p ≥ 1): digits, at most `p` of them, worth `r / 10^p`. -/
theorem frac_facts (r p : Nat) (hr : r < 10 ^ (p + 1)) :
    let f := dropTrailingZeros (natPad r (p + 1))
    f.all isDigitB = true ∧ f.length ≤ p + 1 ∧ digitsVal f 0 * 10 ^ (p + 1 - f.length) = r := by
  obtain ⟨a, b, c⟩ := natPad_facts r p hr
  obtain ⟨i1, i2, i3⟩ := dropTrailingZeros_val _ a
  rw [b] at i2 i3; rw [c] at i3
  exact ⟨i1, i2, i3⟩

/-! ## one group `digits [. digits] unit`, any unit `Duration.String` prints -/

/-- The unit texts `Duration.String` prints, with their length in nanoseconds. -/
def UnitTxt (ut : Bytes) (unit : Nat) : Prop :=
  (ut = [104] ∧ unit = 3600000000000) ∨ (ut = [109] ∧ unit = 60000000000) ∨ (ut = [115] ∧ unit = 1000000000)
  ∨ (ut = [109, 115] ∧ unit = 1000000) ∨ (ut = [0xC2, 0xB5, 115] ∧ unit = 1000) ∨ (ut = [110, 115] ∧ unit = 1)

theorem unitTxt_facts (ut : Bytes) (unit : Nat) (hu : UnitTxt ut unit) :
    unitOf ut = some unit ∧ 0 < unit ∧ unit ≤ 3600000000000
    ∧ (∃ u0 ut', ut = u0 :: ut' ∧ isDigitB u0 = false ∧ u0 ≠ 46)
    ∧ ∀ rest, GroupTail rest → (ut ++ rest).takeWhile (fun c => !isNumChar c) = ut ∧ (ut ++ rest).dropWhile (fun c => !isNumChar c) = rest := by
  have tw : ∀ rest, GroupTail rest → rest.takeWhile (fun c => !isNumChar c) = [] ∧ rest.dropWhile (fun c => !isNumChar c) = rest := by
    intro rest ht
    rcases ht with h | ⟨c', r', h, hc'⟩
    · subst h; simp
    · subst h; have := isDigit_numChar hc'; simp [List.takeWhile, List.dropWhile, this]
  have n104 : isNumChar 104 = false := by decide
  have n109 : isNumChar 109 = false := by decide
  have n115 : isNumChar 115 = false := by decide
  have n110 : isNumChar 110 = false := by decide
  have nC2 : isNumChar 0xC2 = false := by decide
  have nB5 : isNumChar 0xB5 = false := by decide
  rcases hu with ⟨h, h'⟩ | ⟨h, h'⟩ | ⟨h, h'⟩ | ⟨h, h'⟩ | ⟨h, h'⟩ | ⟨h, h'⟩ <;> subst h <;> subst h' <;>
    refine ⟨by decide, by decide, by decide, ⟨_, _, rfl, by decide, by decide⟩, ?_⟩ <;>
    intro rest ht <;> obtain ⟨a, b⟩ := tw rest ht <;>
    simp [List.takeWhile, List.dropWhile, n104, n109, n115, n110, nC2, nB5, a, b]

theorem parseDurLoop_groupG (fuel v d : Nat) (ds ut : Bytes) (unit : Nat) (rest : Bytes)
    (hu : UnitTxt ut unit) (hds : ds.all isDigitB = true) (hk : 10 ^ ds.length ∣ unit)
    (hv : v * unit ≤ 9223372036854775808)
    (hd : d + (v * unit + digitsVal ds 0 * (unit / 10 ^ ds.length)) ≤ 9223372036854775808) (ht : GroupTail rest) :
    parseDurLoop (fuel + 1) (natDigits v ++ ((if ds.isEmpty then [] else 46 :: ds) ++ (ut ++ rest))) d
      = parseDurLoop fuel rest (d + (v * unit + digitsVal ds 0 * (unit / 10 ^ ds.length))) := by
  obtain ⟨hunit, hu0, hule, ⟨u0, ut', hut, hu0d, hu046⟩, htw⟩ := unitTxt_facts ut unit hu
  obtain ⟨htw1, htw2⟩ := htw rest ht
  obtain ⟨c, r, hcr, hc⟩ := natDigits_head v
  have hvle : v ≤ 9223372036854775808 := Nat.le_trans (Nat.le_mul_of_pos_right v hu0) hv
  have hov : ¬ (v > 9223372036854775808 / unit) := by
    have := (Nat.le_div_iff_mul_le hu0).mpr hv; omega
  generalize htail : (if ds.isEmpty then [] else 46 :: ds) ++ (ut ++ rest) = tail
  have hnd : NoDigitHead tail := by
    rw [← htail]
    by_cases he : ds.isEmpty
    · simp only [he, if_true, List.nil_append, hut, List.cons_append]; exact Or.inr ⟨u0, _, rfl, hu0d⟩
    · simp only [he, Bool.false_eq_true, if_false, List.cons_append]; exact Or.inr ⟨46, _, rfl, by decide⟩
  have hlead : leadingInt (natDigits v ++ tail) 0 = some (v, tail) := by
    rw [leadingInt_exact _ (natDigits_all v) 0 tail hnd (by omega), digitsVal_natDigits]
    simp only [hvle, if_true]
  have hfirst : isNumChar c = true := isDigit_numChar hc
  have hlen : (tail.length != (natDigits v ++ tail).length) = true := by
    simp only [List.length_append, bne_iff_ne, ne_eq]
    have := List.length_pos_iff.mpr (natDigits_ne_nil v)
    omega
  have hple : 10 ^ ds.length ≤ unit := Nat.le_of_dvd hu0 hk
  have hflt : digitsVal ds 0 < 10 ^ ds.length := by
    have := digitsVal_lt_pow ds hds 0; simpa using this
  have hlf : leadingFraction ds 0 0 = (digitsVal ds 0, ds.length) := by
    rw [leadingFraction_digits ds hds 0 0 (by omega)]; simp
  have hsplit : splitFrac tail = (ds, ut ++ rest, !ds.isEmpty) := by
    rw [← htail]
    by_cases he : ds.isEmpty
    · have : ds = [] := List.isEmpty_iff.mp he
      subst this
      simp only [List.isEmpty_nil, if_true, List.nil_append, hut, List.cons_append, Bool.not_true]
      exact splitFrac_nodot u0 _ hu046
    · simp only [he, Bool.false_eq_true, if_false, List.cons_append, Bool.not_false]
      rw [hut, List.cons_append]
      obtain ⟨a, b⟩ := takeWhile_digits ds hds u0 (ut' ++ rest) hu0d
      simp only [splitFrac, a, b]
  have hne : ut.isEmpty = false := by rw [hut]; rfl
  have hs : natDigits v ++ tail = c :: (r ++ tail) := by rw [hcr]; rfl
  conv => lhs; unfold parseDurLoop
  rw [hs] at hlead hlen ⊢
  simp only [hfirst, Bool.not_true, Bool.false_eq_true, if_false, hlead, hsplit, hlen,
    htw1, htw2, hunit, hov, hlf, hne, Bool.false_and]
  by_cases hf0 : digitsVal ds 0 > 0
  · have hex := fracTerm_exact (digitsVal ds 0) unit ds.length hk hflt hu0 hule
    have h3 : ¬ (v * unit + digitsVal ds 0 * (unit / 10 ^ ds.length) > 9223372036854775808) := by omega
    have h4 : ¬ (d + (v * unit + digitsVal ds 0 * (unit / 10 ^ ds.length)) > 9223372036854775808) := by omega
    have hmod : (d + (v * unit + digitsVal ds 0 * (unit / 10 ^ ds.length))) % 18446744073709551616
        = d + (v * unit + digitsVal ds 0 * (unit / 10 ^ ds.length)) := Nat.mod_eq_of_lt (by omega)
    simp [hf0, hex, h3, h4, hmod]
  · have hz : digitsVal ds 0 = 0 := by omega
    have h3 : ¬ (v * unit > 9223372036854775808) := by omega
    have h4 : ¬ (d + v * unit > 9223372036854775808) := by omega
    have hmod : (d + v * unit) % 18446744073709551616 = d + v * unit := Nat.mod_eq_of_lt (by omega)
    simp [hz, h3, h4, hmod]

/-! ## the last group of a `Duration.String`: whole part, printed fraction, unit -/

theorem frac_unit (r p unit : Nat) (hunit : unit = 10 ^ (p + 1)) (hr : r < unit) :
    (dropTrailingZeros (natPad r (p + 1))).all isDigitB = true
    ∧ 10 ^ (dropTrailingZeros (natPad r (p + 1))).length ∣ unit
    ∧ digitsVal (dropTrailingZeros (natPad r (p + 1))) 0 * (unit / 10 ^ (dropTrailingZeros (natPad r (p + 1))).length) = r := by
  subst hunit
  obtain ⟨a, b, c⟩ := frac_facts r p hr
  refine ⟨a, Nat.pow_dvd_pow 10 b, ?_⟩
  rw [Nat.pow_div b (by decide)]; exact c

theorem parseDurLoop_nil (f d : Nat) : parseDurLoop (f + 1) [] d = some d := by unfold parseDurLoop; rfl

/-- `V`, the printed fraction of `r / unit`, the unit, end of text: the loop adds exactly `V·unit + r`. -/
theorem parse_lastGroup (fuel V r p d0 : Nat) (ut : Bytes) (unit : Nat) (hu : UnitTxt ut unit)
    (hunit : unit = 10 ^ (p + 1)) (hr : r < unit) (hd : d0 + (V * unit + r) ≤ 9223372036854775808) :
    parseDurLoop (fuel + 2)
      (natDigits V ++ (if (dropTrailingZeros (natPad r (p + 1))).isEmpty then [] else 46 :: dropTrailingZeros (natPad r (p + 1))) ++ ut) d0
      = some (d0 + (V * unit + r)) := by
  obtain ⟨a, b, c⟩ := frac_unit r p unit hunit hr
  have e : natDigits V ++ (if (dropTrailingZeros (natPad r (p + 1))).isEmpty then [] else 46 :: dropTrailingZeros (natPad r (p + 1))) ++ ut
      = natDigits V ++ ((if (dropTrailingZeros (natPad r (p + 1))).isEmpty then [] else 46 :: dropTrailingZeros (natPad r (p + 1))) ++ (ut ++ [])) := by
    simp only [List.append_nil, List.append_assoc]
  rw [e, parseDurLoop_groupG (fuel + 1) V d0 _ ut unit [] hu a b (by omega) (by rw [c]; exact hd) (Or.inl rfl), c, parseDurLoop_nil]

/-- A whole number and a unit, end of text. -/
theorem parse_lastWhole (fuel V d0 : Nat) (ut : Bytes) (unit : Nat) (hu : UnitTxt ut unit)
    (hd : d0 + V * unit ≤ 9223372036854775808) :
    parseDurLoop (fuel + 2) (natDigits V ++ ut) d0 = some (d0 + V * unit) := by
  have e : natDigits V ++ ut = natDigits V ++ ((if ([] : Bytes).isEmpty then [] else 46 :: []) ++ (ut ++ [])) := by simp
  have := parseDurLoop_groupG (fuel + 1) V d0 [] ut unit [] hu rfl (by simp) (by omega) (by simpa [digitsVal] using hd) (Or.inl rfl)
  rw [e, this, parseDurLoop_nil]; simp [digitsVal]

/-! ## the whole text -/

/-- seconds group of `Duration.String`: whole seconds `S`, nanoseconds `r` -/
def secText (S r : Nat) : Bytes :=
  natDigits S ++ (if (dropTrailingZeros (natPad r 9)).isEmpty then [] else 46 :: dropTrailingZeros (natPad r 9)) ++ [115]

/-- `Duration.String` of a positive magnitude `u` (nanoseconds), without the sign. -/
def magText (u : Nat) : Bytes :=
  if u < 1000000000 then subSecondString u
  else
    let s := u / 1000000000
    let m := s / 60
    if m > 0 then
      (if m / 60 > 0 then natDigits (m / 60) ++ [104] else []) ++ natDigits (m % 60) ++ [109] ++ secText (s % 60) (u % 1000000000)
    else secText (s % 60) (u % 1000000000)

theorem durationString_mag (d : Int) (hd : d ≠ 0) :
    durationString d = some (if d < 0 then 45 :: magText d.natAbs else magText d.natAbs) := by
  have h0 : ¬ (d.natAbs = 0) := by omega
  unfold durationString magText secText
  by_cases h1 : d.natAbs < 1000000000
  · simp only [h0, if_false, h1, if_true]
  · simp only [h0, if_false, h1]

theorem secText_parse (fuel S r d0 : Nat) (hr : r < 1000000000) (hd : d0 + (S * 1000000000 + r) ≤ 9223372036854775808) :
    parseDurLoop (fuel + 2) (secText S r) d0 = some (d0 + (S * 1000000000 + r)) :=
  parse_lastGroup fuel S r 8 d0 [115] 1000000000 (Or.inr (Or.inr (Or.inl ⟨rfl, rfl⟩))) (by decide) hr hd

theorem secText_tail (S r : Nat) (rest : Bytes) : GroupTail (secText S r ++ rest) := by
  unfold secText
  rw [List.append_assoc, List.append_assoc]
  exact groupTail_digits _ _

theorem secText_len (S r : Nat) : 2 ≤ (secText S r).length := by
  unfold secText
  have := List.length_pos_iff.mpr (natDigits_ne_nil S)
  simp only [List.length_append, List.length_cons, List.length_nil]; omega

theorem magText_parse (u : Nat) (h0 : 0 < u) (hu : u ≤ 9223372036854775808) (fuel : Nat) (hf : (magText u).length + 1 ≤ fuel) :
    parseDurLoop fuel (magText u) 0 = some u := by
  have hlen : ∀ k, 1 ≤ (natDigits k).length := fun k => List.length_pos_iff.mpr (natDigits_ne_nil k)
  have ens : asc "ns" = [110, 115] := by decide
  have ems : asc "ms" = [109, 115] := by decide
  have p3 : (10 : Nat) ^ 3 = 1000 := by decide
  have p6 : (10 : Nat) ^ 6 = 1000000 := by decide
  unfold magText at hf ⊢
  by_cases hsub : u < 1000000000
  · simp only [hsub, if_true] at hf ⊢
    unfold subSecondString at hf ⊢
    by_cases h3 : u < 1000
    · simp only [h3, if_true, ens] at hf ⊢
      have l := hlen u
      simp only [List.length_append, List.length_cons, List.length_nil] at hf
      obtain ⟨f, rfl⟩ : ∃ f, fuel = f + 2 := ⟨fuel - 2, by omega⟩
      rw [parse_lastWhole f u 0 [110, 115] 1 (Or.inr (Or.inr (Or.inr (Or.inr (Or.inr ⟨rfl, rfl⟩))))) (by omega)]
      congr 1; omega
    · by_cases h6 : u < 1000000
      · simp only [h3, if_false, h6, if_true, fmtFracInt, p3] at hf ⊢
        have l := hlen (u / 1000)
        simp only [List.length_append, List.length_cons, List.length_nil] at hf
        obtain ⟨f, rfl⟩ : ∃ f, fuel = f + 2 := ⟨fuel - 2, by omega⟩
        rw [parse_lastGroup f (u / 1000) (u % 1000) 2 0 [0xC2, 0xB5, 115] 1000
          (Or.inr (Or.inr (Or.inr (Or.inr (Or.inl ⟨rfl, rfl⟩))))) (by decide) (Nat.mod_lt _ (by decide)) (by omega)]
        congr 1; omega
      · simp only [h3, if_false, h6, fmtFracInt, p6, ems] at hf ⊢
        have l := hlen (u / 1000000)
        simp only [List.length_append, List.length_cons, List.length_nil] at hf
        obtain ⟨f, rfl⟩ : ∃ f, fuel = f + 2 := ⟨fuel - 2, by omega⟩
        rw [parse_lastGroup f (u / 1000000) (u % 1000000) 5 0 [109, 115] 1000000
          (Or.inr (Or.inr (Or.inr (Or.inl ⟨rfl, rfl⟩)))) (by decide) (Nat.mod_lt _ (by decide)) (by omega)]
        congr 1; omega
  · simp only [hsub, if_false] at hf ⊢
    have hr : u % 1000000000 < 1000000000 := Nat.mod_lt _ (by decide)
    have ls := secText_len (u / 1000000000 % 60) (u % 1000000000)
    by_cases hm : u / 1000000000 / 60 > 0
    · simp only [hm, if_true] at hf ⊢
      by_cases hh : u / 1000000000 / 60 / 60 > 0
      · simp only [hh, if_true] at hf ⊢
        have l1 := hlen (u / 1000000000 / 60 / 60); have l2 := hlen (u / 1000000000 / 60 % 60)
        simp only [List.length_append, List.length_cons, List.length_nil] at hf
        obtain ⟨f, rfl⟩ : ∃ f, fuel = f + 4 := ⟨fuel - 4, by omega⟩
        have e : natDigits (u / 1000000000 / 60 / 60) ++ [104] ++ natDigits (u / 1000000000 / 60 % 60) ++ [109] ++ secText (u / 1000000000 % 60) (u % 1000000000)
            = natDigits (u / 1000000000 / 60 / 60) ++ 104 :: (natDigits (u / 1000000000 / 60 % 60) ++ 109 :: (secText (u / 1000000000 % 60) (u % 1000000000) ++ [])) := by simp
        rw [e, parseDurLoop_group (f + 3) _ 0 104 3600000000000 _ (Or.inl ⟨rfl, rfl⟩) (by omega) (by omega) (groupTail_digits _ _),
          parseDurLoop_group (f + 2) _ _ 109 60000000000 _ (Or.inr (Or.inl ⟨rfl, rfl⟩)) (by omega) (by omega) (secText_tail _ _ _),
          List.append_nil, secText_parse f _ _ _ hr (by omega)]
        congr 1; omega
      · simp only [hh, if_false, List.nil_append] at hf ⊢
        have l2 := hlen (u / 1000000000 / 60 % 60)
        simp only [List.length_append, List.length_cons, List.length_nil] at hf
        obtain ⟨f, rfl⟩ : ∃ f, fuel = f + 3 := ⟨fuel - 3, by omega⟩
        have e : natDigits (u / 1000000000 / 60 % 60) ++ [109] ++ secText (u / 1000000000 % 60) (u % 1000000000)
            = natDigits (u / 1000000000 / 60 % 60) ++ 109 :: (secText (u / 1000000000 % 60) (u % 1000000000) ++ []) := by simp
        rw [e, parseDurLoop_group (f + 2) _ _ 109 60000000000 _ (Or.inr (Or.inl ⟨rfl, rfl⟩)) (by omega) (by omega) (secText_tail _ _ _),
          List.append_nil, secText_parse f _ _ _ hr (by omega)]
        congr 1; omega
    · simp only [hm, if_false] at hf ⊢
      obtain ⟨f, rfl⟩ : ∃ f, fuel = f + 2 := ⟨fuel - 2, by omega⟩
      rw [secText_parse f _ _ _ hr (by omega)]
      congr 1; omega

theorem digits_start (k : Nat) (rest : Bytes) (hl : 1 ≤ rest.length) :
    ∃ c r, natDigits k ++ rest = c :: r ∧ isDigitB c = true ∧ 2 ≤ (natDigits k ++ rest).length := by
  obtain ⟨c, r, h, hc⟩ := natDigits_head k
  refine ⟨c, r ++ rest, by rw [h]; rfl, hc, ?_⟩
  have := List.length_pos_iff.mpr (natDigits_ne_nil k)
  simp only [List.length_append]; omega

theorem magText_shape (u : Nat) : ∃ c r, magText u = c :: r ∧ isDigitB c = true ∧ 2 ≤ (magText u).length := by
  unfold magText subSecondString fmtFracInt secText
  simp only
  repeat' split
  all_goals (try simp only [List.append_assoc, List.nil_append])
  all_goals exact digits_start _ _ (by simp [asc])

/-- `ParseDuration` reads `Duration.String` back, for EVERY int64 duration. -/
theorem parseDuration_durationString_all (d : Int) (h1 : -9223372036854775808 ≤ d) (h2 : d ≤ 9223372036854775807) :
    ∃ b, durationString d = some b ∧ parseDuration b = .ok d := by
  by_cases hn : d = 0
  · subst hn; exact ⟨asc "0s", by decide, by decide⟩
  · refine ⟨_, durationString_mag d hn, ?_⟩
    obtain ⟨c, r, hcr, hc, hl⟩ := magText_shape d.natAbs
    have hs := isDigitB_ne_sign hc
    have hp := magText_parse d.natAbs (by omega) (by omega) ((magText d.natAbs).length + 1) (Nat.le_refl _)
    have hne0 : magText d.natAbs ≠ [48] := by intro h; rw [h] at hl; simp at hl
    have hnil : magText d.natAbs ≠ [] := by intro h; rw [h] at hl; simp at hl
    by_cases hlt : d < 0
    · simp only [hlt, if_true]
      rw [parseDuration_minus]
      unfold durCore
      simp only [hne0, hnil, if_false, hp, if_true]
      congr 1; omega
    · simp only [hlt, if_false]
      rw [hcr, parseDuration_nosign c r ⟨hs.1, hs.2⟩, ← hcr]
      unfold durCore
      have : ¬ (d.natAbs > 9223372036854775807) := by omega
      simp only [hne0, hnil, if_false, hp, Bool.false_eq_true, this]
      congr 1; omega

end Rare.C18
