import Rare.Model.C03
/-! Helper lemmas for `csv_roundtrip`: the RFC 4180 reader run over the output of the writer model. -/
namespace Rare.C03

/-- a state at the beginning of a field -/
def AtField (s : PState) : Prop := s.mode = .start ∧ s.fld = []

theorem fold_quoteBody (f : Bytes) : ∀ (s : PState), s.mode = .quoted → s.fresh = false →
    (quoteBody f).foldl step s = { s with fld := s.fld ++ f } := by
  induction f with
  | nil => intro s _ _; simp [quoteBody]
  | cons b r ih =>
    intro s hm hf
    obtain ⟨rows, row, fld, mode, fresh⟩ := s
    simp only at hm hf
    subst hm hf
    by_cases hb : b = 34
    · subst hb
      simp only [quoteBody, if_true, List.foldl_cons]
      have h1 : step (step ⟨rows, row, fld, .quoted, false⟩ 34) 34 = ⟨rows, row, fld ++ [34], .quoted, false⟩ := by
        simp [step, PState.push]
      rw [h1, ih _ rfl rfl]
      simp
    · simp only [quoteBody, if_neg hb, List.foldl_cons]
      have h1 : step ⟨rows, row, fld, .quoted, false⟩ b = ⟨rows, row, fld ++ [b], .quoted, false⟩ := by
        simp [step, PState.push, hb]
      rw [h1, ih _ rfl rfl]
      simp

theorem special_iff (b : UInt8) : isSpecial b = false ↔ b ≠ 10 ∧ b ≠ 13 ∧ b ≠ 34 ∧ b ≠ 44 := by
  simp [isSpecial, and_assoc]

theorem fold_plain (f : Bytes) : ∀ (s : PState), s.mode = .unq → s.fresh = false →
    f.any isSpecial = false → f.foldl step s = { s with fld := s.fld ++ f } := by
  induction f with
  | nil => intro s _ _ _; simp
  | cons b r ih =>
    intro s hm hf hsp
    obtain ⟨rows, row, fld, mode, fresh⟩ := s
    simp only at hm hf
    subst hm hf
    simp only [List.any_cons, Bool.or_eq_false_iff] at hsp
    obtain ⟨h10, h13, h34, h44⟩ := (special_iff b).mp hsp.1
    have h1 : step ⟨rows, row, fld, .unq, false⟩ b = ⟨rows, row, fld ++ [b], .unq, false⟩ := by
      simp [step, stepUnq, PState.push, h10, h13, h44]
    simp only [List.foldl_cons]
    rw [h1, ih _ rfl rfl hsp.2]
    simp

/-- the state after the bytes of one written field: the field is complete and the next `,` or LF closes it -/
def FieldDone (s0 s : PState) (f : Bytes) : Prop :=
  s.rows = s0.rows ∧ s.row = s0.row ∧ s.fld = f ∧
  (s.mode = .quoteSeen ∨ (s.mode = .unq ∧ f ≠ []) ∨ (s.mode = .start ∧ f = [] ∧ s.fresh = s0.fresh))

theorem fold_field (f : Bytes) (s : PState) (hs : AtField s) : FieldDone s ((writeField f).foldl step s) f := by
  obtain ⟨rows, row, fld, mode, fresh⟩ := s
  obtain ⟨hm, hf⟩ := hs
  simp only at hm hf
  subst hm hf
  unfold writeField
  by_cases hq : fieldNeedsQuotes f = true
  · simp only [hq, if_true, List.foldl_cons, List.foldl_append, List.foldl_nil]
    have h1 : step ⟨rows, row, [], .start, fresh⟩ 34 = ⟨rows, row, [], .quoted, false⟩ := by simp [step]
    rw [h1, fold_quoteBody f _ rfl rfl]
    simp [FieldDone, step]
  · simp only [hq, Bool.false_eq_true, if_false]
    cases f with
    | nil => simp [FieldDone]
    | cons b r =>
      have hsp : (b :: r).any isSpecial = false := by
        have : fieldNeedsQuotes (b :: r) = false := by simpa using hq
        unfold fieldNeedsQuotes at this
        simp only [List.cons_ne_nil, if_false] at this
        split at this
        · cases this
        · split at this
          · cases this
          · rename_i h; simpa using h
      simp only [List.any_cons, Bool.or_eq_false_iff] at hsp
      obtain ⟨h10, h13, h34, h44⟩ := (special_iff b).mp hsp.1
      have h1 : step ⟨rows, row, [], .start, fresh⟩ b = ⟨rows, row, [b], .unq, false⟩ := by
        simp [step, stepUnq, PState.push, h10, h13, h34, h44]
      simp only [List.foldl_cons]
      rw [h1, fold_plain r _ rfl rfl hsp.2]
      simp [FieldDone]

theorem step_comma {s0 s : PState} {f : Bytes} (h : FieldDone s0 s f) :
    step s 44 = ⟨s0.rows, s0.row ++ [f], [], .start, false⟩ := by
  obtain ⟨rows, row, fld, mode, fresh⟩ := s
  obtain ⟨h1, h2, h3, h4⟩ := h
  simp only at h1 h2 h3 h4
  subst h1 h2 h3
  rcases h4 with h | ⟨h, _⟩ | ⟨h, _, _⟩ <;> subst h <;> simp [step, stepUnq, PState.endField]

theorem step_lf {s0 s : PState} {f : Bytes} (h : FieldDone s0 s f) :
    step s 10 = ⟨s0.rows ++ [s0.row ++ [f]], [], [], .start, true⟩ := by
  obtain ⟨rows, row, fld, mode, fresh⟩ := s
  obtain ⟨h1, h2, h3, h4⟩ := h
  simp only at h1 h2 h3 h4
  subst h1 h2 h3
  rcases h4 with h | ⟨h, _⟩ | ⟨h, _, _⟩ <;> subst h <;> simp [step, stepUnq, PState.endRecord]

theorem fold_record (r : List Bytes) (hr : r ≠ []) : ∀ (s : PState), AtField s →
    (writeRecord r).foldl step s = ⟨s.rows ++ [s.row ++ r], [], [], .start, true⟩ := by
  induction r with
  | nil => exact absurd rfl hr
  | cons f rest ih =>
    intro s hs
    cases rest with
    | nil =>
      simp only [writeRecord, List.foldl_append, List.foldl_cons, List.foldl_nil]
      exact step_lf (fold_field f s hs)
    | cons g rest' =>
      simp only [writeRecord, List.foldl_append, List.foldl_cons]
      rw [step_comma (fold_field f s hs)]
      rw [ih (by simp) _ ⟨rfl, rfl⟩]
      simp

theorem fold_rows (rows : List (List Bytes)) (h : ∀ r ∈ rows, r ≠ []) : ∀ (acc : List (List Bytes)),
    (writeCsv rows).foldl step ⟨acc, [], [], .start, true⟩ = ⟨acc ++ rows, [], [], .start, true⟩ := by
  induction rows with
  | nil => intro acc; simp [writeCsv]
  | cons r rest ih =>
    intro acc
    have hr : r ≠ [] := h r (by simp)
    simp only [writeCsv, List.flatMap_cons, List.foldl_append]
    rw [fold_record r hr _ ⟨rfl, rfl⟩]
    have := ih (fun x hx => h x (by simp [hx])) (acc ++ [[] ++ r])
    simp only [writeCsv] at this
    rw [this]
    simp

theorem roundtrip (rows : List (List Bytes)) (h : ∀ r ∈ rows, r ≠ []) : parseCsv (writeCsv rows) = rows := by
  unfold parseCsv
  have := fold_rows rows h []
  simp only [List.nil_append] at this
  show finish ((writeCsv rows).foldl step ⟨[], [], [], .start, true⟩) = rows
  rw [this]
  simp [finish]

end Rare.C03
