import Rare.Proofs.C11
import Rare.Proofs.F64Arith
import Rare.Proofs.F64Parse
import Rare.Proofs.F64Fmt
/-!
Helper lemmas for the float-valued C11 theorems: the typed-argument machinery of
`Rare/Proofs/C11.lean` for an arbitrary parser, the run-time equations of the float builders of
`Funcs/Float.lean`, and folds of exact integer arithmetic in binary64.
-/
namespace Rare.C11
open Rare Rare.Expr Rare.Expr.Funcs

/-! ### typed arguments, any parser -/

theorem evalTyped_arg' {α : Type} (parser : Bytes → Option α) (a : Arg) :
    evalTypedStage a.stage parser =
      match a with
      | .const b => (match parser b with
        | some p => .ok (some (.ret (some p)))
        | none => .ok none)
      | _ => .ok (some (do let v ← a.stage; pure (parser v))) := by
  cases a with
  | const b => simp only [evalTypedStage, Arg.probe_const]; cases parser b <;> rfl
  | group i => simp only [evalTypedStage, Arg.probe_group]
  | key k => simp only [evalTypedStage, Arg.probe_key]

/-- `evalTypedStage` on an argument either rejects it at build time (an unparsable constant) or yields
    a typed stage that evaluates to the parse of the argument's value. -/
theorem evalTyped_arg_run {α : Type} (parser : Bytes → Option α) (c : Ctx) (a : Arg) :
    (evalTypedStage a.stage parser = .ok none ∧ parser (a.val c) = none) ∨
    (∃ t, evalTypedStage a.stage parser = .ok (some t) ∧ t.run c = .ok (parser (a.val c))) := by
  rw [evalTyped_arg']
  cases a with
  | const b =>
    cases hb : parser b with
    | none => left; exact ⟨by simp only [hb], hb⟩
    | some p => right; exact ⟨.ret (some p), by simp only [hb], by simp [Comp.run, Arg.val, hb]⟩
  | group i => right; exact ⟨_, rfl, rfl⟩
  | key k => right; exact ⟨_, rfl, rfl⟩

def TypedOk' {α : Type} (parser : Bytes → Option α) (c : Ctx) (typed : List (Comp (Option α))) (as : List Arg) : Prop :=
  All2 (fun t a => t.run c = .ok (parser (Arg.val c a))) typed as

theorem mapTyped_args' {α : Type} (parser : Bytes → Option α) (c : Ctx) : ∀ as : List Arg,
    (mapTypedArgs parser (as.map Arg.stage) = .ok none ∧ ∃ a ∈ as, parser (a.val c) = none) ∨
    (∃ typed, mapTypedArgs parser (as.map Arg.stage) = .ok (some typed) ∧ TypedOk' parser c typed as)
  | [] => .inr ⟨[], rfl, All2.nil⟩
  | a :: rest => by
    simp only [List.map_cons, mapTypedArgs]
    rcases evalTyped_arg_run parser c a with ⟨e, hn⟩ | ⟨t, e, ht⟩
    · left; rw [e]; exact ⟨rfl, a, by simp, hn⟩
    · rw [e]
      rcases mapTyped_args' parser c rest with ⟨h, a', ha', hp⟩ | ⟨typed, h, hts⟩
      · left; rw [h]; exact ⟨rfl, a', by simp [ha'], hp⟩
      · right; rw [h]; exact ⟨t :: typed, rfl, All2.cons ht hts⟩

theorem typedOk_parsed' {α : Type} (parser : Bytes → Option α) (c : Ctx) (typed : List (Comp (Option α)))
    (as : List Arg) (h : TypedOk' parser c typed as) : ∀ xs : List α,
    as.map (fun a => parser (a.val c)) = xs.map some →
    All2 (fun t x => t.run c = .ok (some x)) typed xs := by
  induction h with
  | nil => intro xs hp; cases xs with
    | nil => exact All2.nil
    | cons _ _ => simp at hp
  | cons h1 _ ih =>
    intro xs hp
    cases xs with
    | nil => simp at hp
    | cons x xs =>
      simp only [List.map_cons, List.cons.injEq] at hp
      exact All2.cons (by rw [h1, hp.1]) (ih xs hp.2)

/-! ### `sumf subf multf divf` -/

theorem foldRunF_run (c : Ctx) (op : F64 → F64 → F64) (typed : List (Comp (Option F64))) (xs : List F64)
    (h : All2 (fun t x => t.run c = .ok (some x)) typed xs) : ∀ acc : F64,
    (Float.foldRunF op acc typed).run c = .ok (Float.fmtF (xs.foldl op acc)) := by
  induction h with
  | nil => intro acc; rfl
  | @cons t x ts xs' h1 _ ih =>
    intro acc
    simp only [Float.foldRunF, run_bind, h1, List.foldl_cons]
    exact ih _

/-- All arguments parse: the helper is the left fold of the IEEE operation, rendered with
    `FormatFloat(·, 'f', -1, 64)`. -/
theorem floatHelper_fold (op : F64 → F64 → F64) (c : Ctx) (as : List Arg) (x : F64) (xs : List F64)
    (hp : as.map (fun a => Float.parseF (a.val c)) = (x :: xs).map some) (hlen : 1 ≤ xs.length) :
    callHelper (Float.floatHelper op) as c = .ok (Float.fmtF (xs.foldl op x)) := by
  have hl : as.length = xs.length + 1 := by
    have := congrArg List.length hp; simpa using this
  unfold callHelper Float.floatHelper
  have hnot : ¬ ((as.map Arg.stage).length < 2) := by simp; omega
  simp only [hnot, if_false]
  rcases mapTyped_args' Float.parseF c as with ⟨_, a, ha, hnone⟩ | ⟨typed, h, ht⟩
  · exfalso
    have : Float.parseF (a.val c) ∈ as.map (fun a => Float.parseF (a.val c)) := List.mem_map.mpr ⟨a, ha, rfl⟩
    rw [hp, hnone] at this
    simp at this
  · rw [h]
    have hall := typedOk_parsed' Float.parseF c typed as ht (x :: xs) hp
    cases hall with
    | cons h1 h2 =>
      show (Float.floatRun op (_ :: _)).run c = _
      simp only [Float.floatRun, run_bind, h1]
      exact foldRunF_run c op _ xs h2 x

theorem foldRunF_marker (c : Ctx) (op : F64 → F64 → F64) (typed : List (Comp (Option F64))) (as : List Arg)
    (h : TypedOk' Float.parseF c typed as) : ∀ acc : F64, (∃ a ∈ as, Float.parseF (a.val c) = none) →
    (Float.foldRunF op acc typed).run c = .ok ErrorNum := by
  induction h with
  | nil => intro acc ⟨a, ha, _⟩; simp at ha
  | @cons t a ts as' h1 _ ih =>
    intro acc ⟨b, hb, hnone⟩
    simp only [Float.foldRunF, run_bind, h1]
    cases hp : Float.parseF (a.val c) with
    | none => rfl
    | some x =>
      have hb' : b ∈ as' := by
        rcases List.mem_cons.mp hb with e | e
        · subst e; rw [hp] at hnone; cases hnone
        · exact e
      exact ih _ ⟨b, hb', hnone⟩

/-- An argument that is not a float never reaches the arithmetic: the result is `<BAD-TYPE>`. -/
theorem floatHelper_marker (op : F64 → F64 → F64) (c : Ctx) (as : List Arg) (hlen : 2 ≤ as.length)
    (hbad : ∃ a ∈ as, Float.parseF (a.val c) = none) :
    callHelper (Float.floatHelper op) as c = .ok ErrorNum := by
  have hnot : ¬ ((as.map Arg.stage).length < 2) := by simp; omega
  rcases mapTyped_args' Float.parseF c as with ⟨h, _⟩ | ⟨typed, h, ht⟩
  · unfold callHelper Float.floatHelper
    simp only [hnot, if_false]
    rw [h]; rfl
  · have hcall : callHelper (Float.floatHelper op) as c = (Float.floatRun op typed).run c := by
      unfold callHelper Float.floatHelper
      simp only [hnot, if_false]
      rw [h]; rfl
    rw [hcall]
    cases ht with
    | nil => simp at hlen
    | @cons t a ts as' h1 h2 =>
      obtain ⟨b, hb, hnone⟩ := hbad
      simp only [Float.floatRun, run_bind, h1]
      cases hp : Float.parseF (a.val c) with
      | none => rfl
      | some x =>
        have hb' : b ∈ as' := by
          rcases List.mem_cons.mp hb with e | e
          · subst e; rw [hp] at hnone; cases hnone
          · exact e
        exact foldRunF_marker c op ts as' h2 x ⟨b, hb', hnone⟩

/-! ### unary helpers, round, isnum -/

theorem unaryF_call (f : F64 → Bytes) (c : Ctx) (a : Arg) :
    callHelper (Float.unaryF f) [a] c = .ok (match Float.parseF (a.val c) with
      | none => ErrorNum
      | some x => f x) := by
  unfold callHelper Float.unaryF
  simp only [List.map_cons, List.map_nil, ok, run_bind, Arg.run_stage]
  cases Float.parseF (a.val c) <;> rfl

theorem isnum_call (c : Ctx) (a : Arg) :
    callHelper Float.kfIsNum [a] c = .ok (if (Float.parseF (a.val c)).isSome then TruthyVal else FalsyVal) := by
  unfold callHelper Float.kfIsNum
  simp only [List.map_cons, List.map_nil, ok, run_bind, Arg.run_stage]
  rfl

/-- `{round a p}` with a constant precision `p ≤ 1024`. -/
theorem round_call (c : Ctx) (a : Arg) (pb : Bytes) (p : Int) (hp : atoi pb = some p) (hmax : p ≤ 1024) :
    callHelper Float.kfRound [a, .const pb] c = .ok (match Float.parseF (a.val c) with
      | none => ErrorNum
      | some x => F64.format x p) := by
  unfold callHelper Float.kfRound
  have : ¬ (p > Float.maxPrecision) := by unfold Float.maxPrecision; omega
  simp only [List.map_cons, List.map_nil, List.length_cons, List.length_nil, evalArgInt]
  simp [evalStageInt_const, hp, this, ok, run_bind, Arg.run_stage]
  cases Float.parseF (a.val c) <;> rfl

/-- `{round a}`: precision 0. -/
theorem round_call0 (c : Ctx) (a : Arg) :
    callHelper Float.kfRound [a] c = .ok (match Float.parseF (a.val c) with
      | none => ErrorNum
      | some x => F64.format x 0) := by
  unfold callHelper Float.kfRound
  simp only [List.map_cons, List.map_nil, List.length_cons, List.length_nil, evalArgInt]
  simp [Float.maxPrecision, ok, run_bind, Arg.run_stage]
  cases Float.parseF (a.val c) <;> rfl

/-! ### comparisons -/

theorem cmp_call (test : F64 → F64 → Bool) (c : Ctx) (a b : Arg) :
    callHelper (Float.cmpHelper test) [a, b] c = .ok (match Float.parseF (a.val c), Float.parseF (b.val c) with
      | some x, some y => truthyStr (test x y)
      | _, _ => ErrorNum) := by
  unfold callHelper Float.cmpHelper
  simp only [List.map_cons, List.map_nil]
  rcases evalTyped_arg_run Float.parseF c a with ⟨e, hn⟩ | ⟨t, e, ht⟩
  · rw [e, hn]; rfl
  · rw [e]
    rcases evalTyped_arg_run Float.parseF c b with ⟨e2, hn2⟩ | ⟨t2, e2, ht2⟩
    · rw [e2, hn2]
      cases Float.parseF (a.val c) <;> rfl
    · rw [e2]
      simp only [ok, run_bind, ht]
      cases Float.parseF (a.val c) with
      | none => rfl
      | some x =>
        simp only [run_bind, ht2]
        cases Float.parseF (b.val c) <;> rfl

/-! ### folds of exact integer arithmetic -/

/-- Partial sums `n₀, n₀+n₁, …` all have magnitude at most `2^53`. -/
def PartialSumsSmall : Int → List Int → Prop
  | _, [] => True
  | acc, n :: r => (acc + n).natAbs ≤ 9007199254740992 ∧ PartialSumsSmall (acc + n) r

/-- Summing integer-valued floats whose partial sums stay within `±2^53` is exact. -/
theorem foldl_add_exact : ∀ (xs : List F64) (ns : List Int) (acc : F64) (a : Int),
    acc.toRat? = some (a : Rat) →
    All2 (fun x n => x.toRat? = some ((n : Int) : Rat)) xs ns →
    PartialSumsSmall a ns →
    (xs.foldl F64.add acc).toRat? = some ((ns.foldl (· + ·) a : Int) : Rat)
  | [], [], acc, a, h, _, _ => h
  | x :: xs, n :: ns, acc, a, h, hall, hs => by
    cases hall with
    | cons h1 h2 =>
      simp only [List.foldl_cons]
      exact foldl_add_exact xs ns _ _ (F64.add_exact_int h h1 hs.1) h2 hs.2
  | [], _ :: _, _, _, _, hall, _ => by cases hall
  | _ :: _, [], _, _, _, hall, _ => by cases hall

/-- A finite float of value zero prints as `0` or `-0`. -/
theorem fmtF_zero {y : F64} (h0 : y.toRat = 0) :
    Float.fmtF y = ascii "0" ∨ Float.fmtF y = ascii "-0" := by
  have hm := (F64.toRat_eq_zero_iff y).mp h0
  have hy := F64.ofSM_sign_mag y
  rw [hm] at hy
  rw [← hy]
  cases y.sign
  · left; decide +kernel
  · right; decide +kernel

/-- Arguments that are integer spellings (`strconv.Atoi` accepts them) with `|nᵢ| ≤ 2^53` parse as
    floats with exactly those values. -/
theorem ints_parse_as_floats (c : Ctx) : ∀ (as : List Arg) (ns : List Int),
    as.map (fun a => atoi (a.val c)) = ns.map some → (∀ m ∈ ns, m.natAbs ≤ 9007199254740992) →
    ∃ xs : List F64, as.map (fun a => Float.parseF (a.val c)) = xs.map some ∧
      All2 (fun x n => x.toRat? = some ((n : Int) : Rat)) xs ns
  | [], [], _, _ => ⟨[], rfl, All2.nil⟩
  | [], _ :: _, h, _ => by simp at h
  | _ :: _, [], h, _ => by simp at h
  | a :: as, n :: ns, h, hs => by
    simp only [List.map_cons, List.cons.injEq] at h
    obtain ⟨y, hy, hv⟩ := F64.parseFloat_of_atoi_small h.1 (hs n (by simp))
    obtain ⟨xs, hx, hall⟩ := ints_parse_as_floats c as ns h.2 (fun m hm => hs m (by simp [hm]))
    exact ⟨y :: xs, by simp only [List.map_cons, Float.parseF, hy]; rw [← hx]; rfl, All2.cons hv hall⟩

/-- The scaling loop of `unitize` never runs past the last unit: `units[rank]` is in range. -/
theorem unitLoop_rank_le (sf : F64) (maxRank : Nat) : ∀ (fuel : Nat) (nf : F64) (rank : Nat),
    rank ≤ maxRank → (Float.unitLoop sf maxRank fuel nf rank).2 ≤ maxRank
  | 0, _, _, h => h
  | fuel + 1, nf, rank, h => by
    unfold Float.unitLoop
    split
    · rename_i hc
      simp only [Bool.and_eq_true, decide_eq_true_eq] at hc
      exact unitLoop_rank_le sf maxRank fuel _ _ (by omega)
    · exact h

end Rare.C11
