import Rare.Proofs.C07Counter
/-! Sub-key counter, part A: byte order, ordered insert, index regeneration. -/
namespace Rare.C07

/-! ### `bLt` is a strict total order -/

theorem bLt_irrefl (a : Bytes) : bLt a a = false := by
  induction a with
  | nil => rfl
  | cons x a ih => simp [bLt, ih]

theorem bLt_trans {a b c : Bytes} (h1 : bLt a b = true) (h2 : bLt b c = true) : bLt a c = true := by
  induction a generalizing b c with
  | nil =>
    cases b with
    | nil => simp [bLt] at h1
    | cons y b => cases c with
      | nil => simp [bLt] at h2
      | cons z c => rfl
  | cons x a ih =>
    cases b with
    | nil => simp [bLt] at h1
    | cons y b => cases c with
      | nil => simp [bLt] at h2
      | cons z c =>
        simp only [bLt, Bool.or_eq_true, decide_eq_true_eq, Bool.and_eq_true, beq_iff_eq] at *
        rcases h1 with h1 | ⟨e1, h1⟩ <;> rcases h2 with h2 | ⟨e2, h2⟩
        · left; omega
        · subst e2; left; exact h1
        · subst e1; left; exact h2
        · subst e1; subst e2; right; exact ⟨rfl, ih h1 h2⟩

theorem bLt_total {a b : Bytes} (h : a ≠ b) (h1 : bLt a b = false) : bLt b a = true := by
  induction a generalizing b with
  | nil => cases b with
    | nil => exact absurd rfl h
    | cons y b => simp [bLt] at h1
  | cons x a ih => cases b with
    | nil => rfl
    | cons y b =>
      simp only [bLt, Bool.or_eq_false_iff, decide_eq_false_iff_not, Bool.and_eq_false_iff, Bool.or_eq_true,
        decide_eq_true_eq, Bool.and_eq_true, beq_iff_eq] at *
      by_cases hxy : x = y
      · subst hxy
        right; refine ⟨rfl, ih (fun e => h (by rw [e])) ?_⟩
        rcases h1.2 with h2 | h2
        · simp at h2
        · exact h2
      · left
        have : x.toNat ≠ y.toNat := fun e => hxy (UInt8.toNat_inj.mp e)
        omega

abbrev Sorted (l : List Bytes) : Prop := l.Pairwise (fun a b => bLt a b = true)

theorem sorted_nodup {l : List Bytes} (h : Sorted l) : l.Nodup := by
  refine List.Pairwise.imp ?_ h
  intro a b hab e; subst e; rw [bLt_irrefl] at hab; exact Bool.noConfusion hab

/-! ### insertAlphanumeric -/

theorem insertAt_nil_zero {α : Type} (x : α) : insertAt ([] : List α) 0 x = [x] := rfl

theorem insAlpha_eq (l : List Bytes) (x : Bytes) :
    (insertAlphanumeric l x).1 = insertAt l (insertAlphanumeric l x).2 x ∧ (insertAlphanumeric l x).2 ≤ l.length := by
  induction l with
  | nil => simp [insertAlphanumeric, insertAt]
  | cons v r ih =>
    unfold insertAlphanumeric
    split
    · simp [insertAt]
    · simp only [insertAt, List.take_succ_cons, List.drop_succ_cons, List.cons_append, List.length_cons]
      exact ⟨by rw [ih.1]; rfl, by omega⟩

theorem mem_insertAt {α : Type} (l : List α) (i : Nat) (x y : α) : y ∈ insertAt l i x ↔ y = x ∨ y ∈ l := by
  unfold insertAt
  constructor
  · intro h
    rcases List.mem_append.mp h with h | h
    · exact Or.inr (List.mem_of_mem_take h)
    · rcases List.mem_cons.mp h with h | h
      · exact Or.inl h
      · exact Or.inr (List.mem_of_mem_drop h)
  · intro h
    rcases h with h | h
    · subst h; simp
    · have : y ∈ l.take i ++ l.drop i := by rw [List.take_append_drop]; exact h
      rcases List.mem_append.mp this with h | h
      · exact List.mem_append_left _ h
      · exact List.mem_append_right _ (List.mem_cons_of_mem _ h)

theorem mem_insAlpha (l : List Bytes) (x y : Bytes) : y ∈ (insertAlphanumeric l x).1 ↔ y = x ∨ y ∈ l := by
  rw [(insAlpha_eq l x).1, mem_insertAt]

theorem insAlpha_sorted (l : List Bytes) (x : Bytes) (hs : Sorted l) (hx : x ∉ l) :
    Sorted (insertAlphanumeric l x).1 := by
  induction l with
  | nil => simp [insertAlphanumeric, Sorted]
  | cons v r ih =>
    have hs' := List.pairwise_cons.mp hs
    unfold insertAlphanumeric
    split
    · rename_i hlt
      refine List.pairwise_cons.mpr ⟨?_, hs⟩
      intro y hy
      rcases List.mem_cons.mp hy with rfl | hy
      · exact hlt
      · exact bLt_trans hlt (hs'.1 y hy)
    · rename_i hlt
      have hne : x ≠ v := fun e => hx (by rw [e]; exact List.mem_cons_self)
      have hvx : bLt v x = true := bLt_total hne (by simpa using hlt)
      refine List.pairwise_cons.mpr ⟨?_, ih hs'.2 (fun h => hx (List.mem_cons_of_mem _ h))⟩
      intro y hy
      rcases (mem_insAlpha r x y).mp hy with rfl | hy
      · exact hvx
      · exact hs'.1 y hy

theorem getElem?_insertAt_self {α : Type} (l : List α) (i : Nat) (x : α) (h : i ≤ l.length) :
    (insertAt l i x)[i]? = some x := by
  unfold insertAt
  rw [List.getElem?_append_right (by simp; omega)]
  simp [Nat.min_eq_left h]

/-! ### regenIdx -/

theorem regenIdx_spec (keys : List Bytes) (m : List (Bytes × Nat)) (start : Nat) (hn : keys.Nodup) (x : Bytes) :
    (∀ j, keys[j]? = some x → aget (regenIdx m keys start) x = some (start + j)) ∧
    (x ∉ keys → aget (regenIdx m keys start) x = aget m x) := by
  induction keys generalizing m start with
  | nil => simp [regenIdx]
  | cons k r ih =>
    have hn' := List.nodup_cons.mp hn
    have := ih (aset m k start) (start + 1) hn'.2
    unfold regenIdx
    constructor
    · intro j hj
      cases j with
      | zero =>
        simp only [List.getElem?_cons_zero, Option.some.injEq] at hj
        subst hj
        rw [this.2 hn'.1, aget_aset_self]; rfl
      | succ j =>
        simp only [List.getElem?_cons_succ] at hj
        rw [this.1 j hj]; congr 1; omega
    · intro hx
      have hx' : x ≠ k ∧ x ∉ r := ⟨fun e => hx (e ▸ List.mem_cons_self), fun h => hx (List.mem_cons_of_mem _ h)⟩
      rw [this.2 hx'.2, aget_aset_ne _ _ _ _ (fun e => hx'.1 e.symm)]

/-! ### lists of per-sub-key values -/

theorem replicate_eq_map {α : Type} (l : List α) (f : α → Int) (h : ∀ x ∈ l, f x = 0) :
    List.replicate l.length (0 : Int) = l.map f := by
  induction l with
  | nil => rfl
  | cons a l ih =>
    simp only [List.length_cons, List.replicate_succ, List.map_cons]
    rw [h a List.mem_cons_self, ih (fun x hx => h x (List.mem_cons_of_mem _ hx))]

theorem insertAt_map {α β : Type} (l : List α) (i : Nat) (x : α) (f : α → β) :
    insertAt (l.map f) i (f x) = (insertAt l i x).map f := by
  simp [insertAt, List.map_take, List.map_drop]

theorem map_set_nodup {α : Type} (l : List α) (f f' : α → Int) (i : Nat) (a : α) (hn : l.Nodup)
    (hi : l[i]? = some a) (hf : ∀ x, x ≠ a → f' x = f x) : (l.map f).set i (f' a) = l.map f' := by
  induction l generalizing i with
  | nil => simp at hi
  | cons b l ih =>
    have hn' := List.nodup_cons.mp hn
    cases i with
    | zero =>
      simp only [List.getElem?_cons_zero, Option.some.injEq] at hi
      subst hi
      simp only [List.map_cons, List.set_cons_zero, List.cons.injEq, true_and]
      apply List.map_congr_left
      intro x hx
      exact (hf x (fun e => hn'.1 (e ▸ hx))).symm
    | succ i =>
      simp only [List.getElem?_cons_succ] at hi
      simp only [List.map_cons, List.set_cons_succ, List.cons.injEq]
      refine ⟨?_, ih i hn'.2 hi⟩
      have : b ≠ a := fun e => hn'.1 (e ▸ List.mem_of_getElem? hi)
      exact (hf b this).symm

theorem aget_map_val {α β : Type} (m : List (Bytes × α)) (g : α → β) (k : Bytes) :
    aget (m.map fun (kv : Bytes × α) => (kv.1, g kv.2)) k = (aget m k).map g := by
  induction m with
  | nil => rfl
  | cons e m ih =>
    obtain ⟨k0, v0⟩ := e
    by_cases h : k0 = k <;> simp [aget, h, ih]

end Rare.C07
