import Rare.Model.Lockset
/-!
General facts about the lockset check (for every table, not only the generated ones).
-/
namespace Rare.Lockset
open Rare.Gen.Access

theorem sameLoc_iff (a b : Acc) : sameLoc a b = true ↔
    a.obj = b.obj ∧ (a.obj = "var" → a.field = b.field) ∧ (a.obj ≠ "var" → a.region = b.region) := by
  unfold sameLoc
  by_cases hv : a.obj = "var"
  · simp [hv]
  · simp [hv]

theorem sameLoc_symm (a b : Acc) : sameLoc a b = sameLoc b a := by
  rw [Bool.eq_iff_iff, sameLoc_iff, sameLoc_iff]
  constructor
  · rintro ⟨h1, h2, h3⟩
    exact ⟨h1.symm, fun h => (h2 (h1 ▸ h)).symm, fun h => (h3 (h1 ▸ h)).symm⟩
  · rintro ⟨h1, h2, h3⟩
    exact ⟨h1.symm, fun h => (h2 (h1 ▸ h)).symm, fun h => (h3 (h1 ▸ h)).symm⟩

theorem locked_symm (a b : Acc) : locked a b = locked b a := by
  unfold locked
  rw [Bool.beq_comm (a := a.mutex), Bool.or_comm (a.lock == "W")]
  cases (a.lock != "") <;> cases (b.lock != "") <;> simp

theorem ordered_symm (a b : Acc) : ordered a b = ordered b a := by
  unfold ordered; rw [Bool.or_comm]

theorem safePair_symm (a b : Acc) : safePair a b = safePair b a := by
  unfold safePair; rw [locked_symm, ordered_symm, Bool.and_comm]

theorem conflict_symm (a b : Acc) : conflict a b = conflict b a := by
  unfold conflict; rw [sameLoc_symm, Bool.or_comm]

/-- Pairing every write with every access is the same as looking at all conflicting pairs. -/
theorem pairsSafe_iff (s : List Acc) :
    pairsSafe s = true ↔ ∀ a ∈ s, ∀ b ∈ s, conflict a b = true → safePair a b = true := by
  simp only [pairsSafe, List.all_eq_true, List.mem_filter, Bool.or_eq_true, Bool.not_eq_true']
  constructor
  · intro h a ha b hb hc
    simp only [conflict, Bool.and_eq_true, Bool.or_eq_true] at hc
    obtain ⟨hl, hw⟩ := hc
    rcases hw with hw | hw
    · rcases h a ⟨ha, hw⟩ b hb with h' | h'
      · rw [hl] at h'; cases h'
      · exact h'
    · rcases h b ⟨hb, hw⟩ a ha with h' | h'
      · rw [sameLoc_symm, hl] at h'; cases h'
      · rw [safePair_symm]; exact h'
  · intro h a ha b hb
    cases hl : sameLoc a b
    · exact Or.inl rfl
    · exact Or.inr (h a ha.1 b hb (by simp [conflict, hl, ha.2]))

/-- `raceFree` is exactly: every conflicting pair of accesses made while the object is shared is safe. -/
theorem raceFree_iff (cs : List String) (accs : List Acc) :
    raceFree cs accs = true ↔
      ∀ a ∈ shared cs accs, ∀ b ∈ shared cs accs, conflict a b = true → safePair a b = true :=
  pairsSafe_iff _

/-- Closure tables: every conflicting pair of accesses made by the captured-variable literals is safe. -/
theorem raceFreeClosures_iff (accs : List Acc) :
    raceFreeClosures accs = true ↔
      ∀ a ∈ accs, a.depth ≠ 0 → ∀ b ∈ accs, b.depth ≠ 0 → conflict a b = true → safePair a b = true := by
  unfold raceFreeClosures
  rw [pairsSafe_iff]
  simp only [List.mem_filter, bne_iff_ne, ne_eq, and_imp]

/-- Role tables: every conflicting pair of accesses of two different roles is safe. -/
theorem raceFreeRoles_iff (accs : List Acc) :
    raceFreeRoles accs = true ↔
      ∀ a ∈ accs, ∀ b ∈ accs, a.fn ≠ b.fn → conflict a b = true → safePair a b = true := by
  simp only [raceFreeRoles, List.all_eq_true, List.mem_filter, Bool.or_eq_true, Bool.not_eq_true', beq_iff_eq]
  constructor
  · intro h a ha b hb hne hc
    simp only [conflict, Bool.and_eq_true, Bool.or_eq_true] at hc
    obtain ⟨hl, hw⟩ := hc
    rcases hw with hw | hw
    · rcases h a ⟨ha, hw⟩ b hb with (h' | h') | h'
      · exact absurd h' hne
      · rw [hl] at h'; cases h'
      · exact h'
    · rcases h b ⟨hb, hw⟩ a ha with (h' | h') | h'
      · exact absurd h'.symm hne
      · rw [sameLoc_symm, hl] at h'; cases h'
      · rw [safePair_symm]; exact h'
  · intro h a ha b hb
    by_cases hfn : a.fn = b.fn
    · exact Or.inl (Or.inl hfn)
    · cases hl : sameLoc a b
      · exact Or.inl (Or.inr rfl)
      · exact Or.inr (h a ha.1 b hb hfn (by simp [conflict, hl, ha.2]))

/-- A safe pair is ordered by one of the three mechanisms. -/
theorem safePair_cases {a b : Acc} (h : safePair a b = true) :
    (a.atomic = true ∧ b.atomic = true) ∨
    (a.lock ≠ "" ∧ b.lock ≠ "" ∧ a.mutex = b.mutex ∧ (a.lock = "W" ∨ b.lock = "W")) ∨
    (b.fn ∈ a.ord ∨ a.fn ∈ b.ord) := by
  simp only [safePair, locked, ordered, Bool.or_eq_true, Bool.and_eq_true, bne_iff_ne, ne_eq, beq_iff_eq,
    List.contains_iff_mem] at h
  rcases h with (h | h) | h
  · exact Or.inl h
  · exact Or.inr (Or.inl ⟨h.1.1.1, h.1.1.2, h.1.2, h.2⟩)
  · exact Or.inr (Or.inr h)

/-- The reading of `raceFree` asked for in the property: every access to the CONTENTS of a reference-typed
    field (directly, through an alias, or by a reference that escaped) holds a mutex, or is atomic, or is
    ordered with every goroutine role that writes those contents, or nobody writes them once the object is
    shared (immutable after construction). -/
theorem raceFree_referentGuarded (cs : List String) (accs : List Acc) (h : raceFree cs accs = true) :
    referentGuarded cs accs = true := by
  rw [raceFree_iff] at h
  simp only [referentGuarded, List.all_eq_true, Bool.or_eq_true, bne_iff_ne, ne_eq, Bool.not_eq_true',
    Bool.and_eq_false_iff, beq_eq_false_iff_ne]
  intro a ha
  by_cases hobj : a.obj = "ref"
  · by_cases hlock : a.lock = ""
    · cases hat : a.atomic
      · refine Or.inr fun b hb => ?_
        by_cases hbo : b.obj = "ref"
        · by_cases hbr : b.region = a.region
          · cases hbw : b.write
            · exact Or.inl (Or.inr rfl)
            · have hc : conflict a b = true := by
                simp [conflict, sameLoc, hobj, hbo, hbr, hbw]
              have hs := h a ha b hb hc
              rcases safePair_cases hs with h1 | h1 | h1
              · rw [hat] at h1; cases h1.1
              · exact absurd hlock h1.1
              · refine Or.inr ?_
                simp only [ordered, Bool.or_eq_true, List.contains_iff_mem]
                exact h1
          · exact Or.inl (Or.inl (Or.inr hbr))
        · exact Or.inl (Or.inl (Or.inl hbo))
      · exact Or.inl (Or.inr rfl)
    · exact Or.inl (Or.inl (Or.inr hlock))
  · exact Or.inl (Or.inl (Or.inl hobj))

/-- `stageClass … ≠ "mutable"` unfolded: every write the evaluation-time code makes to the variable (or to what it
    refers to) is atomic / self-synchronised. -/
theorem stageClass_not_mutable_iff (accs : List Acc) (f : String) :
    stageClass accs f ≠ "mutable" ↔
      ∀ a ∈ accs, a.depth ≠ 0 → a.field = f → a.write = true → a.atomic = true := by
  unfold stageClass classOfWrites evalWrites
  simp only []
  constructor
  · intro h a ha hd hf hw
    have hm : a ∈ (accs.filter fun a => a.depth != 0 && a.write).filter fun a => a.field == f := by
      simp [List.mem_filter, ha, hd, hf, hw]
    split at h
    · rename_i h1
      rw [List.isEmpty_iff] at h1
      rw [h1] at hm
      cases hm
    · split at h
      · rename_i h2
        have := List.all_eq_true.mp h2 a hm
        simp at this
        exact this.1
      · split at h
        · rename_i h3
          exact List.all_eq_true.mp h3 a hm
        · exact absurd rfl h
  · intro h
    have h3 : (((accs.filter fun a => a.depth != 0 && a.write).filter fun a => a.field == f).all (·.atomic)) = true := by
      rw [List.all_eq_true]
      intro a ha
      simp only [List.mem_filter, Bool.and_eq_true, bne_iff_ne, ne_eq, beq_iff_eq] at ha
      exact h a ha.1.1 ha.1.2.1 ha.2 ha.1.2.2
    split
    · decide
    · split
      · decide
      · first | decide | (rw [if_pos h3]; decide)
end Rare.Lockset
