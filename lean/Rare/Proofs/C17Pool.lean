import Rare.Model.C17Pool
import Rare.Proofs.C17Loop
/-!
C17: the object pool (`pkg/slicepool/objpool.go`) under ANY order of `Get` and `Return`.

`World` = the pool plus the set of objects currently checked out.  A step is a `Get` by anybody or the `Return`
of an object that is checked out (clients return what they got, once – every helper does so by `defer`,
`Gen.C17.poolEvents`); the ORDER of returns is arbitrary: evaluations on several goroutines finish in any order,
nested helpers return innermost first.  `Reach n` = all worlds reachable from `NewObjectPool(n)`.
-/
namespace Rare.C17
open Rare Rare.Expr Rare.C17Pool

structure World where
  pool : Pool
  held : List Nat

def World.new (n : Nat) : World := ⟨Pool.new n, []⟩

inductive Step : World → World → Prop
  | get (w : World) : Step w ⟨w.pool.get.2, w.pool.get.1 :: w.held⟩
  | ret (w : World) (o : Nat) (h : o ∈ w.held) : Step w ⟨w.pool.ret o, w.held.erase o⟩

inductive Reach (n : Nat) : World → Prop
  | init : Reach n (World.new n)
  | step {w w' : World} : Reach n w → Step w w' → Reach n w'

/-- No object is in two places, and every object has a number below `next`. -/
def Inv (w : World) : Prop :=
  (w.pool.free ++ w.held).Nodup ∧ ∀ o ∈ w.pool.free ++ w.held, o < w.pool.next

theorem inv_new (n : Nat) : Inv (World.new n) := by
  constructor
  · simp [World.new, Pool.new, List.nodup_range]
  · intro o ho
    simpa [World.new, Pool.new] using ho

theorem get_of_last {p : Pool} {o : Nat} (h : p.free.getLast? = some o) :
    p.get = (o, { p with free := p.free.dropLast }) := by
  simp [Pool.get, h]

theorem get_of_empty {p : Pool} (h : p.free.getLast? = none) :
    p.get = (p.next, { p with next := p.next + 1 }) := by
  simp [Pool.get, h]

theorem inv_step {w w' : World} (hi : Inv w) (hs : Step w w') : Inv w' := by
  obtain ⟨hn, hb⟩ := hi
  cases hs with
  | get =>
    cases hl : w.pool.free.getLast? with
    | none =>
      have hf : w.pool.free = [] := List.getLast?_eq_none_iff.mp hl
      rw [get_of_empty hl]
      simp only [hf, List.nil_append] at hn hb ⊢
      constructor
      · simp only [List.nil_append]
        exact List.nodup_cons.mpr ⟨fun hm => Nat.lt_irrefl _ (hb _ hm), hn⟩
      · intro o ho
        simp only [List.nil_append, List.mem_cons] at ho
        rcases ho with rfl | ho
        · exact Nat.lt_succ_self _
        · exact Nat.lt_succ_of_lt (hb o ho)
    | some o =>
      have hd : w.pool.free.dropLast ++ [o] = w.pool.free := by
        obtain ⟨ys, hy⟩ := List.getLast?_eq_some_iff.mp hl
        rw [hy]; simp
      rw [get_of_last hl]
      have e : w.pool.free.dropLast ++ o :: w.held = w.pool.free ++ w.held := by
        rw [← hd]; simp
      exact ⟨by simpa only [e] using hn, by simpa only [e] using hb⟩
  | ret o h =>
    have hp : (w.pool.free ++ [o] ++ w.held.erase o).Perm (w.pool.free ++ w.held) := by
      rw [List.append_assoc]
      exact List.Perm.append_left _ (List.perm_cons_erase h).symm
    constructor
    · exact hp.nodup_iff.mpr hn
    · intro x hx
      exact hb x (hp.subset hx)

theorem inv_reach {n : Nat} {w : World} (h : Reach n w) : Inv w := by
  induction h with
  | init => exact inv_new n
  | step _ hs ih => exact inv_step ih hs

/-- `Return(o)` followed by `Get()` hands `o` out again and leaves the pool as it was. -/
theorem ret_get (p : Pool) (o : Nat) : (p.ret o).get = (o, p) := by
  simp [Pool.ret, Pool.get]

/-! ### the fields of a pooled `subContext` -/

/-- A `subContext` object as it lies in the pool: whatever its last user left in it. -/
structure SubObj where
  parent : Ctx
  v0 : Bytes
  v1 : Bytes

/-- `*obj = subContext{parent: context}` -/
def SubObj.reset (_stale : SubObj) (ctx : Ctx) : SubObj := ⟨ctx, [], []⟩

/-- `obj.Eval(stage, v0, v1)`: both values are stored, then the stage runs against the object. -/
def SubObj.eval (o : SubObj) (st : Stage) (a b : Bytes) : Except String Bytes × SubObj :=
  (st.run (subCtx o.parent a b), { o with v0 := a, v1 := b })

/-! ### checks over the generated tables (`Gen/C17.lean`) -/

/-- The use a helper may make of the pool: nothing, or – inside the closure that is run per evaluation –
    `Get`, deferred `Return` of the same object, the overwrite `*obj = subContext{parent: context}` (every field
    not named is zeroed by Go), and then only `Eval` calls on that object. -/
def disciplined : List (String × String × String) → Bool
  | [] => true
  | (k1, v1, _) :: (k2, v2, _) :: (k3, v3, d3) :: evals =>
    k1 == "get" && k2 == "defer-return" && v2 == v1 && k3 == "reset" && v3 == v1 && d3 == "parent=context" &&
      !evals.isEmpty && evals.all fun e => e.1 == "eval" && e.2.1 == v1
  | _ => false

/-- `<ARGN>`: the builder rejected the number of arguments. -/
def isArgCountErr : Except String Built → Bool
  | .ok ⟨_, some "argcount"⟩ => true
  | _ => false

end Rare.C17
