import Rare.Proofs.C19Pool
/-!
C19, round 4b: the look-ups of the COMPILED expression are the variable occurrences of the PARSE TREE.

`kfmath_badtype_iff` (round 4) speaks about `Pool.lookups e`, the look-ups of the expression the code built
(after compile-time folding).  Here: folding removes only sub-formulas without any variable (`simplify`
keeps the expression whenever its probe counted a look-up), so `Pool.lookups e` is exactly the list of
variable occurrences of the ghost parse tree – in the order of the formula text, groups entered, nothing
dropped by `0 * x`, `0 && x` or `1 || x` (no algebraic simplification, no short circuit).
-/
namespace Rare.C19
open Rare.C19.Pool

variable {α : Type} (A : Arith α)

/- `Atom.vars`, `Tree.vars`, `Expr.vars` are defined in `Model/C19Pool.lean` (the driver's `look` op prints them). -/

theorem lookups_eq_vars (e : Expr F64) : lookups e = e.vars := by
  induction e with
  | val v => rfl
  | named n => rfl
  | idx i => rfl
  | un m e ih => simp only [lookups, Expr.vars, ih]
  | bin op l r ihl ihr => simp only [lookups, Expr.vars, ihl, ihr]

/-- The simplifier's probe counts exactly the look-ups. -/
theorem probe_hits (e : Expr α) : (e.probe A).2 = e.vars.length := by
  induction e with
  | val v => rfl
  | named n => rfl
  | idx i => rfl
  | un m e ih => simp only [Expr.probe, Expr.vars, ih]
  | bin op l r ihl ihr => simp only [Expr.probe, Expr.vars, ihl, ihr, List.length_append]

/-- `simplify` keeps every look-up: it folds only what has none. -/
theorem simplify_vars (e : Expr α) : (simplify A e).vars = e.vars := by
  unfold simplify
  by_cases h : (e.probe A).2 = 0
  · simp only [h, if_true, Expr.vars]
    rw [probe_hits] at h
    exact (List.eq_nil_of_length_eq_zero h).symm
  · simp only [h, if_false]

theorem ofAtom_vars (a : Atom α) : (Expr.ofAtom a).vars = a.vars := by
  cases a <;> rfl

/-- Hypothesis on the group compiler. -/
def HcgV (cg : Bytes → Except Err (Parsed α)) : Prop :=
  ∀ s t e, cg s = .ok (t, e) → e.vars = t.vars (classify A)

theorem getNextExpr_vars {cg : Bytes → Except Err (Parsed α)} (hcg : HcgV A cg) :
    ∀ (toks : List Token) (t : Tree) (e : Expr α) (rest : List Token),
      getNextExpr A cg toks = .ok ((t, e), rest) → e.vars = t.vars (classify A) := by
  intro toks
  induction toks with
  | nil => intro t e rest h; simp [getNextExpr] at h
  | cons tk tl ih =>
    intro t e rest h
    obtain ⟨val, ty⟩ := tk
    cases ty with
    | lit =>
      simp only [getNextExpr] at h
      cases hc : classifyE A val with
      | error err => rw [hc] at h; cases h
      | ok a =>
        rw [hc] at h
        injection h with h
        injection h with h1 h2
        injection h1 with ht he
        subst ht; subst he
        simp only [Tree.vars, classify, hc, ofAtom_vars]
    | group =>
      simp only [getNextExpr] at h
      cases hc : cg val with
      | error err => rw [hc] at h; cases h
      | ok r =>
        obtain ⟨t0, e0⟩ := r
        rw [hc] at h
        injection h with h
        injection h with h1 h2
        injection h1 with ht he
        subst ht; subst he
        simp only [Tree.vars]
        exact hcg _ _ _ hc
    | mod =>
      simp only [getNextExpr] at h
      cases hc : getNextExpr A cg tl with
      | error err => rw [hc] at h; cases h
      | ok r =>
        obtain ⟨⟨t0, e0⟩, rest0⟩ := r
        rw [hc] at h
        injection h with h
        injection h with h1 h2
        injection h1 with ht he
        subst ht; subst he
        simp only [Tree.vars, Expr.vars]
        exact ih _ _ _ hc
    | op => simp [getNextExpr] at h

theorem climb_vars {cg : Bytes → Except Err (Parsed α)} (hcg : HcgV A cg) :
    ∀ (f : Nat) (last : Bytes) (t : Tree) (e : Expr α) (toks : List Token)
      (t' : Tree) (e' : Expr α) (rest' : List Token),
      climb A cg f last (t, e) toks = .ok ((t', e'), rest') →
      e.vars = t.vars (classify A) → e'.vars = t'.vars (classify A) := by
  intro f
  induction f with
  | zero => intro last t e toks t' e' rest' h; simp [climb] at h
  | succ f ih =>
    intro last t e toks t' e' rest' h g
    cases toks with
    | nil =>
      simp only [climb] at h
      injection h with h
      injection h with h1 h2
      injection h1 with ht he
      subst ht; subst he
      rw [simplify_vars]; exact g
    | cons tk rest =>
      simp only [climb] at h
      cases hop : getNextOp tk with
      | error err => rw [hop] at h; cases h
      | ok oc =>
        obtain ⟨op, c⟩ := oc
        rw [hop] at h
        simp only at h
        cases hord : opCodeOrder last op with
        | error err => rw [hord] at h; cases h
        | ok ord =>
          rw [hord] at h
          simp only at h
          by_cases h1 : ord = 1
          · subst h1
            simp only [if_true] at h
            cases hne : getNextExpr A cg (if c = true then rest else tk :: rest) with
            | error err => rw [hne] at h; cases h
            | ok r1 =>
              obtain ⟨⟨t1, e1⟩, toks1⟩ := r1
              rw [hne] at h
              simp only at h
              have g1 := getNextExpr_vars A hcg _ _ _ _ hne
              cases hc1 : climb A cg f op (t1, e1) toks1 with
              | error err => rw [hc1] at h; cases h
              | ok r2 =>
                obtain ⟨⟨t2, e2⟩, toks2⟩ := r2
                rw [hc1] at h
                simp only at h
                have g2 := ih op t1 e1 toks1 t2 e2 toks2 hc1 g1
                refine ih last (Tree.bin (!c) op t t2) _ toks2 t' e' rest' h ?_
                simp only [Expr.vars, Tree.vars, simplify_vars, g, g2]
          · simp only [h1, if_false] at h
            injection h with h
            injection h with h1' h2
            injection h1' with ht he
            subst ht; subst he
            exact g

theorem compileTokens_vars {cg : Bytes → Except Err (Parsed α)} (hcg : HcgV A cg)
    (toks : List Token) (t : Tree) (e : Expr α)
    (h : compileTokens A cg toks = .ok (t, e)) : e.vars = t.vars (classify A) := by
  simp only [compileTokens] at h
  cases hne : getNextExpr A cg toks with
  | error err => rw [hne] at h; cases h
  | ok r1 =>
    obtain ⟨⟨t1, e1⟩, rest⟩ := r1
    rw [hne] at h
    simp only at h
    have g1 := getNextExpr_vars A hcg _ _ _ _ hne
    cases hc : climb A cg (rest.length + 1) [] (t1, e1) rest with
    | error err => rw [hc] at h; cases h
    | ok r2 =>
      obtain ⟨⟨t2, e2⟩, rest2⟩ := r2
      rw [hc] at h
      injection h with h
      injection h with ht he
      subst ht; subst he
      exact climb_vars A hcg _ _ _ _ _ _ _ _ hc g1

theorem compileF_vars : ∀ (f : Nat) (s : Bytes) (t : Tree) (e : Expr α),
    compileF A f s = .ok (t, e) → e.vars = t.vars (classify A) := by
  intro f
  induction f with
  | zero => intro s t e h; simp [compileF] at h
  | succ f ih =>
    intro s t e h
    simp only [compileF] at h
    cases htk : tokenize s with
    | error err => rw [htk] at h; cases h
    | ok toks =>
      rw [htk] at h
      simp only at h
      exact compileTokens_vars A (cg := compileF A f) ih toks t e h

/-- The variable occurrences of a tree, read off its TOKENS: the literal tokens of the flattening that
    denote a variable, and recursively those of every group's parse. -/
theorem compile_vars (s : Bytes) (t : Tree) (e : Expr α) (h : compile A s = .ok (t, e)) :
    e.vars = t.vars (classify A) := compileF_vars A _ s t e h

end Rare.C19
