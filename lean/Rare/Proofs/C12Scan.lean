import Rare.Proofs.C12Parse
import Rare.Spec.C12Grammar
/-! The one-pass recogniser `scanPattern` of `Spec/C12Grammar.lean` on the text of a pattern. -/
namespace Rare.C12

theorem scan_lit_nil (a e : Bool) (seen : List Bytes) : scanPattern (.lit a e) seen [] = true := by
  simp [scanPattern]

/-- scanning a literal (no `%{` in it) in front of the end of the text or of a token opener -/
theorem scan_lit (seen : List Bytes) (rest : Bytes) (hr : RestOK rest) : ∀ (lead : Bytes) (a e : Bool),
    NoTok lead →
    scanPattern (.lit a e) seen (lead ++ rest) = scanPattern (.lit a (e && lead.isEmpty)) seen rest := by
  intro lead
  induction lead with
  | nil => intro a e _; simp
  | cons c l ih =>
    intro a e hl
    obtain ⟨h1, h2⟩ := noTok_cons.mp hl
    simp only [List.isEmpty_cons, Bool.and_false]
    cases hlr : l ++ rest with
    | nil =>
      have hl0 : l = [] := (List.append_eq_nil_iff.mp hlr).1
      have hr0 : rest = [] := (List.append_eq_nil_iff.mp hlr).2
      subst hl0 hr0
      simp [scanPattern]
    | cons d r =>
      have hno : ¬ (c = pct ∧ d = lbrace) := by
        rintro ⟨rfl, rfl⟩
        cases l with
        | nil =>
          simp only [List.nil_append] at hlr
          rcases hr with h | ⟨Y, h⟩
          · rw [h] at hlr; cases hlr
          · rw [h] at hlr
            have : pct = lbrace := by simpa using (List.cons.inj hlr).1
            exact absurd this (by decide)
        | cons d' l' =>
          have : d' = lbrace := by simpa using (List.cons.inj hlr).1
          subst this
          simp [List.isPrefixOf] at h1
      have := ih a false h2
      rw [hlr] at this
      show scanPattern (.lit a e) seen (c :: (l ++ rest)) = _
      rw [hlr]
      simp only [scanPattern, if_neg hno]
      rw [this]
      simp

/-- the action at the closing `}` of a token whose key is `k` -/
def closeKey (k : Bytes) (seen : List Bytes) (r : Bytes) : Bool :=
  let t : Tok := ⟨k, []⟩
  if t.skip then scanPattern (.lit true true) seen r
  else if t.name ∈ seen then false
  else scanPattern (.lit true true) (t.name :: seen) r

theorem scan_key (seen : List Bytes) (r : Bytes) : ∀ (key acc : Bytes), rbrace ∉ key →
    scanPattern (.key acc) seen (key ++ rbrace :: r) = closeKey (acc ++ key) seen r := by
  intro key
  induction key with
  | nil => intro acc _; simp [scanPattern, closeKey]
  | cons c l ih =>
    intro acc h
    have hc : ¬ c = rbrace := by intro e; apply h; simp [e]
    have hl : rbrace ∉ l := by intro e; apply h; simp [e]
    simp only [List.cons_append, scanPattern, if_neg hc]
    rw [ih (acc ++ [c]) hl]
    simp

theorem scan_key_unclosed (seen : List Bytes) : ∀ (junk acc : Bytes), rbrace ∉ junk →
    scanPattern (.key acc) seen junk = false := by
  intro junk
  induction junk with
  | nil => intro acc _; simp [scanPattern]
  | cons c l ih =>
    intro acc h
    have hc : ¬ c = rbrace := by intro e; apply h; simp [e]
    have hl : rbrace ∉ l := by intro e; apply h; simp [e]
    simp only [scanPattern, if_neg hc]
    exact ih _ hl

/-- a token opener in literal state -/
theorem scan_open (a e : Bool) (seen : List Bytes) (X : Bytes) :
    scanPattern (.lit a e) seen ([pct, lbrace] ++ X) = (if a && e then false else scanPattern (.key []) seen X) := by
  simp [scanPattern]

/-- the recogniser on the tokens of a pattern text: it rejects exactly when `specErrors` reports an
error (the adjacency test is made one token later: at the opener that follows an empty delimiter) -/
theorem scan_toks (tail : Option Bytes) (htail : ∀ j, tail = some j → rbrace ∉ j) :
    ∀ (toks : List Tok) (a e : Bool) (seen : List Bytes),
    (∀ t ∈ toks, rbrace ∉ t.key ∧ NoTok t.lit) →
    scanPattern (.lit a e) seen (restText toks tail) =
      (!(a && e && (!toks.isEmpty || tail.isSome)) && (specErrors tail.isSome toks seen).isNone) := by
  intro toks
  induction toks with
  | nil =>
    intro a e seen _
    cases tail with
    | none => simp [restText, tailText, scanPattern, specErrors]
    | some j =>
      simp only [restText, tailText, List.map_nil, List.flatten_nil, List.nil_append, scan_open,
        scan_key_unclosed seen j [] (htail j rfl), specErrors]
      simp
  | cons t ts ih =>
    intro a e seen hts
    have ht := hts t (by simp)
    have hts' : ∀ t ∈ ts, rbrace ∉ t.key ∧ NoTok t.lit := fun x hx => hts x (by simp [hx])
    have e0 : restText (t :: ts) tail = [pct, lbrace] ++ (t.key ++ rbrace :: (t.lit ++ restText ts tail)) := by
      simp [restText_cons, Tok.render]
    rw [e0, scan_open]
    by_cases hae : (a && e) = true
    · simp [hae]
    · simp only [hae, Bool.false_eq_true, if_false]
      have hae' : (a && e) = false := by simpa using hae
      rw [scan_key seen _ t.key [] ht.1]
      simp only [List.nil_append, closeKey]
      have hskip : Tok.skip ⟨t.key, []⟩ = t.skip := rfl
      have hname : Tok.name ⟨t.key, []⟩ = t.name := rfl
      rw [hskip, hname]
      have hscan : ∀ seen', scanPattern (.lit true true) seen' (t.lit ++ restText ts tail) =
          (!(t.lit.isEmpty && (!ts.isEmpty || tail.isSome)) && (specErrors tail.isSome ts seen').isNone) := by
        intro seen'
        rw [scan_lit seen' _ (restText_ok ts tail) t.lit true true ht.2, ih true _ seen' hts']
        simp
      simp only [specErrors, List.isEmpty_cons, Bool.not_false, Bool.true_or, Bool.and_true,
        Bool.true_and]
      have hseqB : (t.lit = [] ∧ (ts ≠ [] ∨ tail.isSome = true)) ↔
          (t.lit.isEmpty && (!ts.isEmpty || tail.isSome)) = true := by
        simp [List.isEmpty_iff]
      by_cases hseq : t.lit = [] ∧ (ts ≠ [] ∨ tail.isSome = true)
      · have hb := hseqB.mp hseq
        rw [if_pos hseq]
        by_cases hsk : t.skip = true
        · simp [hsk, hscan, hb]
        · have hsk' : t.skip = false := by simpa using hsk
          by_cases hc : t.name ∈ seen
          · simp [hsk', hc]
          · simp [hsk', hc, hscan, hb]
      · have hb : (t.lit.isEmpty && (!ts.isEmpty || tail.isSome)) = false := by
          rw [Bool.eq_false_iff]; exact fun h => hseq (hseqB.mpr h)
        rw [if_neg hseq]
        by_cases hsk : t.skip = true
        · simp [hsk, hscan, hb]
        · have hsk' : t.skip = false := by simpa using hsk
          by_cases hc : t.name ∈ seen
          · simp [hsk', hc]
          · simp [hsk', hc, hscan, hb]

/-- the recogniser on an arbitrary text, through its (total) parse -/
theorem accepts_render (p : Pat) (hp : p.Shape) (tail : Option Bytes) (htail : ∀ j, tail = some j → rbrace ∉ j) :
    acceptsPattern (p.render ++ tailText tail) = (specErrors tail.isSome p.toks []).isNone := by
  have he : p.render ++ tailText tail = p.pre ++ restText p.toks tail := by
    simp [Pat.render, restText]
  unfold acceptsPattern
  rw [he, scan_lit [] _ (restText_ok p.toks tail) p.pre false true hp.1, scan_toks tail htail p.toks _ _ [] hp.2]
  simp

/-- **the recogniser agrees with `CompileEx`** (either mode) -/
theorem accepts_iff_compiles (s : Bytes) (ic : Bool) :
    acceptsPattern s = true ↔ ∃ d, compileEx s ic = .ok d := by
  obtain ⟨p, tail, hp, ht, hs⟩ := parse_total s
  rw [hs, accepts_render p hp tail ht, compileEx_render ic p hp tail ht]
  cases specErrors tail.isSome p.toks [] with
  | none => simp
  | some e => simp

end Rare.C12
