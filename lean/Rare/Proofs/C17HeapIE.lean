import Rare.Proofs.C17HeapI
import Rare.Proofs.C17DenE
/-!
C17: the interleaved heap machine agrees with `valE` on EVERY template (panicking leaves included), under every
interference that obeys `Rely` – `evI_valE`, the schedule-level counterpart of `ev_valE`.
-/
namespace Rare.C17
open Rare Rare.Expr Rare.Expr.Funcs.Range Rare.C17Pool Rare.C17Heap Rare.C17HeapI

def AgreeI (r : ResI) (e : Except String Bytes) (h : HeapI) : Prop :=
  match e with
  | .ok v => ∃ h', r = .ok (v, h') ∧ FrameI h h' []
  | .error m => r = .error m

def SubOkIE (env : HeapI → HeapI) (root ctx : Ctx) (evf : Ref → HeapI → ResI) (o : Nat) (l : List Nat)
    (F : Bytes → Bytes → Except String Bytes) : Prop :=
  ∀ h a b, LoopInvI root ctx o l h →
    AgreeI (evf (.obj o) (pause env (h.setVals o a b))) (F a b) (h.setVals o a b)

theorem objLoopI_specE {σ : Type} (env : HeapI → HeapI) (root ctx : Ctx) (evf : Ref → HeapI → ResI) (o : Nat)
    (l : List Nat) (F : Bytes → Bytes → Except String Bytes) (hsub : SubOkIE env root ctx evf o l F)
    (args : σ → Bytes → Bytes × Bytes) (upd : σ → Bytes → Bytes → σ) :
    ∀ (xs : List Bytes) (s : σ) (h : HeapI), LoopInvI root ctx o l h →
      match loopE F args upd xs s with
      | .ok s' => ∃ h', objLoopI env evf o args upd xs s h = .ok (s', h') ∧ LoopInvI root ctx o l h' ∧ FrameI h h' [o]
      | .error m => objLoopI env evf o args upd xs s h = .error m
  | [], s, h, hi => ⟨h, rfl, hi, FrameI.refl h hi.1.inv _⟩
  | x :: xs, s, h, hi => by
    have hs := hsub h (args s x).1 (args s x).2 hi
    simp only [loopE, objLoopI]
    cases hF : F (args s x).1 (args s x).2 with
    | error m =>
      simp only [AgreeI, hF] at hs
      simp only [hs]
    | ok y =>
      simp only [AgreeI, hF] at hs
      obtain ⟨h1, e1, f1⟩ := hs
      obtain ⟨hi1, fr1⟩ := loopInvI_step hi _ _ f1
      have ih := objLoopI_specE env root ctx evf o l F hsub args upd xs (upd s x y) h1 hi1
      simp only [e1]
      cases hL : loopE F args upd xs (upd s x y) with
      | error m => simp only [hL] at ih; exact ih
      | ok s' =>
        simp only [hL] at ih
        obtain ⟨h2, e2, hi2, fr2⟩ := ih
        exact ⟨h2, e2, hi2, fr1.trans fr2⟩

theorem forLoopHI_specE (env : HeapI → HeapI) (root ctx : Ctx) (evc evn : Ref → HeapI → ResI) (o : Nat) (l : List Nat)
    (Fc Fn : Bytes → Bytes → Except String Bytes) (hc : SubOkIE env root ctx evc o l Fc)
    (hn : SubOkIE env root ctx evn o l Fn) :
    ∀ (fuel idx : Nat) (v : Bytes) (acc : List Bytes) (h : HeapI), LoopInvI root ctx o l h →
      match forE Fc Fn fuel idx v acc with
      | .ok r => ∃ h', forLoopHI env evc evn o fuel idx v acc h = .ok (r, h') ∧ LoopInvI root ctx o l h' ∧ FrameI h h' [o]
      | .error m => forLoopHI env evc evn o fuel idx v acc h = .error m
  | 0, idx, v, acc, h, _ => rfl
  | fuel + 1, idx, v, acc, h, hi => by
    have hcs := hc h v (itoa (idx : Nat)) hi
    simp only [forE, forLoopHI]
    cases hFc : Fc v (itoa (idx : Nat)) with
    | error m =>
      simp only [AgreeI, hFc] at hcs
      simp only [hcs]
    | ok c =>
      simp only [AgreeI, hFc] at hcs
      obtain ⟨h1, e1, f1⟩ := hcs
      obtain ⟨hi1, fr1⟩ := loopInvI_step hi _ _ f1
      simp only [e1]
      by_cases ht : truthy c = true
      · simp only [ht, Bool.not_true, Bool.false_eq_true, if_false]
        have hns := hn h1 v (itoa (idx : Nat)) hi1
        cases hFn : Fn v (itoa (idx : Nat)) with
        | error m =>
          simp only [AgreeI, hFn] at hns
          simp only [hns]
        | ok v' =>
          simp only [AgreeI, hFn] at hns
          obtain ⟨h2, e2, f2⟩ := hns
          obtain ⟨hi2, fr2⟩ := loopInvI_step hi1 _ _ f2
          simp only [e2]
          by_cases hmax : idx + 1 > Gen.maxIterations
          · simp only [hmax, if_true]
            exact ⟨h2, rfl, hi2, fr1.trans fr2⟩
          · simp only [hmax, if_false]
            have ih := forLoopHI_specE env root ctx evc evn o l Fc Fn hc hn fuel (idx + 1) v' (acc ++ [v]) h2 hi2
            cases hR : forE Fc Fn fuel (idx + 1) v' (acc ++ [v]) with
            | error m => simp only [hR] at ih; exact ih
            | ok r =>
              simp only [hR] at ih
              obtain ⟨h3, e3, hi3, fr3⟩ := ih
              exact ⟨h3, e3, hi3, (fr1.trans fr2).trans fr3⟩
      · have ht' : truthy c = false := by simpa using ht
        simp only [ht', Bool.not_false, if_true]
        exact ⟨h1, rfl, hi1, fr1⟩

def EvOkIE (env : HeapI → HeapI) (root : Ctx) (fuel : Nat) (t : Tm) : Prop :=
  ∀ (ref : Ref) (h : HeapI) (l : List Nat), GoodI h l ref → l.length + depth t < fuel →
    AgreeI (evI env root fuel t ref h) (valE t (ctxOf root h.objs l)) h

theorem subOkIE_of_evOkIE {env : HeapI → HeapI} (henv : ∀ h, Rely h (env h)) {root : Ctx} {fuel : Nat} {f : Tm}
    (ih : EvOkIE env root fuel f) (ctx : Ctx) (o : Nat) (l : List Nat) (hlen : (o :: l).length + depth f < fuel) :
    SubOkIE env root ctx (evI env root fuel f) o l (fun a b => valE f (subCtx ctx a b)) := by
  intro h a b hi
  obtain ⟨g1, _, hc, _⟩ := setVals_goodI hi.1 a b
  have fp := frame_pause henv (h.setVals o a b) g1.inv []
  have := ih (.obj o) (pause env (h.setVals o a b)) (o :: l) (g1.frame fp (by simp)) hlen
  rw [ctxOf_frameI root g1 fp (by simp), hc root, hi.2] at this
  cases hF : valE f (subCtx ctx a b) with
  | error m => simp only [AgreeI, hF] at this ⊢; exact this
  | ok v =>
    simp only [AgreeI, hF] at this ⊢
    obtain ⟨h', e, fr⟩ := this
    exact ⟨h', e, fp.trans fr⟩

theorem helperI_tail {σ : Type} {env : HeapI → HeapI} (henv : ∀ h, Rely h (env h)) {root : Ctx} {fuel : Nat} {f : Tm}
    (ihf : EvOkIE env root fuel f) {h0 h : HeapI} {l : List Nat} {ctx : Ctx} {o : Nat}
    (hi : LoopInvI root ctx o l h) (hlen : (o :: l).length + depth f < fuel)
    (args : σ → Bytes → Bytes × Bytes) (upd : σ → Bytes → Bytes → σ) (xs : List Bytes) (s : σ)
    (hrel : ∀ h3, FrameI h h3 [o] → FrameI h0 (releaseI env h3 o) []) :
    match loopE (fun a b => valE f (subCtx ctx a b)) args upd xs s with
    | .ok s' => ∃ h3, objLoopI env (evI env root fuel f) o args upd xs s h = .ok (s', h3) ∧
        FrameI h0 (releaseI env h3 o) []
    | .error m => objLoopI env (evI env root fuel f) o args upd xs s h = .error m := by
  have hsub := subOkIE_of_evOkIE henv ihf ctx o l hlen
  have := objLoopI_specE env root ctx _ o l _ hsub args upd xs s h hi
  cases hL : loopE (fun a b => valE f (subCtx ctx a b)) args upd xs s with
  | error m => simp only [hL] at this; exact this
  | ok s' =>
    simp only [hL] at this
    obtain ⟨h3, e3, _, fr3⟩ := this
    exact ⟨h3, e3, hrel h3 fr3⟩

theorem evI_valE {env : HeapI → HeapI} (henv : ∀ h, Rely h (env h)) (root : Ctx) (fuel : Nat) :
    ∀ (t : Tm), EvOkIE env root fuel t
  | .scalar c => by
    intro ref h l g hf
    obtain ⟨h', e, fr⟩ := runHI_chain henv root fuel l ref c h g (by simp [depth] at hf; omega)
    simp only [evI, valE, e]
    cases c.run (ctxOf root h.objs l) with
    | error m => rfl
    | ok v => exact ⟨h', rfl, fr⟩
  | .app1 gf a => by
    intro ref h l g hf
    have ha := evI_valE henv root fuel a ref h l g (by simpa [depth] using hf)
    simp only [evI, valE]
    cases hA : valE a (ctxOf root h.objs l) with
    | error m =>
      simp only [AgreeI, hA] at ha
      simp only [ha, AgreeI, Except.map]
    | ok x =>
      simp only [AgreeI, hA] at ha
      obtain ⟨h1, e1, f1⟩ := ha
      simp only [e1, AgreeI, Except.map]
      exact ⟨h1, rfl, f1⟩
  | .app2 gf a b => by
    intro ref h l g hf
    have hd : l.length + depth a < fuel ∧ l.length + depth b < fuel := by simp only [depth] at hf; omega
    have ha := evI_valE henv root fuel a ref h l g hd.1
    simp only [evI, valE]
    cases hA : valE a (ctxOf root h.objs l) with
    | error m =>
      simp only [AgreeI, hA] at ha
      simp only [ha, AgreeI]
    | ok x =>
      simp only [AgreeI, hA] at ha
      obtain ⟨h1, e1, f1⟩ := ha
      have hb := evI_valE henv root fuel b ref h1 l (g.frame f1 (by simp)) hd.2
      rw [ctxOf_frameI root g f1 (by simp)] at hb
      simp only [e1]
      cases hB : valE b (ctxOf root h.objs l) with
      | error m =>
        simp only [AgreeI, hB] at hb
        simp only [hb, AgreeI, Except.map]
      | ok y =>
        simp only [AgreeI, hB] at hb
        obtain ⟨h2, e2, f2⟩ := hb
        simp only [e2, AgreeI, Except.map]
        exact ⟨h2, rfl, f1.trans f2⟩
  | .map a f => by
    intro ref h l g hf
    have hd : l.length + depth a < fuel ∧ l.length + 1 + depth f < fuel := by simp only [depth] at hf; omega
    obtain ⟨g1, g1l, hctx1, hmo, hle, hmine, hkeep⟩ := acquireI_spec henv g (ref := ref)
    have ha := evI_valE henv root fuel a ref (acquireI env h ref).2 l g1l hd.1
    rw [hctx1 root] at ha
    simp only [evI, valE]
    cases hA : valE a (ctxOf root h.objs l) with
    | error m =>
      simp only [AgreeI, hA] at ha
      simp only [ha, AgreeI]
    | ok arr =>
      simp only [AgreeI, hA] at ha
      obtain ⟨h2, e2, fr2⟩ := ha
      simp only [e2]
      have hi2 : LoopInvI root (ctxOf root h.objs l) (acquireI env h ref).1 l h2 :=
        ⟨g1.frame fr2 (by simp), by rw [ctxOf_frameI root g1l fr2 (by simp), hctx1 root]⟩
      have ht := helperI_tail (h0 := h) henv (evI_valE henv root fuel f) hi2 (by simp; omega)
        (fun (_ : List Bytes) x => (x, [])) (fun s _ y => s ++ [y]) (elems arr) []
        (fun h3 fr3 => releaseI_frame henv hmo hle hmine (g1.mine _ (by simp)) hkeep
          ((fr2.mono (ex := [(acquireI env h ref).1])).trans fr3))
      cases hL : loopE (fun v0 v1 => valE f (subCtx (ctxOf root h.objs l) v0 v1)) (fun (_ : List Bytes) x => (x, []))
          (fun s _ y => s ++ [y]) (elems arr) [] with
      | error m =>
        simp only [hL] at ht
        simp only [ht, AgreeI, Except.map]
      | ok ys =>
        simp only [hL] at ht
        obtain ⟨h3, e3, fr⟩ := ht
        simp only [e3, AgreeI, Except.map]
        exact ⟨_, rfl, fr⟩
  | .filter a p => by
    intro ref h l g hf
    have hd : l.length + depth a < fuel ∧ l.length + 1 + depth p < fuel := by simp only [depth] at hf; omega
    have ha := evI_valE henv root fuel a ref h l g hd.1
    simp only [evI, valE]
    cases hA : valE a (ctxOf root h.objs l) with
    | error m =>
      simp only [AgreeI, hA] at ha
      simp only [ha, AgreeI]
    | ok arr =>
      simp only [AgreeI, hA] at ha
      obtain ⟨h1, e1, f1⟩ := ha
      simp only [e1]
      have g1 := g.frame f1 (by simp)
      have hc1 := ctxOf_frameI root g f1 (by simp)
      obtain ⟨ga, _, hctx, hmo, hle, hmine, hkeep⟩ := acquireI_spec henv g1 (ref := ref)
      have hi : LoopInvI root (ctxOf root h.objs l) (acquireI env h1 ref).1 l (acquireI env h1 ref).2 :=
        ⟨ga, by rw [hctx root, hc1]⟩
      have ht := helperI_tail (h0 := h) henv (evI_valE henv root fuel p) hi (by simp; omega)
        (fun (_ : List Bytes) x => (x, [])) (fun s x y => if truthy y then s ++ [x] else s) (elems arr) []
        (fun h3 fr3 => f1.trans (releaseI_frame henv hmo hle hmine (ga.mine _ (by simp)) hkeep fr3))
      cases hL : loopE (fun v0 v1 => valE p (subCtx (ctxOf root h.objs l) v0 v1)) (fun (_ : List Bytes) x => (x, []))
          (fun s x y => if truthy y then s ++ [x] else s) (elems arr) [] with
      | error m =>
        simp only [hL] at ht
        simp only [ht, AgreeI, Except.map]
      | ok ys =>
        simp only [hL] at ht
        obtain ⟨h3, e3, fr⟩ := ht
        simp only [e3, AgreeI, Except.map]
        exact ⟨_, rfl, fr⟩
  | .reduce init a f => by
    intro ref h l g hf
    have hd : l.length + depth a < fuel ∧ l.length + 1 + depth f < fuel := by simp only [depth] at hf; omega
    obtain ⟨g1, g1l, hctx1, hmo, hle, hmine, hkeep⟩ := acquireI_spec henv g (ref := ref)
    have ha := evI_valE henv root fuel a ref (acquireI env h ref).2 l g1l hd.1
    rw [hctx1 root] at ha
    simp only [evI, valE]
    cases hA : valE a (ctxOf root h.objs l) with
    | error m =>
      simp only [AgreeI, hA] at ha
      simp only [ha, AgreeI]
    | ok arr =>
      simp only [AgreeI, hA] at ha
      obtain ⟨h2, e2, fr2⟩ := ha
      simp only [e2]
      have hi2 : LoopInvI root (ctxOf root h.objs l) (acquireI env h ref).1 l h2 :=
        ⟨g1.frame fr2 (by simp), by rw [ctxOf_frameI root g1l fr2 (by simp), hctx1 root]⟩
      have ht := helperI_tail (h0 := h) henv (evI_valE henv root fuel f) hi2 (by simp; omega)
        (fun (memo : Bytes) x => (memo, x)) (fun _ _ y => y) (reduceStart init (elems arr)).2
        (reduceStart init (elems arr)).1
        (fun h3 fr3 => releaseI_frame henv hmo hle hmine (g1.mine _ (by simp)) hkeep
          ((fr2.mono (ex := [(acquireI env h ref).1])).trans fr3))
      have hrs : (if init = [] then ((elems arr).headD [], (elems arr).tail) else (init, elems arr) : Bytes × List Bytes) =
          reduceStart init (elems arr) := rfl
      simp only [hrs]
      cases hL : loopE (fun v0 v1 => valE f (subCtx (ctxOf root h.objs l) v0 v1)) (fun (memo : Bytes) x => (memo, x))
          (fun _ _ y => y) (reduceStart init (elems arr)).2 (reduceStart init (elems arr)).1 with
      | error m =>
        simp only [hL] at ht
        simp only [ht, AgreeI]
      | ok memo =>
        simp only [hL] at ht
        obtain ⟨h3, e3, fr⟩ := ht
        simp only [e3, AgreeI]
        exact ⟨_, rfl, fr⟩
  | .for_ s c n => by
    intro ref h l g hf
    have hd : l.length + depth s < fuel ∧ l.length + 1 + depth c < fuel ∧ l.length + 1 + depth n < fuel := by
      simp only [depth] at hf; omega
    have hs := evI_valE henv root fuel s ref h l g hd.1
    simp only [evI, valE]
    cases hS : valE s (ctxOf root h.objs l) with
    | error m =>
      simp only [AgreeI, hS] at hs
      simp only [hs, AgreeI]
    | ok v =>
      simp only [AgreeI, hS] at hs
      obtain ⟨h1, e1, f1⟩ := hs
      simp only [e1]
      have g1 := g.frame f1 (by simp)
      have hc1 := ctxOf_frameI root g f1 (by simp)
      obtain ⟨ga, _, hctx, hmo, hle, hmine, hkeep⟩ := acquireI_spec henv g1 (ref := ref)
      have hi : LoopInvI root (ctxOf root h.objs l) (acquireI env h1 ref).1 l (acquireI env h1 ref).2 :=
        ⟨ga, by rw [hctx root, hc1]⟩
      have hsc := subOkIE_of_evOkIE henv (evI_valE henv root fuel c) (ctxOf root h.objs l) (acquireI env h1 ref).1 l
        (by simp; omega)
      have hsn := subOkIE_of_evOkIE henv (evI_valE henv root fuel n) (ctxOf root h.objs l) (acquireI env h1 ref).1 l
        (by simp; omega)
      have hl := forLoopHI_specE env root _ _ _ _ l _ _ hsc hsn (Gen.maxIterations + 2) 0 v [] _ hi
      cases hR : forE (fun v0 v1 => valE c (subCtx (ctxOf root h.objs l) v0 v1))
          (fun v0 v1 => valE n (subCtx (ctxOf root h.objs l) v0 v1)) (Gen.maxIterations + 2) 0 v [] with
      | error m =>
        simp only [hR] at hl
        simp only [hl, AgreeI, Except.map]
      | ok r =>
        simp only [hR] at hl
        obtain ⟨h3, e3, _, fr3⟩ := hl
        have frf := f1.trans (releaseI_frame henv hmo hle hmine (ga.mine _ (by simp)) hkeep fr3)
        simp only [e3, AgreeI, Except.map]
        cases r with
        | none => exact ⟨_, rfl, frf⟩
        | some ys => exact ⟨_, rfl, frf⟩

end Rare.C17
