import Rare.Proofs.C13Model
/-! The per-mode statement: the built closure is faithful to the specified order of the rows, that
order sorts uniquely, hence the output is a function of the set of rows (helper for C13). -/
namespace Rare.C13

theorem inj_of_nodup_map {α β : Type} (f : α → β) :
    ∀ l : List α, (l.map f).Nodup → ∀ a ∈ l, ∀ b ∈ l, f a = f b → a = b
  | [], _, a, ha, _, _, _ => absurd ha (by simp)
  | x :: xs, hnd, a, ha, b, hb, e => by
    rw [List.map_cons, List.nodup_cons] at hnd
    rcases List.mem_cons.mp ha with h1 | h1 <;> rcases List.mem_cons.mp hb with h2 | h2
    · rw [h1, h2]
    · rw [h1] at e
      exact absurd (e ▸ List.mem_map_of_mem (f := f) h2) hnd.1
    · rw [h2] at e
      exact absurd (e ▸ List.mem_map_of_mem (f := f) h1) hnd.1
    · exact inj_of_nodup_map f xs hnd.2 a h1 b h2 e

theorem nodup_of_nodup_map {α β : Type} (f : α → β) : ∀ l : List α, (l.map f).Nodup → l.Nodup
  | [], _ => List.nodup_nil
  | x :: xs, h => by
    rw [List.map_cons, List.nodup_cons] at h
    exact List.nodup_cons.mpr ⟨fun hm => h.1 (List.mem_map_of_mem (f := f) hm), nodup_of_nodup_map f xs h.2⟩

/-- A name-level strict total order orders rows with distinct names. -/
theorem orderOn_rows {less : Key → Key → Bool} (h : StrictTotal less) (items : List NV)
    (hnd : (items.map (·.name)).Nodup) :
    OrderOn (· ∈ items) (fun a b : NV => less a.name b.name) :=
  OrderOn.comap (P := fun _ => True) (fun r : NV => r.name) h.toOrderOn (fun _ _ => trivial)
    (fun a b ha hb e => inj_of_nodup_map _ items hnd a ha b hb e)

theorem contextualSpec_strictTotal (o : Oracle) (sets : List SortSet) (keys : List Key) :
    StrictTotal (contextualSpec o sets keys) :=
  contextualSpecLess_strictTotal _ _ (numericSpec_strictTotal o) keys

theorem dateSpec_strictTotal (o : Oracle) (sets : List SortSet) (keys : List Key) :
    StrictTotal (dateSpec o sets keys) :=
  dateSpecLess_strictTotal _ _ _ (contextualSpec_strictTotal o sets keys) keys

/-- The specified order of every mode orders any rows with distinct names – no hypothesis on the data. -/
theorem modeSpec_orderOn (o : Oracle) (sets : List SortSet) (m : Mode) (items : List NV)
    (hnd : (items.map (·.name)).Nodup) : OrderOn (· ∈ items) (modeSpecLess o sets items m) := by
  cases m with
  | text => exact orderOn_rows bytesLt_strictTotal items hnd
  | numeric => exact orderOn_rows (numericSpec_strictTotal o) items hnd
  | contextual => exact orderOn_rows (contextualSpec_strictTotal o sets _) items hnd
  | date => exact orderOn_rows (dateSpec_strictTotal o sets _) items hnd
  | value => exact (valueLess_strictTotal.mono (fun _ _ => trivial)).toOrderOn

theorem rows_mem_name {items : List NV} {r : NV} (h : r ∈ items) : r.name ∈ items.map (·.name) :=
  List.mem_map_of_mem (f := fun r : NV => r.name) h

/-- The closure `lookupSorter` builds answers the specified order, on uniform data. -/
theorem modeSorter_faithful (o : Oracle) (sets : List SortSet) (m : Mode) (items : List NV)
    (hu : modeUniform o sets m (items.map (·.name)) = true) :
    Faithful (modeSorter o sets m).cmp (modeSorter o sets m).init (· ∈ items) (modeSpecLess o sets items m) := by
  cases m with
  | text =>
    exact ((faithful_pure byName (fun _ => True)).valueNil).mono (fun _ _ => trivial)
  | numeric =>
    exact (((faithful_pure (byNameSmart o.num) (fun _ => True)).congr
      (fun a b _ _ => byNameSmart_eq_numeric o.num a b)).valueNil).mono (fun _ _ => trivial)
  | contextual =>
    exact ((ctx_faithful o sets _ hu).valueNil).mono (fun _ h => rows_mem_name h)
  | date =>
    exact ((date_faithful o sets _ hu).valueNil).mono (fun _ h => rows_mem_name h)
  | value =>
    exact ⟨fun _ => True, trivial, fun (s : Unit) a b _ _ _ => by
      show (valueSorterEx (pureCmp byName) s a b).1 = valueLess a b ∧ True
      rw [valueSorterEx_byName]; exact ⟨rfl, trivial⟩⟩

/-- The sorter after the optional `Reverse`. -/
def finalSorter (o : Oracle) (sets : List SortSet) (m : Mode) (rev : Bool) : Sorter :=
  if rev then (modeSorter o sets m).reversed else modeSorter o sets m

def finalSpecLess (o : Oracle) (sets : List SortSet) (items : List NV) (m : Mode) (rev : Bool) : NV → NV → Bool :=
  if rev then revLess (modeSpecLess o sets items m) else modeSpecLess o sets items m

theorem finalSorter_faithful (o : Oracle) (sets : List SortSet) (m : Mode) (rev : Bool) (items : List NV)
    (hu : modeUniform o sets m (items.map (·.name)) = true) :
    Faithful (finalSorter o sets m rev).cmp (finalSorter o sets m rev).init (· ∈ items)
      (finalSpecLess o sets items m rev) := by
  cases rev with
  | false => exact modeSorter_faithful o sets m items hu
  | true => exact (modeSorter_faithful o sets m items hu).reverse

theorem finalSpec_orderOn (o : Oracle) (sets : List SortSet) (m : Mode) (rev : Bool) (items : List NV)
    (hnd : (items.map (·.name)).Nodup) : OrderOn (· ∈ items) (finalSpecLess o sets items m rev) := by
  cases rev with
  | false => exact modeSpec_orderOn o sets m items hnd
  | true => exact (modeSpec_orderOn o sets m items hnd).rev

/-- What `sort.Sort` (any algorithm meeting the contract) returns with the built closure: the
unique sorted arrangement of the rows under the specified order, computed by `isort`. -/
theorem sort_result (o : Oracle) (sets : List SortSet) (m : Mode) (rev : Bool)
    (alg : List NV → Algo NV (List NV)) (hc : SortContract alg)
    (items arrival : List NV) (hnd : (items.map (·.name)).Nodup) (hp : arrival.Perm items)
    (hu : modeUniform o sets m (items.map (·.name)) = true) :
    (Algo.run (finalSorter o sets m rev).cmp (finalSorter o sets m rev).init (alg arrival)).1
      = isort (finalSpecLess o sets items m rev) items := by
  have hf := (finalSorter_faithful o sets m rev items hu).mono (Q := (· ∈ arrival))
    (fun a h => hp.mem_iff.mp h)
  rw [hf.run_eq (alg arrival) (hc.within arrival)]
  have hndi : items.Nodup := nodup_of_nodup_map _ items hnd
  have hnda : arrival.Nodup := hp.nodup_iff.mpr hndi
  have ho := finalSpec_orderOn o sets m rev items hnd
  have hoa : OrderOn (· ∈ arrival) (finalSpecLess o sets items m rev) := ho.mono (fun a h => hp.mem_iff.mp h)
  rw [hc.result hnda hoa]
  exact isort_perm_invariant hnda hoa hp

/-- Reversing a sorted arrangement. -/
theorem isSorted_rev {α : Type} {less : α → α → Bool} {out keys : List α} (hnd : keys.Nodup)
    (ho : OrderOn (· ∈ keys) less) :
    IsSorted (revLess less) out keys ↔ IsSorted less out.reverse keys := by
  constructor
  · intro ⟨hp, hs⟩
    refine ⟨(List.reverse_perm out).trans hp, ?_⟩
    rw [List.pairwise_reverse]
    have hndo : out.Nodup := hp.nodup_iff.mpr hnd
    have := hs.and hndo
    refine this.imp_of_mem ?_
    intro a b ha hb ⟨h1, hne⟩
    rw [← ho.rev_eq a b (hp.mem_iff.mp ha) (hp.mem_iff.mp hb) hne]
    exact h1
  · intro ⟨hp, hs⟩
    have hp' : out.Perm keys := (List.reverse_perm out).symm.trans hp
    refine ⟨hp', ?_⟩
    rw [List.pairwise_reverse] at hs
    have hndo : out.Nodup := hp'.nodup_iff.mpr hnd
    have := hs.and hndo
    refine this.imp_of_mem ?_
    intro a b ha hb ⟨h1, hne⟩
    rw [ho.rev_eq a b (hp'.mem_iff.mp ha) (hp'.mem_iff.mp hb) hne]
    exact h1

end Rare.C13
