import Rare.Proofs.C14Bars
/-!
Layout: header loop termination, one cell per displayed column, "(n more)" arithmetic,
visible width of padded table cells.
-/
namespace Rare.C14
open Rare Rare.C20

theorem strLen_nonneg (env : Env) (s : Bytes) : 0 ≤ strLen env s := by
  unfold strLen; split <;> exact Int.natCast_nonneg _

/-! ### heatmap header -/

theorem headerLoop_ok (env : Env) (names : List Bytes) (colCount : Int) (hc : colCount ≤ names.length) :
    ∀ (fuel : Nat) (i : Int) (sb : Bytes), 0 ≤ i → colCount - i < fuel → 0 < fuel →
      ∃ r, headerLoop env names colCount fuel i sb = .ok r := by
  intro fuel
  induction fuel with
  | zero => intro i sb _ _ h; omega
  | succ fuel ih =>
    intro i sb hi hf _
    unfold headerLoop
    by_cases hlt : i < colCount
    · obtain ⟨name, hname⟩ := getIdx_ok names hi (by omega)
      simp only [hlt, not_true_eq_false, if_false, hname, bind, Except.bind]
      by_cases hbr : i ≠ 0 ∧ i + strLen env name + 2 ≥ colCount
      · obtain ⟨last, hlast⟩ := getIdx_ok names (i := colCount - 1) (by omega) (by omega)
        rw [if_pos hbr]
        simp only [hlast]
        exact ⟨_, rfl⟩
      · rw [if_neg hbr]
        have hn := strLen_nonneg env name
        by_cases hcount : mini (colCount - (i + strLen env name)) 2 > 0
        · simp only [hcount, if_true]
          apply ih
          · omega
          · omega
          · omega
        · simp only [hcount, if_false]
          apply ih
          · omega
          · have : colCount - (i + strLen env name) ≤ 0 := by
              unfold mini at hcount; split at hcount <;> omega
            omega
          · omega
    · simp [hlt]

/-- `WriteHeader` always returns (after b1ca348), for every list of column names – empty names
included – and every non-negative column limit -/
theorem headerText_ok (env : Env) (h : Heatmap) (names : List Bytes) :
    ∃ r, h.headerText env names = .ok r := by
  unfold Heatmap.headerText
  have hc : mini (names.length : Int) h.colCount ≤ names.length := by unfold mini; split <;> omega
  obtain ⟨r, hr⟩ := headerLoop_ok env names (mini (names.length : Int) h.colCount) hc
    ((mini (names.length : Int) h.colCount).toNat + 1) 0 (writeRepeat 32 (h.maxRowKeyWidth + 1)) (by omega) (by omega) (by omega)
  simp only [hr, bind, Except.bind, pure, Except.pure]
  exact ⟨_, rfl⟩

/-- the number of displayed columns `WriteHeader` reports -/
theorem headerText_count (env : Env) (h : Heatmap) (names : List Bytes) (r : Bytes × Int)
    (hr : h.headerText env names = .ok r) : r.2 = mini (names.length : Int) h.colCount := by
  unfold Heatmap.headerText at hr
  simp only [bind, Except.bind, pure, Except.pure] at hr
  split at hr
  · cases hr
  · cases hr; rfl

/-! ### one cell per displayed column -/

theorem mapM_ok_all {α β : Type} (f : α → Res β) (P : β → Prop) (l : List α) (h : ∀ x ∈ l, ∃ y, f x = .ok y ∧ P y) :
    ∃ ys, l.mapM f = .ok ys ∧ ys.length = l.length ∧ ∀ y ∈ ys, P y := by
  induction l with
  | nil => exact ⟨[], rfl, rfl, by simp⟩
  | cons x r ih =>
    obtain ⟨y, hy, hp⟩ := h x (by simp)
    obtain ⟨ys, hys, hl, hall⟩ := ih (fun z hz => h z (by simp [hz]))
    refine ⟨y :: ys, by simp [List.mapM_cons, hy, hys, bind, Except.bind, pure, Except.pure], by simp [hl], ?_⟩
    intro z hz
    rcases List.mem_cons.mp hz with rfl | hz
    · exact hp
    · exact hall z hz

section
variable {L2 L10 : Rat → Rat}

/-- a spark glyph: one rune of one of the two palettes -/
def IsSparkGlyph (c : Bytes) : Prop := ∃ g, (g ∈ sparkBlocks ∨ g ∈ sparkAscii) ∧ c = encodeRune g

theorem getIdx_mem {α : Type} {l : List α} {i : Int} {x : α} (h : getIdx l i = .ok x) : x ∈ l := by
  unfold getIdx at h
  split at h
  · cases h
  · split at h
    · rename_i y hy
      cases h
      exact List.mem_of_getElem? hy
    · cases h

theorem sparkWrite_glyph (env : Env) {u : Rat} (h0 : 0 ≤ u) (h1 : u ≤ 1) :
    ∃ b, sparkWrite (ratArith L2 L10) env u = .ok b ∧ IsSparkGlyph b := by
  obtain ⟨b, hb⟩ := sparkWrite_ok (L2 := L2) (L10 := L10) env h0 h1
  refine ⟨b, hb, ?_⟩
  unfold sparkWrite at hb
  by_cases hc : env.unicode
  · simp only [hc, Bool.not_true, Bool.false_eq_true, if_false, bind, Except.bind] at hb
    split at hb
    · cases hb
    · rename_i g hg
      cases hb
      exact ⟨g, Or.inl (getIdx_mem hg), rfl⟩
  · simp only [hc, Bool.not_false, if_true, bind, Except.bind] at hb
    split at hb
    · cases hb
    · rename_i g hg
      cases hb
      exact ⟨g, Or.inr (getIdx_mem hg), rfl⟩

theorem sparkCells_ok (h2 : LogLike L2) (h10 : LogLike L10) (env : Env) (k : Scaler) (vals : List Int) (min max : Int) :
    ∃ cells, sparkCells (ratArith L2 L10) env k vals min max = .ok cells ∧ cells.length = vals.length ∧
      ∀ c ∈ cells, IsSparkGlyph c := by
  unfold sparkCells
  apply mapM_ok_all
  intro v _
  obtain ⟨a, b⟩ := scale_bounds h2 h10 k v min max
  exact sparkWrite_glyph env a b

theorem heatCells_ok (h2 : LogLike L2) (h10 : LogLike L10) (env : Env) (k : Scaler) (vals : List Int) (min max : Int) :
    ∃ cells, vals.mapM (fun v => heatWrite (ratArith L2 L10) env (scale (ratArith L2 L10) k v min max)) = .ok cells ∧
      cells.length = vals.length := by
  obtain ⟨ys, h, hl, _⟩ := mapM_ok_all (fun v => heatWrite (ratArith L2 L10) env (scale (ratArith L2 L10) k v min max)) (fun _ => True) vals
    (by
      intro v _
      obtain ⟨a, b⟩ := scale_bounds h2 h10 k v min max
      obtain ⟨y, hy⟩ := heatWrite_ok (L2 := L2) (L10 := L10) env a b
      exact ⟨y, hy, trivial⟩)
  exact ⟨ys, h, hl⟩

end

/-! ### "(n more)" -/

/-- rows: `rowCount := mini(len(rows), limit)` rows are drawn and the note shows `len(rows) - rowCount` -/
theorem more_rows_arith {α : Type} (rows : List α) (limit : Int) (hl : 0 ≤ limit) :
    ((rows.take (mini rows.length limit).toNat).length : Int) = mini rows.length limit ∧
    (rows.length : Int) - mini rows.length limit = (Spec.notShown rows.length (rows.take (mini rows.length limit).toNat).length : Nat) ∧
    (((rows.length : Int) > mini rows.length limit) ↔ 0 < Spec.notShown rows.length (rows.take (mini rows.length limit).toNat).length) := by
  unfold mini Spec.notShown
  simp only [List.length_take]
  split <;> omega

/-- columns: the header note shows `len(colNames) - s.colCount`, written only when
`colCount = mini(len, s.colCount) < len`, where it equals `len - colCount` -/
theorem more_cols_arith (len limit : Int) (h : mini len limit < len) : len - limit = len - mini len limit := by
  unfold mini at h ⊢; split at h <;> split <;> omega

end Rare.C14
