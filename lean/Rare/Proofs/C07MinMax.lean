import Rare.Proofs.C07Table
/-! ComputeMinMax and Sum of a table built from samples. -/
namespace Rare.C07

def mmStep (r : TableRow) (acc : Int × Int) (c : Bytes) : Int × Int :=
  (if r.value c < acc.1 then r.value c else acc.1, if r.value c > acc.2 then r.value c else acc.2)

def mmInner (r : TableRow) (cs : List Bytes) (acc : Int × Int) : Int × Int := cs.foldl (mmStep r) acc
def mmOuter (rs : List TableRow) (cs : List Bytes) (acc : Int × Int) : Int × Int :=
  rs.foldl (fun acc r => mmInner r cs acc) acc

theorem computeMinMaxWith_eq (rs : List TableRow) (cs : List Bytes) :
    Table.computeMinMaxWith rs cs =
      if rs.length = 0 ∨ cs.length = 0 then (0, 0) else mmOuter rs cs (maxInt64, minInt64) := rfl

theorem mmInner_spec (r : TableRow) (cs : List Bytes) (acc : Int × Int) :
    (mmInner r cs acc).1 ≤ acc.1 ∧ (∀ c ∈ cs, (mmInner r cs acc).1 ≤ r.value c) ∧
    ((mmInner r cs acc).1 = acc.1 ∨ ∃ c ∈ cs, (mmInner r cs acc).1 = r.value c) ∧
    acc.2 ≤ (mmInner r cs acc).2 ∧ (∀ c ∈ cs, r.value c ≤ (mmInner r cs acc).2) ∧
    ((mmInner r cs acc).2 = acc.2 ∨ ∃ c ∈ cs, (mmInner r cs acc).2 = r.value c) := by
  induction cs generalizing acc with
  | nil => simp [mmInner]
  | cons c cs ih =>
    have h := ih (mmStep r acc c)
    have e : mmInner r (c :: cs) acc = mmInner r cs (mmStep r acc c) := rfl
    rw [e]
    obtain ⟨h1, h2, h3, h4, h5, h6⟩ := h
    have s1 : (mmStep r acc c).1 ≤ acc.1 ∧ (mmStep r acc c).1 ≤ r.value c ∧
        ((mmStep r acc c).1 = acc.1 ∨ (mmStep r acc c).1 = r.value c) := by
      simp only [mmStep]; split <;> omega
    have s2 : acc.2 ≤ (mmStep r acc c).2 ∧ r.value c ≤ (mmStep r acc c).2 ∧
        ((mmStep r acc c).2 = acc.2 ∨ (mmStep r acc c).2 = r.value c) := by
      simp only [mmStep]; split <;> omega
    refine ⟨by omega, ?_, ?_, by omega, ?_, ?_⟩
    · intro x hx
      rcases List.mem_cons.mp hx with rfl | hx
      · omega
      · exact h2 x hx
    · rcases h3 with h3 | ⟨x, hx, h3⟩
      · rcases s1.2.2 with s | s
        · left; omega
        · right; exact ⟨c, List.mem_cons_self, by omega⟩
      · right; exact ⟨x, List.mem_cons_of_mem _ hx, h3⟩
    · intro x hx
      rcases List.mem_cons.mp hx with rfl | hx
      · omega
      · exact h5 x hx
    · rcases h6 with h6 | ⟨x, hx, h6⟩
      · rcases s2.2.2 with s | s
        · left; omega
        · right; exact ⟨c, List.mem_cons_self, by omega⟩
      · right; exact ⟨x, List.mem_cons_of_mem _ hx, h6⟩

theorem mmOuter_spec (rs : List TableRow) (cs : List Bytes) (acc : Int × Int) :
    (mmOuter rs cs acc).1 ≤ acc.1 ∧ (∀ r ∈ rs, ∀ c ∈ cs, (mmOuter rs cs acc).1 ≤ r.value c) ∧
    ((mmOuter rs cs acc).1 = acc.1 ∨ ∃ r ∈ rs, ∃ c ∈ cs, (mmOuter rs cs acc).1 = r.value c) ∧
    acc.2 ≤ (mmOuter rs cs acc).2 ∧ (∀ r ∈ rs, ∀ c ∈ cs, r.value c ≤ (mmOuter rs cs acc).2) ∧
    ((mmOuter rs cs acc).2 = acc.2 ∨ ∃ r ∈ rs, ∃ c ∈ cs, (mmOuter rs cs acc).2 = r.value c) := by
  induction rs generalizing acc with
  | nil => simp [mmOuter]
  | cons r rs ih =>
    have e : mmOuter (r :: rs) cs acc = mmOuter rs cs (mmInner r cs acc) := rfl
    rw [e]
    obtain ⟨h1, h2, h3, h4, h5, h6⟩ := ih (mmInner r cs acc)
    obtain ⟨i1, i2, i3, i4, i5, i6⟩ := mmInner_spec r cs acc
    refine ⟨by omega, ?_, ?_, by omega, ?_, ?_⟩
    · intro x hx c hc
      rcases List.mem_cons.mp hx with rfl | hx
      · have := i2 c hc; omega
      · exact h2 x hx c hc
    · rcases h3 with h3 | ⟨x, hx, c, hc, h3⟩
      · rcases i3 with i3 | ⟨c, hc, i3⟩
        · left; omega
        · right; exact ⟨r, List.mem_cons_self, c, hc, by omega⟩
      · right; exact ⟨x, List.mem_cons_of_mem _ hx, c, hc, h3⟩
    · intro x hx c hc
      rcases List.mem_cons.mp hx with rfl | hx
      · have := i5 c hc; omega
      · exact h5 x hx c hc
    · rcases h6 with h6 | ⟨x, hx, c, hc, h6⟩
      · rcases i6 with i6 | ⟨c, hc, i6⟩
        · left; omega
        · right; exact ⟨r, List.mem_cons_self, c, hc, by omega⟩
      · right; exact ⟨x, List.mem_cons_of_mem _ hx, c, hc, h6⟩

theorem present_mono (sel sel' : Parsed → Bool) (hp : List Parsed) (h : ∀ p, sel p = true → sel' p = true)
    (hs : present sel hp = true) : present sel' hp = true := by
  simp only [present, List.any_eq_true, Bool.and_eq_true] at *
  obtain ⟨x, hx, h1, h2⟩ := hs
  exact ⟨x, hx, h1, h _ h2⟩

theorem total_inRange (sel : Parsed → Bool) (hp : List Parsed) :
    minInt64 ≤ total sel hp ∧ total sel hp ≤ maxInt64 := wrap64_inRange _

/-- In a table built from samples, a row's `Value(c)` is the cell total (0 for an absent cell). -/
theorem row_value (t : Table) (hp : List Parsed) (h : TableInv t hp) (r : Bytes) (row : TableRow)
    (hr : aget t.rows r = some row) (c : Bytes) : row.value c = total (selCell c r) hp := by
  have ok := h.rows r row hr
  unfold TableRow.value
  rw [ok.cells c]
  cases hc : present (selCell c r) hp with
  | true => simp
  | false => simp [total_of_not_present _ _ hc]

theorem minmax_spec (t : Table) (hp : List Parsed) (h : TableInv t hp) (rs : List TableRow) (cs : List Bytes)
    (hrs : rs.Perm (t.rows.map (·.2))) (hcs : cs.Perm (akeys t.cols)) :
    IsGridMin hp (Table.computeMinMaxWith rs cs).1 ∧ IsGridMax hp (Table.computeMinMaxWith rs cs).2 := by
  have memR : ∀ row, row ∈ rs ↔ ∃ r, aget t.rows r = some row := by
    intro row
    rw [hrs.mem_iff, List.mem_map]
    constructor
    · rintro ⟨⟨r, row'⟩, hm, rfl⟩; exact ⟨r, (mem_iff_aget _ h.nodupRows r row').mp hm⟩
    · rintro ⟨r, hr⟩; exact ⟨(r, row), (mem_iff_aget _ h.nodupRows r row).mpr hr, rfl⟩
  have memC : ∀ c, c ∈ cs ↔ present (selCol c) hp = true := by
    intro c
    rw [hcs.mem_iff, mem_akeys_iff, h.cols c]
    cases present (selCol c) hp <;> simp
  rw [computeMinMaxWith_eq]
  unfold IsGridMin IsGridMax
  cases hall : present selAll hp with
  | false =>
    have hrows : t.rows = [] := by
      rw [eq_nil_iff_aget]; intro r
      have := h.rowsPresent r
      cases hpr : present (selRow r) hp with
      | true => rw [present_mono _ selAll hp (fun _ _ => rfl) hpr] at hall; exact Bool.noConfusion hall
      | false => rw [hpr] at this; simpa using this
    have : rs = [] := by simpa [hrows] using hrs
    simp [this]
  | true =>
    obtain ⟨p0, hp0, hv0⟩ : ∃ p ∈ hp, p.inc.isSome = true := by
      simp only [present, List.any_eq_true, Bool.and_eq_true] at hall
      obtain ⟨x, hx, h1, _⟩ := hall; exact ⟨x, hx, h1⟩
    have hc0 : present (selCol p0.k1) hp = true := by
      simp only [present, List.any_eq_true, Bool.and_eq_true]; exact ⟨p0, hp0, hv0, by simp [selCol]⟩
    have hr0 : present (selRow p0.k2) hp = true := by
      simp only [present, List.any_eq_true, Bool.and_eq_true]; exact ⟨p0, hp0, hv0, by simp [selRow]⟩
    obtain ⟨row0, hrow0⟩ : ∃ row, aget t.rows p0.k2 = some row := by
      have := h.rowsPresent p0.k2; rw [hr0] at this
      exact Option.isSome_iff_exists.mp this
    have hrs0 : row0 ∈ rs := (memR row0).mpr ⟨_, hrow0⟩
    have hcs0 : p0.k1 ∈ cs := (memC _).mpr hc0
    have hne : ¬ (rs.length = 0 ∨ cs.length = 0) := by
      intro hh; rcases hh with hh | hh
      · have : rs = [] := List.length_eq_zero_iff.mp hh; rw [this] at hrs0; simp at hrs0
      · have : cs = [] := List.length_eq_zero_iff.mp hh; rw [this] at hcs0; simp at hcs0
    simp only [hne, if_false, if_true]
    obtain ⟨m1, m2, m3, m4, m5, m6⟩ := mmOuter_spec rs cs (maxInt64, minInt64)
    -- every grid point is visited, every visited point is a grid point
    have visit : ∀ c r, present (selCol c) hp = true → present (selRow r) hp = true →
        ∃ row ∈ rs, c ∈ cs ∧ row.value c = total (selCell c r) hp := by
      intro c r hc hr
      obtain ⟨row, hrow⟩ : ∃ row, aget t.rows r = some row := by
        have := h.rowsPresent r; rw [hr] at this; exact Option.isSome_iff_exists.mp this
      exact ⟨row, (memR row).mpr ⟨r, hrow⟩, (memC c).mpr hc, row_value t hp h r row hrow c⟩
    have back : ∀ row ∈ rs, ∀ c ∈ cs, ∃ r, present (selCol c) hp = true ∧ present (selRow r) hp = true ∧
        row.value c = total (selCell c r) hp := by
      intro row hrow c hc
      obtain ⟨r, hr⟩ := (memR row).mp hrow
      refine ⟨r, (memC c).mp hc, ?_, row_value t hp h r row hr c⟩
      have := h.rowsPresent r; rw [hr] at this; simpa using this.symm
    obtain ⟨rowA, hA1, hA2, hA3⟩ := visit p0.k1 p0.k2 hc0 hr0
    have rngA := total_inRange (selCell p0.k1 p0.k2) hp
    constructor
    · refine ⟨?_, ?_⟩
      · rcases m3 with m3 | ⟨row, hrow, c, hc, m3⟩
        · -- the sentinel survived: then every cell equals MaxInt64, in particular this one
          have := m2 rowA hA1 p0.k1 hA2
          refine ⟨p0.k1, p0.k2, hc0, hr0, ?_⟩
          simp only at m3; omega
        · obtain ⟨r, b1, b2, b3⟩ := back row hrow c hc
          exact ⟨c, r, b1, b2, by omega⟩
      · intro c r hc hr
        obtain ⟨row, v1, v2, v3⟩ := visit c r hc hr
        have := m2 row v1 c v2; omega
    · refine ⟨?_, ?_⟩
      · rcases m6 with m6 | ⟨row, hrow, c, hc, m6⟩
        · have := m5 rowA hA1 p0.k1 hA2
          refine ⟨p0.k1, p0.k2, hc0, hr0, ?_⟩
          simp only at m6; omega
        · obtain ⟨r, b1, b2, b3⟩ := back row hrow c hc
          exact ⟨c, r, b1, b2, by omega⟩
      · intro c r hc hr
        obtain ⟨row, v1, v2, v3⟩ := visit c r hc hr
        have := m5 row v1 c v2; omega

/-- `Sum()` is the grand total. -/
theorem sum_spec (t : Table) (hp : List Parsed) (h : TableInv t hp) : t.sum = total selAll hp := by
  unfold Table.sum
  rw [foldl_wrap_sum]
  split
  · rename_i he
    rw [← h.grand, he]; simp [sumBy, wrap64_zero]
  · rw [← h.grand]; simp

end Rare.C07
