import Rare.Model.C18Zone
import Rare.Proofs.C18RT
import Rare.Proofs.C18Zone
/-! C18 (round 4c): a layout with an abbreviation token (`MST`) and no numeric zone – what the parser
returns as zone source, and `Location.lookupName` on the table for the abbreviation in force. -/
namespace Rare.C18

/-- `roundtrip_fields` with the zone source spelled out: the text `UTC` becomes the zone UTC, any
other abbreviation of the class is handed on by name. -/
theorem roundtrip_abbr (L : List Tok) (hRT : RT L = true) (t : TimeV) (h : TOK t L)
    (cz : (carries L).contains 'z' = false) (ca : (carries L).contains 'a' = true) :
    ∃ p, parseTokens L (formatToks L t) = .ok p ∧ p.dt = projectDT (carries L) t.dt
      ∧ p.zone = (if t.abbr = utcB then ZoneSrc.utc else .name t.abbr) := by
  obtain ⟨y0, y1, m0, m1, d0, d1, h0, h1, mi0, mi1, s0, s1, _, _⟩ := h.valid
  have hp := parse_format_toks L t h hRT {}
  obtain ⟨fy, fm, fd, fh, fmi, fs, fns, fpm, fam⟩ := fold_fields t L (RT_supported L hRT) {}
  have fzn := fold_zoneName t L {}
  obtain ⟨n1, n2⟩ := fold_nozone t L {} cz
  have hdayok := project_day_ok (carries L) t.dt h.valid
  have hmem : .std .tz ∈ L := by
    have : 'a' ∈ carries L := by simpa using ca
    simp only [carries, List.mem_filterMap] at this
    obtain ⟨x, hx, hx2⟩ := this
    cases x with
    | lit b => simp at hx2
    | std s =>
      simp only [Option.some.injEq] at hx2
      cases s <;> simp only [stdLetter] at hx2 <;> first | exact hx | (exact absurd hx2 (by decide))
  have ca' : 'a' ∈ carries L := by simpa using ca
  generalize L.foldl (stepTok t) {} = r at *
  have hm : (if r.month < 0 then 1 else r.month) = (projectDT (carries L) t.dt).m := by
    simp only [projectDT, fm]; split <;> split <;> omega
  have hd : (if r.day < 0 then 1 else r.day) = (projectDT (carries L) t.dt).d := by
    simp only [projectDT, fd]; split <;> split <;> omega
  have hy : r.year = (projectDT (carries L) t.dt).y := by simp only [projectDT, fy]
  have hfin : finish r = .ok ⟨projectDT (carries L) t.dt,
      if r.zUTC then ZoneSrc.utc else if r.zoneOffset ≠ -1 then .offset r.zoneOffset
        else if r.zoneName ≠ [] then .name r.zoneName else .default⟩ := by
    unfold finish
    simp only [fpm, fam, Bool.false_and, Bool.false_eq_true, if_false, hm, hd, hy, hdayok]
    congr 2
    simp only [projectDT, fh, fmi, fs, fns]
  refine ⟨_, (by simp only [parseTokens, hp]; exact hfin), rfl, ?_⟩
  by_cases hu : t.abbr = utcB
  · have hz : r.zUTC = true := by rw [n2]; simp [ca', hu]
    simp only [hz, if_true, hu]
  · have hz : r.zUTC = false := by rw [n2]; simp [hu]
    have hzn : r.zoneName = t.abbr := by rw [fzn]; simp [ca', hu]
    have hne : t.abbr ≠ [] := by
      intro e; have := (h.abbr hmem).len; rw [e] at this; simp at this
    have h1 : r.zoneOffset = -1 := by rw [n1]
    simp only [hz, Bool.false_eq_true, if_false, h1, ne_eq, not_true_eq_false, hzn, hne, not_false_eq_true, if_true, hu]

/-- The first loop of `lookupName` for the abbreviation in force at `u`, asked at the wall clock of
`u`: when every zone of that name in the list has the offset in force (names determine offsets), the
first such entry looks up `u` itself and answers its offset. -/
theorem lookupNameFirst_in_force (z : ZoneTab) (u : Int) (zones : List (Bytes × Int))
    (hall : ∀ e ∈ zones, e.1 = (z.lookup u).abbr → e.2 = (z.lookup u).off)
    (hex : ∃ e ∈ zones, e.1 = (z.lookup u).abbr) :
    lookupNameFirst z (z.lookup u).abbr (z.wall u) zones = some (z.lookup u).off := by
  induction zones with
  | nil => obtain ⟨e, he, _⟩ := hex; cases he
  | cons e r ih =>
    obtain ⟨zn, zoff⟩ := e
    simp only [lookupNameFirst]
    by_cases hn : zn = (z.lookup u).abbr
    · have ho : zoff = (z.lookup u).off := hall (zn, zoff) (List.mem_cons_self ..) hn
      have hw : z.wall u - zoff = u := by unfold ZoneTab.wall; omega
      simp only [hn, if_true, hw]
    · simp only [hn, if_false]
      apply ih (fun e he => hall e (List.mem_cons_of_mem _ he))
      obtain ⟨e, he, hen⟩ := hex
      rcases List.mem_cons.mp he with h | h
      · subst h; exact absurd hen hn
      · exact ⟨e, h, hen⟩

/-- A name no zone of the list carries is not found. -/
theorem lookupNameIn_unknown (z : ZoneTab) (zones : List (Bytes × Int)) (n : Bytes) (w : Int)
    (h : ∀ e ∈ zones, e.1 ≠ n) : lookupNameIn z zones n w = none := by
  have h1 : lookupNameFirst z n w zones = none := by
    induction zones with
    | nil => rfl
    | cons e r ih =>
      obtain ⟨zn, zoff⟩ := e
      have : zn ≠ n := h (zn, zoff) (List.mem_cons_self ..)
      simp only [lookupNameFirst, this, if_false]
      exact ih (fun e he => h e (List.mem_cons_of_mem _ he))
  have h2 : zones.find? (fun e => e.1 == n) = none := by
    rw [List.find?_eq_none]
    intro e he
    simpa using h e he
  simp only [lookupNameIn, h1, h2, Option.map_none]

end Rare.C18
