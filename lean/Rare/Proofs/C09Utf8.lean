import Rare.Model.C09Utf8
import Rare.Proofs.C20Utf8
/-!
C09: UTF-8 glue.  `Rare.C20.decodeUtf8` (Go's `[]rune(s)`) against the structural definition of
well-formed UTF-8 (`seqLen`, `wellFormed`: Unicode table 3-7) and against `Rare.C20.encodeUtf8`.
-/
namespace Rare.C09
open Rare Rare.Expr
open Rare.C20 (decode1 encodeRune validScalar isCont accLo accHi runeError)

/-! ### `decode1` on each shape of input -/

def cp2 (x y : Nat) : Nat := (x - 0xC0) * 64 + (y - 0x80)
def cp3 (x y z : Nat) : Nat := (x - 0xE0) * 4096 + (y - 0x80) * 64 + (z - 0x80)
def cp4 (x y z w : Nat) : Nat := (x - 0xF0) * 262144 + (y - 0x80) * 4096 + (z - 0x80) * 64 + (w - 0x80)

theorem decode1_s1 (b0 : UInt8) : decode1 [b0] = if b0.toNat < 0x80 then (b0.toNat, 1) else (0xFFFD, 1) := rfl

theorem decode1_s2 (b0 b1 : UInt8) : decode1 [b0, b1] =
    if b0.toNat < 0x80 then (b0.toNat, 1)
    else if 0xC2 ≤ b0.toNat ∧ b0.toNat ≤ 0xDF ∧ isCont b1.toNat then (cp2 b0.toNat b1.toNat, 2)
    else (0xFFFD, 1) := rfl

theorem decode1_s3 (b0 b1 b2 : UInt8) : decode1 [b0, b1, b2] =
    if b0.toNat < 0x80 then (b0.toNat, 1)
    else if 0xC2 ≤ b0.toNat ∧ b0.toNat ≤ 0xDF ∧ isCont b1.toNat then (cp2 b0.toNat b1.toNat, 2)
    else if 0xE0 ≤ b0.toNat ∧ b0.toNat ≤ 0xEF ∧ accLo b0.toNat ≤ b1.toNat ∧ b1.toNat ≤ accHi b0.toNat ∧ isCont b2.toNat then
      (cp3 b0.toNat b1.toNat b2.toNat, 3)
    else (0xFFFD, 1) := rfl

theorem decode1_s4 (b0 b1 b2 b3 : UInt8) (r : Bytes) : decode1 (b0 :: b1 :: b2 :: b3 :: r) =
    if b0.toNat < 0x80 then (b0.toNat, 1)
    else if 0xC2 ≤ b0.toNat ∧ b0.toNat ≤ 0xDF ∧ isCont b1.toNat then (cp2 b0.toNat b1.toNat, 2)
    else if 0xE0 ≤ b0.toNat ∧ b0.toNat ≤ 0xEF ∧ accLo b0.toNat ≤ b1.toNat ∧ b1.toNat ≤ accHi b0.toNat ∧ isCont b2.toNat then
      (cp3 b0.toNat b1.toNat b2.toNat, 3)
    else if 0xF0 ≤ b0.toNat ∧ b0.toNat ≤ 0xF4 ∧ accLo b0.toNat ≤ b1.toNat ∧ b1.toNat ≤ accHi b0.toNat ∧
        isCont b2.toNat ∧ isCont b3.toNat then
      (cp4 b0.toNat b1.toNat b2.toNat b3.toNat, 4)
    else (0xFFFD, 1) := rfl

/-- The byte ranges of table 3-7 as arithmetic facts. -/
def R2 (x y : Nat) : Prop := 0xC2 ≤ x ∧ x ≤ 0xDF ∧ 0x80 ≤ y ∧ y ≤ 0xBF
def R3 (x y z : Nat) : Prop :=
  0xE0 ≤ x ∧ x ≤ 0xEF ∧ 0x80 ≤ y ∧ y ≤ 0xBF ∧ (x = 0xE0 → 0xA0 ≤ y) ∧ (x = 0xED → y ≤ 0x9F) ∧ 0x80 ≤ z ∧ z ≤ 0xBF
def R4 (x y z w : Nat) : Prop :=
  0xF0 ≤ x ∧ x ≤ 0xF4 ∧ 0x80 ≤ y ∧ y ≤ 0xBF ∧ (x = 0xF0 → 0x90 ≤ y) ∧ (x = 0xF4 → y ≤ 0x8F) ∧ 0x80 ≤ z ∧ z ≤ 0xBF ∧
    0x80 ≤ w ∧ w ≤ 0xBF

/-- One step of the decoder against the table: either no well-formed sequence starts at the head and
    the decoder answers (U+FFFD, width 1), or the sequence of table 3-7 that starts there is what the
    decoder reads, with its width. -/
theorem decode1_view (b0 : UInt8) (tl : Bytes) :
    (seqLen (b0 :: tl) = 0 ∧ decode1 (b0 :: tl) = (0xFFFD, 1)) ∨
    (b0.toNat < 0x80 ∧ seqLen (b0 :: tl) = 1 ∧ decode1 (b0 :: tl) = (b0.toNat, 1)) ∨
    (∃ b1 r, tl = b1 :: r ∧ R2 b0.toNat b1.toNat ∧ seqLen (b0 :: tl) = 2 ∧
      decode1 (b0 :: tl) = (cp2 b0.toNat b1.toNat, 2)) ∨
    (∃ b1 b2 r, tl = b1 :: b2 :: r ∧ R3 b0.toNat b1.toNat b2.toNat ∧ seqLen (b0 :: tl) = 3 ∧
      decode1 (b0 :: tl) = (cp3 b0.toNat b1.toNat b2.toNat, 3)) ∨
    (∃ b1 b2 b3 r, tl = b1 :: b2 :: b3 :: r ∧ R4 b0.toNat b1.toNat b2.toNat b3.toNat ∧ seqLen (b0 :: tl) = 4 ∧
      decode1 (b0 :: tl) = (cp4 b0.toNat b1.toNat b2.toNat b3.toNat, 4)) := by
  have hx := UInt8.toNat_lt b0
  rcases tl with _ | ⟨b1, _ | ⟨b2, _ | ⟨b3, r⟩⟩⟩
  · suffices hN : (seqLen [b0] = 0 ∧ decode1 [b0] = (0xFFFD, 1)) ∨
        (b0.toNat < 0x80 ∧ seqLen [b0] = 1 ∧ decode1 [b0] = (b0.toNat, 1)) by
      rcases hN with h | h
      · exact Or.inl h
      · exact Or.inr (Or.inl h)
    generalize hS : seqLen [b0] = S
    generalize hD : decode1 [b0] = D
    simp only [seqLen] at hS
    rw [decode1_s1] at hD
    generalize b0.toNat = x at *
    grind
  · have hy := UInt8.toNat_lt b1
    suffices hN : (seqLen [b0, b1] = 0 ∧ decode1 [b0, b1] = (0xFFFD, 1)) ∨
        (b0.toNat < 0x80 ∧ seqLen [b0, b1] = 1 ∧ decode1 [b0, b1] = (b0.toNat, 1)) ∨
        (R2 b0.toNat b1.toNat ∧ seqLen [b0, b1] = 2 ∧ decode1 [b0, b1] = (cp2 b0.toNat b1.toNat, 2)) by
      rcases hN with h | h | h
      · exact Or.inl h
      · exact Or.inr (Or.inl h)
      · exact Or.inr (Or.inr (Or.inl ⟨b1, [], rfl, h⟩))
    generalize hS : seqLen [b0, b1] = S
    generalize hD : decode1 [b0, b1] = D
    simp only [seqLen] at hS
    rw [decode1_s2] at hD
    generalize b0.toNat = x at *
    generalize b1.toNat = y at *
    simp only [isCont, Bool.and_eq_true, decide_eq_true_eq] at hD
    simp only [R2]
    grind (splits := 30)
  · have hy := UInt8.toNat_lt b1
    have hz := UInt8.toNat_lt b2
    suffices hN : (seqLen [b0, b1, b2] = 0 ∧ decode1 [b0, b1, b2] = (0xFFFD, 1)) ∨
        (b0.toNat < 0x80 ∧ seqLen [b0, b1, b2] = 1 ∧ decode1 [b0, b1, b2] = (b0.toNat, 1)) ∨
        (R2 b0.toNat b1.toNat ∧ seqLen [b0, b1, b2] = 2 ∧ decode1 [b0, b1, b2] = (cp2 b0.toNat b1.toNat, 2)) ∨
        (R3 b0.toNat b1.toNat b2.toNat ∧ seqLen [b0, b1, b2] = 3 ∧
          decode1 [b0, b1, b2] = (cp3 b0.toNat b1.toNat b2.toNat, 3)) by
      rcases hN with h | h | h | h
      · exact Or.inl h
      · exact Or.inr (Or.inl h)
      · exact Or.inr (Or.inr (Or.inl ⟨b1, [b2], rfl, h⟩))
      · exact Or.inr (Or.inr (Or.inr (Or.inl ⟨b1, b2, [], rfl, h⟩)))
    generalize hS : seqLen [b0, b1, b2] = S
    generalize hD : decode1 [b0, b1, b2] = D
    simp only [seqLen] at hS
    rw [decode1_s3] at hD
    generalize b0.toNat = x at *
    generalize b1.toNat = y at *
    generalize b2.toNat = z at *
    simp only [isCont, accLo, accHi, Bool.and_eq_true, decide_eq_true_eq] at hD
    simp only [R2, R3]
    grind (splits := 40)
  · have hy := UInt8.toNat_lt b1
    have hz := UInt8.toNat_lt b2
    have hw := UInt8.toNat_lt b3
    suffices hN : (seqLen (b0 :: b1 :: b2 :: b3 :: r) = 0 ∧ decode1 (b0 :: b1 :: b2 :: b3 :: r) = (0xFFFD, 1)) ∨
        (b0.toNat < 0x80 ∧ seqLen (b0 :: b1 :: b2 :: b3 :: r) = 1 ∧
          decode1 (b0 :: b1 :: b2 :: b3 :: r) = (b0.toNat, 1)) ∨
        (R2 b0.toNat b1.toNat ∧ seqLen (b0 :: b1 :: b2 :: b3 :: r) = 2 ∧
          decode1 (b0 :: b1 :: b2 :: b3 :: r) = (cp2 b0.toNat b1.toNat, 2)) ∨
        (R3 b0.toNat b1.toNat b2.toNat ∧ seqLen (b0 :: b1 :: b2 :: b3 :: r) = 3 ∧
          decode1 (b0 :: b1 :: b2 :: b3 :: r) = (cp3 b0.toNat b1.toNat b2.toNat, 3)) ∨
        (R4 b0.toNat b1.toNat b2.toNat b3.toNat ∧ seqLen (b0 :: b1 :: b2 :: b3 :: r) = 4 ∧
          decode1 (b0 :: b1 :: b2 :: b3 :: r) = (cp4 b0.toNat b1.toNat b2.toNat b3.toNat, 4)) by
      rcases hN with h | h | h | h | h
      · exact Or.inl h
      · exact Or.inr (Or.inl h)
      · exact Or.inr (Or.inr (Or.inl ⟨b1, b2 :: b3 :: r, rfl, h⟩))
      · exact Or.inr (Or.inr (Or.inr (Or.inl ⟨b1, b2, b3 :: r, rfl, h⟩)))
      · exact Or.inr (Or.inr (Or.inr (Or.inr ⟨b1, b2, b3, r, rfl, h⟩)))
    generalize hS : seqLen (b0 :: b1 :: b2 :: b3 :: r) = S
    generalize hD : decode1 (b0 :: b1 :: b2 :: b3 :: r) = D
    simp only [seqLen] at hS
    rw [decode1_s4] at hD
    generalize b0.toNat = x at *
    generalize b1.toNat = y at *
    generalize b2.toNat = z at *
    generalize b3.toNat = w at *
    simp only [isCont, accLo, accHi, Bool.and_eq_true, decide_eq_true_eq] at hD
    simp only [R2, R3, R4]
    grind (splits := 60)

/-! ### what the decoder read is what the encoder writes -/

theorem ofNat_toNat (b : UInt8) : UInt8.ofNat b.toNat = b := by simp

theorem enc1 (x : Nat) (h : x < 0x80) : encodeRune x = [UInt8.ofNat x] := by simp [encodeRune, h]

theorem enc2 (x y : Nat) (h : R2 x y) : encodeRune (cp2 x y) = [UInt8.ofNat x, UInt8.ofNat y] := by
  unfold R2 at h
  have h1 : ¬ cp2 x y < 0x80 := by unfold cp2; omega
  have h2 : cp2 x y < 0x800 := by unfold cp2; omega
  have e1 : 0xC0 + cp2 x y / 64 = x := by unfold cp2; omega
  have e2 : 0x80 + cp2 x y % 64 = y := by unfold cp2; omega
  simp only [encodeRune, h1, h2, if_false, if_true, e1, e2]

theorem enc3 (x y z : Nat) (h : R3 x y z) :
    encodeRune (cp3 x y z) = [UInt8.ofNat x, UInt8.ofNat y, UInt8.ofNat z] := by
  unfold R3 at h
  have h1 : ¬ cp3 x y z < 0x80 := by unfold cp3; omega
  have h2 : ¬ cp3 x y z < 0x800 := by unfold cp3; omega
  have h3 : ¬ ((0xD800 ≤ cp3 x y z ∧ cp3 x y z < 0xE000) ∨ 0x110000 ≤ cp3 x y z) := by unfold cp3; omega
  have h4 : cp3 x y z < 0x10000 := by unfold cp3; omega
  have e1 : 0xE0 + cp3 x y z / 4096 = x := by unfold cp3; omega
  have e2 : 0x80 + cp3 x y z / 64 % 64 = y := by unfold cp3; omega
  have e3 : 0x80 + cp3 x y z % 64 = z := by unfold cp3; omega
  simp only [encodeRune, h1, h2, h3, h4, if_false, if_true, e1, e2, e3]

theorem enc4 (x y z w : Nat) (h : R4 x y z w) :
    encodeRune (cp4 x y z w) = [UInt8.ofNat x, UInt8.ofNat y, UInt8.ofNat z, UInt8.ofNat w] := by
  unfold R4 at h
  have h1 : ¬ cp4 x y z w < 0x80 := by unfold cp4; omega
  have h2 : ¬ cp4 x y z w < 0x800 := by unfold cp4; omega
  have h3 : ¬ ((0xD800 ≤ cp4 x y z w ∧ cp4 x y z w < 0xE000) ∨ 0x110000 ≤ cp4 x y z w) := by unfold cp4; omega
  have h4 : ¬ cp4 x y z w < 0x10000 := by unfold cp4; omega
  have e1 : 0xF0 + cp4 x y z w / 262144 = x := by unfold cp4; omega
  have e2 : 0x80 + cp4 x y z w / 4096 % 64 = y := by unfold cp4; omega
  have e3 : 0x80 + cp4 x y z w / 64 % 64 = z := by unfold cp4; omega
  have e4 : 0x80 + cp4 x y z w % 64 = w := by unfold cp4; omega
  simp only [encodeRune, h1, h2, h3, h4, if_false, e1, e2, e3, e4]

/-- A well-formed sequence starts at the head: the decoder reads exactly it (width = its length) and
    the encoder writes it back. -/
theorem decode1_good (b0 : UInt8) (tl : Bytes) (h : seqLen (b0 :: tl) ≠ 0) :
    (decode1 (b0 :: tl)).2 = seqLen (b0 :: tl) ∧
    encodeRune (decode1 (b0 :: tl)).1 = (b0 :: tl).take (seqLen (b0 :: tl)) ∧
    seqLen (b0 :: tl) ≤ (b0 :: tl).length := by
  rcases decode1_view b0 tl with ⟨h0, _⟩ | ⟨hx, hs, hd⟩ | ⟨b1, r, rfl, hr, hs, hd⟩ | ⟨b1, b2, r, rfl, hr, hs, hd⟩ |
      ⟨b1, b2, b3, r, rfl, hr, hs, hd⟩
  · exact absurd h0 h
  · rw [hs, hd]; simp [enc1 _ hx]
  · rw [hs, hd]; simp [enc2 _ _ hr]
  · rw [hs, hd]; simp [enc3 _ _ _ hr]
  · rw [hs, hd]; simp [enc4 _ _ _ _ hr]

/-- No well-formed sequence starts at the head: U+FFFD, width ONE. -/
theorem decode1_bad (b0 : UInt8) (tl : Bytes) (h : seqLen (b0 :: tl) = 0) : decode1 (b0 :: tl) = (0xFFFD, 1) := by
  rcases decode1_view b0 tl with ⟨_, hd⟩ | ⟨_, hs, _⟩ | ⟨_, _, _, _, hs, _⟩ | ⟨_, _, _, _, _, hs, _⟩ |
      ⟨_, _, _, _, _, _, hs, _⟩
  · exact hd
  all_goals (rw [h] at hs; cases hs)

/-! ### the decoder, sequence by sequence -/

/-- **One replacement rune per invalid byte**: where no well-formed sequence starts, the decoder emits
    one U+FFFD and resumes at the very next byte. -/
theorem decodeUtf8_bad (b0 : UInt8) (tl : Bytes) (h : seqLen (b0 :: tl) = 0) :
    decodeUtf8 (b0 :: tl) = 0xFFFD :: decodeUtf8 tl := by
  show Rare.C20.decodeUtf8 (b0 :: tl) = _
  rw [Rare.C20.decodeUtf8_cons, decode1_bad b0 tl h]
  simp [decodeUtf8]

theorem drop_cons_pred (b0 : UInt8) (tl : Bytes) (n : Nat) (h : n ≠ 0) : (b0 :: tl).drop n = tl.drop (n - 1) := by
  cases n with
  | zero => exact absurd rfl h
  | succ k => simp

/-- Where a well-formed sequence starts, the decoder emits its scalar value – whose encoding is that
    sequence – and resumes right after it. -/
theorem decodeUtf8_good (b0 : UInt8) (tl : Bytes) (h : seqLen (b0 :: tl) ≠ 0) :
    ∃ cp, validScalar cp ∧ encodeRune cp = (b0 :: tl).take (seqLen (b0 :: tl)) ∧
      decodeUtf8 (b0 :: tl) = cp :: decodeUtf8 ((b0 :: tl).drop (seqLen (b0 :: tl))) := by
  obtain ⟨h1, h2, _⟩ := decode1_good b0 tl h
  refine ⟨(decode1 (b0 :: tl)).1, Rare.C20.decode1_valid _, h2, ?_⟩
  show Rare.C20.decodeUtf8 (b0 :: tl) = _
  rw [Rare.C20.decodeUtf8_cons, h1, drop_cons_pred b0 tl _ h]

theorem encodeUtf8_cons (r : Nat) (rs : List Nat) : encodeUtf8 (r :: rs) = encodeRune r ++ encodeUtf8 rs := by
  simp [encodeUtf8, Rare.C20.encodeUtf8]

/-! ### well-formed ⇔ decoding and re-encoding gives the bytes back -/

theorem wellFormedF_roundtrip : ∀ (f : Nat) (bs : Bytes), wellFormedF f bs = true → encodeUtf8 (decodeUtf8 bs) = bs := by
  intro f
  induction f with
  | zero =>
    intro bs h
    cases bs with
    | nil => rfl
    | cons b tl => simp [wellFormedF] at h
  | succ f ih =>
    intro bs h
    cases bs with
    | nil => rfl
    | cons b0 tl =>
      simp only [wellFormedF, Bool.and_eq_true, bne_iff_ne, ne_eq] at h
      obtain ⟨cp, _, he, hd⟩ := decodeUtf8_good b0 tl h.1
      rw [hd, encodeUtf8_cons, he, drop_cons_pred b0 tl _ h.1, ih _ h.2, ← drop_cons_pred b0 tl _ h.1]
      exact List.take_append_drop _ _

theorem seqLen_fffd (r : Bytes) : seqLen (0xEF :: 0xBF :: 0xBD :: r) = 3 := by
  simp [seqLen]

theorem roundtrip_wellFormedF : ∀ (f : Nat) (bs : Bytes), bs.length ≤ f → encodeUtf8 (decodeUtf8 bs) = bs →
    wellFormedF f bs = true := by
  intro f
  induction f with
  | zero =>
    intro bs hl _
    have : bs = [] := List.eq_nil_of_length_eq_zero (by omega)
    subst this; rfl
  | succ f ih =>
    intro bs hl h
    cases bs with
    | nil => rfl
    | cons b0 tl =>
      by_cases h0 : seqLen (b0 :: tl) = 0
      · exfalso
        rw [decodeUtf8_bad b0 tl h0, encodeUtf8_cons] at h
        have he : encodeRune 0xFFFD = [0xEF, 0xBF, 0xBD] := by decide
        rw [he] at h
        simp only [List.cons_append, List.nil_append, List.cons.injEq] at h
        obtain ⟨rfl, h⟩ := h
        rw [← h, seqLen_fffd] at h0
        cases h0
      · obtain ⟨cp, _, he, hd⟩ := decodeUtf8_good b0 tl h0
        have hlen : seqLen (b0 :: tl) ≤ (b0 :: tl).length := (decode1_good b0 tl h0).2.2
        rw [hd, encodeUtf8_cons, he] at h
        have h' : encodeUtf8 (decodeUtf8 ((b0 :: tl).drop (seqLen (b0 :: tl)))) = (b0 :: tl).drop (seqLen (b0 :: tl)) := by
          have h2 : (b0 :: tl).take (seqLen (b0 :: tl)) ++ encodeUtf8 (decodeUtf8 ((b0 :: tl).drop (seqLen (b0 :: tl)))) =
              (b0 :: tl).take (seqLen (b0 :: tl)) ++ (b0 :: tl).drop (seqLen (b0 :: tl)) := by
            rw [List.take_append_drop]; exact h
          exact List.append_cancel_left h2
        simp only [wellFormedF, Bool.and_eq_true, bne_iff_ne, ne_eq]
        refine ⟨h0, ?_⟩
        rw [← drop_cons_pred b0 tl _ h0]
        apply ih _ _ h'
        simp only [List.length_drop, List.length_cons] at hl ⊢
        omega

/-- `wellFormed` (table 3-7) holds exactly of the byte strings that survive `[]rune` and back. -/
theorem wellFormed_iff (bs : Bytes) : wellFormed bs = true ↔ encodeUtf8 (decodeUtf8 bs) = bs :=
  ⟨wellFormedF_roundtrip _ bs, roundtrip_wellFormedF _ bs (Nat.le_refl _)⟩

end Rare.C09
