import Rare.Model.C09
/-! C09 helper lemmas about the rune scanner of `Compile` (`compileLoop`). -/
namespace Rare.C09
open Rare Rare.Expr

variable (fuel : Nat) (reg : Registry) (opt : Bool) (all : List Char)

theorem loop_nil (i : Nat) (st : CompSt) : compileLoop fuel reg opt all [] i st = .ok st := by
  rw [compileLoop]

theorem loop_esc (e : Char) (rest : List Char) (i : Nat) (st : CompSt) :
    compileLoop fuel reg opt all ('\\' :: e :: rest) i st =
      compileLoop fuel reg opt all rest (i + 2) { st with sb := st.sb ++ [unescape e] } := by
  rw [compileLoop]; simp

theorem loop_esc_last (i : Nat) (st : CompSt) :
    compileLoop fuel reg opt all ['\\'] i st = .ok { st with sb := st.sb ++ ['\\'] } := by
  rw [compileLoop]; simp

theorem loop_plain (r : Char) (rest : List Char) (i : Nat) (st : CompSt)
    (h1 : r ≠ '\\') (h2 : r ≠ '{') (h3 : r ≠ '}' ∨ st.inStatement = 0) :
    compileLoop fuel reg opt all (r :: rest) i st =
      compileLoop fuel reg opt all rest (i + 1) { st with sb := st.sb ++ [r] } := by
  cases rest with
  | nil => rw [loop_nil, compileLoop]; rcases h3 with h3 | h3 <;> simp [h1, h2, h3, loop_nil]
  | cons e r' => rw [compileLoop]; rcases h3 with h3 | h3 <;> simp [h1, h2, h3]

theorem loop_open0 (rest : List Char) (i : Nat) (st : CompSt) (h : st.inStatement = 0) :
    compileLoop fuel reg opt all ('{' :: rest) i st =
      compileLoop fuel reg opt all rest (i + 1)
        { st with stages := if st.sb.isEmpty then st.stages else st.stages ++ [Stage.lit (charsToBytes st.sb)],
                  sb := [], startStatement := i, inStatement := 1 } := by
  cases rest with
  | nil => rw [loop_nil, compileLoop]; cases hs : st.sb <;> simp [h, loop_nil]
  | cons e r' => rw [compileLoop]; cases hs : st.sb <;> simp [h]

theorem loop_openN (rest : List Char) (i : Nat) (st : CompSt) (h : st.inStatement ≠ 0) :
    compileLoop fuel reg opt all ('{' :: rest) i st =
      compileLoop fuel reg opt all rest (i + 1)
        { st with sb := st.sb ++ ['{'], inStatement := st.inStatement + 1 } := by
  cases rest with
  | nil => rw [loop_nil, compileLoop]; simp [h, loop_nil]
  | cons e r' => rw [compileLoop]; simp [h]

theorem loop_closeN (rest : List Char) (i : Nat) (st : CompSt) (h : 1 < st.inStatement) :
    compileLoop fuel reg opt all ('}' :: rest) i st =
      compileLoop fuel reg opt all rest (i + 1)
        { st with sb := st.sb ++ ['}'], inStatement := st.inStatement - 1 } := by
  have h0 : st.inStatement > 0 := by omega
  have h1 : st.inStatement ≠ 1 := by omega
  cases rest with
  | nil => rw [loop_nil, compileLoop]; simp [h0, h1, loop_nil]
  | cons e r' => rw [compileLoop]; simp [h0, h1]

theorem loop_close1 (rest : List Char) (i : Nat) (st : CompSt) (h : st.inStatement = 1) :
    compileLoop fuel reg opt all ('}' :: rest) i st =
      match closeStatement fuel reg opt all i st with
      | .error m => .error m
      | .ok st' => compileLoop fuel reg opt all rest (i + 1) { st' with sb := [], inStatement := 0 } := by
  cases hc : closeStatement fuel reg opt all i st <;> cases rest <;> rw [compileLoop] <;> simp [h, hc, loop_nil]


/-! ### runs -/

/-- Characters the scanner copies whatever its state. -/
def inert (t : List Char) : Bool := t.all fun c => c != '\\' && c != '{' && c != '}'

theorem loop_inert (t : List Char) : ∀ (rest : List Char) (i : Nat) (st : CompSt), inert t = true →
    ∃ j, compileLoop fuel reg opt all (t ++ rest) i st =
      compileLoop fuel reg opt all rest j { st with sb := st.sb ++ t } := by
  induction t with
  | nil => intro rest i st _; exact ⟨i, by simp⟩
  | cons c t ih =>
    intro rest i st h
    simp only [inert, List.all_cons, Bool.and_eq_true, bne_iff_ne, ne_eq] at h
    obtain ⟨j, hj⟩ := ih rest (i + 1) { st with sb := st.sb ++ [c] } (by simpa [inert] using h.2)
    refine ⟨j, ?_⟩
    rw [List.cons_append, loop_plain fuel reg opt all c _ i st h.1.1.1 h.1.1.2 (Or.inl h.1.2), hj]
    simp

theorem plain_inert {t : List Char} (h : plain t = true) : inert t = true := by
  simp only [plain, inert, List.all_eq_true] at *
  intro c hc
  have := h c hc
  simp only [special, Bool.not_eq_true', Bool.or_eq_false_iff, beq_eq_false_iff_ne] at this
  simp [this.1.1.2, this.1.2, this.2]

/-- `Inner` text inside a statement is copied and leaves the brace depth where it was. -/
theorem loop_inner {t : List Char} (hi : Inner t) : ∀ (rest : List Char) (i : Nat) (st : CompSt),
    1 ≤ st.inStatement →
    ∃ j, compileLoop fuel reg opt all (t ++ rest) i st =
      compileLoop fuel reg opt all rest j { st with sb := st.sb ++ t } := by
  induction hi with
  | nil => intro rest i st _; exact ⟨i, by simp⟩
  | char c t hc _ ih =>
    intro rest i st hk
    simp only [special, Bool.or_eq_false_iff, beq_eq_false_iff_ne] at hc
    obtain ⟨j, hj⟩ := ih rest (i + 1) { st with sb := st.sb ++ [c] } hk
    refine ⟨j, ?_⟩
    rw [List.cons_append, loop_plain fuel reg opt all c _ i st hc.1.1.2 hc.1.2 (Or.inl hc.2), hj]
    simp
  | quoted q t hp _ ih =>
    intro rest i st hk
    obtain ⟨j1, h1⟩ := loop_inert fuel reg opt all q (['"'] ++ t ++ rest) (i + 1)
      { st with sb := st.sb ++ ['"'] } (plain_inert hp)
    obtain ⟨j2, h2⟩ := ih rest (j1 + 1) { st with sb := st.sb ++ ['"'] ++ q ++ ['"'] } hk
    refine ⟨j2, ?_⟩
    have e : ['"'] ++ q ++ ['"'] ++ t ++ rest = '"' :: (q ++ (['"'] ++ t ++ rest)) := by simp
    rw [e, loop_plain fuel reg opt all '"' _ i st (by decide) (by decide) (Or.inl (by decide)), h1]
    have e2 : ['"'] ++ t ++ rest = '"' :: (t ++ rest) := by simp
    rw [e2, loop_plain fuel reg opt all '"' _ j1 _ (by decide) (by decide) (Or.inl (by decide)), h2]
    simp
  | braces b t _ _ ihb iht =>
    intro rest i st hk
    obtain ⟨j1, h1⟩ := ihb (['}'] ++ t ++ rest) (i + 1)
      { st with sb := st.sb ++ ['{'], inStatement := st.inStatement + 1 } (by simp)
    obtain ⟨j2, h2⟩ := iht rest (j1 + 1) { st with sb := st.sb ++ ['{'] ++ b ++ ['}'] } hk
    refine ⟨j2, ?_⟩
    have e : ['{'] ++ b ++ ['}'] ++ t ++ rest = '{' :: (b ++ (['}'] ++ t ++ rest)) := by simp
    rw [e, loop_openN fuel reg opt all _ i st (by omega), h1]
    have e2 : ['}'] ++ t ++ rest = '}' :: (t ++ rest) := by simp
    rw [e2, loop_closeN fuel reg opt all _ j1 _ (by simp; omega)]
    simp only [Nat.add_sub_cancel]
    rw [h2]
    simp

/-! ### literal text outside braces -/

theorem loop_escape (s : List Char) : ∀ (rest : List Char) (i : Nat) (st : CompSt), st.inStatement = 0 →
    ∃ j, compileLoop fuel reg opt all (escapeLit s ++ rest) i st =
      compileLoop fuel reg opt all rest j { st with sb := st.sb ++ s } := by
  induction s with
  | nil => intro rest i st _; exact ⟨i, by simp [escapeLit]⟩
  | cons c s ih =>
    intro rest i st h0
    have hcons : escapeLit (c :: s) ++ rest = escapeChar c ++ (escapeLit s ++ rest) := by
      simp [escapeLit]
    rw [hcons]
    by_cases h1 : c = '\\' ∨ c = '{' ∨ c = '}'
    · obtain ⟨j, hj⟩ := ih rest (i + 2) { st with sb := st.sb ++ [c] } h0
      refine ⟨j, ?_⟩
      have hu : unescape c = c := by rcases h1 with h | h | h <;> subst h <;> decide
      simp only [escapeChar, h1, if_true, List.cons_append, List.nil_append]
      rw [loop_esc, hu, hj]; simp
    · by_cases h2 : c = '\n'
      · obtain ⟨j, hj⟩ := ih rest (i + 2) { st with sb := st.sb ++ [c] } h0
        refine ⟨j, ?_⟩
        subst h2
        rw [show escapeChar '\n' = ['\\', 'n'] by decide]
        simp only [List.cons_append, List.nil_append]
        rw [loop_esc, show unescape 'n' = '\n' by decide, hj]; simp
      · by_cases h3 : c = '\t'
        · obtain ⟨j, hj⟩ := ih rest (i + 2) { st with sb := st.sb ++ [c] } h0
          refine ⟨j, ?_⟩
          subst h3
          rw [show escapeChar '\t' = ['\\', 't'] by decide]
          simp only [List.cons_append, List.nil_append]
          rw [loop_esc, show unescape 't' = '\t' by decide, hj]; simp
        · by_cases h4 : c = '\r'
          · obtain ⟨j, hj⟩ := ih rest (i + 2) { st with sb := st.sb ++ [c] } h0
            refine ⟨j, ?_⟩
            subst h4
            rw [show escapeChar '\r' = ['\\', 'r'] by decide]
            simp only [List.cons_append, List.nil_append]
            rw [loop_esc, show unescape 'r' = '\r' by decide, hj]; simp
          · obtain ⟨j, hj⟩ := ih rest (i + 1) { st with sb := st.sb ++ [c] } h0
            refine ⟨j, ?_⟩
            simp only [escapeChar, h1, h2, h3, h4, if_false, List.cons_append, List.nil_append]
            simp only [not_or] at h1
            rw [loop_plain fuel reg opt all c _ i st h1.1 h1.2.1 (Or.inl h1.2.2), hj]; simp


/-! ### running stages -/

theorem run_bind {α β : Type} (c : Comp α) (f : α → Comp β) (ctx : Ctx) :
    (c.bind f).run ctx = match c.run ctx with
      | .ok a => (f a).run ctx
      | .error m => .error m := by
  induction c with
  | ret a => simp [Comp.bind, Comp.run]
  | getMatch i k ih => simp [Comp.bind, Comp.run, ih]
  | getKey s k ih => simp [Comp.bind, Comp.run, ih]
  | panic m => simp [Comp.bind, Comp.run]

theorem concat_cons (s : Stage) (r : List Stage) :
    concatStages (s :: r) = s.bind fun a => (concatStages r).bind fun b => .ret (a ++ b) := rfl

theorem run_concat_nil (ctx : Ctx) : (concatStages []).run ctx = .ok [] := rfl

theorem run_concat_single (s : Stage) (ctx : Ctx) : (concatStages [s]).run ctx = s.run ctx := by
  rw [concat_cons, run_bind]
  cases s.run ctx <;> simp [concatStages, Comp.bind, Comp.run]

theorem utf8_eq (s : List Char) : charsToBytes s = utf8 s := rfl

/-- Stages of a piece of literal text. -/
def litStages (s : List Char) : List Stage := if s.isEmpty then [] else [Stage.lit (utf8 s)]

theorem run_litStages (s : List Char) (ctx : Ctx) :
    (buildKey (litStages s)).run ctx = .ok (utf8 s) ∧ (joinStages (litStages s)).run ctx = .ok (utf8 s) := by
  cases s with
  | nil => simp [litStages, buildKey, joinStages, concatStages, Comp.run, Stage.lit, utf8]
  | cons c t =>
    simp only [litStages, List.isEmpty_cons, Bool.false_eq_true, if_false, buildKey, joinStages]
    rw [run_concat_single]; simp [Stage.lit, Comp.run]

theorem optimize_litStages (s : List Char) :
    ∃ st, optimize (litStages s) = .ok st ∧ ∀ ctx, (buildKey st).run ctx = .ok (utf8 s) := by
  cases s with
  | nil => exact ⟨[], by simp [litStages, optimize, optimizeGo], fun ctx => by simp [buildKey, concatStages, Comp.run, utf8]⟩
  | cons c t =>
    by_cases hb : (utf8 (c :: t)).isEmpty
    · refine ⟨[], by simp [litStages, optimize, optimizeGo, Stage.lit, Comp.probe, Comp.probeN, hb], fun ctx => ?_⟩
      have : utf8 (c :: t) = [] := by simpa using hb
      rw [this]; rfl
    · refine ⟨[Stage.lit (utf8 (c :: t))],
        by simp [litStages, optimize, optimizeGo, Stage.lit, Comp.probe, Comp.probeN, hb], fun ctx => ?_⟩
      rw [buildKey, run_concat_single]; simp [Stage.lit, Comp.run]

/-- Compiling escaped literal text (any registry, optimiser on or off, any fuel > 0). -/
theorem compileF_escapeLit (s : List Char) :
    ∃ st, compileF (fuel + 1) reg opt (escapeLit s) = .ok (st, []) ∧ ∀ ctx, (buildKey st).run ctx = .ok (utf8 s) := by
  obtain ⟨j, hj⟩ := loop_escape fuel reg opt (escapeLit s) s [] 0 ⟨[], [], [], 0, 0⟩ rfl
  rw [List.append_nil, loop_nil] at hj
  rw [compileF, hj]
  simp only [List.nil_append, ne_eq, not_true_eq_false, if_false]
  have hst : (if s.isEmpty = true then ([] : List Stage) else [Stage.lit (charsToBytes s)]) = litStages s := by
    simp [litStages, utf8_eq]
  rw [hst]
  cases opt with
  | false => exact ⟨litStages s, by simp, fun ctx => (run_litStages s ctx).1⟩
  | true =>
    obtain ⟨st, h1, h2⟩ := optimize_litStages s
    exact ⟨st, by simp [h1], h2⟩


end Rare.C09
