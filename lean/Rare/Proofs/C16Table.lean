import Rare.Proofs.C16Sort
/-! C16: the name tables as the matchers build them – distinct names, group numbers in range. -/
namespace Rare.C16

variable {β : Type}

theorem mapSet_keys (m : List (Bytes × β)) (k : Bytes) (v : β) :
    (mapSet m k v).map (·.1) = if m.any (fun p => p.1 == k) then m.map (·.1) else m.map (·.1) ++ [k] := by
  unfold mapSet
  split
  · rw [List.map_map]
    apply List.map_congr_left
    intro p _
    by_cases h : p.1 = k
    · simp [h]
    · simp [h]
  · simp

theorem mapSet_nodup (m : List (Bytes × β)) (k : Bytes) (v : β) (h : (m.map (·.1)).Nodup) :
    ((mapSet m k v).map (·.1)).Nodup := by
  rw [mapSet_keys]
  split
  · exact h
  · rename_i hn
    rw [List.nodup_append]
    refine ⟨h, by simp, ?_⟩
    intro a ha b hb
    simp at hb; subst hb
    intro e; subst e
    apply hn
    obtain ⟨p, hp, e⟩ := List.mem_map.mp ha
    exact List.any_eq_true.mpr ⟨p, hp, by simp [e]⟩

theorem mapSet_mem (m : List (Bytes × β)) (k : Bytes) (v : β) (p : Bytes × β) (hp : p ∈ mapSet m k v) :
    p ∈ m ∨ p = (k, v) := by
  unfold mapSet at hp
  split at hp
  · obtain ⟨q, hq, e⟩ := List.mem_map.mp hp
    by_cases h : (q.1 == k) = true
    · simp [h] at e; exact Or.inr e.symm
    · simp [h] at e; exact Or.inl (e ▸ hq)
  · simp at hp
    rcases hp with hp | hp
    · exact Or.inl hp
    · exact Or.inr hp

theorem mapSet_mem' (m : List (Bytes × β)) (k : Bytes) (v : β) (p : Bytes × β) (hp : p ∈ mapSet m k v) :
    (p ∈ m ∧ p.1 ≠ k) ∨ p = (k, v) := by
  unfold mapSet at hp
  split at hp
  · obtain ⟨q, hq, e⟩ := List.mem_map.mp hp
    by_cases h : (q.1 == k) = true
    · simp [h] at e; exact Or.inr e.symm
    · simp [h] at e; subst e; exact Or.inl ⟨hq, by simpa using h⟩
  · rename_i hn
    simp at hp
    rcases hp with hp | hp
    · refine Or.inl ⟨hp, ?_⟩
      intro e
      exact hn (List.any_eq_true.mpr ⟨p, hp, by simp [e]⟩)
    · exact Or.inr hp

theorem mapSet_has (m : List (Bytes × β)) (k : Bytes) (v : β) : (k, v) ∈ mapSet m k v := by
  unfold mapSet
  split
  · rename_i h
    obtain ⟨p, hp, e⟩ := List.any_eq_true.mp h
    exact List.mem_map.mpr ⟨p, hp, by simp [e]⟩
  · simp

theorem mapSet_keeps_key (m : List (Bytes × β)) (k : Bytes) (v : β) (n : Bytes) (h : n ∈ m.map (·.1)) :
    n ∈ (mapSet m k v).map (·.1) := by
  rw [mapSet_keys]; split
  · exact h
  · simp only [List.mem_append]; exact Or.inl h

/-! ### `createGroupNameTable` -/

theorem regexTableGo_nodup : ∀ (names : List Bytes) (m : List (Bytes × Int)) (i : Nat),
    (m.map (·.1)).Nodup → ((regexTableGo m i names).map (·.1)).Nodup := by
  intro names
  induction names with
  | nil => intro m i h; exact h
  | cons n r ih =>
    intro m i h
    unfold regexTableGo
    apply ih
    split
    · exact mapSet_nodup m n _ h
    · exact h

/-- every entry of the table is a group of the expression: entry `(name, k)` means that the `k`-th
element of `SubexpNames()` is the non-empty `name` -/
theorem regexTableGo_entry (all : List Bytes) : ∀ (names pre : List Bytes) (m : List (Bytes × Int)),
    all = pre ++ names →
    (∀ p ∈ m, 0 ≤ p.2 ∧ all[p.2.toNat]? = some p.1 ∧ p.1 ≠ []) →
    ∀ p ∈ regexTableGo m pre.length names, 0 ≤ p.2 ∧ all[p.2.toNat]? = some p.1 ∧ p.1 ≠ [] := by
  intro names
  induction names with
  | nil => intro pre m _ h; exact h
  | cons n r ih =>
    intro pre m hall h
    unfold regexTableGo
    have hlen : (pre ++ [n]).length = pre.length + 1 := by simp
    rw [← hlen]
    apply ih (pre ++ [n]) _ (by simp [hall])
    intro p hp
    split at hp
    · rename_i hne
      rcases mapSet_mem m n _ p hp with hp | hp
      · exact h p hp
      · subst hp
        refine ⟨by simp, ?_, hne⟩
        simp [hall]
    · exact h p hp

theorem regexTableGo_covers : ∀ (names : List Bytes) (m : List (Bytes × Int)) (i : Nat) (n : Bytes),
    (n ∈ m.map (·.1) ∨ (n ∈ names ∧ n ≠ [])) → n ∈ (regexTableGo m i names).map (·.1) := by
  intro names
  induction names with
  | nil => intro m i n h; rcases h with h | h; exact h; simp at h
  | cons a r ih =>
    intro m i n h
    unfold regexTableGo
    apply ih
    rcases h with h | ⟨h, hne⟩
    · left; split
      · exact mapSet_keeps_key m a _ n h
      · exact h
    · rcases List.mem_cons.mp h with e | h
      · subst e; left; rw [if_pos hne]
        exact List.mem_map.mpr ⟨_, mapSet_has m n _, rfl⟩
      · exact Or.inr ⟨h, hne⟩

/-- "last wins": after an entry's group no later group carries the same name -/
theorem regexTableGo_last (all : List Bytes) : ∀ (names pre : List Bytes) (m : List (Bytes × Int)),
    all = pre ++ names →
    (∀ p ∈ m, p.1 ≠ [] ∧ ∀ j, p.2.toNat < j → j < pre.length → all[j]? ≠ some p.1) →
    ∀ p ∈ regexTableGo m pre.length names, p.1 ≠ [] ∧ ∀ j, p.2.toNat < j → j < all.length → all[j]? ≠ some p.1 := by
  intro names
  induction names with
  | nil =>
    intro pre m hall h p hp
    simp at hall; subst hall
    exact h p hp
  | cons n r ih =>
    intro pre m hall h
    unfold regexTableGo
    have hlen : (pre ++ [n]).length = pre.length + 1 := by simp
    rw [← hlen]
    apply ih (pre ++ [n]) _ (by simp [hall])
    have hat : all[pre.length]? = some n := by simp [hall]
    intro p hp
    split at hp
    · rename_i hne
      rcases mapSet_mem' m n _ p hp with ⟨hpm, hk⟩ | e
      · refine ⟨(h p hpm).1, ?_⟩
        intro j h1 h2
        by_cases hj : j < pre.length
        · exact (h p hpm).2 j h1 hj
        · have : j = pre.length := by simp at h2; omega
          subst this
          rw [hat]; intro e; exact hk (by simpa using e.symm)
      · subst e
        refine ⟨hne, ?_⟩
        intro j h1 h2
        simp at h1 h2; omega
    · rename_i hne
      have hn : n = [] := by simpa using hne
      refine ⟨(h p hp).1, ?_⟩
      intro j h1 h2
      by_cases hj : j < pre.length
      · exact (h p hp).2 j h1 hj
      · have : j = pre.length := by simp at h2; omega
        subst this
        rw [hat, hn]; intro e; exact (h p hp).1 (by simpa using e.symm)

theorem regexNameTable_last (names : List Bytes) (p : Bytes × Int) (hp : p ∈ regexNameTable names) :
    ∀ j, p.2.toNat < j → j < names.length → names[j]? ≠ some p.1 :=
  (regexTableGo_last names names [] [] (by simp) (by simp) p hp).2

theorem find?_of_nodup {β : Type} : ∀ (o : List (Bytes × β)) (p : Bytes × β),
    (o.map (·.1)).Nodup → p ∈ o → o.find? (fun q => q.1 == p.1) = some p := by
  intro o
  induction o with
  | nil => intro p _ h; cases h
  | cons q o ih =>
    intro p hn hp
    simp only [List.map_cons, List.nodup_cons] at hn
    rcases List.mem_cons.mp hp with e | hp
    · subst e; simp
    · have hne : ¬ (q.1 == p.1) = true := by
        intro e
        have e' : q.1 = p.1 := by simpa using e
        exact hn.1 (e' ▸ List.mem_map_of_mem (f := (·.1)) hp)
      simp only [List.find?_cons, hne]
      exact ih p hn.2 hp

theorem regexNameTable_nodup (names : List Bytes) : ((regexNameTable names).map (·.1)).Nodup :=
  regexTableGo_nodup names [] 0 (by simp)

theorem regexNameTable_entry (names : List Bytes) (p : Bytes × Int) (hp : p ∈ regexNameTable names) :
    0 ≤ p.2 ∧ p.2 < names.length ∧ names[p.2.toNat]? = some p.1 ∧ p.1 ≠ [] := by
  have := regexTableGo_entry names names [] [] (by simp) (by simp) p hp
  refine ⟨this.1, ?_, this.2⟩
  have h2 := this.2.1
  have : p.2.toNat < names.length := by
    by_cases h : p.2.toNat < names.length
    · exact h
    · rw [List.getElem?_eq_none (by omega)] at h2; cases h2
  omega

/-! ### dissect -/

theorem dissectTableGo_inv : ∀ (tokens : List (Bytes × Bool)) (m : List (Bytes × Int)) (g : Nat)
    (out : List (Bytes × Int)),
    (m.map (·.1)).Nodup → (∀ p ∈ m, 1 ≤ p.2 ∧ p.2 ≤ g) →
    dissectTableGo m g tokens = .ok out →
    (out.map (·.1)).Nodup ∧ ∀ p ∈ out, 1 ≤ p.2 ∧ p.2 ≤ g + tokens.length := by
  intro tokens
  induction tokens with
  | nil => intro m g out hn hr h; simp [dissectTableGo] at h; subst h; exact ⟨hn, by simpa using hr⟩
  | cons t r ih =>
    intro m g out hn hr h
    obtain ⟨name, skipped⟩ := t
    unfold dissectTableGo at h
    split at h
    · have := ih m g out hn hr h
      exact ⟨this.1, fun p hp => by have := this.2 p hp; simp; omega⟩
    · split at h
      · cases h
      · have := ih _ (g + 1) out (mapSet_nodup m name _ hn) (by
          intro p hp
          rcases mapSet_mem m name _ p hp with hp | hp
          · have := hr p hp; omega
          · subst hp; simp; omega) h
        exact ⟨this.1, fun p hp => by have := this.2 p hp; simp; omega⟩

theorem dissectNameTable_inv (tokens : List (Bytes × Bool)) (out : List (Bytes × Int))
    (h : dissectNameTable tokens = .ok out) :
    (out.map (·.1)).Nodup ∧ ∀ p ∈ out, 1 ≤ p.2 ∧ p.2 ≤ tokens.length := by
  have := dissectTableGo_inv tokens [] 0 out (by simp) (by simp) h
  exact ⟨this.1, fun p hp => by have := this.2 p hp; omega⟩

end Rare.C16
