import Rare.Proofs.C16
import Rare.Gen.C16
/-!
C16: the hand model of `escape` (`Model/C16.lean`: recursion over the remaining bytes with the index, the flag
and the builder as arguments) equals the definition the translator regenerates from pkg/minijson/minijson.go
statement by statement (`Rare.Gen.C16.escape`: the locals as a record, every statement a state transformer, the
loop a fold over `List.range s.length`).
-/
namespace Rare.C16
open Rare.Gen.C16 (EscSt escapeBody)

/-- what the loop body computes at an index inside the string -/
def EscBodySpec (s : Bytes) (body : Nat → EscSt → EscSt) : Prop :=
  ∀ (pre : Bytes) (c : UInt8) (r : Bytes) (st : EscSt), s = pre ++ c :: r →
    body pre.length st =
      if lookup c ≠ [] then ⟨true, (if st.flag then st.sb else st.sb ++ s.take pre.length) ++ lookup c⟩
      else if st.flag then ⟨true, st.sb ++ [c]⟩ else st

theorem escapeLoop_fold (s : Bytes) (body : Nat → EscSt → EscSt) (hb : EscBodySpec s body) :
    ∀ (r pre : Bytes) (hm : Bool) (sb : Bytes), s = pre ++ r →
      escapeLoop s pre.length hm sb r =
        (((List.range' pre.length r.length).foldl (fun st i => body i st) ⟨hm, sb⟩).flag,
         ((List.range' pre.length r.length).foldl (fun st i => body i st) ⟨hm, sb⟩).sb) := by
  intro r
  induction r with
  | nil => intro pre hm sb _; simp [escapeLoop]
  | cons c r ih =>
    intro pre hm sb hs
    have hs' : s = (pre ++ [c]) ++ r := by simp [hs]
    have hlen : (pre ++ [c]).length = pre.length + 1 := by simp
    have hbody := hb pre c r ⟨hm, sb⟩ hs
    simp only [List.length_cons, List.range'_succ, List.foldl_cons, hbody]
    unfold escapeLoop
    by_cases hl : lookup c ≠ []
    · simp only [hl, if_true, ne_eq, not_false_eq_true]
      have := ih (pre ++ [c]) true ((if hm then sb else sb ++ s.take pre.length) ++ lookup c) hs'
      rw [hlen] at this
      exact this
    · simp only [hl, if_false]
      cases hm with
      | true =>
        simp only [if_true]
        have := ih (pre ++ [c]) true (sb ++ [c]) hs'
        rw [hlen] at this
        exact this
      | false =>
        simp only [Bool.false_eq_true, if_false]
        have := ih (pre ++ [c]) false sb hs'
        rw [hlen] at this
        exact this

/-- `escape` as the fold of any body that satisfies the specification -/
theorem escape_eq_of_bodySpec (s : Bytes) (body : Nat → EscSt → EscSt) (hb : EscBodySpec s body) :
    escape s =
      if ((List.range s.length).foldl (fun st i => body i st) ⟨false, []⟩).flag
      then ((List.range s.length).foldl (fun st i => body i st) ⟨false, []⟩).sb else s := by
  have h := escapeLoop_fold s body hb s [] false [] (by simp)
  simp only [List.length_nil] at h
  rw [List.range_eq_range']
  unfold escape
  simp only [h]

/-- the generated body satisfies it, given that the generated table is the model's -/
theorem escapeBody_spec (htab : Gen.C16.escapeLookup = escapeLookup) (s : Bytes) : EscBodySpec s (escapeBody s) := by
  intro pre c r st hs
  subst hs
  have hc : (pre ++ c :: r).getD pre.length 0 = c := by simp
  have hcond : ((decide (c.toNat < escapeLookup.length)) && ((escapeLookup.getD c.toNat []) != [])) = true ↔ lookup c ≠ [] := by
    unfold lookup
    by_cases h : c.toNat < escapeLookup.length <;> simp [h]
  unfold escapeBody
  simp only [hc, htab]
  by_cases hl : lookup c ≠ []
  · rw [if_pos (hcond.mpr hl), if_pos hl]
    have hlk : escapeLookup.getD c.toNat [] = lookup c := by
      unfold lookup
      by_cases h : c.toNat < escapeLookup.length
      · simp [h]
      · exfalso; apply hl; simp [lookup, h]
    rw [hlk]
    cases hf : st.flag <;> simp [hf]
  · rw [if_neg (fun h => hl (hcond.mp h)), if_neg hl]
    cases hf : st.flag <;> simp

end Rare.C16
