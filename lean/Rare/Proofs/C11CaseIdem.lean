import Rare.Proofs.C11Case
/-!
C11 round 4c: `unicode.ToUpper` / `unicode.ToLower` are idempotent on EVERY rune (range-level argument over the
case table: no range can undo or continue what another range did).
-/
namespace Rare.C11.Case

def deltaOf (lower : Bool) (c : Nat × Nat × Int × Int) : Int := if lower then c.2.2.2 else c.2.2.1

/-- `c'` cannot change a rune that `c` produced: the image of `c` misses `c'`, or `c'` leaves this case alone, or
    (alternating pairs, an even number of runes) `c' = c`, or `c` is a single rune whose image `c'` fixes. -/
def pairOk (lower : Bool) (c c' : Nat × Nat × Int × Int) : Bool :=
  let d := deltaOf lower c
  let d' := deltaOf lower c'
  if d > (maxRune : Int) then
    decide ((c.2.1 - c.1) % 2 = 1) &&
      (decide (c' = c) || decide (c'.2.1 < c.1) || decide (c.2.1 < c'.1) || decide (d' = 0))
  else
    decide ((0 : Int) ≤ (c.1 : Int) + d) &&
    (decide ((c'.2.1 : Int) < (c.1 : Int) + d) || decide ((c.2.1 : Int) + d < (c'.1 : Int)) || decide (d' = 0) ||
     (decide (c.1 = c.2.1) && decide (applyRange lower c' ((c.1 : Int) + d).toNat = ((c.1 : Int) + d).toNat)))

theorem pairs_ok : ∀ lower : Bool, caseRanges.all (fun c => caseRanges.all (pairOk lower c)) = true := by
  decide +kernel

theorem applyRange_zero (lower : Bool) (c' : Nat × Nat × Int × Int) (x : Nat) (h : deltaOf lower c' = 0) :
    applyRange lower c' x = x := by
  unfold applyRange
  unfold deltaOf at h
  rw [h]
  have : ¬ ((0 : Int) > (maxRune : Int)) := by unfold maxRune; omega
  rw [if_neg this]; omega

theorem applyRange_idem_pair (lower : Bool) (c c' : Nat × Nat × Int × Int) (r : Nat)
    (h1 : c.1 ≤ r) (h2 : r ≤ c.2.1) (hok : pairOk lower c c' = true)
    (h1' : c'.1 ≤ applyRange lower c r) (h2' : applyRange lower c r ≤ c'.2.1) :
    applyRange lower c' (applyRange lower c r) = applyRange lower c r := by
  unfold pairOk at hok
  by_cases hul : deltaOf lower c > (maxRune : Int)
  · rw [if_pos hul] at hok
    simp only [Bool.and_eq_true, Bool.or_eq_true, decide_eq_true_eq] at hok
    obtain ⟨hev, hrest⟩ := hok
    have hr' : applyRange lower c r = c.1 + ((r - c.1) - (r - c.1) % 2) + (if lower then 1 else 0) := by
      unfold applyRange; unfold deltaOf at hul; rw [if_pos hul]
    rcases hrest with ((heq | hlt) | hgt) | hz
    · subst heq
      rw [hr']
      unfold applyRange; unfold deltaOf at hul; rw [if_pos hul]
      cases lower <;> simp <;> omega
    · exfalso; rw [hr'] at h2'; omega
    · exfalso; rw [hr'] at h1'; cases lower <;> simp at h1' <;> omega
    · exact applyRange_zero lower c' _ hz
  · rw [if_neg hul] at hok
    simp only [Bool.and_eq_true, Bool.or_eq_true, decide_eq_true_eq] at hok
    obtain ⟨hnn, hrest⟩ := hok
    have hr' : applyRange lower c r = ((r : Int) + deltaOf lower c).toNat := by
      unfold applyRange; unfold deltaOf at hul ⊢; rw [if_neg hul]
    rcases hrest with ((hlt | hgt) | hz) | ⟨hone, hfix⟩
    · exfalso; rw [hr'] at h2'; omega
    · exfalso; rw [hr'] at h1'; omega
    · exact applyRange_zero lower c' _ hz
    · have : r = c.1 := by omega
      subst this
      rw [hr']; exact hfix

/-- **`unicode.ToUpper` / `unicode.ToLower` are idempotent on every rune.** -/
theorem toRune_idem (lower : Bool) (r : Nat) : toRune lower (toRune lower r) = toRune lower r := by
  rcases toRune_cases lower r with h | ⟨c, hm, h1, h2, h⟩
  · rw [h, h]
  · rw [h]
    rcases toRune_cases lower (applyRange lower c r) with h' | ⟨c', hm', h1', h2', h'⟩
    · exact h'
    · rw [h']
      have hok := List.all_eq_true.mp (List.all_eq_true.mp (pairs_ok lower) c hm) c' hm'
      exact applyRange_idem_pair lower c c' r h1 h2 hok h1' h2'

end Rare.C11.Case
